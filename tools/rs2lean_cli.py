#!/usr/bin/env python3
"""
rs2lean_cli.py -- translate the command-line front end of kestrel (src/cli/src/main.rs and, as far as it goes,
src/cli/src/commands.rs) into Lean 4 definitions.

  input : $KESTREL_REPO/src/cli/src/main.rs, commands.rs, ../Cargo.toml   (KESTREL_REPO defaults to /repo; --repo DIR overrides)
  output: <this dir>/../lean/KestrelModel/GeneratedCli.lean   (--out FILE overrides; written only when changed)
  exit  : 0 ok; 3 = a construct outside the supported subset (message names file, function and construct; output untouched)

Self-contained (tokenizer / Pratt parser / type inference / statement-by-statement emitter taken over from
rs2lean_keyring.py and extended).  The translation is a shallow embedding, one Lean `def` per Rust `fn`, one `structure`
per `struct`, one `inductive` per `enum`, one `def` per `const`.  Nothing in here looks at function names of the translated
files or recognises particular code: the file-specific knowledge is in the tables (which files; EXTERN_TYPES / EXTERN_FNS:
meaning of items imported from other crates, keyed by their full path after resolving `use`; OMIT: functions left out).

Meaning of the Rust constructs (combinators: lean/KestrelModel/RsCli.lean, RsStr.lean, RsPrelude.lean):
  &str, String          -> Str = List Char;  to_string/to_owned/clone/as_str/into(String)/&/* -> identity
  usize / i32 / bool    -> Nat / Int / Bool (`&&`, `||`, `!`, `==`, `!=`; `<` etc. via `decide`)
  &[T], Vec<T>          -> List T;  a[i] -> Rs.idx a i;  a[lo..] -> a.drop lo;  push -> ++ [x];  iter / collect -> identity
  Option / Result<T,E>  -> Option / Except E T
  struct / enum         -> structure / inductive (positional constructor arguments);  impl fn -> `Type.fn`
  mod commands          -> its items get the prefix `commands.`; the crate root calls its functions through a record
                           `commands.Api` (parameter `commands_api`), so statements about the root hold for any behaviour of them
  generic `T: AsRef<X>` -> X
  effects               -> a function that prints / reads the command line, environment or files / exits (directly or through
                           a callee) gets a first parameter `sys : RsCli.Sys` and returns the final state first; calls with
                           effects and `?` are lifted out of expressions in evaluation order (refused on the right of && / ||,
                           in closures and in nested `if` / `match` expressions)
  println! / eprintln!  -> RsCli.print_stdout / print_stderr of the formatted text (`{}` needs Display glue for the type)
  anyhow!(fmt, args…)   -> RsCli.AnyErr.msg fmt text;  env!("CARGO_PKG_VERSION") -> the version in Cargo.toml
  let mut / assignment  -> shadowing `let`
  return / ? / continue -> `Flow.ret` / `Flow.propagate` / `Flow.cont` in the three-outcome type `RsStr.Flow`; statements that
                           may leave early are sequenced with `Flow.bind`; a function body containing any is wrapped in `RsStr.run`
  if / match            -> an expression yielding the tuple of outer variables assigned in the branches (then its value, if
                           used); `match` on string literals -> chain of `==`; `if let` -> `match`
  for x in l            -> `RsStr.forIn l (fun x state => body) state` over the tuple of outer variables the body assigns
  unwrap / expect       -> `RsStr.unwrap_opt` / `RsStr.unwrap_res` (Rust panic totalised with `default`); sites listed in the header
  std::process::exit(c) -> only in `fn main()` of the crate root: record the code, return from main
  loop { .. break v .. } -> `RsCli.loop fuel body state r0`: the body runs over the tuple of outer variables it assigns; `break v`
                           is `Flow.cont (Sum.inr (state…, v))`, `continue` is `Flow.cont (Sum.inl state)`; the iteration budget
                           `fuel` is part of the process state and, when used up, the function returns `r0` = (state marked
                           out-of-fuel, default) -- never a Rust outcome
  &mut self / self.f = e -> the receiver is passed by value and returned (after the process state); field assignment is
                           `{ self with f := e }`
  impl Deref for X      -> `*x` and methods of the target through `x.` go through the translated `X.deref`
  Box<dyn Trait>        -> a sum over the implementing types (table DYN_TRAITS plus `impl Trait for X` of the translated
                           files); `Box::new(v)` picks the constructor by the type of `v`
  library functions in a record (table RECORDS / `record=` in EXTERN_FNS) -> a parameter of every translated function that
                           (transitively) calls one: no meaning is given to them
  paths (Path, PathBuf) -> the string they were made from
  match guards          -> lowered while parsing (`lower_guards`): a run of arms with the SAME pattern closed by an unguarded one becomes a
                           single arm with an `if` / `else if` chain; a run falling through to a final `_` arm uses (a copy of) that arm's
                           body as the last `else`; any other fall-through is refused
  matches!(e, P if g)   -> `match e { P if g => true, _ => false }`; a `match` without statements / effects nested in an expression
                           (the condition of an `if`) is a Lean `match` term
  let (a, mut b): T = e -> the value, then one destructuring `let (a, b) := …` (a tuple of plain bindings only); the expected tuple
                           type is pushed into the components of a tuple expression (`(Box::new(f), flag)`)
  [] / [x] / [x, y]     -> slice patterns without `..` are Lean list patterns
  f / Ctor / T::method where a closure is expected (`.map(Ctor)`, `.map_err(f)`, `.and_then(OsStr::to_str)`, `.map(str::to_string)`)
                        -> the closure `|x| path(x)`; `Type::method(x, …)` is `x.method(…)` (pure methods only)
  Result::map           -> Except.map;  Option::and_then -> Option.bind;  Option::unwrap_or -> Option.getD;
  a.get(lo..hi)         -> `if <range inside a> then some (…) else none`;  iter of Results `.collect()` into a Result -> RsCli.collect_results
"""
import sys, os, hashlib, copy

LEAN_KEYWORDS = {
    'at', 'open', 'end', 'from', 'then', 'else', 'if', 'do', 'by', 'fun', 'let', 'in', 'have', 'show', 'with', 'match',
    'def', 'theorem', 'namespace', 'section', 'where', 'import', 'instance', 'structure', 'class', 'inductive', 'for',
    'return', 'mut', 'using', 'calc', 'deriving', 'extends', 'example', 'axiom', 'abbrev', 'variable', 'universe',
    'local', 'private', 'protected', 'partial', 'unsafe', 'macro', 'syntax', 'notation', 'prefix', 'infix', 'postfix',
    'Type', 'Prop', 'Sort', 'λ', 'seal', 'unseal', 'export', 'set_option', 'attribute', 'mutual', 'nomatch', 'nofun',
    'suffices', 'obtain', 'try', 'catch', 'finally', 'unless', 'break', 'continue', 'forall', 'exists', 'this', 'default',
    'some', 'none', 'true', 'false', 'matches', 'is', 'instance', 'theorem', 'lemma', 'opaque', 'macro_rules', 'termination_by',
    'decreasing_by', 'where', 'end', 'open', 'hiding', 'renaming', 'only', 'omit', 'include', 'noncomputable', 'public', 'meta', 'module',
}


class Unsupported(Exception):
    def __init__(self, what, line=None):
        super().__init__(what)
        self.what, self.line = what, line


# ------------------------------------------------------------------------------------------------ tokenizer

PUNCT = ['<<=', '>>=', '...', '..=', '::', '->', '=>', '==', '!=', '<=', '>=', '&&', '||', '<<', '>>', '+=', '-=', '*=', '/=',
         '%=', '^=', '&=', '|=', '..', '(', ')', '[', ']', '{', '}', ',', ';', ':', '.', '&', '|', '^', '+', '-', '*', '/',
         '%', '!', '=', '<', '>', '#', '?', '@', '$']
INT_SUFFIXES = ['usize', 'isize', 'u128', 'i128', 'u64', 'i64', 'u32', 'i32', 'u16', 'i16', 'u8', 'i8']
SIMPLE_ESC = {'n': '\n', 't': '\t', 'r': '\r', '\\': '\\', '0': '\0', "'": "'", '"': '"'}


class Tok:
    __slots__ = ('kind', 'text', 'line', 'val', 'suffix')

    def __init__(self, kind, text, line, val=None, suffix=None):
        self.kind, self.text, self.line, self.val, self.suffix = kind, text, line, val, suffix

    def __repr__(self):
        return f'{self.kind}:{self.text!r}@{self.line}'


def read_escape(src, i, line):
    """src[i] is the character after a backslash; returns (char, next index)"""
    c = src[i]
    if c in SIMPLE_ESC: return SIMPLE_ESC[c], i + 1
    if c == 'x':
        try:
            return chr(int(src[i + 1:i + 3], 16)), i + 3
        except ValueError:
            raise Unsupported('malformed \\x escape', line)
    if c == 'u' and src[i + 1:i + 2] == '{':
        j = src.find('}', i)
        try:
            return chr(int(src[i + 2:j].replace('_', ''), 16)), j + 1
        except ValueError:
            raise Unsupported('malformed \\u escape', line)
    raise Unsupported(f'escape sequence \\{c}', line)


def tokenize(src):
    toks, i, line, n = [], 0, 1, len(src)
    while i < n:
        c = src[i]
        if c == '\n':
            line += 1; i += 1; continue
        if c in ' \t\r':
            i += 1; continue
        if src.startswith('//', i):
            while i < n and src[i] != '\n':
                i += 1
            continue
        if src.startswith('/*', i):
            depth, i = 1, i + 2
            while i < n and depth:
                if src.startswith('/*', i): depth += 1; i += 2
                elif src.startswith('*/', i): depth -= 1; i += 2
                else:
                    if src[i] == '\n': line += 1
                    i += 1
            if depth: raise Unsupported('unterminated block comment', line)
            continue
        if c.isalpha() or c == '_':
            j = i
            while j < n and (src[j].isalnum() or src[j] == '_'):
                j += 1
            word = src[i:j]
            if j < n and ((word in ('b', 'r', 'br', 'c') and src[j] == '"') or (word == 'b' and src[j] == "'")
                          or (word in ('r', 'br') and src[j] == '#')):
                raise Unsupported(f'byte / raw string literal ({src[i:i + 12]!r}…)', line)
            toks.append(Tok('id', word, line)); i = j; continue
        if c.isdigit():
            j = i
            base = 10
            if src.startswith(('0x', '0o', '0b'), i):
                base = {'x': 16, 'o': 8, 'b': 2}[src[i + 1]]; j = i + 2
            k = j
            while k < n and (src[k].isalnum() or src[k] == '_'):
                k += 1
            body, suffix = src[j:k], None
            for s in INT_SUFFIXES:
                if body.endswith(s):
                    body, suffix = body[:-len(s)], s; break
            digits = body.replace('_', '')
            try:
                val = int(digits, base)
            except ValueError:
                raise Unsupported(f'numeric literal {src[i:k]!r}', line)
            if k < n and src[k] == '.' and not src.startswith('..', k) and k + 1 < n and src[k + 1].isdigit():
                raise Unsupported(f'floating point literal near {src[i:k + 2]!r}', line)
            toks.append(Tok('int', src[i:k], line, val, suffix)); i = k; continue
        if c == '"':
            start_line, j, out = line, i + 1, []
            while True:
                if j >= n: raise Unsupported('unterminated string literal', start_line)
                d = src[j]
                if d == '"': break
                if d == '\\':
                    if src[j + 1] == '\n':          # line continuation: skip the newline and leading blanks
                        j += 2; line += 1
                        while j < n and src[j] in ' \t\r\n':
                            if src[j] == '\n': line += 1
                            j += 1
                        continue
                    ch, j = read_escape(src, j + 1, line)
                    out.append(ch); continue
                if d == '\n': line += 1
                out.append(d); j += 1
            toks.append(Tok('str', src[i:j + 1], start_line, ''.join(out))); i = j + 1; continue
        if c == "'":
            if i + 1 < n and src[i + 1] == '\\':
                ch, j = read_escape(src, i + 2, line)
                if j >= n or src[j] != "'": raise Unsupported('malformed character literal', line)
                toks.append(Tok('char', src[i:j + 1], line, ch)); i = j + 1; continue
            if i + 2 < n and src[i + 2] == "'" and src[i + 1] != "'":
                toks.append(Tok('char', src[i:i + 3], line, src[i + 1])); i += 3; continue
            j = i + 1
            while j < n and (src[j].isalnum() or src[j] == '_'):
                j += 1
            if j == i + 1: raise Unsupported('stray quote', line)
            toks.append(Tok('lifetime', src[i:j], line)); i = j; continue
        for p in PUNCT:
            if src.startswith(p, i):
                toks.append(Tok('p', p, line)); i += len(p); break
        else:
            raise Unsupported(f'character {c!r}', line)
    toks.append(Tok('eof', '<eof>', line))
    return toks


# ------------------------------------------------------------------------------------------------ AST

class Node:
    def __init__(self, kind, line, **kw):
        self.kind, self.line = kind, line
        self.__dict__.update(kw)

    def __repr__(self):
        return f'<{self.kind}@{self.line}>'


BIN_PREC = {'*': 11, '/': 11, '%': 11, '+': 10, '-': 10, '<<': 9, '>>': 9, '&': 8, '^': 7, '|': 6,
            '==': 5, '!=': 5, '<': 5, '>': 5, '<=': 5, '>=': 5, '&&': 4, '||': 3}
CMP = {'==', '!=', '<', '>', '<=', '>='}
ASSIGN_OPS = {'=', '+=', '-=', '*=', '/=', '%=', '^=', '&=', '|=', '<<=', '>>='}
PREC_AS, PREC_RANGE, PREC_ASSIGN = 12, 2, 1
INT_TYPES = ('usize', 'u64', 'u32', 'u8', 'i32')
ITEM_WORDS = ('struct', 'enum', 'impl', 'const', 'static', 'use', 'mod', 'type', 'trait', 'macro_rules')


def pat_key(p):
    """a structural key of a pattern (two patterns with the same key match the same values and bind the same names)"""
    k = p.kind
    if k == 'pwild': return ('_',)
    if k == 'pid': return ('id', p.name)
    if k == 'pref': return ('&', pat_key(p.p))
    if k == 'plit': return ('lit', p.lit.kind, p.lit.val)
    if k in ('ptuple', 'pslice'): return (k,) + tuple(pat_key(x) for x in p.subs)
    if k == 'por': return ('|',) + tuple(pat_key(x) for x in p.alts)
    if k == 'pctor': return ('ctor', tuple(p.path), None if p.subs is None else tuple(pat_key(x) for x in p.subs))
    return (k, id(p))


def as_block(body, line):
    return body if body.kind == 'block' else Node('block', line, stmts=[], tail=body, fns=[])


def lower_guards(arms, line):
    """`P if g1 => A1, P if g2 => A2, P => A3`  ->  `P => if g1 {A1} else if g2 {A2} else {A3}`: a run of arms with the SAME pattern
       whose last arm has no guard becomes one arm.  A run that is not closed by an unguarded arm of the same pattern falls
       through to the arms that follow: accepted only when what follows is a single final `_` arm (its body is then also the
       last `else`, and the `_` arm stays for the values the pattern does not match)."""
    if not any(getattr(a, 'guard', None) is not None for a in arms): return arms
    out, i = [], 0
    while i < len(arms):
        a = arms[i]
        if a.guard is None:
            out.append(a); i += 1; continue
        key = pat_key(a.pat)
        run = [a]
        j = i + 1
        while j < len(arms) and pat_key(arms[j].pat) == key:
            run.append(arms[j]); j += 1
            if run[-1].guard is None: break
        if run[-1].guard is None:
            last = as_block(run[-1].body, run[-1].line)
            guarded = run[:-1]
        else:
            if not (j == len(arms) - 1 and arms[j].pat.kind == 'pwild' and arms[j].guard is None):
                raise Unsupported('match guard whose fall-through case is not an arm with the same pattern (or a final `_` arm)', a.line)
            last = as_block(copy.deepcopy(arms[j].body), arms[j].line)       # (the `_` arm keeps its own copy)
            guarded = run
            if a.pat.kind in ('pid', 'pwild'): j += 1                       # an irrefutable pattern: the `_` arm is used up
        els = last
        for g in reversed(guarded):
            els = Node('if', g.line, cond=g.guard, then=as_block(g.body, g.line), els=els)
        out.append(Node('arm', a.line, pat=a.pat, body=Node('block', a.line, stmts=[], tail=els, fns=[]), guard=None))
        i = j
    return out


class Parser:
    def __init__(self, toks):
        self.t, self.i = toks, 0
        self.fn = None          # name of the function being parsed (for messages)
        self.no_struct = False  # inside an `if` / `match` / `for` header: `ident {` is not a struct literal

    def peek(self, k=0):
        return self.t[min(self.i + k, len(self.t) - 1)]

    def next(self):
        tok = self.t[self.i]
        if tok.kind != 'eof': self.i += 1
        return tok

    def at(self, text, k=0):
        tok = self.peek(k)
        return tok.kind in ('p', 'id') and tok.text == text

    def accept(self, text):
        if self.at(text):
            return self.next()
        return None

    def expect(self, text):
        tok = self.next()
        if tok.kind not in ('p', 'id') or tok.text != text:
            raise Unsupported(f'expected `{text}`, found `{tok.text}`', tok.line)
        return tok

    def ident(self):
        tok = self.next()
        if tok.kind != 'id':
            raise Unsupported(f'expected an identifier, found `{tok.text}`', tok.line)
        return tok

    def skip_attribute(self):
        self.expect('#'); self.accept('!'); self.expect('[')
        depth = 1
        while depth:
            tok = self.next()
            if tok.kind == 'eof': raise Unsupported('unterminated attribute', tok.line)
            if tok.text in ('[', '(', '{') and tok.kind == 'p': depth += 1
            elif tok.text in (']', ')', '}') and tok.kind == 'p': depth -= 1

    def skip_vis(self):
        if self.accept('pub'):
            if self.accept('('):
                while not self.accept(')'): self.next()

    # ---- items
    def parse_use_tree(self, prefix, uses, line):
        if self.accept('{'):
            while not self.accept('}'):
                self.parse_use_tree(list(prefix), uses, line)
                if not self.at('}'): self.expect(',')
            return
        if self.at('*'): raise Unsupported('glob `use`', line)
        name = self.ident().text
        if name == 'self': raise Unsupported('`self` in a `use` group', line)
        path = prefix + [name]
        if self.accept('::'):
            return self.parse_use_tree(path, uses, line)
        alias = self.ident().text if self.accept('as') else name
        uses[alias] = path

    def parse_item(self, uses, items, mods, where):
        """one item at file level or inside a block; returns False if the next token does not start an item"""
        while self.at('#'): self.skip_attribute()
        save = self.i
        self.skip_vis()
        tok = self.peek()
        if self.at('use'):
            line = self.next().line
            if uses is None: raise Unsupported('`use` inside a function', line)
            self.parse_use_tree([], uses, line)
            self.expect(';')
            return True
        if self.at('mod'):
            line = self.next().line
            name = self.ident().text
            if not self.accept(';'): raise Unsupported('inline `mod` with a body', line)
            if mods is None: raise Unsupported('`mod` inside a function', line)
            mods.append(name)
            return True
        if self.at('fn'):
            items.append(self.parse_fn(None)); return True
        if self.at('const'):
            self.next()
            name = self.ident()
            self.expect(':'); ty = self.parse_type(); self.expect('=')
            init = self.parse_expr(); self.expect(';')
            items.append(Node('const', tok.line, name=name.text, ty=ty, init=init)); return True
        if self.at('struct'):
            items.append(self.parse_struct()); return True
        if self.at('enum'):
            items.append(self.parse_enum()); return True
        if self.at('impl'):
            items.append(self.parse_impl()); return True
        self.i = save
        return False

    def parse_file(self):
        uses, items, mods = {}, [], []
        while self.peek().kind != 'eof':
            tok = self.peek()
            if not self.parse_item(uses, items, mods, 'file'):
                raise Unsupported(f'item starting with `{tok.text}` (only mod / use / const / struct / enum / impl / fn items are supported)', tok.line)
        return uses, items, mods

    def parse_generics(self, line, what):
        """`<'a, T: Bound, U>` -> {name: bound type or None}"""
        gen = {}
        if not self.accept('<'): return gen
        while not self.at('>'):
            if self.peek().kind == 'lifetime':
                self.next()
                if self.at(':'): raise Unsupported('lifetime bound', line)
            else:
                if self.at('const'): raise Unsupported('const generic parameter', line)
                name = self.ident().text
                bound = None
                if self.accept(':'):
                    if self.peek().kind == 'lifetime' or self.at('?'): raise Unsupported(f'bound of `{name}`', line)
                    bound = self.parse_type()
                    if self.at('+'): raise Unsupported(f'several bounds on `{name}`', line)
                if self.at('='): raise Unsupported('default for a generic parameter', line)
                gen[name] = bound
            if not self.at('>'): self.expect(',')
        self.expect('>')
        return gen

    def parse_struct(self):
        line = self.expect('struct').line
        name = self.ident().text
        if self.at('<'): raise Unsupported('generic struct', line)
        fields = []
        if self.accept('('):
            n = 0
            while not self.accept(')'):
                self.skip_vis()
                fields.append((f'_{n}', self.parse_type())); n += 1
                if not self.at(')'): self.expect(',')
            self.expect(';')
            return Node('struct', line, name=name, fields=fields, tuple=True)
        if self.accept(';'): raise Unsupported('unit struct', line)
        self.expect('{')
        while not self.accept('}'):
            if self.at('#'):
                self.skip_attribute(); continue
            self.skip_vis()
            fname = self.ident().text
            self.expect(':')
            fields.append((fname, self.parse_type()))
            if not self.at('}'): self.expect(',')
        return Node('struct', line, name=name, fields=fields, tuple=False)

    def parse_enum(self):
        line = self.expect('enum').line
        name = self.ident().text
        if self.at('<'): raise Unsupported('generic enum', line)
        self.expect('{')
        variants = []
        while not self.accept('}'):
            if self.at('#'):
                self.skip_attribute(); continue
            vname = self.ident()
            args = []
            if self.accept('('):
                while not self.accept(')'):
                    args.append(self.parse_type())
                    if not self.at(')'): self.expect(',')
            elif self.at('{'): raise Unsupported('enum variant with named fields', vname.line)
            if self.at('='): raise Unsupported('enum discriminant', vname.line)
            variants.append((vname.text, args))
            if not self.at('}'): self.expect(',')
        return Node('enum', line, name=name, variants=variants)

    def parse_impl(self):
        line = self.expect('impl').line
        if self.at('<'): raise Unsupported('generic `impl`', line)
        first = self.parse_type()
        trait = None
        if self.accept('for'):
            trait = first
            target = self.parse_type()
        else:
            target = first
        if not (isinstance(target, tuple) and target[0] == 'named' and len(target[1]) == 1 and not target[2]):
            raise Unsupported('`impl` for something other than a type of this file', line)
        owner = target[1][0]
        if self.at('where'): raise Unsupported('`where` clause', line)
        self.expect('{')
        assoc, fns = {}, []
        while not self.accept('}'):
            if self.at('#'):
                self.skip_attribute(); continue
            self.skip_vis()
            if self.at('type'):
                self.next(); an = self.ident().text; self.expect('='); assoc[an] = self.parse_type(); self.expect(';')
                continue
            if self.at('fn'):
                fns.append(self.parse_fn(owner)); continue
            tok = self.peek()
            raise Unsupported(f'`{tok.text}` inside an `impl` (only `type` and `fn`)', tok.line)
        return Node('impl', line, owner=owner, trait=trait, assoc=assoc, fns=fns)

    def parse_type(self):
        tok = self.peek()
        if self.accept('&') or self.accept('&&'):
            if self.peek().kind == 'lifetime': self.next()
            mut = bool(self.accept('mut'))
            inner = self.parse_type()
            return ('mutref', inner) if mut else inner
        if self.accept('['):
            elem = self.parse_type()
            if self.accept(';'): self.parse_expr()
            self.expect(']')
            return ('list', elem)
        if self.accept('('):
            parts = []
            while not self.accept(')'):
                parts.append(self.parse_type())
                if not self.at(')'): self.expect(',')
            if not parts: return 'unit'
            if len(parts) == 1: return parts[0]
            return ('tuple', tuple(parts))
        if self.accept('!'): return 'never'
        if self.accept('dyn'):
            inner = self.parse_type()
            if self.at('+'): raise Unsupported('`dyn A + B`', tok.line)
            return ('dyn', inner)
        if self.at('impl') or self.at('fn'): raise Unsupported(f'`{tok.text}` type', tok.line)
        name = self.ident()
        path = [name.text]
        while self.at('::') and self.peek(1).kind == 'id':
            self.next(); path.append(self.ident().text)
        args = []
        if self.accept('<'):
            while not (self.at('>') or self.at('>>')):
                if self.peek().kind == 'lifetime': self.next()
                else: args.append(self.parse_type())
                if not (self.at('>') or self.at('>>')): self.expect(',')
            self.close_angle()
        if len(path) == 1:
            n = path[0]
            if n in ('Vec', 'Option') and len(args) == 1: return ('list' if n == 'Vec' else 'opt', args[0])
            if n == 'Result' and len(args) == 2: return ('res', args[0], args[1])
            if not args:
                if n in INT_TYPES or n in ('bool', 'char'): return n
                if n in ('str', 'String'): return 'str'
                if n in ('isize', 'i8', 'i16', 'i64', 'i128', 'u16', 'u128', 'f32', 'f64'):
                    raise Unsupported(f'type `{n}`', name.line)
        if path[0] == 'Self' and len(path) == 2 and not args: return ('assoc', path[1])
        return ('named', path, args)

    def close_angle(self):
        # `>>` closing two generic argument lists arrives as one token
        tok = self.peek()
        if tok.kind == 'p' and tok.text == '>>':
            tok.text = '>'; return
        self.expect('>')

    def parse_fn(self, owner):
        line = self.expect('fn').line
        name = self.ident().text
        outer = self.fn
        self.fn = f'{owner}::{name}' if owner else name
        generics = self.parse_generics(line, name)
        self.expect('(')
        params, self_kind = [], None
        while not self.accept(')'):
            if self.at('&') and (self.at('self', 1) or (self.at('mut', 1) and self.at('self', 2)) or
                                 (self.peek(1).kind == 'lifetime')):
                self.next()
                if self.peek().kind == 'lifetime': self.next()
                if self.accept('mut'):
                    self.expect('self'); self_kind = 'mut'
                else:
                    self.expect('self'); self_kind = 'ref'
            elif self.at('self'):
                self.next(); self_kind = 'own'
            else:
                if self.accept('mut'): raise Unsupported('`mut` parameter binding', line)
                pn = self.ident()
                self.expect(':')
                params.append((pn.text, self.parse_type(), pn.line))
            if not self.at(')'): self.expect(',')
        ret = None
        if self.accept('->'): ret = self.parse_type()
        if self.at('where'): raise Unsupported('`where` clause', line)
        body = self.parse_block()
        self.fn = outer
        return Node('fn', line, name=name, owner=owner, self_kind=self_kind, params=params, ret=ret, body=body,
                    generics=generics, end_line=self.t[self.i - 1].line)

    # ---- statements
    def parse_block(self):
        saved, self.no_struct = self.no_struct, False
        line = self.expect('{').line
        stmts, tail, fns = [], None, []
        while not self.at('}'):
            if self.peek().kind == 'eof': raise Unsupported('unterminated block', line)
            if tail is not None:
                raise Unsupported('expression without `;` in the middle of a block', tail.line)
            if self.at('#'):
                self.skip_attribute(); continue
            if self.at(';'):
                self.next(); continue
            tok = self.peek()
            if self.at('let'):
                self.next()
                mut = bool(self.accept('mut'))
                if self.at('(') and not mut:
                    # `let (a, mut b, _): T = init;` -- a tuple of plain bindings
                    self.next()
                    binds = []
                    while not self.accept(')'):
                        bm = bool(self.accept('mut'))
                        if self.peek().kind != 'id' or self.at('(', 1) or self.at('{', 1) or self.at('::', 1) or self.at('ref') or self.at('@', 1):
                            raise Unsupported('pattern in `let` (other than a tuple of plain bindings)', tok.line)
                        binds.append((self.ident().text, bm))
                        if not self.at(')'): self.expect(',')
                    if len(binds) < 2: raise Unsupported('pattern in `let` (other than a tuple of plain bindings)', tok.line)
                    ty = self.parse_type() if self.accept(':') else None
                    if not self.accept('='): raise Unsupported('`let` without initialiser', tok.line)
                    init = self.parse_expr()
                    if self.at('else'): raise Unsupported('`let … else`', tok.line)
                    self.expect(';')
                    stmts.append(Node('let', tok.line, name=None, binds=binds, mut=False, ty=ty, init=init))
                    continue
                if not (self.peek().kind == 'id') or self.at('(', 1) or self.at('{', 1) or self.at('::', 1) or self.at('ref'):
                    raise Unsupported('pattern in `let`', tok.line)
                name = self.ident()
                ty = self.parse_type() if self.accept(':') else None
                if not self.accept('='): raise Unsupported('`let` without initialiser', tok.line)
                init = self.parse_expr()
                if self.at('else'): raise Unsupported('`let … else`', tok.line)
                self.expect(';')
                stmts.append(Node('let', tok.line, name=name.text, binds=None, mut=mut, ty=ty, init=init))
            elif self.at('for'):
                self.next()
                pat = self.parse_pattern()
                self.expect('in')
                it = self.parse_header_expr()
                body = self.parse_block()
                stmts.append(Node('for', tok.line, pat=pat, iter=it, body=body))
            elif self.at('if') or self.at('match') or self.at('loop'):
                e = self.parse_if() if self.at('if') else (self.parse_match() if self.at('match') else self.parse_loop())
                self.no_postfix_after_block()
                if self.at('}'):
                    tail = e                       # statement or value: decided by the translator from the expected type
                else:
                    self.accept(';')
                    stmts.append(Node('expr', tok.line, e=e))
            elif self.at('return'):
                self.next()
                e = None if (self.at(';') or self.at('}')) else self.parse_expr()
                if not self.accept(';') and not self.at('}'): raise Unsupported('`return` inside a larger expression', tok.line)
                stmts.append(Node('return', tok.line, e=e))
            elif self.at('continue'):
                self.next()
                if self.peek().kind == 'lifetime': raise Unsupported('labelled `continue`', tok.line)
                if not self.accept(';') and not self.at('}'): raise Unsupported('`continue` inside a larger expression', tok.line)
                stmts.append(Node('continue', tok.line))
            elif self.at('break'):
                self.next()
                if self.peek().kind == 'lifetime': raise Unsupported('labelled `break`', tok.line)
                e = None if (self.at(';') or self.at('}')) else self.parse_expr()
                if not self.accept(';') and not self.at('}'): raise Unsupported('`break` inside a larger expression', tok.line)
                stmts.append(Node('break', tok.line, e=e))
            elif self.at('fn'):
                fns.append(self.parse_fn(None))
            elif tok.kind == 'id' and tok.text in ('while', 'unsafe') + ITEM_WORDS:
                raise Unsupported(f'`{tok.text}`', tok.line)
            elif self.at('{'):
                raise Unsupported('nested block statement', tok.line)
            else:
                e = self.parse_expr(PREC_ASSIGN)
                if self.accept(';'):
                    stmts.append(Node('expr', tok.line, e=e))
                else:
                    tail = e
        self.expect('}')
        self.no_struct = saved
        return Node('block', line, stmts=stmts, tail=tail, fns=fns)

    def no_postfix_after_block(self):
        tok = self.peek()
        if tok.kind == 'p' and tok.text in ('.', '?'):
            raise Unsupported('method call / `?` applied to an `if`, `match` or `loop` statement', tok.line)

    def parse_header_expr(self):
        saved, self.no_struct = self.no_struct, True
        e = self.parse_expr()
        self.no_struct = saved
        return e

    def parse_loop(self):
        line = self.expect('loop').line
        return Node('loop', line, body=self.parse_block())

    def parse_if(self):
        """`if c {..} [else ..]` -> Node if;  `if let P = e {A} [else B]` -> Node match (arms P => A, _ => B), flagged `iflet`"""
        line = self.expect('if').line
        if self.accept('let'):
            pat = self.parse_pat_alts()
            self.expect('=')
            scrut = self.parse_header_expr()
            if self.at('&&'): raise Unsupported('`if let … && …`', line)
            then = self.parse_block()
            els = Node('block', line, stmts=[], tail=None, fns=[])
            if self.accept('else'):
                if self.at('if'):
                    inner = self.parse_if()
                    els = Node('block', inner.line, stmts=[], tail=inner, fns=[])
                else:
                    els = self.parse_block()
            arms = [Node('arm', line, pat=pat, body=then), Node('arm', els.line, pat=Node('pwild', els.line), body=els)]
            return Node('match', line, scrut=scrut, arms=arms, iflet=True)
        cond = self.parse_header_expr()
        then = self.parse_block()
        els = None
        if self.accept('else'):
            if self.at('if'):
                inner = self.parse_if()
                els = inner if inner.kind == 'if' else Node('block', inner.line, stmts=[], tail=inner, fns=[])
            else:
                els = self.parse_block()
        return Node('if', line, cond=cond, then=then, els=els)

    def parse_match(self):
        line = self.expect('match').line
        scrut = self.parse_header_expr()
        saved, self.no_struct = self.no_struct, False
        self.expect('{')
        arms = []
        while not self.accept('}'):
            if self.at('#'):
                self.skip_attribute(); continue
            self.accept('|')
            pat = self.parse_pat_alts()
            guard = None
            if self.accept('if'): guard = self.parse_expr()
            aline = self.expect('=>').line
            if self.at('{'):
                body = self.parse_block()
                self.accept(',')
            elif self.at('return'):
                self.next()
                e = None if (self.at(',') or self.at('}')) else self.parse_expr()
                body = Node('block', aline, stmts=[Node('return', aline, e=e)], tail=None, fns=[])
                if not self.at('}'): self.expect(',')
            elif self.at('continue'):
                self.next()
                body = Node('block', aline, stmts=[Node('continue', aline)], tail=None, fns=[])
                if not self.at('}'): self.expect(',')
            elif self.at('break'):
                self.next()
                if self.peek().kind == 'lifetime': raise Unsupported('labelled `break`', aline)
                e = None if (self.at(',') or self.at('}')) else self.parse_expr()
                body = Node('block', aline, stmts=[Node('break', aline, e=e)], tail=None, fns=[])
                if not self.at('}'): self.expect(',')
            else:
                body = self.parse_expr()
                if not self.at('}'): self.expect(',')
            arms.append(Node('arm', aline, pat=pat, body=body, guard=guard))
        self.no_struct = saved
        return Node('match', line, scrut=scrut, arms=lower_guards(arms, line), iflet=False)

    def parse_pattern(self):
        """`for` pattern: an identifier or `_`"""
        tok = self.peek()
        if self.at('(') or self.at('&') or self.at('mut') or self.at('ref'):
            raise Unsupported('`for` pattern other than an identifier', tok.line)
        return self.ident().text

    def parse_pat_alts(self):
        p = self.parse_pat()
        if not self.at('|'): return p
        alts = [p]
        while self.accept('|'): alts.append(self.parse_pat())
        return Node('por', p.line, alts=alts)

    def parse_pat(self):
        """match / closure pattern: _, name, ref name, literal, &p, (p, …), Ctor, Ctor(p, …), a::b::Ctor(p, …)"""
        tok = self.peek()
        if self.accept('&') or self.accept('&&'):
            if self.at('mut'): raise Unsupported('`&mut` pattern', tok.line)
            return Node('pref', tok.line, p=self.parse_pat())
        if self.accept('('):
            subs = []
            while not self.accept(')'):
                subs.append(self.parse_pat())
                if not self.at(')'): self.expect(',')
            if len(subs) == 1: return subs[0]
            return Node('ptuple', tok.line, subs=subs)
        if self.accept('['):
            subs = []
            while not self.accept(']'):
                if self.at('..'): raise Unsupported('`..` in a slice pattern', tok.line)
                subs.append(self.parse_pat())
                if self.at('@'): raise Unsupported('`@` pattern', tok.line)
                if not self.at(']'): self.expect(',')
            return Node('pslice', tok.line, subs=subs)
        if tok.kind in ('int', 'str', 'char'):
            self.next()
            if self.at('..') or self.at('..='): raise Unsupported('range pattern', tok.line)
            return Node('plit', tok.line, lit=tok)
        if self.at('-'): raise Unsupported('negative literal pattern', tok.line)
        if self.at('mut') or self.at('box'): raise Unsupported(f'`{tok.text}` pattern', tok.line)
        if self.accept('ref'):
            if self.at('mut'): raise Unsupported('`ref mut` pattern', tok.line)
            return Node('pid', tok.line, name=self.ident().text)
        name = self.ident()
        if name.text == '_': return Node('pwild', tok.line)
        if name.text in ('true', 'false'): raise Unsupported('boolean literal pattern', tok.line)
        path = [name.text]
        while self.accept('::'): path.append(self.ident().text)
        if self.at('{'): raise Unsupported('struct pattern', tok.line)
        if self.at('@'): raise Unsupported('`@` pattern', tok.line)
        if self.accept('('):
            subs = []
            while not self.accept(')'):
                if self.at('..'): raise Unsupported('`..` in a pattern', tok.line)
                subs.append(self.parse_pat())
                if not self.at(')'): self.expect(',')
            return Node('pctor', tok.line, path=path, subs=subs)
        if len(path) > 1 or path[0][0].isupper():
            return Node('pctor', tok.line, path=path, subs=None)
        return Node('pid', tok.line, name=path[0])

    # ---- expressions (Pratt)
    def can_start_expr(self):
        tok = self.peek()
        if tok.kind in ('int', 'str', 'char'): return True
        if tok.kind == 'id': return tok.text not in ('as', 'in', 'else')
        return tok.kind == 'p' and tok.text in ('(', '[', '&', '&&', '-', '!', '*', '|')

    def parse_expr(self, min_prec=PREC_RANGE):
        tok = self.peek()
        if self.at('..') or self.at('..='):
            if self.at('..='): raise Unsupported('inclusive range `..=`', tok.line)
            self.next()
            hi = self.parse_expr(PREC_RANGE + 1) if self.can_start_expr() else None
            lhs = Node('range', tok.line, lo=None, hi=hi)
        else:
            lhs = self.parse_unary()
        while True:
            tok = self.peek()
            if tok.kind == 'id' and tok.text == 'as' and PREC_AS >= min_prec:
                self.next()
                lhs = Node('cast', tok.line, e=lhs, ty=self.parse_type())
            elif tok.kind == 'p' and tok.text in BIN_PREC and BIN_PREC[tok.text] >= min_prec:
                op, p = self.next().text, BIN_PREC[tok.text]
                rhs = self.parse_expr(p + 1)
                if op in CMP and self.peek().kind == 'p' and self.peek().text in CMP:
                    raise Unsupported('chained comparison', tok.line)
                lhs = Node('bin', tok.line, op=op, l=lhs, r=rhs)
            elif tok.kind == 'p' and tok.text in ('..', '..=') and PREC_RANGE >= min_prec:
                if tok.text == '..=': raise Unsupported('inclusive range `..=`', tok.line)
                self.next()
                hi = self.parse_expr(PREC_RANGE + 1) if self.can_start_expr() else None
                lhs = Node('range', tok.line, lo=lhs, hi=hi)
            elif tok.kind == 'p' and tok.text in ASSIGN_OPS and PREC_ASSIGN >= min_prec:
                self.next()
                rhs = self.parse_expr(PREC_ASSIGN)
                lhs = Node('assign', tok.line, op=tok.text, place=lhs, e=rhs)
            else:
                return lhs

    def parse_unary(self):
        tok = self.peek()
        if tok.kind == 'p' and tok.text in ('&', '&&'):
            self.next()
            mut = bool(self.accept('mut'))
            inner = Node('ref', tok.line, mut=mut, e=self.parse_unary())
            return Node('ref', tok.line, mut=False, e=inner) if tok.text == '&&' else inner
        if tok.kind == 'p' and tok.text in ('-', '!', '*'):
            self.next()
            return Node('unary', tok.line, op=tok.text, e=self.parse_unary())
        return self.parse_postfix(self.parse_primary())

    def parse_args(self, close):
        saved, self.no_struct = self.no_struct, False
        args = []
        while not self.accept(close):
            args.append(self.parse_expr())
            if not self.at(close): self.expect(',')
        self.no_struct = saved
        return args

    def parse_postfix(self, e):
        while True:
            tok = self.peek()
            if self.accept('('):
                e = Node('call', tok.line, f=e, args=self.parse_args(')'))
            elif self.accept('['):
                saved, self.no_struct = self.no_struct, False
                ix = self.parse_expr(); self.expect(']')
                self.no_struct = saved
                e = Node('index', tok.line, e=e, ix=ix)
            elif self.at('.') and self.peek(1).kind == 'id':
                self.next(); name = self.ident()
                if name.text == 'await': raise Unsupported('`.await`', tok.line)
                if self.at('::'): raise Unsupported('turbofish on a method', tok.line)
                if self.accept('('):
                    e = Node('mcall', tok.line, recv=e, name=name.text, args=self.parse_args(')'))
                else:
                    e = Node('field', tok.line, e=e, name=name.text)
            elif self.at('.') and self.peek(1).kind == 'int':
                self.next(); ix = self.next()
                if ix.suffix is not None or not ix.text.isdigit(): raise Unsupported('tuple field access', tok.line)
                e = Node('field', tok.line, e=e, name=f'_{ix.val}')
            elif self.at('?'):
                self.next()
                e = Node('try', tok.line, e=e)
            else:
                return e

    def parse_macro(self, tok):
        """`name!(…)` (the `!` is consumed): the arguments of `cfg!` are kept as raw tokens, all others are expressions"""
        name = tok.text
        close = {'(': ')', '[': ']', '{': '}'}[self.peek().text]
        if name == 'vec':
            self.expect('['); elem = self.parse_expr()
            if not self.accept(';'): raise Unsupported('`vec![a, b, …]` list form', tok.line)
            cnt = self.parse_expr(); self.expect(']')
            return Node('repeat', tok.line, elem=elem, count=cnt, what='vec!')
        if name == 'matches':
            # `matches!(e, P | Q if g)` is `match e { P | Q if g => true, _ => false }`
            self.expect('(')
            saved, self.no_struct = self.no_struct, False
            scrut = self.parse_expr()
            self.expect(',')
            self.accept('|')
            pat = self.parse_pat_alts()
            guard = self.parse_expr() if self.accept('if') else None
            self.accept(',')
            self.expect(')')
            self.no_struct = saved
            arms = [Node('arm', tok.line, pat=pat, body=Node('bool', tok.line, val=True), guard=guard),
                    Node('arm', tok.line, pat=Node('pwild', tok.line), body=Node('bool', tok.line, val=False), guard=None)]
            return Node('match', tok.line, scrut=scrut, arms=lower_guards(arms, tok.line), iflet=False)
        if name == 'cfg':
            self.next()
            raw, depth = [], 1
            while True:
                t = self.next()
                if t.kind == 'eof': raise Unsupported('unterminated macro', tok.line)
                if t.kind == 'p' and t.text in '([{': depth += 1
                if t.kind == 'p' and t.text in ')]}':
                    depth -= 1
                    if depth == 0: break
                raw.append(t)
            return Node('macro', tok.line, name=name, args=[], raw=raw)
        self.next()
        args = self.parse_args(close)
        return Node('macro', tok.line, name=name, args=args, raw=None)

    def parse_primary(self):
        tok = self.next()
        if tok.kind == 'int':
            return Node('lit', tok.line, val=tok.val, suffix=tok.suffix)
        if tok.kind == 'str':
            return Node('str', tok.line, val=tok.val)
        if tok.kind == 'char':
            return Node('char', tok.line, val=tok.val)
        if tok.kind == 'lifetime':
            raise Unsupported('label / lifetime in an expression', tok.line)
        if tok.kind == 'id':
            if tok.text in ('true', 'false'):
                return Node('bool', tok.line, val=(tok.text == 'true'))
            if tok.text == 'match':
                self.i -= 1
                return self.parse_match()
            if tok.text == 'if':
                self.i -= 1
                return self.parse_if()
            if tok.text == 'loop':
                self.i -= 1
                return self.parse_loop()
            if tok.text in ('while', 'unsafe', 'move', 'return', 'break', 'continue', 'async', 'for'):
                raise Unsupported(f'`{tok.text}` expression', tok.line)
            if self.at('!') and not self.at('=', 1) and self.peek(1).kind == 'p' and self.peek(1).text in ('(', '[', '{'):
                self.next()
                return self.parse_macro(tok)
            path, generics = [tok.text], None
            while self.at('::'):
                self.next()
                if self.accept('<'):
                    if generics is not None: raise Unsupported('two generic argument lists in a path', tok.line)
                    generics = []
                    while not self.at('>') and not self.at('>>'):
                        generics.append(self.parse_type())
                        if not self.at('>') and not self.at('>>'): self.expect(',')
                    self.close_angle()
                    continue
                path.append(self.ident().text)
            if self.at('{') and not self.no_struct:
                self.next()
                fields = []
                while not self.accept('}'):
                    if self.at('..'): raise Unsupported('struct update syntax', tok.line)
                    fname = self.ident()
                    if self.accept(':'):
                        saved, self.no_struct = self.no_struct, False
                        fe = self.parse_expr()
                        self.no_struct = saved
                    else:
                        fe = Node('path', fname.line, path=[fname.text], generics=None)
                    fields.append((fname.text, fe))
                    if not self.at('}'): self.expect(',')
                return Node('structlit', tok.line, path=path, fields=fields)
            return Node('path', tok.line, path=path, generics=generics)
        if tok.kind == 'p' and tok.text == '(':
            saved, self.no_struct = self.no_struct, False
            if self.accept(')'):
                self.no_struct = saved
                return Node('unit', tok.line)
            e = self.parse_expr()
            if self.at(','):
                parts = [e]
                while self.accept(','):
                    if self.at(')'): break
                    parts.append(self.parse_expr())
                self.expect(')')
                self.no_struct = saved
                return Node('tuple', tok.line, parts=parts)
            self.expect(')')
            self.no_struct = saved
            return Node('paren', tok.line, e=e)
        if tok.kind == 'p' and tok.text == '[':
            saved, self.no_struct = self.no_struct, False
            if self.accept(']'):
                self.no_struct = saved
                return Node('array', tok.line, elems=[])
            elem = self.parse_expr()
            if self.accept(';'):
                cnt = self.parse_expr(); self.expect(']')
                self.no_struct = saved
                return Node('repeat', tok.line, elem=elem, count=cnt, what='array')
            elems = [elem]
            while self.accept(','):
                if self.at(']'): break
                elems.append(self.parse_expr())
            self.expect(']')
            self.no_struct = saved
            return Node('array', tok.line, elems=elems)
        if tok.kind == 'p' and tok.text in ('|', '||'):
            params = []
            if tok.text == '|':
                while not self.accept('|'):
                    params.append(self.parse_pat())
                    if self.at(':'): raise Unsupported('closure parameter with a type annotation', tok.line)
                    if not self.at('|'): self.expect(',')
            if self.at('->'): raise Unsupported('closure with a return type', tok.line)
            if self.at('{'):
                blk = self.parse_block()
                if blk.stmts or blk.fns or blk.tail is None: raise Unsupported('closure whose body is a block with statements', tok.line)
                body = blk.tail
            else:
                body = self.parse_expr()
            return Node('closure', tok.line, params=params, body=body)
        raise Unsupported(f'expression starting with `{tok.text}`', tok.line)

# ------------------------------------------------------------------------------------------------ types
#   'str' 'bool' 'char' 'unit' 'never' 'usize' 'u64' 'u32' 'u8' 'i32'
#   ('list', T) ('opt', T) ('res', T, E) ('tuple', (T, …)) ('iter', T)
#   ('adt', 'Lean.qualified.name')  a struct / enum of a translated file;   ('adt', (full, path))  an imported type
#   and unification variables

class TVar:
    """a type not yet known; `int` = the type of an unsuffixed integer literal (Nat if nothing fixes it)"""
    def __init__(self, int_=False): self.bound, self.int = None, int_


def resolve(t):
    while isinstance(t, TVar) and t.bound is not None:
        t = t.bound
    return t


NATLIKE = ('usize', 'u64')
BYTES = ('list', 'u8')


def is_int(t):
    t = resolve(t)
    return (isinstance(t, TVar) and t.int) or t in INT_TYPES


def is_natlike(t):
    t = resolve(t)
    return (isinstance(t, TVar) and t.int) or t in NATLIKE


def head(t):
    t = resolve(t)
    return t[0] if isinstance(t, tuple) else t


def show_type(t):
    t = resolve(t)
    if isinstance(t, TVar): return '{integer}' if t.int else '_'
    if isinstance(t, tuple):
        if t[0] == 'list': return f'[{show_type(t[1])}]'
        if t[0] == 'iter': return f'impl Iterator<Item = {show_type(t[1])}>'
        if t[0] == 'opt': return f'Option<{show_type(t[1])}>'
        if t[0] == 'res': return f'Result<{show_type(t[1])}, {show_type(t[2])}>'
        if t[0] == 'tuple': return '(' + ', '.join(show_type(x) for x in t[1]) + ')'
        if t[0] == 'adt': return t[1] if isinstance(t[1], str) else '::'.join(t[1])
        if t[0] == 'mutref': return '&mut ' + show_type(t[1])
        if t[0] == 'named': return '::'.join(t[1])
    return str(t)


def lname(name):
    return f'«{name}»' if name in LEAN_KEYWORDS else name


def lqual(q):
    """a dotted Lean name, each component escaped if needed"""
    return '.'.join(lname(p) for p in q.split('.'))


def lean_str(s):
    out = []
    for ch in s:
        o = ord(ch)
        if ch == '\\': out.append('\\\\')
        elif ch == '"': out.append('\\"')
        elif ch == '\n': out.append('\\n')
        elif ch == '\t': out.append('\\t')
        elif ch == '\r': out.append('\\r')
        elif o < 0x20 or o == 0x7f: out.append('\\x%02x' % o)
        else: out.append(ch)
    return '"' + ''.join(out) + '"'


def lean_char(ch):
    o = ord(ch)
    if ch == '\\': return "'\\\\'"
    if ch == "'": return "'\\''"
    if ch == '\n': return "'\\n'"
    if ch == '\t': return "'\\t'"
    if ch == '\r': return "'\\r'"
    if o < 0x20 or o == 0x7f: return "'\\x%02x'" % o
    return f"'{ch}'"


# ------------------------------------------------------------------------------------------------ tables
# Which files are translated.  The crate root is translated completely; a module named in ABSTRACT_MODULES is translated
# too, but the root reaches its functions only through a record `<module>.Api` (one field per function the root calls,
# signature taken from the module's source), so that statements about the root hold for ANY behaviour of the module.
# Functions of a module listed in OMIT (with the reason) are left out; whatever calls them is left out with them.
CRATE_DIR = ('src', 'cli')
ROOT_FILE = 'main.rs'
TRANSLATED_MODULES = ['commands']
ABSTRACT_MODULES = ['commands']
OMIT = {
    ('commands', 'ZeroedString', 'zeroize'): 'wiping the memory of a password at the end of its life is not modelled; never called explicitly',
    ('commands', 'ZeroedString', 'drop'): 'wiping the memory of a password at the end of its life is not modelled; never called explicitly',
}
#   every function of these modules is left out (only their types and signatures are used)
OMIT_MODULES = {}
#   compile-time facts: `cfg!(target_os = …)` is evaluated for this target; `env!("CARGO_PKG_…")` is read from Cargo.toml
TARGET_OS = 'linux'

SELF = object()
SYS_NAME = 'sys'                     # the implicit process state threaded through every function that has effects
T_SYS = ('adt', ('$', 'Sys'))
T_OSSTR = ('adt', ('std', 'ffi', 'OsStr'))
T_ANYERR = ('adt', ('anyhow', 'Error'))
T_OPTIONS = ('adt', ('getopts', 'Options'))
T_MATCHES = ('adt', ('getopts', 'Matches'))
T_FAIL = ('adt', ('getopts', 'Fail'))
T_VARERR = ('adt', ('std', 'env', 'VarError'))
T_STREAM = ('adt', ('passterm', 'Stream'))
T_PROMPTERR = ('adt', ('passterm', 'PromptError'))
T_IOERR = ('adt', ('std', 'io', 'Error'))
T_PATH = 'str'                      # a path is the string it was made from: the model's file system is keyed by strings
T_FILE = ('adt', ('std', 'fs', 'File'))
T_STDIN = ('adt', ('std', 'io', 'Stdin'))
T_STDOUT = ('adt', ('std', 'io', 'Stdout'))
T_STDERR = ('adt', ('std', 'io', 'Stderr'))
T_OPENOPTS = ('adt', ('std', 'fs', 'OpenOptions'))
T_DYNREAD = ('adt', ('std', 'io', 'Read'))
T_DYNWRITE = ('adt', ('std', 'io', 'Write'))
T_ENCERR = ('adt', ('kestrel_crypto', 'errors', 'EncryptError'))
T_DECERR = ('adt', ('kestrel_crypto', 'errors', 'DecryptError'))
T_ASYMFMT = ('adt', ('kestrel_crypto', 'AsymFileFormat'))
T_PASSFMT = ('adt', ('kestrel_crypto', 'PassFileFormat'))
T_PAYLOADKEY = ('adt', ('kestrel_crypto', 'PayloadKey'))
T_UTF8ERR = ('adt', ('std', 'string', 'FromUtf8Error'))
T_ENCSK = ('adt', ('crate', 'keyring', 'EncodedSk'))
T_ENCPK = ('adt', ('crate', 'keyring', 'EncodedPk'))
T_KEYRING = ('adt', ('crate', 'keyring', 'Keyring'))
T_KRKEY = ('adt', ('crate', 'keyring', 'Key'))
T_KRERR = ('adt', ('crate', 'errors', 'KeyringError'))
T_SK = ('adt', ('kestrel_crypto', 'PrivateKey'))
T_PK = ('adt', ('kestrel_crypto', 'PublicKey'))
T_DHERR = ('adt', ('kestrel_crypto', 'errors', 'DhError'))

#   owned / borrowed pairs and re-exports that are one Lean type
TYPE_ALIASES = {
    ('std', 'ffi', 'OsString'): ('std', 'ffi', 'OsStr'),
    ('std', 'path', 'PathBuf'): ('std', 'path', 'Path'),
}
#   types that are plain strings here
STRING_TYPES = {('std', 'path', 'Path')}
#   `Box<dyn Trait>`: a sum over the types that implement the trait -- the library types listed here (constructor name,
#   Lean type) and every `impl Trait for X` of the translated files.  With `generated` the sum is emitted into the generated
#   file under the name `lean` (it mentions translated structs); otherwise `lean` is hand-written glue.
DYN_TRAITS = {
    ('std', 'io', 'Read'): dict(lean='RsCli.DynRead', generated=False,
                                impls={('std', 'fs', 'File'): 'File', ('std', 'io', 'Stdin'): 'Stdin'}),
    #   methods: the required methods of the trait (every implementor has them: a translated `impl`, or `<Lean type>.<name>`
    #   for a library type); provided: methods the trait defines in terms of the required ones -> glue taking those
    ('std', 'io', 'Write'): dict(lean='DynWrite', generated=True,
                                 impls={('std', 'fs', 'File'): 'File', ('std', 'io', 'Stdout'): 'Stdout'},
                                 methods={'write': ([BYTES], ('res', 'usize', ('adt', ('std', 'io', 'Error')))),
                                          'flush': ([], ('res', 'unit', ('adt', ('std', 'io', 'Error'))))},
                                 provided={'write_all': ([BYTES], ('res', 'unit', ('adt', ('std', 'io', 'Error'))), 'RsCli.write_all', ['write'])}),
}
#   records of library functions that are not given a meaning: a translated function that calls one of them takes the record
#   as a parameter, so what is proved about it holds for ANY behaviour of these library functions
RECORDS = {'lib': 'RsCli.StreamLib RsCli.DynRead DynWrite'}
#   wrappers that are the identity on the modelled value
TRANSPARENT_TYPES = {('Box',)}
#   `T: AsRef<X>` (a generic parameter): T is X, `.as_ref()` the identity
ASREF_TRAIT = ('AsRef',)

# Meaning of the items imported from other crates, keyed by the full path after resolving `use` aliases.
#   methods / assoc : name -> (parameter types, result type, Lean name [, 'effect'])  |  'identity'
#   mut_methods     : name -> (parameter types, Lean name)        `x.m(a…);` as a statement: x := Lean x a…  (result discarded)
#   fields          : name -> (type, Lean projection)
#   variants        : name -> (payload types, Lean constructor)   (an enum whose constructors are matched on)
#   display         : Lean function giving the `Display` text (`{}` in format strings, `.to_string()`)
EXTERN_TYPES = {
    ('$', 'Sys'): dict(lean='RsCli.Sys'),
    ('std', 'ffi', 'OsStr'): dict(
        lean='RsCli.OsString',
        methods={'to_str': ([], ('opt', 'str'), 'RsCli.OsString.to_str'), 'as_ref': 'identity', 'as_os_str': 'identity'}),
    ('anyhow', 'Error'): dict(lean='RsCli.AnyErr', display='RsCli.AnyErr.to_string'),
    ('std', 'env', 'VarError'): dict(
        lean='RsCli.VarError',
        variants={'NotPresent': ([], 'RsCli.VarError.NotPresent'), 'NotUnicode': ([T_OSSTR], 'RsCli.VarError.NotUnicode')}),
    ('passterm', 'Stream'): dict(
        lean='RsCli.Stream',
        variants={'Stdin': ([], 'RsCli.Stream.Stdin'), 'Stdout': ([], 'RsCli.Stream.Stdout'), 'Stderr': ([], 'RsCli.Stream.Stderr')}),
    ('passterm', 'PromptError'): dict(lean='RsCli.PromptError', display='RsCli.PromptError.to_string'),
    ('std', 'io', 'Error'): dict(lean='RsCli.IoError', display='RsCli.IoError.to_string'),
    ('std', 'string', 'FromUtf8Error'): dict(lean='RsCli.FromUtf8Error'),
    ('std', 'fs', 'File'): dict(
        lean='RsCli.File',
        assoc={'open': (['str'], ('res', SELF, T_IOERR), 'RsCli.File.open', 'effect'),
               'create': (['str'], ('res', SELF, T_IOERR), 'RsCli.File.create', 'effect')},
        methods={'write': ([BYTES], ('res', 'usize', T_IOERR), 'RsCli.File.write', 'effect'),
                 'flush': ([], ('res', 'unit', T_IOERR), 'RsCli.File.flush', 'effect')}),
    ('std', 'io', 'Stdin'): dict(
        lean='RsCli.Stdin',
        methods={'read_line': ([('mut', 'str')], ('res', 'usize', T_IOERR), 'RsCli.Stdin.read_line', 'effect')}),
    ('std', 'io', 'Stdout'): dict(
        lean='RsCli.Stdout',
        methods={'write': ([BYTES], ('res', 'usize', T_IOERR), 'RsCli.Stdout.write', 'effect'),
                 'flush': ([], ('res', 'unit', T_IOERR), 'RsCli.Stdout.flush', 'effect')}),
    ('std', 'io', 'Stderr'): dict(
        lean='RsCli.Stderr',
        methods={'flush': ([], ('res', 'unit', T_IOERR), 'RsCli.Stderr.flush', 'effect')}),
    ('std', 'fs', 'OpenOptions'): dict(
        lean='RsCli.OpenOptions',
        assoc={'new': ([], SELF, 'RsCli.OpenOptions.new')},
        methods={'create': (['bool'], SELF, 'RsCli.OpenOptions.create\''), 'append': (['bool'], SELF, 'RsCli.OpenOptions.append\''),
                 'open': (['str'], ('res', T_FILE, T_IOERR), 'RsCli.OpenOptions.open', 'effect')}),
    ('std', 'io', 'Read'): dict(lean='RsCli.DynRead'),
    ('std', 'io', 'Write'): dict(lean='DynWrite'),
    ('kestrel_crypto', 'errors', 'EncryptError'): dict(
        lean='RsCli.EncryptError',
        variants={'UnexpectedData': ([], 'RsCli.EncryptError.UnexpectedData'), 'IORead': ([T_IOERR], 'RsCli.EncryptError.IORead'),
                  'IOWrite': ([T_IOERR], 'RsCli.EncryptError.IOWrite'), 'Other': (['str'], 'RsCli.EncryptError.Other')}),
    ('kestrel_crypto', 'errors', 'DecryptError'): dict(
        lean='RsCli.DecryptError',
        variants={'ChunkLen': ([], 'RsCli.DecryptError.ChunkLen'), 'ChaPolyDecrypt': ([], 'RsCli.DecryptError.ChaPolyDecrypt'),
                  'UnexpectedData': ([], 'RsCli.DecryptError.UnexpectedData'), 'IORead': ([T_IOERR], 'RsCli.DecryptError.IORead'),
                  'IOWrite': ([T_IOERR], 'RsCli.DecryptError.IOWrite'), 'Other': (['str'], 'RsCli.DecryptError.Other')}),
    ('kestrel_crypto', 'AsymFileFormat'): dict(lean='RsCli.AsymFileFormat', variants={'V1': ([], 'RsCli.AsymFileFormat.V1')}),
    ('kestrel_crypto', 'PassFileFormat'): dict(lean='RsCli.PassFileFormat', variants={'V1': ([], 'RsCli.PassFileFormat.V1')}),
    ('kestrel_crypto', 'PayloadKey'): dict(lean='RsCli.PayloadKey'),
    #   keyring.rs is translated by tools/rs2lean_keyring.py (KestrelModel/GeneratedKeyring.lean, namespace KeyringSrc)
    ('crate', 'keyring', 'EncodedSk'): dict(
        lean='KeyringSrc.EncodedSk', methods={'as_str': ([], 'str', 'KeyringSrc.EncodedSk.as_str')}),
    ('crate', 'keyring', 'EncodedPk'): dict(
        lean='KeyringSrc.EncodedPk', methods={'as_str': ([], 'str', 'KeyringSrc.EncodedPk.as_str')}),
    ('crate', 'errors', 'KeyringError'): dict(lean='KeyringSrc.KeyringError'),
    ('crate', 'keyring', 'Key'): dict(
        lean='KeyringSrc.Key',
        fields={'name': ('str', 'KeyringSrc.Key.name'), 'public_key': (T_ENCPK, 'KeyringSrc.Key.public_key'),
                'private_key': (('opt', T_ENCSK), 'KeyringSrc.Key.private_key')}),
    ('crate', 'keyring', 'Keyring'): dict(
        lean='KeyringSrc.Keyring',
        assoc={'new': (['str'], ('res', SELF, T_KRERR), 'KeyringSrc.Keyring.new'),
               'valid_key_name': (['str'], 'bool', 'KeyringSrc.Keyring.valid_key_name'),
               'unlock_private_key': ([T_ENCSK, BYTES], ('res', T_SK, T_KRERR), 'KeyringSrc.Keyring.unlock_private_key'),
               'lock_private_key': ([T_SK, BYTES, BYTES], T_ENCSK, 'KeyringSrc.Keyring.lock_private_key'),
               'encode_public_key': ([T_PK], T_ENCPK, 'KeyringSrc.Keyring.encode_public_key'),
               'decode_public_key': ([T_ENCPK], ('res', T_PK, T_KRERR), 'KeyringSrc.Keyring.decode_public_key'),
               'serialize_key': (['str', T_ENCPK, T_ENCSK], 'str', 'KeyringSrc.Keyring.serialize_key')},
        methods={'get_key': (['str'], ('opt', T_KRKEY), 'KeyringSrc.Keyring.get_key'),
                 'get_name_from_key': ([T_ENCPK], ('opt', 'str'), 'KeyringSrc.Keyring.get_name_from_key')}),
    ('kestrel_crypto', 'PrivateKey'): dict(
        lean='RsStr.PrivateKey',
        assoc={'generate': ([], SELF, 'RsCli.PrivateKey.generate', 'effect')},
        methods={'to_public': ([], ('res', T_PK, T_DHERR), 'RsCli.PrivateKey.to_public', 'effect')}),
    ('kestrel_crypto', 'PublicKey'): dict(lean='RsStr.PublicKey'),
    ('kestrel_crypto', 'errors', 'DhError'): dict(lean='RsCli.DhError'),
    ('getopts', 'Options'): dict(
        lean='RsCli.Options',
        assoc={'new': ([], SELF, 'RsCli.Options.new')},
        methods={'parse': ([('list', 'str')], ('res', T_MATCHES, T_FAIL), 'RsCli.Options.parse')},
        mut_methods={'long_only': (['bool'], 'RsCli.Options.long_only'),
                     'reqopt': (['str', 'str', 'str', 'str'], 'RsCli.Options.reqopt'),
                     'optopt': (['str', 'str', 'str', 'str'], 'RsCli.Options.optopt'),
                     'optflag': (['str', 'str', 'str'], 'RsCli.Options.optflag')}),
    ('getopts', 'Matches'): dict(
        lean='RsCli.Matches',
        fields={'free': (('list', 'str'), 'RsCli.Matches.free')},
        methods={'opt_str': (['str'], ('opt', 'str'), 'RsCli.Matches.opt_str'),
                 'opt_present': (['str'], 'bool', 'RsCli.Matches.opt_present')}),
    ('getopts', 'Fail'): dict(
        lean='RsCli.Fail', display='RsCli.Fail.to_string',
        variants={'ArgumentMissing': (['str'], 'RsCli.Fail.ArgumentMissing'),
                  'UnrecognizedOption': (['str'], 'RsCli.Fail.UnrecognizedOption'),
                  'OptionMissing': (['str'], 'RsCli.Fail.OptionMissing'),
                  'OptionDuplicated': (['str'], 'RsCli.Fail.OptionDuplicated'),
                  'UnexpectedArgument': (['str'], 'RsCli.Fail.UnexpectedArgument')}),
}
#   functions: dict(params, ret, lean [, effect])  |  'identity';  ret None = no result
EXTERN_FNS = {
    ('std', 'env', 'args_os'): dict(params=[], ret=('iter', T_OSSTR), lean='RsCli.args_os', effect=True),
    ('std', 'env', 'var'): dict(params=['str'], ret=('res', 'str', T_VARERR), lean='RsCli.env_var', effect=True),
    ('std', 'fs', 'read'): dict(params=[T_PATH], ret=('res', BYTES, T_IOERR), lean='RsCli.fs_read', effect=True),
    #   no terminal is attached to any standard stream (the setting of the model): a constant, not an effect
    ('passterm', 'isatty'): dict(params=[T_STREAM], ret='bool', lean='RsCli.isatty'),
    ('std', 'io', 'stdin'): dict(params=[], ret=T_STDIN, lean='RsCli.Stdin.mk'),
    ('std', 'io', 'stdout'): dict(params=[], ret=T_STDOUT, lean='RsCli.Stdout.mk'),
    ('std', 'io', 'stderr'): dict(params=[], ret=T_STDERR, lean='RsCli.Stderr.mk'),
    ('std', 'path', 'Path', 'from'): 'identity',
    ('std', 'path', 'Path', 'new'): 'identity',
    ('kestrel_crypto', 'encrypt', 'key_encrypt'): dict(
        params=[('mut', T_DYNREAD), ('mut', T_DYNWRITE), T_SK, T_PK, T_PK, ('opt', T_SK), ('opt', T_PK), ('opt', T_PAYLOADKEY), T_ASYMFMT],
        ret=('res', 'unit', T_ENCERR), lean='key_encrypt', effect=True, record='lib'),
    ('kestrel_crypto', 'encrypt', 'pass_encrypt'): dict(
        params=[('mut', T_DYNREAD), ('mut', T_DYNWRITE), BYTES, BYTES, T_PASSFMT],
        ret=('res', 'unit', T_ENCERR), lean='pass_encrypt', effect=True, record='lib'),
    ('kestrel_crypto', 'decrypt', 'key_decrypt'): dict(
        params=[('mut', T_DYNREAD), ('mut', T_DYNWRITE), T_SK, T_PK, T_ASYMFMT],
        ret=('res', T_PK, T_DECERR), lean='key_decrypt', effect=True, record='lib'),
    ('kestrel_crypto', 'decrypt', 'pass_decrypt'): dict(
        params=[('mut', T_DYNREAD), ('mut', T_DYNWRITE), BYTES, T_PASSFMT],
        ret=('res', 'unit', T_DECERR), lean='pass_decrypt', effect=True, record='lib'),
    ('passterm', 'prompt_password_tty'): dict(params=[('opt', 'str')], ret=('res', 'str', T_PROMPTERR), lean='RsCli.prompt_password_tty', effect=True),
    ('passterm', 'prompt_password_stdin'): dict(params=[('opt', 'str'), T_STREAM], ret=('res', 'str', T_PROMPTERR), lean='RsCli.prompt_password_stdin', effect=True),
    ('kestrel_crypto', 'secure_random'): dict(params=['usize'], ret=BYTES, lean='RsCli.secure_random', effect=True),
    ('String', 'from_utf8'): dict(params=[BYTES], ret=('res', 'str', T_UTF8ERR), lean='RsCli.string_from_utf8'),
}
#   `impl TryFrom<S> for T` of imported types (`s.try_into()` with target T): (T, S) -> (result type, Lean function)
EXTERN_TRY_FROM = {
    (('crate', 'keyring', 'EncodedSk'), 'str'): (('res', T_ENCSK, 'str'), 'KeyringSrc.EncodedSk.try_from'),
    (('crate', 'keyring', 'EncodedPk'), 'str'): (('res', T_ENCPK, 'str'), 'KeyringSrc.EncodedPk.try_from'),
}
#   the standard library's `Deref` (for `impl Deref for X` of a translated struct: `*x`, and methods of the target through `x.`)
DEREF_TRAIT = ('std', 'ops', 'Deref')
#   `std::process::exit(code)`: only as the last action of the crate's entry point `fn main()` (there, leaving the process
#   and returning from the function coincide)
PROCESS_EXIT = ('std', 'process', 'exit')
PROCESS_EXIT_LEAN = 'RsCli.process_exit'
#   `anyhow!(e)` with a single non-literal argument, and `?` converting an error into `anyhow::Error`: source type -> Lean
ANYHOW_FROM = {
    ('passterm', 'PromptError'): 'RsCli.AnyErr.prompt',
    ('std', 'io', 'Error'): 'RsCli.AnyErr.io',
    ('crate', 'errors', 'KeyringError'): 'RsCli.AnyErr.keyring',
    ('kestrel_crypto', 'errors', 'DhError'): 'RsCli.AnyErr.dh',
    ('kestrel_crypto', 'errors', 'EncryptError'): 'RsCli.AnyErr.encrypt',
    ('kestrel_crypto', 'errors', 'DecryptError'): 'RsCli.AnyErr.decrypt',
}
#   printing macros: name -> (Lean function, text appended to the format string)
PRINT_MACROS = {'println': ('RsCli.print_stdout', '\n'), 'print': ('RsCli.print_stdout', ''),
                'eprintln': ('RsCli.print_stderr', '\n'), 'eprint': ('RsCli.print_stderr', '')}

#   methods of `Path` (a string here) that look at the file system
STR_EFFECT_METHODS = {'exists': ([], 'bool', 'RsCli.Path.exists')}
#   `Type::method(x)` spellings of methods of strings / of standard traits (`.map(str::to_string)`, `.map(ToString::to_string)`)
STRING_UFCS = ('as_str', 'to_string', 'to_owned', 'clone', 'len', 'is_empty', 'as_bytes', 'trim')
TRAIT_UFCS = {('ToString', 'to_string'), ('ToOwned', 'to_owned'), ('Clone', 'clone')}
MUTATING_METHODS = ('retain', 'push', 'extend_from_slice', 'copy_from_slice')
EFFECT_KINDS = ('return', 'continue', 'break', 'try', 'loop')


def extern_mut_method_names():
    out = set()
    for spec in DYN_TRAITS.values():
        out.update(spec.get('methods', {})); out.update(spec.get('provided', {}))
    for spec in EXTERN_TYPES.values():
        out.update(spec.get('mut_methods', {}))
    return out


def extern_effect_method_names():
    out = set(STR_EFFECT_METHODS)
    for spec in DYN_TRAITS.values():
        out.update(spec.get('methods', {})); out.update(spec.get('provided', {}))
    for spec in EXTERN_TYPES.values():
        for n, m in spec.get('methods', {}).items():
            if m != 'identity' and len(m) > 3 and m[3] == 'effect': out.add(n)
        for n, m in spec.get('mut_methods', {}).items():
            if len(m) > 2 and m[2] == 'effect': out.add(n)
    return out


def walk(x, f):
    """apply f to every Node below x (not descending into closures or nested fn items)"""
    if isinstance(x, Node):
        f(x)
        if x.kind in ('closure', 'fn'): return
        for k, v in x.__dict__.items():
            if k in ('kind', 'line', 'tv', 'fns', 'raw', 'lit'): continue
            walk(v, f)
    elif isinstance(x, (list, tuple)):
        for y in x: walk(y, f)


def has_effects(x):
    found = []
    walk(x, lambda n: found.append(n) if n.kind in EFFECT_KINDS else None)
    return bool(found)


def atom(text):
    """parenthesise a Lean term unless it is a single token or already enclosed in one pair of brackets"""
    if ' ' not in text: return text
    if text[0] in '([{' and text[-1] == {'(': ')', '[': ']', '{': '}'}[text[0]]:
        depth = 0
        for i, ch in enumerate(text):
            if ch in '([{': depth += 1
            elif ch in ')]}':
                depth -= 1
                if depth == 0 and i != len(text) - 1: break
        else:
            return text
    return f'({text})'


def ind(lines, n=1):
    return ['  ' * n + l for l in lines]


def strip_paren(e):
    while e.kind == 'paren': e = e.e
    return e


class Var:
    def __init__(self, name, ty, mutable, order, kind):
        self.name, self.ty, self.mutable, self.order, self.kind = name, ty, mutable, order, kind


class Sig:
    def __init__(self, mod, fn, params, ret, trait, lean, generics):
        self.mod, self.owner, self.name, self.self_kind, self.line = mod, fn.owner, fn.name, fn.self_kind, fn.line
        self.params, self.ret, self.trait = params, ret, trait      # params: [(name, type, is_mutref)]
        self.key = (mod, fn.owner, fn.name)
        self.lean = lean
        self.generics = generics
        self.muts = [p for p in params if p[2]]
        self.fn = fn


class Ctx:
    def __init__(self, flow, loop_state, loop=None):
        # loop_state: text of the state tuple of the innermost enclosing loop (None outside loops / when the construct cannot leave)
        # loop: None for a `for` loop; for a `loop`: dict(V=[vars], vty=type of the `break` value)
        self.flow, self.loop_state, self.loop = flow, loop_state, loop

    def sub(self, fx):
        return Ctx(fx, self.loop_state if fx else None, self.loop if fx else None)


class Restart(Exception):
    """a fact about a function (it has effects / it needs a module's Api) was discovered: translate again"""


class Module:
    def __init__(self, name, label, text):
        self.name, self.label = name, label
        cut = text.find('#[cfg(test)]')
        self.region = text if cut < 0 else text[:cut]
        self.digest = hashlib.sha256(self.region.encode()).hexdigest()
        self.src_lines = self.region.split('\n')
        p = Parser(tokenize(self.region))
        try:
            self.uses, self.items, self.mods = p.parse_file()
        except Unsupported as u:
            if p.fn and not getattr(u, 'fn', None): u.fn = p.fn
            u.file = label
            raise
        self.local = {}          # item name -> kind

    def q(self, name):
        return name if self.name == '' else f'{self.name}.{name}'


class Globals:
    def __init__(self, modules, cargo_env):
        self.modules = modules               # name -> Module ('' = crate root)
        self.cargo_env = cargo_env
        self.structs, self.enums, self.consts, self.fns = {}, {}, {}, {}
        self.unwraps = []        # descriptions of unwrap / expect sites
        self.calls = {}          # fn key -> set of fn keys it calls
        self.effectful = set()   # fn keys
        self.needs_api = {}      # fn key -> set of module names
        self.api_members = {m: [] for m in ABSTRACT_MODULES}
        self.omitted = dict(OMIT)
        self.dyn_user_impls = {}     # trait path -> [qualified names of translated structs that implement it]
        self.dyn_used = {}           # fn key -> traits whose `dyn` methods it calls
        self.final = False

    def resolve_path(self, mod, path, line):
        """-> ('user', module name, [rest…]) | ('extern', (full, path))"""
        m = self.modules[mod]
        path = list(path)
        if path[0] in ('self', 'super'): raise Unsupported(f'`{path[0]}::` path', line)
        if path[0] in m.uses and not (len(path) > 1 and m.uses[path[0]][0] == path[0]):
            path = m.uses[path[0]] + path[1:]          # (`use anyhow::anyhow;` imports the macro: `anyhow::Error` is still the crate's)
        elif path[0] in m.local: return ('user', mod, path)
        if path[0] == 'crate':
            path = path[1:]
            if not path: raise Unsupported('path `crate`', line)
            if path[0] in self.modules: return ('user', path[0], path[1:])
            if path[0] in self.modules[''].local: return ('user', '', path)
            return ('extern', ('crate',) + tuple(path))
        if mod == '' and path[0] in self.modules and path[0] != '': return ('user', path[0], path[1:])
        if path[0] in m.local: return ('user', mod, path)
        full = tuple(path)
        for n in range(len(full), 0, -1):
            if full[:n] in TYPE_ALIASES:
                full = TYPE_ALIASES[full[:n]] + full[n:]
                break
        return ('extern', full)

    def norm_type(self, t, line, mod, self_ty=None, assoc=None, generics=None):
        """parsed type -> internal type"""
        rec = lambda x: self.norm_type(x, line, mod, self_ty, assoc, generics)
        if not isinstance(t, tuple): return t
        if t[0] == 'named':
            path, args = t[1], t[2]
            if len(path) == 1 and generics and path[0] in generics:
                b = generics[path[0]]
                if isinstance(b, tuple) and b[0] == 'named' and tuple(b[1]) == ASREF_TRAIT and len(b[2]) == 1:
                    return rec(b[2][0])
                raise Unsupported(f'generic parameter `{path[0]}` (only `T: AsRef<X>` is supported)', line)
            if path == ['Self']:
                if self_ty is None: raise Unsupported('`Self` outside an impl', line)
                return self_ty
            if tuple(path) in TRANSPARENT_TYPES and len(args) == 1: return rec(args[0])
            r = self.resolve_path(mod, path, line)
            if r[0] == 'user':
                if len(r[2]) == 1:
                    q = self.modules[r[1]].q(r[2][0])
                    if q in self.structs or q in self.enums:
                        if args: raise Unsupported(f'generic arguments on `{q}`', line)
                        return ('adt', q)
                raise Unsupported(f'type `{"::".join(path)}`', line)
            full = r[1]
            if full == ('std', 'io', 'Result') and len(args) == 1:
                return ('res', rec(args[0]), rec(('named', ['std', 'io', 'Error'], [])))
            if full in STRING_TYPES and not args: return 'str'
            if full in EXTERN_TYPES:
                if args: raise Unsupported(f'generic arguments on `{"::".join(full)}`', line)
                return ('adt', full)
            raise Unsupported(f'type `{"::".join(full)}` (not defined in a translated file and not a known library type)', line)
        if t[0] == 'dyn':
            inner = rec(t[1])
            if head(inner) != 'adt' or isinstance(inner[1], str): raise Unsupported(f'`dyn {show_type(inner)}`', line)
            return inner
        if t[0] == 'assoc':
            if assoc is None or t[1] not in assoc: raise Unsupported(f'associated type `Self::{t[1]}`', line)
            return rec(assoc[t[1]])
        if t[0] == 'tuple':
            return ('tuple', tuple(rec(x) for x in t[1]))
        if t[0] == 'adt': return t
        return (t[0],) + tuple(rec(x) for x in t[1:])

    def lean_type(self, t, line=None, what='a value'):
        t = resolve(t)
        if isinstance(t, TVar):
            if t.int: return 'Nat'
            raise Unsupported(f'cannot determine the type of {what}', line)
        if t == 'str': return 'Str'
        if t == 'bool': return 'Bool'
        if t == 'char': return 'Char'
        if t == 'unit': return 'Unit'
        if t == 'never': return 'Empty'
        if t in NATLIKE: return 'Nat'
        if t == 'u32': return 'UInt32'
        if t == 'u8': return 'UInt8'
        if t == 'i32': return 'Int'
        p = lambda s: s if ' ' not in s else f'({s})'
        if t[0] in ('list', 'iter'): return f'List {p(self.lean_type(t[1], line, what))}'
        if t[0] == 'opt': return f'Option {p(self.lean_type(t[1], line, what))}'
        if t[0] == 'res': return f'Except {p(self.lean_type(t[2], line, what))} {p(self.lean_type(t[1], line, what))}'
        if t[0] == 'tuple': return ' × '.join(p(self.lean_type(x, line, what)) for x in t[1])
        if t[0] == 'adt':
            if isinstance(t[1], str): return lqual(t[1])
            if t[1] in EXTERN_TYPES: return EXTERN_TYPES[t[1]]['lean']
        raise Unsupported(f'no Lean type for {show_type(t)}', line)

    def fn_lean_type(self, sig, line):
        """Lean type of a translated function as seen through a module's Api: every Api function may have effects"""
        ps = [self.lean_type(pt, line) for _, pt, _ in sig.params]
        p = lambda s: s if ' ' not in s else f'({s})'
        rets = ['RsCli.Sys'] + [self.lean_type(pt, line) for _, pt, m in sig.params if m]
        if sig.ret is not None: rets.append(self.lean_type(sig.ret, line))
        return ' → '.join(['RsCli.Sys'] + [p(x) for x in ps] + [' × '.join(p(r) for r in rets)])

# ------------------------------------------------------------------------------------------------ translation

class FnTr:
    def __init__(self, G, modname, fn, sig):
        self.G, self.modname, self.fn, self.sig = G, modname, fn, sig
        self.mod = G.modules[modname]
        self.counter = 0
        self.temps = 0
        self.scopes = [{}]
        self.tracked = []            # stack of lists of variables whose values are collected at the end of a construct
        self.last_comment_line = None
        self.ret = sig.ret if sig is not None else None
        self.calls = set()
        self.sysvar = None
        self.dyn_used = set()
        self.mut_vars = []
        self.self_ty = self.assoc = None
        self.generics = sig.generics if sig is not None else None
        self.is_entry = False

    def bad(self, what, line):
        raise Unsupported(what, line)

    # ---- environment
    def lookup_opt(self, name):
        for sc in reversed(self.scopes):
            if name in sc: return sc[name]
        return None

    def lookup(self, name, line):
        v = self.lookup_opt(name)
        if v is None: self.bad(f'unknown variable `{name}`', line)
        return v

    def declare(self, name, ty, mutable, kind, line):
        if name == SYS_NAME and kind != 'sys': self.bad(f'a variable named `{SYS_NAME}` (the name is used for the implicit process state)', line)
        old = self.lookup_opt(name)
        if old is not None:
            for tr in self.tracked:
                if old in tr:
                    self.bad(f'binding `{name}` shadows a variable that is being updated in the enclosing branch/loop/function', line)
        self.counter += 1
        v = Var(name, ty, mutable, self.counter, kind)
        self.scopes[-1][name] = v
        return v

    def fresh(self, ty, line):
        self.temps += 1
        return self.declare(f"v'{self.temps}", ty, False, 'tmp', line)

    def need_sys(self, line):
        """an effect is being translated: the function must thread the process state"""
        if self.sig is None: self.bad('an effect in a constant initialiser', line)
        if self.sysvar is None:
            self.G.effectful.add(self.sig.key)
            raise Restart()
        for tr in self.tracked:
            if self.sysvar not in tr:
                self.bad('internal error: an effect inside a construct that does not collect the process state', line)
        return self.sysvar

    def need_api(self, m, name, line):
        """the function needs the Api record of module `m` (for its function `name`) or the record `m` of library functions"""
        if self.sig is None: self.bad('a call in a constant initialiser', line)
        if m in RECORDS:
            if m not in self.G.needs_api.get(self.sig.key, set()):
                self.G.needs_api.setdefault(self.sig.key, set()).add(m)
                raise Restart()
            return m
        if name not in self.G.api_members[m]:
            self.G.api_members[m].append(name)
        if m not in self.G.needs_api.get(self.sig.key, set()):
            self.G.needs_api.setdefault(self.sig.key, set()).add(m)
            raise Restart()
        return f'{m}_api'

    # ---- types
    def unify(self, a, b, line, what):
        a, b = resolve(a), resolve(b)
        if a is b: return a
        if a == 'never': return b
        if b == 'never': return a
        if isinstance(a, TVar) or isinstance(b, TVar):
            if not isinstance(a, TVar): a, b = b, a
            if isinstance(b, TVar):
                if a.int and not b.int: b.bound = a; return a
                a.bound = b; return b
            if a.int and not is_int(b): self.bad(f'{what}: an integer was expected, found {show_type(b)}', line)
            a.bound = b; return b
        if isinstance(a, tuple) and isinstance(b, tuple) and a[0] == b[0]:
            if a[0] == 'adt':
                if a[1] != b[1]: self.bad(f'{what}: types {show_type(a)} and {show_type(b)} differ', line)
                return a
            xs, ys = (a[1], b[1]) if a[0] == 'tuple' else (a[1:], b[1:])
            if len(xs) != len(ys): self.bad(f'{what}: types {show_type(a)} and {show_type(b)} differ', line)
            for x, y in zip(xs, ys): self.unify(x, y, line, what)
            return a
        if a != b: self.bad(f'{what}: types {show_type(a)} and {show_type(b)} differ', line)
        return a

    def node_tv(self, node, int_=False):
        if not hasattr(node, 'tv'): node.tv = TVar(int_)
        return node.tv

    def lt(self, t, line, what='a value'):
        return self.G.lean_type(t, line, what)

    def asc(self, t, line, what):
        """` : T` when the type is known (always in the final pass)"""
        try:
            return ' : ' + self.G.lean_type(t, line, what)
        except Unsupported:
            if self.G.final: raise
            return ''

    def norm(self, t, line):
        return self.G.norm_type(t, line, self.modname, self.self_ty, self.assoc, self.generics)

    # ---- expressions: return (lean text, type, atomic?)
    def paren(self, r):
        text, _, atomic = r
        return text if atomic else f'({text})'

    def expr(self, e, exp=None):
        r = self.expr0(e, exp)
        if exp is not None: self.unify(r[1], exp, e.line, 'expression')
        return r

    def expr0(self, e, exp):
        k = e.kind
        if k == 'lit':
            if e.suffix is not None:
                if e.suffix not in INT_TYPES: self.bad(f'integer suffix `{e.suffix}`', e.line)
                return (f'({e.val} : {self.lt(e.suffix, e.line)})', e.suffix, True)
            return (str(e.val), self.node_tv(e, True), True)
        if k == 'str': return (f'{lean_str(e.val)}.toList', 'str', True)
        if k == 'char': return (lean_char(e.val), 'char', True)
        if k == 'bool': return ('true' if e.val else 'false', 'bool', True)
        if k == 'unit': return ('()', 'unit', True)
        if k == 'paren': return self.expr0(e.e, exp)
        if k == 'lean': return (e.text, e.ty, True)
        if k == 'tuple':
            ex = resolve(exp) if exp is not None else None
            want = list(ex[1]) if (head(ex) == 'tuple' and len(ex[1]) == len(e.parts)) else [None] * len(e.parts)
            parts = [self.expr(p, w) for p, w in zip(e.parts, want)]
            return ('(' + ', '.join(p[0] for p in parts) + ')', ('tuple', tuple(p[1] for p in parts)), True)
        if k == 'path': return self.path_value(e, exp)
        if k == 'ref':
            if e.mut: self.bad('`&mut` outside the argument of a call', e.line)
            return self.expr0(e.e, exp)
        if k == 'unary':
            if e.op == '*':
                r = self.expr(e.e)
                d = self.deref_sig(r[1])
                if d is not None:
                    self.calls.add(d.key)
                    return (f'{d.lean} {self.paren(r)}', d.ret, False)
                if exp is not None: self.unify(r[1], exp, e.line, 'expression')
                return r
            if e.op == '!':
                r = self.expr(e.e)
                if resolve(r[1]) != 'bool': self.bad(f'`!` on {show_type(r[1])} (only on bool)', e.line)
                return (f'!{self.paren(r)}', 'bool', False)
            self.bad(f'unary `{e.op}`', e.line)
        if k == 'cast': self.bad('`as` cast', e.line)
        if k == 'bin': return self.binop(e)
        if k == 'index':
            base = self.expr(e.e)
            if head(base[1]) != 'list': self.bad(f'indexing a value of type {show_type(base[1])}', e.line)
            elem = resolve(base[1])[1]
            if e.ix.kind == 'range':
                return (self.slice_text(self.paren(base), e.ix), ('list', elem), False)
            ix = self.expr(e.ix, 'usize')
            return (f'Rs.idx {self.paren(base)} {self.paren(ix)}', elem, False)
        if k == 'field':
            base = self.expr(e.e)
            bt = resolve(base[1])
            if head(bt) == 'adt' and isinstance(bt[1], str) and bt[1] in self.G.structs:
                for fname, fty in self.G.structs[bt[1]].fields:
                    if fname == e.name: return (f'{self.paren(base)}.{lname(fname)}', fty, True)
                self.bad(f'struct `{bt[1]}` has no field `{e.name.lstrip("_")}`', e.line)
            if head(bt) == 'adt' and bt[1] in EXTERN_TYPES and e.name in EXTERN_TYPES[bt[1]].get('fields', {}):
                fty, lean = EXTERN_TYPES[bt[1]]['fields'][e.name]
                return (f'{lean} {self.paren(base)}', fty, False)
            self.bad(f'field `.{e.name.lstrip("_")}` of a value of type {show_type(bt)}', e.line)
        if k == 'range': self.bad('range expression outside an index', e.line)
        if k == 'repeat':
            elem = self.expr(e.elem)
            if isinstance(resolve(elem[1]), TVar): self.bad(f'{e.what} element without a type suffix', e.line)
            cnt = self.expr(e.count, 'usize')
            return (f'List.replicate {self.paren(cnt)} {self.paren(elem)}', ('list', resolve(elem[1])), False)
        if k == 'array':
            ety = TVar()
            if exp is not None and head(exp) == 'list': ety = resolve(exp)[1]
            parts = [self.expr(p, ety) for p in e.elems]
            return ('[' + ', '.join(p[0] for p in parts) + ']', ('list', ety), True)
        if k == 'call': return self.call_expr(e, exp)
        if k == 'mcall': return self.mcall_expr(e, exp)
        if k == 'structlit': return self.struct_lit(e)
        if k == 'macro': return self.macro_expr(e, exp)
        if k == 'if': return self.pure_if(e, exp)
        if k == 'closure': self.bad('closure outside the argument of retain / find / map / map_err / ok_or_else / and_then', e.line)
        if k == 'match': return self.pure_match(e, exp)
        if k == 'loop': self.bad('`loop` expression other than as a statement or a `let` initialiser', e.line)
        if k == 'try': self.bad('internal error: `?` not lifted out of an expression', e.line)
        if k == 'assign': self.bad('assignment used as an expression', e.line)
        self.bad(f'expression {k}', e.line)

    def pure_if(self, e, exp):
        """`if c { a } else { b }` without statements, nested in an expression"""
        def tail_of(b):
            if b is None: self.bad('`if` without `else` used as a value', e.line)
            if b.kind == 'if': return b
            if b.stmts or b.fns or b.tail is None: self.bad('`if` expression with statements in its branches, nested in another expression', e.line)
            return b.tail
        c = self.expr(e.cond, 'bool')
        vty = self.node_tv(e)
        if exp is not None: self.unify(vty, exp, e.line, '`if` expression')
        a = self.expr(tail_of(e.then), vty)
        b = self.expr(tail_of(e.els), vty)
        return (f'if {c[0]} then {a[0]} else {b[0]}', vty, False)

    def pure_match(self, e, exp):
        """`match s { P => a, … }` without statements or effects, nested in an expression (e.g. `if matches!(x, P) { … }`)"""
        lits = []
        walk([a.pat for a in e.arms], lambda n: lits.append(n) if n.kind == 'plit' else None)
        if lits: self.bad('`match` on literals nested in another expression', e.line)
        scrut = self.expr(e.scrut)
        vty = self.node_tv(e)
        if exp is not None: self.unify(vty, exp, e.line, '`match` expression')
        arms = []
        for arm in e.arms:
            b = arm.body
            if b.kind == 'block':
                if b.stmts or b.fns or b.tail is None: self.bad('`match` expression with statements in its arms, nested in another expression', e.line)
                b = b.tail
            self.scopes.append({})
            pat = self.pattern(arm.pat, scrut[1])
            r = self.expr(b, vty)
            self.scopes.pop()
            arms.append(f'| {pat} => {r[0]}')
        return (f'match {scrut[0]} with ' + ' '.join(arms), vty, False)

    def user_item(self, path, line):
        """classify a path naming something defined in a translated file (or Some/Ok/Err, or an imported item)"""
        G = self.G
        if path == ['Self'] and self.self_ty is not None and head(self.self_ty) == 'adt' and isinstance(self.self_ty[1], str):
            if self.self_ty[1] in G.structs: return ('struct', self.self_ty[1])
        if path[0] == 'Self' and len(path) == 2 and self.fn is not None and getattr(self.fn, 'owner', None):
            if self.self_ty is not None and head(self.self_ty) == 'adt' and isinstance(self.self_ty[1], str):
                q = self.self_ty[1]
                st = G.structs.get(q) or G.enums.get(q)
                key = (st.mod, st.name, path[1])
                if key in G.fns: return ('fn', G.fns[key])
                if q in G.enums and path[1] in dict(G.enums[q].variants): return ('variant', q, path[1])
            self.bad(f'`Self::{path[1]}`', line)
        if len(path) == 1 and self.sig is not None:
            key = (self.modname, 'fn:' + self.root_fn_name(), path[0])
            if key in G.fns: return ('fn', G.fns[key])
        r = G.resolve_path(self.modname, path, line)
        if r[0] == 'user':
            m, rest = r[1], r[2]
            M = G.modules[m]
            if len(rest) == 1:
                q = M.q(rest[0])
                if q in G.structs: return ('struct', q)
                if (m, None, rest[0]) in G.fns: return ('fn', G.fns[(m, None, rest[0])])
                if q in G.consts: return ('const', q)
                if q in G.enums: return ('enum', q)
            if len(rest) == 2:
                q = M.q(rest[0])
                if q in G.enums and rest[1] in dict(G.enums[q].variants): return ('variant', q, rest[1])
                if (m, rest[0], rest[1]) in G.fns: return ('fn', G.fns[(m, rest[0], rest[1])])
            self.bad(f'`{"::".join(path)}` is not defined in the translated files', line)
        return ('extern', r[1])

    def dyn_ctor(self, trait, ty, line):
        """constructor of the sum for `dyn trait` that holds a value of type `ty`"""
        ty = resolve(ty)
        if head(ty) == 'adt':
            if not isinstance(ty[1], str) and ty[1] in DYN_TRAITS[trait]['impls']: return DYN_TRAITS[trait]['impls'][ty[1]]
            if isinstance(ty[1], str) and ty[1] in self.G.dyn_user_impls.get(trait, []):
                return lname(self.G.structs[ty[1]].name)
        self.bad(f'`Box<dyn {"::".join(trait)}>` made from a value of type {show_type(ty)} (no known `impl`)', line)

    def deref_sig(self, t):
        """the `deref` of `impl Deref for T` if `t` is a translated struct that has one"""
        t = resolve(t)
        if head(t) == 'adt' and isinstance(t[1], str):
            st = self.G.structs.get(t[1])
            if st is not None:
                sig = self.G.fns.get((st.mod, st.name, 'deref'))
                if sig is not None and sig.trait == DEREF_TRAIT and sig.self_kind == 'ref' and not sig.params and sig.key not in self.G.effectful:
                    return sig
        return None

    def root_fn_name(self):
        o = self.sig.owner
        return o[3:] if (o or '').startswith('fn:') else self.sig.name

    def path_value(self, e, exp):
        path = e.path
        if len(path) == 1:
            n = path[0]
            v = self.lookup_opt(n)
            if v is not None: return (lname(v.name), v.ty, True)
            if n == 'None':
                return ('none', ('opt', self.node_tv(e)), True)
        it = self.user_item(path, e.line)
        if it[0] == 'const': return (lqual(it[1]), self.G.consts[it[1]], True)
        if it[0] == 'variant':
            en = self.G.enums[it[1]]
            if dict(en.variants)[it[2]]: self.bad(f'constructor `{"::".join(path)}` without its arguments', e.line)
            return (f'{lqual(it[1])}.{lname(it[2])}', ('adt', it[1]), True)
        if it[0] == 'extern':
            full = it[1]
            spec = EXTERN_TYPES.get(full[:-1])
            if spec and full[-1] in spec.get('variants', {}) and not spec['variants'][full[-1]][0]:
                return (spec['variants'][full[-1]][1], ('adt', full[:-1]), True)
            if len(path) == 1: self.bad(f'unknown variable `{path[0]}`', e.line)
        self.bad(f'path `{"::".join(path)}` used as a value', e.line)

    def slice_bounds(self, rng):
        lo = self.expr(rng.lo, 'usize') if rng.lo is not None else None
        hi = self.expr(rng.hi, 'usize') if rng.hi is not None else None
        return lo, hi

    def slice_text(self, base, rng):
        lo, hi = self.slice_bounds(rng)
        if lo is None and hi is None: return base
        if hi is None: return f'{base}.drop {self.paren(lo)}'
        if lo is None: return f'{base}.take {self.paren(hi)}'
        return f'({base}.drop {self.paren(lo)}).take ({self.paren(hi)} - {self.paren(lo)})'

    def binop(self, e):
        op = e.op
        l = self.expr(e.l)
        r = self.expr(e.r)
        if op in ('&&', '||'):
            if resolve(l[1]) != 'bool' or resolve(r[1]) != 'bool': self.bad(f'`{op}` on non-boolean operands', e.line)
            return (f'{self.paren(l)} {op} {self.paren(r)}', 'bool', False)
        if op in ('==', '!='):
            ty = resolve(self.unify(l[1], r[1], e.line, f'operands of `{op}`'))
            ok = is_int(ty) or ty in ('str', 'char', 'bool') or (head(ty) == 'list' and (is_int(ty[1]) or resolve(ty[1]) in ('str', 'char')))
            if not ok: self.bad(f'`{op}` on values of type {show_type(ty)}', e.line)
            return (f'{self.paren(l)} {op} {self.paren(r)}', 'bool', False)
        if not is_int(l[1]) or not is_int(r[1]):
            self.bad(f'operator `{op}` on {show_type(l[1])} and {show_type(r[1])}', e.line)
        ty = self.unify(l[1], r[1], e.line, f'operands of `{op}`')
        if op in CMP:
            sym = {'<': '<', '>': '>', '<=': '≤', '>=': '≥'}[op]
            return (f'decide ({self.paren(l)} {sym} {self.paren(r)})', 'bool', False)
        if op in ('+', '-', '*', '/', '%'):
            if not is_natlike(ty):
                self.bad(f'plain `{op}` on {show_type(ty)} (may panic on overflow)', e.line)
            return (f'{self.paren(l)} {op} {self.paren(r)}', ty, False)
        self.bad(f'operator `{op}`', e.line)

    def closure(self, c, ptypes, what):
        """-> (lean text, result type)"""
        if c.kind == 'path' and len(ptypes) == 1:
            # a function / constructor / method named by its path (`.map(Ctor)`, `.map_err(f)`, `.and_then(Type::method)`): `|x| path(x)`
            if not hasattr(c, 'as_closure'):
                c.as_closure = Node('closure', c.line, params=[Node('pid', c.line, name="x'")],
                                    body=Node('call', c.line, f=c, args=[Node('path', c.line, path=["x'"], generics=None)]))
            c = c.as_closure
        if c.kind != 'closure': self.bad(f'{what}: a closure literal was expected', c.line)
        if len(c.params) != len(ptypes): self.bad(f'{what}: closure with {len(c.params)} parameters', c.line)
        if has_effects(c.body): self.bad('`return` / `?` / `continue` / `break` inside a closure', c.line)
        if self.find_effect_like(c.body): self.bad('a call with effects inside a closure', c.line)
        self.scopes.append({})
        names = [self.pattern(p, t) for p, t in zip(c.params, ptypes)]
        r = self.expr(c.body)
        self.scopes.pop()
        if not names: return (f'(fun (_ : Unit) => {r[0]})', r[1])
        return (f'(fun {" ".join(names)} => {r[0]})', r[1])

    def pattern(self, p, ty):
        """declares the variables of the pattern in the current scope; -> lean pattern text"""
        ty = resolve(ty)
        if p.kind == 'pwild': return '_'
        if p.kind == 'pref': return self.pattern(p.p, ty)
        if p.kind == 'pid':
            v = self.declare(p.name, ty, False, 'patvar', p.line)
            return lname(v.name)
        if p.kind == 'ptuple':
            if head(ty) != 'tuple' or len(ty[1]) != len(p.subs): self.bad(f'tuple pattern for a value of type {show_type(ty)}', p.line)
            return '(' + ', '.join(self.pattern(s, t) for s, t in zip(p.subs, ty[1])) + ')'
        if p.kind == 'pslice':
            if head(ty) != 'list': self.bad(f'slice pattern for a value of type {show_type(ty)}', p.line)
            return '[' + ', '.join(self.pattern(s, ty[1]) for s in p.subs) + ']'
        if p.kind == 'por':
            alts = []
            for a in p.alts:
                names = []
                walk(a, lambda n: names.append(n) if n.kind == 'pid' else None)
                if names: self.bad('or-pattern that binds variables', p.line)
                alts.append(self.pattern(a, ty))
            return ' | '.join(alts)
        if p.kind == 'plit': self.bad('literal pattern mixed with constructor patterns', p.line)
        if p.kind == 'pctor':
            n = len(p.subs) if p.subs is not None else None
            if len(p.path) == 1:
                c = p.path[0]
                if c == 'None' and n is None and head(ty) == 'opt': return 'none'
                if c == 'Some' and n == 1 and head(ty) == 'opt': return f'some {self.sub_pattern(p.subs[0], ty[1])}'
                if c == 'Ok' and n == 1 and head(ty) == 'res': return f'.ok {self.sub_pattern(p.subs[0], ty[1])}'
                if c == 'Err' and n == 1 and head(ty) == 'res': return f'.error {self.sub_pattern(p.subs[0], ty[2])}'
            if head(ty) == 'adt':
                it = self.user_item(p.path, p.line)
                ctor = None
                if it[0] == 'variant' and ty[1] == it[1]:
                    ctor = (dict(self.G.enums[it[1]].variants)[it[2]], f'{lqual(it[1])}.{lname(it[2])}')
                elif it[0] == 'extern' and it[1][:-1] == ty[1] and it[1][-1] in EXTERN_TYPES[ty[1]].get('variants', {}):
                    ctor = EXTERN_TYPES[ty[1]]['variants'][it[1][-1]]
                if ctor is not None:
                    ptys, lean = ctor
                    if (n or 0) != len(ptys): self.bad(f'pattern `{"::".join(p.path)}` with {n or 0} arguments', p.line)
                    return ' '.join([lean] + [self.sub_pattern(s, t) for s, t in zip(p.subs or [], ptys)])
            self.bad(f'pattern `{"::".join(p.path)}` for a value of type {show_type(ty)}', p.line)
        self.bad('pattern', p.line)

    def sub_pattern(self, p, ty):
        t = self.pattern(p, ty)
        return t if (' ' not in t or t.startswith('(')) else f'({t})'

    def struct_lit(self, e):
        it = self.user_item(e.path, e.line) if e.path != ['Self'] else None
        if e.path == ['Self']:
            if self.self_ty is None or not isinstance(self.self_ty[1], str): self.bad('`Self { … }` outside an impl', e.line)
            q = self.self_ty[1]
        elif it[0] == 'struct': q = it[1]
        else: self.bad(f'struct literal `{"::".join(e.path)}`', e.line)
        st = self.G.structs[q]
        if st.tuple: self.bad('brace literal of a tuple struct', e.line)
        given = dict()
        for fname, fe in e.fields:
            if fname in given: self.bad(f'field `{fname}` given twice', e.line)
            given[fname] = fe
        parts = []
        for fname, fty in st.fields:
            if fname not in given: self.bad(f'struct literal without field `{fname}`', e.line)
            r = self.expr(given.pop(fname), fty)
            parts.append(f'{lname(fname)} := {r[0]}')
        if given: self.bad(f'struct `{q}` has no field `{next(iter(given))}`', e.line)
        return ('{ ' + ', '.join(parts) + ' : ' + lqual(q) + ' }', ('adt', q), True)

    # ---- macros
    def display_text(self, r, line, alt=False):
        """Lean text of the `Display` rendering of a value"""
        t = resolve(r[1])
        if t == 'str':
            if alt: self.bad('`{:#}` on a string', line)
            return self.paren(r)
        if head(t) == 'adt' and t[1] in EXTERN_TYPES and EXTERN_TYPES[t[1]].get('display'):
            return f'({EXTERN_TYPES[t[1]]["display"]} {self.paren(r)})'
        self.bad(f'`{{}}` applied to a value of type {show_type(t)} (no `Display` glue)', line)

    def format_text(self, fmt, args, line, suffix=''):
        """format string + arguments -> (Lean text of type Str, atomic?)"""
        pieces, flags, cur, i, s = [], [], [], 0, fmt
        while i < len(s):
            if s.startswith('{{', i): cur.append('{'); i += 2
            elif s.startswith('}}', i): cur.append('}'); i += 2
            elif s.startswith('{}', i):
                pieces.append(''.join(cur)); flags.append(False); cur = []; i += 2
            elif s.startswith('{:#}', i):
                pieces.append(''.join(cur)); flags.append(True); cur = []; i += 4
            elif s[i] in '{}': self.bad('format placeholder other than `{}` / `{:#}`', line)
            else: cur.append(s[i]); i += 1
        pieces.append(''.join(cur) + suffix)
        if len(pieces) != len(args) + 1: self.bad('format string: number of placeholders and of arguments differ', line)
        out = []
        for j, a in enumerate(args):
            if pieces[j]: out.append(f'{lean_str(pieces[j])}.toList')
            out.append(self.display_text(self.expr(a), a.line, flags[j]))
        if pieces[-1]: out.append(f'{lean_str(pieces[-1])}.toList')
        if not out: return ('([] : Str)', True)
        return (' ++ '.join(out), len(out) == 1)

    def fmt_args(self, e):
        if not e.args or strip_paren(e.args[0]).kind != 'str':
            self.bad(f'`{e.name}!` without a literal format string', e.line)
        return strip_paren(e.args[0]).val, e.args[1:]

    def macro_expr(self, e, exp):
        n = e.name
        if n == 'format':
            fmt, args = self.fmt_args(e)
            text, atomic = self.format_text(fmt, args, e.line)
            return (text, 'str', atomic)
        if n == 'anyhow':
            if len(e.args) == 1 and strip_paren(e.args[0]).kind != 'str':
                r = self.expr(e.args[0])
                t = resolve(r[1])
                key = t[1] if head(t) == 'adt' else t
                if key in ANYHOW_FROM: return (f'{ANYHOW_FROM[key]} {self.paren(r)}', T_ANYERR, False)
                self.bad(f'`anyhow!(e)` for a value of type {show_type(t)}', e.line)
            fmt, args = self.fmt_args(e)
            text, _ = self.format_text(fmt, args, e.line)
            return (f'RsCli.AnyErr.msg {lean_str(fmt)}.toList ({text})', T_ANYERR, False)
        if n == 'env':
            if len(e.args) != 1 or strip_paren(e.args[0]).kind != 'str': self.bad('`env!` without a literal name', e.line)
            name = strip_paren(e.args[0]).val
            if name not in self.G.cargo_env: self.bad(f'`env!("{name}")` (only the CARGO_PKG_… variables that Cargo.toml determines)', e.line)
            return (f'{lean_str(self.G.cargo_env[name])}.toList', 'str', True)
        if n == 'cfg':
            raw = e.raw
            if (len(raw) == 3 and raw[0].kind == 'id' and raw[0].text == 'target_os' and raw[1].text == '=' and raw[2].kind == 'str'):
                return ('true' if raw[2].val == TARGET_OS else 'false', 'bool', True)
            self.bad('`cfg!` other than `cfg!(target_os = "…")`', e.line)
        if n in PRINT_MACROS: self.bad(f'internal error: `{n}!` not lifted out of an expression', e.line)
        self.bad(f'macro `{n}!`', e.line)

    # ---- calls
    def call_expr(self, e, exp):
        if e.f.kind != 'path': self.bad('call of a computed function', e.line)
        path, G = e.f.path, self.G
        if len(path) == 1 and self.lookup_opt(path[0]) is not None: self.bad('call of a local variable (closure)', e.line)
        if len(path) == 1 and path[0] in ('Some', 'Ok', 'Err'):
            n = path[0]
            if len(e.args) != 1: self.bad(f'`{n}` with {len(e.args)} arguments', e.line)
            ex = resolve(exp) if exp is not None else None
            if n == 'Some':
                r = self.expr(e.args[0], ex[1] if head(ex) == 'opt' else None)
                return (f'some {self.paren(r)}', ('opt', r[1]), False)
            if n == 'Ok':
                r = self.expr(e.args[0], ex[1] if head(ex) == 'res' else None)
                return (f'Except.ok {self.paren(r)}', ('res', r[1], ex[2] if head(ex) == 'res' else self.node_tv(e)), False)
            r = self.expr(e.args[0], ex[2] if head(ex) == 'res' else None)
            return (f'Except.error {self.paren(r)}', ('res', ex[1] if head(ex) == 'res' else self.node_tv(e), r[1]), False)
        if path[0] in ('Vec', 'String') and path[1:] == ['new'] and not e.args:
            if path[0] == 'String': return ('([] : Str)', 'str', True)
            ety = TVar()
            if e.f.generics:
                if len(e.f.generics) != 1: self.bad('`Vec::<…>` with several type arguments', e.line)
                ety = self.norm(e.f.generics[0], e.line)
            return ('[]', ('list', ety), True)
        if path == ['String', 'from'] and len(e.args) == 1:
            return self.expr(e.args[0], 'str')
        if path == ['Box', 'new'] and len(e.args) == 1:
            r = self.expr(e.args[0])
            ex = resolve(exp) if exp is not None else None
            if head(ex) == 'adt' and ex[1] in DYN_TRAITS:
                return (f'{DYN_TRAITS[ex[1]]["lean"]}.{self.dyn_ctor(ex[1], r[1], e.line)} {self.paren(r)}', ex, False)
            return r
        if e.f.generics: self.bad('generic arguments in a path', e.line)
        if len(path) == 2 and e.args and ((path[0] == 'str' or (path[0] == 'String' and path[1] in STRING_UFCS) or tuple(path) in TRAIT_UFCS)):
            return self.mcall_expr(self.ufcs(e), exp)              # `str::to_string(x)` is `x.to_string()`
        it = self.user_item(path, e.line)
        if it[0] == 'fn' and it[1].self_kind is not None and e.args and not self.sig_effectful(it[1]):
            return self.mcall_expr(self.ufcs(e), exp)              # `Type::method(x, …)` is `x.method(…)`
        if it[0] == 'extern' and e.args and it[1][-1] in EXTERN_TYPES.get(it[1][:-1], {}).get('methods', {}):
            return self.mcall_expr(self.ufcs(e), exp)
        if it[0] == 'struct':
            st = G.structs[it[1]]
            if not st.tuple: self.bad(f'`{it[1]}(…)`: not a tuple struct', e.line)
            if len(e.args) != len(st.fields): self.bad(f'`{it[1]}` with {len(e.args)} arguments', e.line)
            args = [self.paren(self.expr(a, fty)) for a, (_, fty) in zip(e.args, st.fields)]
            return (' '.join([f'{lqual(it[1])}.mk'] + args), ('adt', it[1]), False)
        if it[0] == 'variant':
            ptys = dict(G.enums[it[1]].variants)[it[2]]
            if len(e.args) != len(ptys): self.bad(f'`{"::".join(path)}` with {len(e.args)} arguments', e.line)
            args = [self.paren(self.expr(a, t)) for a, t in zip(e.args, ptys)]
            return (' '.join([f'{lqual(it[1])}.{lname(it[2])}'] + args), ('adt', it[1]), False)
        if it[0] == 'fn':
            sig = it[1]
            if sig.self_kind is not None: self.bad(f'method `{sig.lean}` called as an associated function', e.line)
            if self.sig_effectful(sig): self.bad(f'internal error: call of `{sig.lean}` (which has effects) not lifted out of an expression', e.line)
            return self.user_call_expr(sig, None, e)
        if it[0] != 'extern': self.bad(f'`{"::".join(path)}` used as a function', e.line)
        full = it[1]
        if full == PROCESS_EXIT: self.bad('`std::process::exit` other than as the last statement of a block of the entry point `main`', e.line)
        if full in EXTERN_FNS:
            spec = EXTERN_FNS[full]
            if spec == 'identity':
                if len(e.args) != 1: self.bad(f'`{"::".join(path)}` with {len(e.args)} arguments', e.line)
                return self.expr0(e.args[0], exp)
            if spec.get('effect'): self.bad(f'internal error: call of `{"::".join(full)}` (which has effects) not lifted out of an expression', e.line)
            if len(e.args) != len(spec['params']): self.bad(f'`{"::".join(path)}` with {len(e.args)} arguments', e.line)
            args = [self.paren(self.expr(a, t)) for a, t in zip(e.args, spec['params'])]
            return (' '.join([spec['lean']] + args), spec['ret'], not args)
        tspec = EXTERN_TYPES.get(full[:-1])
        if tspec is not None and full[-1] in tspec.get('assoc', {}):
            a = tspec['assoc'][full[-1]]
            if len(a) > 3 and a[3] == 'effect': self.bad(f'internal error: call of `{"::".join(full)}` (which has effects) not lifted out of an expression', e.line)
            ptys, rty, lean = a[:3]
            if len(e.args) != len(ptys): self.bad(f'`{"::".join(path)}` with {len(e.args)} arguments', e.line)
            args = [self.paren(self.expr(x, t)) for x, t in zip(e.args, ptys)]
            return (' '.join([lean] + args), self.subst_self(rty, ('adt', full[:-1])), not args)
        if tspec is not None and full[-1] in tspec.get('variants', {}):
            ptys, lean = tspec['variants'][full[-1]]
            if len(e.args) != len(ptys): self.bad(f'`{"::".join(path)}` with {len(e.args)} arguments', e.line)
            args = [self.paren(self.expr(x, t)) for x, t in zip(e.args, ptys)]
            return (' '.join([lean] + args), ('adt', full[:-1]), not args)
        self.bad(f'call of `{"::".join(full)}`, which is neither defined in a translated file nor a known library function', e.line)

    def ufcs(self, e):
        if not hasattr(e, 'as_mcall'):
            e.as_mcall = Node('mcall', e.line, recv=e.args[0], name=e.f.path[-1], args=e.args[1:])
        e.as_mcall.recv, e.as_mcall.args = e.args[0], e.args[1:]
        return e.as_mcall

    def subst_self(self, t, s):
        if t is SELF: return s
        if isinstance(t, tuple) and t[0] in ('list', 'opt', 'res', 'iter'):
            return (t[0],) + tuple(self.subst_self(x, s) for x in t[1:])
        if isinstance(t, tuple) and t[0] == 'tuple':
            return ('tuple', tuple(self.subst_self(x, s) for x in t[1]))
        return t

    def sig_via_api(self, sig):
        return sig.mod != self.modname and sig.mod in ABSTRACT_MODULES

    def sig_effectful(self, sig):
        return self.sig_via_api(sig) or sig.key in self.G.effectful

    def user_call_expr(self, sig, recv, e):
        if sig.muts or sig.self_kind == 'mut': self.bad(f'call of `{sig.lean}` (which has `&mut` parameters) inside an expression', e.line)
        if sig.ret is None: self.bad(f'call of `{sig.lean}` (no result) inside an expression', e.line)
        text, _ = self.user_call_text(sig, recv, e)
        return (text, sig.ret, False)

    def user_call_text(self, sig, recv, e):
        """-> (application text, [variable for each &mut argument, the process state first])"""
        if sig.key in self.G.omitted and not self.sig_via_api(sig):
            raise Omitted(f'calls `{sig.lean}`, which is left out ({self.G.omitted[sig.key]})')
        if len(e.args) != len(sig.params): self.bad(f'`{sig.lean}` called with {len(e.args)} arguments', e.line)
        args, outs = [], []
        if self.sig_via_api(sig):
            if sig.owner is not None: self.bad(f'`{sig.lean}`: only free functions of another module can be called', e.line)
            head_ = f'{self.need_api(sig.mod, sig.name, e.line)}.{lname(sig.name)}'
        else:
            self.calls.add(sig.key)
            head_ = sig.lean
            for m in sorted(self.G.needs_api.get(sig.key, ())):
                if m not in self.G.needs_api.get(self.sig.key, set()):
                    self.G.needs_api.setdefault(self.sig.key, set()).add(m)
                    raise Restart()
                args.append(m if m in RECORDS else f'{m}_api')
        if self.sig_effectful(sig):
            v = self.need_sys(e.line)
            outs.append(v); args.append(SYS_NAME)
        if recv is not None:
            if sig.self_kind == 'mut':
                v = self.mutable_var(recv, f'receiver of `{sig.lean}`')
                outs.append(v); args.append(lname(v.name))
            else:
                args.append(self.paren(self.expr(recv)))
        for a, (pn, pt, mut) in zip(e.args, sig.params):
            if mut:
                if a.kind != 'ref' or not a.mut: self.bad(f'argument `{pn}` of `{sig.lean}`: `&mut` expected', a.line)
                v = self.mutable_var(a.e, f'argument `{pn}` of `{sig.lean}`')
                self.unify(v.ty, pt, a.line, f'argument `{pn}` of `{sig.lean}`')
                if v in outs: self.bad(f'`{v.name}` borrowed mutably twice in one call', a.line)
                outs.append(v); args.append(lname(v.name))
            else:
                args.append(self.paren(self.expr(a, pt)))
        return ' '.join([head_] + args), outs

    def unwrap_site(self, e, what):
        if self.G.final:
            src = self.mod.src_lines[e.line - 1].strip() if 1 <= e.line <= len(self.mod.src_lines) else ''
            self.G.unwraps.append(f'{self.sig.lean if self.sig else "const"} ({self.mod.label.rsplit("/", 1)[-1]} line {e.line}) {what}: `{src}`')

    def mcall_expr(self, e, exp):
        name, args, G = e.name, e.args, self.G
        narg = len(args)

        def arity(n):
            if narg != n: self.bad(f'`.{name}` with {narg} arguments', e.line)

        if name == 'find' and e.recv.kind == 'mcall' and e.recv.name == 'iter' and not e.recv.args:
            arity(1)
            l = self.expr(e.recv.recv)
            if head(l[1]) != 'list': self.bad(f'`.iter()` on a value of type {show_type(l[1])}', e.line)
            elem = resolve(l[1])[1]
            clo, rty = self.closure(args[0], [elem], '`.find`')
            if resolve(rty) != 'bool': self.bad('`.find` with a non-boolean closure', e.line)
            return (f'List.find? {clo} {self.paren(l)}', ('opt', elem), False)
        rexp = None
        if name in ('unwrap', 'expect') and exp is not None and strip_paren(e.recv).kind == 'mcall' and strip_paren(e.recv).name == 'try_into':
            if not hasattr(e, 'tv_e0'): e.tv_e0 = TVar()
            rexp = ('res', exp, e.tv_e0)
        if name == 'map_err' and exp is not None and head(exp) == 'res':
            if not hasattr(e, 'tv_e0'): e.tv_e0 = TVar()
            rexp = ('res', resolve(exp)[1], e.tv_e0)
        recv = self.expr(e.recv, rexp) if rexp is not None else self.expr(e.recv)
        rt = resolve(recv[1])
        h = head(rt)
        if isinstance(rt, TVar): self.bad(f'method `.{name}` on a value whose type is not known', e.line)
        ident = (recv[0], rt, recv[2])
        if name == 'try_into':
            arity(0)
            tgt = self.node_tv(e)
            if not hasattr(e, 'tv_err'): e.tv_err = TVar()
            if exp is not None and head(exp) == 'res': self.unify(tgt, resolve(exp)[1], e.line, '`.try_into()`')
            t = resolve(tgt)
            if isinstance(t, TVar):
                if G.final: self.bad('cannot determine the target type of `.try_into()`', e.line)
                return ('default', ('res', tgt, e.tv_err), True)
            if head(t) == 'adt' and not isinstance(t[1], str):
                key = (t[1], rt[1] if head(rt) == 'adt' else rt)
                if key in EXTERN_TRY_FROM:
                    rty, lean = EXTERN_TRY_FROM[key]
                    self.unify(e.tv_err, rty[2], e.line, '`.try_into()`')
                    return (f'{lean} {self.paren(recv)}', rty, False)
            if h == 'list' and head(t) == 'list':
                # Vec<T> -> [T; n]: arrays are lists; the length check is NOT modelled (faithful where the length is right)
                self.unify(rt, t, e.line, '`.try_into()`')
                self.unify(e.tv_err, rt, e.line, '`.try_into()`')
                self.unwrap_site(e, '`.try_into()` from a Vec to an array: length check not modelled')
                return (f'RsCli.vec_try_into_array {self.paren(recv)}', ('res', t, rt), False)
            self.bad(f'`.try_into()` from {show_type(rt)} to {show_type(t)}', e.line)
        if name == 'into':
            arity(0)
            tgt = self.node_tv(e)
            if exp is not None: self.unify(tgt, exp, e.line, '`.into()`')
            t = resolve(tgt)
            if isinstance(t, TVar):
                if G.final: self.bad('cannot determine the target type of `.into()`', e.line)
                return (recv[0], tgt, recv[2])
            if t == rt and (t == 'str' or h == 'list'): return ident     # &str -> String, &[T] / Vec<T> -> Vec<T>
            self.bad(f'`.into()` from {show_type(rt)} to {show_type(t)}', e.line)
        if name == 'to_string' and h == 'adt' and rt[1] in EXTERN_TYPES and EXTERN_TYPES[rt[1]].get('display'):
            arity(0)
            return (f'{EXTERN_TYPES[rt[1]]["display"]} {self.paren(recv)}', 'str', False)
        if rt == 'str':
            if name in ('as_str', 'to_string', 'to_owned', 'clone', 'as_ref'): arity(0); return ident
            if name == 'trim': arity(0); return (f'RsStr.trim {self.paren(recv)}', 'str', False)
            if name == 'is_empty': arity(0); return (f'RsStr.is_empty {self.paren(recv)}', 'bool', False)
            if name == 'len': arity(0); return (f'RsStr.len {self.paren(recv)}', 'usize', False)
            if name == 'as_bytes': arity(0); return (f'RsCli.str_as_bytes {self.paren(recv)}', BYTES, False)
            if name == 'to_path_buf': arity(0); return ident
            if name == 'file_name': arity(0); return (f'RsCli.Path.file_name {self.paren(recv)}', ('opt', T_OSSTR), False)
        elif h == 'list':
            if name in ('as_slice', 'to_vec', 'clone', 'as_ref', 'to_owned'): arity(0); return ident
            if name == 'len': arity(0); return (f'{self.paren(recv)}.length', 'usize', False)
            if name == 'is_empty': arity(0); return (f'{self.paren(recv)}.isEmpty', 'bool', False)
            if name == 'iter': arity(0); return (recv[0], ('iter', rt[1]), recv[2])
            if name == 'get' and narg == 1 and strip_paren(args[0]).kind == 'range':
                # `a.get(lo..hi)`: the sub-slice if the range lies inside `a`
                rng = strip_paren(args[0])
                lo, hi = self.slice_bounds(rng)
                base = self.paren(recv)
                if lo is None and hi is None: return (f'some {base}', ('opt', rt), False)
                if hi is None: cond, val = f'{self.paren(lo)} ≤ {base}.length', f'{base}.drop {self.paren(lo)}'
                elif lo is None: cond, val = f'{self.paren(hi)} ≤ {base}.length', f'{base}.take {self.paren(hi)}'
                else:
                    cond = f'{self.paren(lo)} ≤ {self.paren(hi)} ∧ {self.paren(hi)} ≤ {base}.length'
                    val = f'({base}.drop {self.paren(lo)}).take ({self.paren(hi)} - {self.paren(lo)})'
                return (f'if {cond} then some ({val}) else none', ('opt', rt), False)
            if name == 'contains':
                arity(1)
                a = self.expr(args[0], rt[1])
                et = resolve(rt[1])
                if not (is_int(et) or et in ('str', 'char', 'bool')): self.bad(f'`.contains` on a slice of {show_type(et)}', e.line)
                return (f'List.contains {self.paren(recv)} {self.paren(a)}', 'bool', False)
        elif h == 'iter':
            if name == 'map':
                arity(1)
                clo, rty = self.closure(args[0], [rt[1]], '`.map`')
                return (f'List.map {clo} {self.paren(recv)}', ('iter', rty), False)
            if name == 'collect' and narg == 0 and head(rt[1]) == 'res' and (exp is None or head(exp) == 'res' or isinstance(resolve(exp), TVar)):
                # an iterator of Results into `Result<Vec<_>, _>`: the first error, or all the values
                et = resolve(rt[1])
                return (f'RsCli.collect_results {self.paren(recv)}', ('res', ('list', et[1]), et[2]), False)
            if name == 'collect':
                arity(0)
                if exp is not None and head(exp) not in ('list', None) and not isinstance(resolve(exp), TVar):
                    self.bad(f'`.collect()` into {show_type(exp)} (only into a Vec)', e.line)
                return (recv[0], ('list', rt[1]), recv[2])
        elif h == 'opt':
            if name == 'as_ref': arity(0); return ident
            if name == 'as_deref': arity(0); return ident
            if name == 'as_mut': arity(0); return ident
            if name == 'is_some': arity(0); return (f'{self.paren(recv)}.isSome', 'bool', False)
            if name == 'is_none': arity(0); return (f'{self.paren(recv)}.isNone', 'bool', False)
            if name in ('unwrap', 'expect'):
                arity(0 if name == 'unwrap' else 1)
                self.unwrap_site(e, f'`.{name}` of an Option')
                return (f'RsStr.unwrap_opt {self.paren(recv)}', rt[1], False)
            if name == 'map':
                arity(1)
                clo, rty = self.closure(args[0], [rt[1]], '`.map`')
                return (f'Option.map {clo} {self.paren(recv)}', ('opt', rty), False)
            if name == 'ok_or_else':
                arity(1)
                clo, ety = self.closure(args[0], [], '`.ok_or_else`')
                return (f'RsCli.ok_or_else {self.paren(recv)} {clo}', ('res', rt[1], ety), False)
            if name == 'and_then':
                arity(1)
                clo, rty = self.closure(args[0], [rt[1]], '`.and_then`')
                if head(rty) != 'opt': self.bad('`.and_then` with a closure that does not return an Option', e.line)
                return (f'Option.bind {self.paren(recv)} {clo}', rty, False)
            if name == 'unwrap_or':
                arity(1)
                a = self.expr(args[0], rt[1])
                return (f'Option.getD {self.paren(recv)} {self.paren(a)}', rt[1], False)
        elif h == 'res':
            if name in ('unwrap', 'expect'):
                arity(0 if name == 'unwrap' else 1)
                self.unwrap_site(e, f'`.{name}` of a Result')
                if exp is not None: self.unify(rt[1], exp, e.line, f'`.{name}`')
                return (f'RsStr.unwrap_res {self.paren(recv)}', rt[1], False)
            if name == 'map_err':
                arity(1)
                clo, ety = self.closure(args[0], [rt[2]], '`.map_err`')
                return (f'RsStr.map_err {self.paren(recv)} {clo}', ('res', rt[1], ety), False)
            if name == 'map':
                arity(1)
                clo, vty = self.closure(args[0], [rt[1]], '`.map`')
                return (f'Except.map {clo} {self.paren(recv)}', ('res', vty, rt[2]), False)
            if name in ('is_ok', 'is_err'):
                arity(0); return (f'{self.paren(recv)}.isOk' if name == 'is_ok' else f'!{self.paren(recv)}.isOk', 'bool', False)
        elif h == 'adt':
            if isinstance(rt[1], str):
                st = G.structs.get(rt[1]) or G.enums.get(rt[1])
                sig = G.fns.get((st.mod, st.name, name))
                if sig is not None and sig.self_kind is not None:
                    if self.sig_effectful(sig): self.bad(f'internal error: call of `{sig.lean}` (which has effects) not lifted out of an expression', e.line)
                    return self.user_call_expr(sig, e.recv, e)
                if name in ('clone', 'to_owned'): arity(0); return ident
                d = self.deref_sig(rt)
                if d is not None:
                    self.calls.add(d.key)
                    if not hasattr(e, 'dcopy'):
                        e.dcopy = Node('mcall', e.line, recv=Node('lean', e.line, text=None, ty=None), name=name, args=args)
                    e.dcopy.recv.text, e.dcopy.recv.ty = f'({d.lean} {self.paren(recv)})', d.ret
                    return self.mcall_expr(e.dcopy, exp)
            elif rt[1] in EXTERN_TYPES and name in EXTERN_TYPES[rt[1]].get('methods', {}):
                m = EXTERN_TYPES[rt[1]]['methods'][name]
                if m == 'identity': arity(0); return ident
                if len(m) > 3 and m[3] == 'effect': self.bad(f'internal error: call of `.{name}` (which has effects) not lifted out of an expression', e.line)
                ptys, rty, lean = m[:3]
                arity(len(ptys))
                a = [self.paren(self.expr(x, t)) for x, t in zip(args, ptys)]
                return (' '.join([lean, self.paren(recv)] + a), self.subst_self(rty, rt), False)
        if name in MUTATING_METHODS or (h == 'adt' and rt[1] in EXTERN_TYPES and name in EXTERN_TYPES[rt[1]].get('mut_methods', {})):
            self.bad(f'`.{name}` (which changes its receiver) used as an expression', e.line)
        self.bad(f'method `.{name}` on a value of type {show_type(rt)}', e.line)

    # ---- effects: calls that read or change the process state, and `?`, are lifted out of expressions
    def classify_call(self, e):
        """for a `call` node -> ('fn', sig) | ('extern-fn', full, spec) | ('assoc', full, entry) | ('exit',) | None"""
        if e.kind != 'call' or e.f.kind != 'path': return None
        path = e.f.path
        if len(path) == 1 and (self.lookup_opt(path[0]) is not None or path[0] in ('Some', 'Ok', 'Err')): return None
        if path[0] in ('Vec', 'String', 'Box'): return None
        try:
            it = self.user_item(path, e.line)
        except Unsupported:
            return None
        if it[0] == 'fn': return it
        if it[0] == 'extern':
            full = it[1]
            if full == PROCESS_EXIT: return ('exit',)
            if full in EXTERN_FNS and EXTERN_FNS[full] != 'identity': return ('extern-fn', full, EXTERN_FNS[full])
            tspec = EXTERN_TYPES.get(full[:-1])
            if tspec is not None and full[-1] in tspec.get('assoc', {}): return ('assoc', full, tspec['assoc'][full[-1]])
        return None

    def effect_like(self, n):
        """syntactic over-approximation of `n itself is a call with effects` (no types needed)"""
        if n.kind == 'macro': return n.name in PRINT_MACROS
        if n.kind == 'call':
            c = self.classify_call(n)
            if c is None: return False
            if c[0] == 'fn': return self.sig_effectful(c[1])
            if c[0] == 'exit': return True
            if c[0] == 'extern-fn': return bool(c[2].get('effect'))
            if c[0] == 'assoc': return len(c[2]) > 3 and c[2][3] == 'effect'
        if n.kind == 'mcall':
            if n.name in self.G.effect_method_names: return True
            for key in self.G.effectful:
                if key[2] == n.name and key[1] is not None and not key[1].startswith('fn:'): return True
        return False

    def find_effect_like(self, x):
        found = []
        walk(x, lambda n: found.append(n) if self.effect_like(n) else None)
        return found[0] if found else None

    def liftable(self, x):
        found = []
        walk(x, lambda n: found.append(n) if (n.kind == 'try' or self.effect_like(n)) else None)
        return found[0] if found else None

    def effect_call(self, n):
        """`n`: a call node whose operands are already free of effects.
           -> None if it has no effects, else (Lean text, [variables it rebinds, process state first], result type or None)"""
        if n.kind == 'macro' and n.name in PRINT_MACROS:
            lean, suffix = PRINT_MACROS[n.name]
            if not n.args:
                text = f'{lean_str(suffix)}.toList' if suffix else '([] : Str)'
            else:
                fmt, args = self.fmt_args(n)
                text, _ = self.format_text(fmt, args, n.line, suffix)
            v = self.need_sys(n.line)
            return (f'{lean} {SYS_NAME} ({text})', [v], None)
        if n.kind == 'call':
            c = self.classify_call(n)
            if c is None: return None
            if c[0] == 'fn':
                sig = c[1]
                if not self.sig_effectful(sig) and not sig.muts: return None
                if sig.self_kind is not None: self.bad(f'method `{sig.lean}` called as an associated function', n.line)
                text, outs = self.user_call_text(sig, None, n)
                return (text, outs, sig.ret)
            if c[0] == 'exit': self.bad('`std::process::exit` other than as the last statement of a block of the entry point `main`', n.line)
            if c[0] in ('extern-fn', 'assoc'):
                if c[0] == 'extern-fn':
                    spec = c[2]
                    if not spec.get('effect'): return None
                    ptys, rty, lean = spec['params'], spec['ret'], spec['lean']
                else:
                    if not (len(c[2]) > 3 and c[2][3] == 'effect'): return None
                    ptys, rty, lean = c[2][:3]
                    rty = self.subst_self(rty, ('adt', c[1][:-1]))
                if len(n.args) != len(ptys): self.bad(f'`{"::".join(c[1])}` with {len(n.args)} arguments', n.line)
                if c[0] == 'extern-fn' and c[2].get('record'):
                    lean = f'{self.need_api(c[2]["record"], None, n.line)}.{lean}'
                v = self.need_sys(n.line)
                outs, args = [v], []
                for a, t in zip(n.args, ptys):
                    if isinstance(t, tuple) and t[0] == 'mut':
                        if a.kind != 'ref' or not a.mut: self.bad(f'argument of `{"::".join(c[1])}`: `&mut` expected', a.line)
                        mv = self.mutable_var(a.e, f'argument of `{"::".join(c[1])}`')
                        self.unify(mv.ty, t[1], a.line, f'argument of `{"::".join(c[1])}`')
                        if mv in outs: self.bad(f'`{mv.name}` borrowed mutably twice in one call', a.line)
                        outs.append(mv); args.append(lname(mv.name))
                    else:
                        args.append(self.paren(self.expr(a, t)))
                return (' '.join([lean, SYS_NAME] + args), outs, rty)
        if n.kind == 'mcall':
            if n.name == 'find' and n.recv.kind == 'mcall': return None
            recv = self.expr(n.recv)
            rt = resolve(recv[1])
            if rt == 'str' and n.name in STR_EFFECT_METHODS:
                ptys, rty, lean = STR_EFFECT_METHODS[n.name]
                if len(n.args) != len(ptys): self.bad(f'`.{n.name}` with {len(n.args)} arguments', n.line)
                v = self.need_sys(n.line)
                args = [self.paren(self.expr(a, t)) for a, t in zip(n.args, ptys)]
                return (' '.join([lean, SYS_NAME, self.paren(recv)] + args), [v], rty)
            if head(rt) != 'adt': return None
            if isinstance(rt[1], str):
                st = self.G.structs.get(rt[1]) or self.G.enums.get(rt[1])
                sig = self.G.fns.get((st.mod, st.name, n.name))
                if sig is None or sig.self_kind is None: return None
                if not self.sig_effectful(sig) and not sig.muts and sig.self_kind != 'mut': return None
                text, outs = self.user_call_text(sig, n.recv, n)
                return (text, outs, sig.ret)
            if rt[1] in DYN_TRAITS and (n.name in DYN_TRAITS[rt[1]].get('methods', {}) or n.name in DYN_TRAITS[rt[1]].get('provided', {})):
                # a method of the trait on a `Box<dyn Trait>`: dispatched over the implementing types (`<sum>.<method>`)
                d = DYN_TRAITS[rt[1]]
                if not d['generated']: self.bad(f'method `.{n.name}` on a `dyn {"::".join(rt[1])}`', n.line)
                ptys, rty = (d['methods'].get(n.name) or d['provided'][n.name])[:2]
                if len(n.args) != len(ptys): self.bad(f'`.{n.name}` with {len(n.args)} arguments', n.line)
                v = self.need_sys(n.line)
                rv = self.mutable_var(n.recv, f'receiver of `.{n.name}`')
                args = [self.paren(self.expr(a, t)) for a, t in zip(n.args, ptys)]
                self.dyn_used.add(rt[1])
                for q in self.G.dyn_user_impls.get(rt[1], []):
                    st = self.G.structs[q]
                    for mname in d['methods']:
                        key = (st.mod, st.name, mname)
                        if key in self.G.omitted: raise Omitted(f'needs `{q}::{mname}`, which is left out')
                        if key in self.G.fns: self.calls.add(key)
                return (' '.join([f'{d["lean"]}.{n.name}', SYS_NAME, lname(rv.name)] + args), [v, rv], rty)
            spec = EXTERN_TYPES.get(rt[1], {})
            m = spec.get('methods', {}).get(n.name)
            if m is not None and m != 'identity' and len(m) > 3 and m[3] == 'effect':
                ptys, rty, lean = m[:3]
                if len(n.args) != len(ptys): self.bad(f'`.{n.name}` with {len(n.args)} arguments', n.line)
                v = self.need_sys(n.line)
                outs, args = [v], []
                for a, t in zip(n.args, ptys):
                    if isinstance(t, tuple) and t[0] == 'mut':
                        if a.kind != 'ref' or not a.mut: self.bad(f'argument of `.{n.name}`: `&mut` expected', a.line)
                        mv = self.mutable_var(a.e, f'argument of `.{n.name}`')
                        self.unify(mv.ty, t[1], a.line, f'argument of `.{n.name}`')
                        outs.append(mv); args.append(lname(mv.name))
                    else:
                        args.append(self.paren(self.expr(a, t)))
                return (' '.join([lean, SYS_NAME, self.paren(recv)] + args), outs, self.subst_self(rty, rt))
        return None

    def tuple_pat(self, names):
        if not names: return '_'
        return names[0] if len(names) == 1 else '(' + ', '.join(names) + ')'

    def hoist(self, e, top=None, exp=None):
        """lift every `?` and every call with effects out of `e`, in evaluation order (operands before the operation,
           left to right).  -> (lines, e', bound): `lines` bind temporaries; if `top = (name, mutable, annotation)` and the
           outermost operation of `e` was lifted, its value is bound to `name` directly and `bound` is True."""
        lines = []
        e = strip_paren(e)

        def bind_result(node, ty, is_top):
            """declare the variable receiving a lifted value -> (Var, path node)"""
            if is_top and top is not None:
                name, mutable, ann = top
                if ann is not None: ty = self.unify(ty, ann, node.line, f'`let {name}`')
                v = self.declare(name, ty, mutable, 'local', node.line)
            else:
                v = self.fresh(ty, node.line)
            if not hasattr(node, 'hpath'): node.hpath = Node('path', node.line, path=[v.name], generics=None)
            node.hpath.path = [v.name]
            return v, node.hpath

        def copy(node, **repl):
            if not hasattr(node, 'hcopy'):
                node.hcopy = Node(node.kind, node.line, **{k: v for k, v in node.__dict__.items() if k not in ('kind', 'line', 'hcopy', 'hpath')})
            for k, v in repl.items(): setattr(node.hcopy, k, v)
            return node.hcopy

        def h(n, is_top=False):
            k = n.kind
            if k in ('lit', 'str', 'char', 'bool', 'unit', 'path'): return n
            if k == 'paren': return h(n.e, is_top)
            if k == 'closure':
                if self.liftable(n.body) or has_effects(n.body): self.bad('`?` or a call with effects inside a closure', n.line)
                return n
            if k in ('match', 'if', 'loop'):
                if self.liftable(n) or has_effects(n):
                    self.bad(f'`{k}` that contains `?`, `return` or a call with effects, nested in another expression', n.line)
                return n
            if k == 'assign': self.bad('assignment used as an expression', n.line)
            if k == 'bin' and n.op in ('&&', '||'):
                l = h(n.l)
                if self.liftable(n.r): self.bad(f'`?` or a call with effects on the right of `{n.op}`', n.line)
                return copy(n, l=l)
            if k == 'try':
                inner = h(n.e)
                want = None
                if is_top:
                    goal = top[2] if (top is not None and top[2] is not None) else exp
                    if goal is not None:
                        if not hasattr(n, 'tv_err'): n.tv_err = TVar()
                        want = ('res', goal, n.tv_err)
                r = self.expr(inner, want) if want is not None else self.expr(inner)
                ptext, ty = self.propagate(r, n.line)
                v, pnode = bind_result(n, ty, is_top)
                lines.append(f'Flow.bind ({ptext}) fun {self.binder(v.name, v.ty, n.line)} =>')
                return pnode
            repl = {}
            for attr in ('e', 'l', 'r', 'ix', 'recv', 'elem', 'count', 'lo', 'hi'):
                if attr in n.__dict__ and isinstance(n.__dict__[attr], Node): repl[attr] = h(n.__dict__[attr])
            for attr in ('args', 'parts', 'elems'):
                if attr in n.__dict__ and isinstance(n.__dict__[attr], list): repl[attr] = [h(a) for a in n.__dict__[attr]]
            if k == 'structlit': repl['fields'] = [(fname, h(fe)) for fname, fe in n.fields]
            if k == 'ref' and n.mut: repl = {}          # `&mut x`: the place, not a value
            m = copy(n, **repl) if repl else n
            if k in ('call', 'mcall', 'macro'):
                eff = self.effect_call(m)
                if eff is not None:
                    text, outs, rty = eff
                    names = [lname(v.name) for v in outs]
                    if rty is None:
                        lines.append(f'let {self.tuple_pat(names)} := {text}')
                        if not hasattr(n, 'hunit'): n.hunit = Node('unit', n.line)
                        return n.hunit
                    v, pnode = bind_result(n, rty, is_top)
                    lines.append(f'let {self.tuple_pat(names + [lname(v.name)])} := {text}')
                    return pnode
            return m

        self._top_bound = False
        before = self.lookup_opt(top[0]) if top is not None else None
        e2 = h(e, True)
        bound = top is not None and e2.kind == 'path' and hasattr(e, 'hpath') and e2 is e.hpath and e2.path == [top[0]] \
            and self.lookup_opt(top[0]) is not before
        return lines, e2, bound

    # ---- statements.  Every block becomes ONE expression: `seq` translates the first statement and nests the rest.
    def comment(self, line):
        if line != self.last_comment_line and 1 <= line <= len(self.mod.src_lines):
            self.last_comment_line = line
            return [f'-- {line}: {self.mod.src_lines[line - 1].strip()}']
        return []

    def state_text(self, vars_):
        names = [lname(v.name) for v in vars_]
        if not names: return '()', '_'
        if len(names) == 1: return names[0], names[0]
        t = '(' + ', '.join(names) + ')'
        return t, t

    def val(self, ctx, text):
        if not ctx.flow: return text
        return 'Flow.next ' + atom(text)

    def assigned_outer(self, nodes):
        """the variables declared outside `nodes` (statements / expressions / blocks) that they assign, mutate or, for the
           process state, may change (declaration order)"""
        found = {}

        def note(name, line, local):
            if name in local: return
            v = self.lookup_opt(name)
            if v is None or not v.mutable: return
            found[v.order] = v

        def place_name(e):
            while e.kind in ('ref', 'paren', 'index', 'field') or (e.kind == 'unary' and e.op == '*'): e = e.e
            if e.kind == 'path' and len(e.path) == 1: return e.path[0]
            return None

        def pat_names(p, acc):
            if p.kind == 'pid': acc.add(p.name)
            elif p.kind == 'pref': pat_names(p.p, acc)
            elif p.kind in ('ptuple', 'pctor', 'pslice'):
                for s in (p.subs or []): pat_names(s, acc)
            elif p.kind == 'por':
                for s in p.alts: pat_names(s, acc)
            return acc

        def scan(x, local):
            if isinstance(x, (list, tuple)):
                for y in x: scan(y, local)
                return
            if not isinstance(x, Node): return
            k = x.kind
            if k in ('closure', 'fn'): return
            if self.effect_like(x):
                if self.sysvar is not None: found[self.sysvar.order] = self.sysvar
                else: self.need_sys(x.line)
            if k == 'block':
                loc = set(local)
                for s in x.stmts: scan(s, loc)
                if x.tail is not None: scan(x.tail, loc)
                return
            if k == 'let':
                scan(x.init, local)
                for n_ in ([x.name] if x.binds is None else [b[0] for b in x.binds]): local.add(n_)
                return
            if k == 'for':
                scan(x.iter, local)
                scan(x.body, local | ({x.pat} if x.pat != '_' else set())); return
            if k == 'match':
                scan(x.scrut, local)
                for arm in x.arms: scan(arm.body, pat_names(arm.pat, set(local)))
                return
            if k == 'assign':
                nm = place_name(x.place)
                if nm is not None: note(nm, x.line, local)
                scan(x.e, local); return
            if k == 'mcall' and (x.name in MUTATING_METHODS or x.name in self.G.mut_method_names):
                nm = place_name(x.recv)
                if nm is not None: note(nm, x.line, local)
            if k in ('call', 'mcall'):
                for a in x.args:
                    if a.kind == 'ref' and a.mut:
                        nm = place_name(a.e)
                        if nm is not None: note(nm, a.line, local)
            for kk, v in x.__dict__.items():
                if kk in ('kind', 'line', 'tv', 'fns', 'raw', 'lit', 'hcopy', 'hpath', 'hunit', 'pat'): continue
                scan(v, local)

        scan(nodes, set())
        return [found[k] for k in sorted(found)]

    def ret_pack(self, text, line):
        """the function's result: the values of the `&mut` parameters (process state first), then the Rust result"""
        muts = [lname(v.name) for v in self.mut_vars]
        for v in self.mut_vars:
            if self.lookup_opt(v.name) is not v: self.bad(f'`{v.name}` is shadowed where the function returns', line)
        parts = muts + ([text] if text is not None else [])
        if not parts: self.bad('function without result and without effects', line)
        return parts[0] if len(parts) == 1 else '(' + ', '.join(parts) + ')'

    def err_wrap(self, conv=None):
        muts = [lname(v.name) for v in self.mut_vars]
        inner = "Except.error err'" if conv is None else f"Except.error ({conv} err')"
        return "(fun err' => " + (inner if not muts else '(' + ', '.join(muts + [inner]) + ')') + ')'

    def propagate(self, r, line):
        """`r?` -> (lean text of type Flow _ _ T, T)"""
        rt = resolve(r[1])
        if head(rt) != 'res': self.bad(f'`?` on a value of type {show_type(rt)} (only on Result)', line)
        fr = resolve(self.ret) if self.ret is not None else None
        if head(fr) != 'res': self.bad('`?` in a function that does not return a Result', line)
        for v in self.mut_vars:
            if self.lookup_opt(v.name) is not v: self.bad(f'`{v.name}` is shadowed at a `?`', line)
        src, dst = resolve(rt[2]), resolve(fr[2])
        conv = None
        if dst == T_ANYERR and src != T_ANYERR and not isinstance(src, TVar):
            key = src[1] if head(src) == 'adt' else src
            if key not in ANYHOW_FROM: self.bad(f'`?` converting an error of type {show_type(src)} into anyhow::Error (no glue)', line)
            conv = ANYHOW_FROM[key]
        else:
            self.unify(rt[2], fr[2], line, 'error type at `?` (conversions with `From` are supported only into anyhow::Error)')
        return (f'Flow.propagate {self.paren(r)} {self.err_wrap(conv)}', rt[1])

    def seq(self, stmts, fin, ctx):
        if not stmts: return fin()
        s, rest = stmts[0], stmts[1:]
        out = self.comment(s.line)
        nxt = lambda: self.seq(rest, fin, ctx)
        k = s.kind
        if k == 'let': return out + self.let_stmt(s, nxt, ctx)
        if k == 'for': return out + self.for_stmt(s, nxt, ctx)
        if k == 'return':
            if rest: self.bad('statements after `return`', rest[0].line)
            return out + self.return_lines(s.e, s.line, ctx)
        if k == 'continue':
            if rest: self.bad('statements after `continue`', rest[0].line)
            if ctx.loop_state is None: self.bad('`continue` outside a loop', s.line)
            if ctx.loop is not None: return out + [f'Flow.cont (Sum.inl {atom(ctx.loop_state)})']
            return out + ['Flow.cont ' + ctx.loop_state]
        if k == 'break':
            if rest: self.bad('statements after `break`', rest[0].line)
            if ctx.loop_state is None or ctx.loop is None: self.bad('`break` outside a `loop`', s.line)
            names = [lname(v.name) for v in ctx.loop['V']]
            if s.e is None:
                self.unify(ctx.loop['vty'], 'unit', s.line, '`break` without a value')
                return out + [f'Flow.cont (Sum.inr {self.tuple_pat(names + ["()"])})']
            return out + self.with_value(s.e, ctx.loop['vty'], ctx, lambda r: [f'Flow.cont (Sum.inr {self.tuple_pat(names + [r[0]])})'])
        if k == 'expr':
            e = strip_paren(s.e)
            if e.kind in ('if', 'match'): return out + self.bind_branch(e, ctx, 'stmt', None, None, nxt)
            if e.kind == 'loop': return out + self.loop_lines(e, ctx, None, None, nxt, None)
            if self.is_exit_call(e):
                if rest: self.bad('statements after `std::process::exit`', rest[0].line)
                return out + self.exit_lines(e, ctx)
            return out + self.expr_stmt(e, s.line, nxt, ctx)
        self.bad(f'statement {k}', s.line)

    def is_exit_call(self, e):
        return e.kind == 'call' and self.classify_call(e) == ('exit',)

    def exit_lines(self, e, ctx):
        if not self.is_entry: self.bad('`std::process::exit` outside the entry point `fn main()` of the crate root', e.line)
        if len(e.args) != 1: self.bad('`std::process::exit` arity', e.line)
        pre, a, _ = self.hoist(e.args[0])
        r = self.expr(a, 'i32')
        self.need_sys(e.line)
        if not ctx.flow: self.bad('internal error: `exit` outside a flow context', e.line)
        return pre + [f'let {SYS_NAME} := {PROCESS_EXIT_LEAN} {SYS_NAME} {self.paren(r)}', 'Flow.ret ' + atom(self.ret_pack(None, e.line))]

    def return_lines(self, e, line, ctx):
        if e is None:
            if self.ret not in (None, 'unit'): self.bad('`return` without a value', line)
            return ['Flow.ret ' + atom(self.ret_pack('()' if self.ret == 'unit' else None, line))]
        if self.ret is None: self.bad('value returned from a function without result type', line)
        return self.with_value(e, self.ret, ctx, lambda r: ['Flow.ret ' + atom(self.ret_pack(r[0], line))])

    def with_value(self, e, exp, ctx, k, top=None):
        """lines that compute `e` (binding temporaries for lifted operations) followed by k((text, type, atomic)).
           With `top = (name, mutable, annotation)` the caller wants the value in a variable of that name: if the outermost
           operation is lifted (or is an `if` / `match`) it is bound there directly and k receives None."""
        e = strip_paren(e)
        if e.kind in ('if', 'match'):
            if top is not None:
                return self.bind_branch(e, ctx, 'value', top[2] if top[2] is not None else exp, top, lambda: k(None))
            holder = []
            return self.bind_branch(e, ctx, 'value', exp, None, lambda: k(holder[0]), holder)
        if e.kind == 'loop':
            if top is not None:
                return self.loop_lines(e, ctx, top[2] if top[2] is not None else exp, top, lambda: k(None), None)
            holder = []
            return self.loop_lines(e, ctx, exp, None, lambda: k(holder[0]), holder)
        pre, e2, bound = self.hoist(e, top, exp)
        if bound: return pre + k(None)
        r = self.expr(e2, exp)
        return pre + k(r)

    def block_stmts(self, block, what):
        """the statements of a block used for its effects only: a final expression without `;` becomes a statement"""
        if block.fns: self.bad('nested `fn` inside a branch', block.fns[0].line)
        stmts = list(block.stmts)
        if block.tail is not None:
            stmts.append(Node('expr', block.tail.line, e=block.tail, was_tail=True))
        return stmts

    def binder(self, name, ty, line):
        a = self.asc(ty, line, f'`{name}`')
        return f'({lname(name)}{a})' if a else lname(name)

    def let_stmt(self, s, nxt, ctx):
        ann = self.norm(s.ty, s.line) if s.ty is not None else None
        if s.binds is not None:
            # `let (a, b) = init;`: the value, then one destructuring `let`
            if not hasattr(s, 'tvs'): s.tvs = [TVar() for _ in s.binds]
            tty = ('tuple', tuple(s.tvs))
            if ann is not None: self.unify(tty, ann, s.line, 'tuple pattern in `let`')

            def kt(r):
                self.unify(r[1], tty, s.line, 'tuple pattern in `let`')
                names = []
                for (bn, bm), bt in zip(s.binds, s.tvs):
                    if bn == '_': names.append('_')
                    else: names.append(lname(self.declare(bn, bt, bm, 'local', s.line).name))
                return [f'let ({", ".join(names)}) := {r[0]}'] + nxt()
            return self.with_value(s.init, tty, ctx, kt)
        if s.name == '_': self.bad('`let _`', s.line)

        def k(r):
            if r is None: return nxt()
            ty = r[1] if ann is None else self.unify(r[1], ann, s.line, f'`let {s.name}`')
            self.declare(s.name, ty, s.mut, 'local', s.line)
            return [f'let {lname(s.name)}{self.asc(ty, s.line, f"`{s.name}`")} := {r[0]}'] + nxt()
        return self.with_value(s.init, ann, ctx, k, (s.name, s.mut, ann))

    # ---- `if` / `match`
    def bind_branch(self, e, ctx, mode, exp, top, cont, holder=None):
        """an `if` / `match` followed by the rest of the block.  mode 'stmt': the branches are run for their effects and
           yield the tuple V of outer variables they assign; mode 'value': they yield (V…, value) and the value is bound to
           `top` (or a temporary, reported through `holder`)."""
        V = self.assigned_outer([e])
        fx = has_effects(e) or self.has_exit(e)
        sub = ctx.sub(fx)
        if mode == 'stmt' and not fx and not V:
            self.bad('`if` / `match` statement that neither assigns a variable, has effects, nor leaves the function', e.line)
        vty = None
        if mode == 'value':
            vty = self.node_tv(e)
            if exp is not None: self.unify(vty, exp, e.line, 'value of `if` / `match`')
        names = [lname(v.name) for v in V]

        def finish(r):
            if mode == 'stmt': return [self.val(sub, self.state_text(V)[0])]
            return [self.val(sub, self.tuple_pat(names + [r[0]]) if names else r[0])]
        self.tracked.append(V)
        lines = self.branch_lines(e, sub, mode, vty, finish)
        self.tracked.pop()
        if mode == 'value':
            if top is not None:
                v = self.declare(top[0], vty, top[1], 'local', e.line)
            else:
                v = self.fresh(vty, e.line)
                holder.append((lname(v.name), vty, True))
            pat = self.tuple_pat(names + [lname(v.name)]) if names else self.binder(v.name, vty, e.line)
            if not fx and not names: pat = f'{lname(v.name)}{self.asc(vty, e.line, v.name)}'
        else:
            pat = self.state_text(V)[1]
        if fx:
            return ['Flow.bind ('] + ind(lines) + [f') fun {pat} =>'] + cont()
        return [f'let {pat} := ('] + ind(lines) + [')'] + cont()

    def arm_body(self, body, sub, mode, vty, finish):
        """one branch: a block or (match arm) an expression"""
        self.scopes.append({})
        if body.kind == 'block':
            if mode == 'stmt':
                lines = self.seq(self.block_stmts(body, 'branch'), lambda: finish(None), sub)
            else:
                if body.fns: self.bad('nested `fn` inside a branch', body.fns[0].line)
                b = body

                def endv():
                    if b.tail is None:
                        self.unify(vty, 'unit', b.line, 'branch without a value')
                        return finish(('()', 'unit', True))
                    return self.comment(b.tail.line) + self.with_value(b.tail, vty, sub, finish)
                lines = self.seq(b.stmts, endv, sub)
        elif body.kind == 'if' and mode == 'stmt':
            lines = self.seq([Node('expr', body.line, e=body)], lambda: finish(None), sub)
        elif mode == 'stmt':
            if body.kind == 'unit': lines = finish(None)
            else: lines = self.seq([Node('expr', body.line, e=body, was_tail=True)], lambda: finish(None), sub)
        else:
            lines = self.with_value(body, vty, sub, finish)
        self.scopes.pop()
        return lines

    def branch_lines(self, e, sub, mode, vty, finish):
        if e.kind == 'if':
            pre, c2, _ = self.hoist(e.cond)
            c = self.expr(c2, 'bool')
            lines = pre + [f'if {c[0]} then'] + ind(self.arm_body(e.then, sub, mode, vty, finish))
            if e.els is None:
                if mode == 'value': self.unify(vty, 'unit', e.line, '`if` without `else`')
                lines += ['else'] + ind(finish(('()', 'unit', True)))
            elif e.els.kind == 'if':
                el = self.comment(e.els.line) + self.branch_lines(e.els, sub, mode, vty, finish)
                lines += ['else'] + ind(el)
            else:
                lines += ['else'] + ind(self.arm_body(e.els, sub, mode, vty, finish))
            return lines
        # match
        pre, s2, _ = self.hoist(e.scrut)
        scrut = self.expr(s2)
        st = resolve(scrut[1])
        lits = []
        walk([a.pat for a in e.arms], lambda n: lits.append(n) if n.kind == 'plit' else None)
        if lits:
            return pre + self.literal_match(e, scrut, sub, mode, vty, finish)
        lines = pre + [f'match {scrut[0]} with']
        for arm in e.arms:
            self.scopes.append({})
            pat = self.pattern(arm.pat, scrut[1])
            body = self.arm_body(arm.body, sub, mode, vty, finish)
            self.scopes.pop()
            lines += self.comment(arm.line) + [f'| {pat} =>'] + ind(body)
        return lines

    def literal_match(self, e, scrut, sub, mode, vty, finish):
        """`match s { "a" | "b" => …, "c" => …, _ => … }` on a string / integer / char: a chain of comparisons"""
        st = resolve(scrut[1])
        if not (st in ('str', 'char') or is_int(st)): self.bad(f'literal patterns for a value of type {show_type(st)}', e.line)
        lines = []
        stext = self.paren(scrut)
        if not scrut[2]:
            v = self.fresh(scrut[1], e.line)
            lines.append(f'let {lname(v.name)}{self.asc(scrut[1], e.line, "match scrutinee")} := {scrut[0]}')
            stext = lname(v.name)
        arms = list(e.arms)
        last = arms[-1]
        if last.pat.kind != 'pwild' and last.pat.kind != 'pid': self.bad('`match` on literals without a final `_` arm', e.line)
        if last.pat.kind == 'pid': self.bad('`match` on literals whose last arm binds the value', e.line)

        def lit_text(p):
            if p.kind != 'plit': self.bad('pattern other than a literal in a `match` on literals', p.line)
            t = p.lit
            if t.kind == 'str':
                self.unify(st, 'str', p.line, 'literal pattern'); return f'{lean_str(t.val)}.toList'
            if t.kind == 'char':
                self.unify(st, 'char', p.line, 'literal pattern'); return lean_char(t.val)
            if not is_int(st): self.bad('integer pattern for a non-integer', p.line)
            return str(t.val)

        def chain(i):
            arm = arms[i]
            if i == len(arms) - 1:
                return self.comment(arm.line) + self.arm_body(arm.body, sub, mode, vty, finish)
            alts = arm.pat.alts if arm.pat.kind == 'por' else [arm.pat]
            cond = ' || '.join(f'{stext} == {lit_text(p)}' for p in alts)
            body = self.arm_body(arm.body, sub, mode, vty, finish)
            return self.comment(arm.line) + [f'if {cond} then'] + ind(body) + ['else'] + ind(chain(i + 1))
        return lines + chain(0)

    def for_stmt(self, s, nxt, ctx):
        it = s.iter
        while it.kind in ('paren', 'ref'):
            if it.kind == 'ref' and it.mut: self.bad('`for … in &mut …`', s.line)
            it = it.e
        if it.kind == 'mcall' and it.name == 'lines' and not it.args:
            pre, recv2, _ = self.hoist(it.recv)
            r = self.expr(recv2)
            if resolve(r[1]) != 'str': self.bad(f'`.lines()` on a value of type {show_type(r[1])}', s.line)
            ltext, elem = f'(RsStr.lines {self.paren(r)})', 'str'
        else:
            pre, it2, _ = self.hoist(it)
            r = self.expr(it2)
            if head(r[1]) not in ('list', 'iter'): self.bad(f'`for` over a value of type {show_type(r[1])} (only slices, Vec, `.iter()`, `.lines()`)', s.line)
            ltext, elem = self.paren(r), resolve(r[1])[1]
        V = self.assigned_outer([s.body])
        fx = has_effects(s.body)
        brk = []
        walk(s.body, lambda n: brk.append(n) if n.kind == 'break' else None)
        if brk: self.bad('`break` inside a `for` loop', brk[0].line)
        vt, pat = self.state_text(V)
        if not fx and not V: self.bad('`for` loop that assigns no outer variable and never leaves', s.line)
        sub = Ctx(fx, vt if fx else None, None)
        self.scopes.append({})
        x = '_'
        if s.pat != '_': x = lname(self.declare(s.pat, elem, False, 'loopvar', s.line).name)
        self.tracked.append(V)
        body = self.seq(self.block_stmts(s.body, 'loop body'), lambda: [self.val(sub, vt)], sub)
        self.tracked.pop()
        self.scopes.pop()
        if fx:
            return (pre + [f'Flow.bind (RsStr.forIn {ltext} (fun {x} {pat} =>'] + ind(body, 2) + [f'  ) {vt}) fun {pat} =>'] + nxt())
        return pre + [f'let {pat} := Rs.forIn {ltext} (fun {x} {pat} =>'] + ind(body, 2) + [f'  ) {vt}'] + nxt()

    def loop_lines(self, e, ctx, exp, top, cont, holder):
        """`loop { body }` (statement, or value of its `break`s): `RsCli.loop fuel body state r0` iterates the body over the tuple
           of outer variables it assigns until a `break`; the iteration budget is part of the process state, and when it is
           used up the function returns `r0` = (process state marked out-of-fuel, `default`) -- never a Rust outcome"""
        sysv = self.need_sys(e.line)
        V = self.assigned_outer([e.body])
        if sysv not in V: V = sorted(V + [sysv], key=lambda v: v.order)
        vty = self.node_tv(e)
        if exp is not None: self.unify(vty, exp, e.line, 'value of `loop`')
        names = [lname(v.name) for v in V]
        vt, pat = self.state_text(V)
        sub = Ctx(True, vt, dict(V=V, vty=vty))
        if not ctx.flow: self.bad('internal error: `loop` outside a flow context', e.line)
        self.tracked.append(V)
        self.scopes.append({})
        body = self.seq(self.block_stmts(e.body, 'loop body'), lambda: [f'Flow.next {atom(vt)}'], sub)
        self.scopes.pop()
        self.tracked.pop()
        r0 = self.ret_pack('default' if self.ret is not None else None, e.line).replace(SYS_NAME, f'RsCli.out_of_fuel {SYS_NAME}', 1) \
            if self.mut_vars and self.mut_vars[0] is sysv else self.bad('internal error: process state is not the first result', e.line)
        if top is not None:
            v = self.declare(top[0], vty, top[1], 'local', e.line)
        else:
            v = self.fresh(vty, e.line)
            if holder is not None: holder.append((lname(v.name), vty, True))
        bpat = self.tuple_pat(names + [lname(v.name)])
        return ([f'Flow.bind (RsCli.loop (RsCli.fuel {SYS_NAME}) (fun {pat} =>'] + ind(body, 2) +
                [f'  ) {vt} {atom(r0)}) fun {bpat} =>'] + cont())

    def mutable_var(self, e, what):
        while e.kind in ('paren', 'ref') or (e.kind == 'unary' and e.op == '*'): e = e.e
        if e.kind != 'path' or len(e.path) != 1: self.bad(f'{what}: only a variable can be changed in place', e.line)
        v = self.lookup(e.path[0], e.line)
        if not v.mutable: self.bad(f'{what}: `{v.name}` is not mutable', e.line)
        return v

    def expr_stmt(self, e, line, nxt, ctx):
        e = strip_paren(e)
        if e.kind == 'assign':
            if e.op != '=': self.bad(f'compound assignment `{e.op}`', e.line)
            pl = strip_paren(e.place)
            if pl.kind == 'field' and strip_paren(pl.e).kind == 'path':
                v = self.mutable_var(pl.e, 'assignment to a field')
                t = resolve(v.ty)
                if head(t) != 'adt' or not isinstance(t[1], str) or t[1] not in self.G.structs:
                    self.bad(f'assignment to a field of a value of type {show_type(t)}', e.line)
                fty = dict(self.G.structs[t[1]].fields).get(pl.name)
                if fty is None: self.bad(f'struct `{t[1]}` has no field `{pl.name}`', e.line)
                n = lname(v.name)
                return self.with_value(e.e, fty, ctx, lambda r: [f'let {n}{self.asc(v.ty, e.line, n)} := {{ {n} with {lname(pl.name)} := {r[0]} }}'] + nxt())
            if pl.kind != 'path': self.bad('assignment to something other than a variable or a field of a variable', e.line)
            v = self.mutable_var(e.place, 'assignment')
            n = lname(v.name)
            return self.with_value(e.e, v.ty, ctx, lambda r: [f'let {n}{self.asc(v.ty, e.line, f"`{v.name}`")} := {r[0]}'] + nxt())
        if e.kind == 'mcall':
            name = e.name
            recv0 = strip_paren(e.recv)
            if name in ('retain', 'push', 'extend_from_slice') and recv0.kind == 'path' and len(recv0.path) == 1 \
                    and self.lookup_opt(recv0.path[0]) is not None and resolve(self.lookup_opt(recv0.path[0]).ty) != T_SYS:
                v = self.mutable_var(e.recv, f'receiver of `.{name}`')
                n, t = lname(v.name), resolve(v.ty)
                if len(e.args) != 1: self.bad(f'`.{name}` arity', e.line)
                if name == 'retain' and t == 'str':
                    clo, rty = self.closure(e.args[0], ['char'], '`.retain`')
                    if resolve(rty) != 'bool': self.bad('`.retain` with a non-boolean closure', e.line)
                    return [f'let {n} : Str := RsStr.retain {n} {clo}'] + nxt()
                if name == 'push' and head(t) == 'list':
                    return self.with_value(e.args[0], t[1], ctx, lambda r: [f'let {n}{self.asc(t, e.line, n)} := {n} ++ [{r[0]}]'] + nxt())
                if name == 'extend_from_slice' and head(t) == 'list':
                    return self.with_value(e.args[0], t, ctx, lambda r: [f'let {n}{self.asc(t, e.line, n)} := {n} ++ {self.paren(r)}'] + nxt())
                self.bad(f'`.{name}` on a value of type {show_type(t)}', e.line)
            if recv0.kind == 'path' and len(recv0.path) == 1 and self.lookup_opt(recv0.path[0]) is not None:
                v = self.lookup(recv0.path[0], e.line)
                t = resolve(v.ty)
                if head(t) == 'adt' and t[1] in EXTERN_TYPES and name in EXTERN_TYPES[t[1]].get('mut_methods', {}):
                    m = EXTERN_TYPES[t[1]]['mut_methods'][name]
                    if len(m) == 2:
                        v = self.mutable_var(e.recv, f'receiver of `.{name}`')
                        ptys, lean = m
                        if len(e.args) != len(ptys): self.bad(f'`.{name}` with {len(e.args)} arguments', e.line)
                        pre, args = [], []
                        for a, pt in zip(e.args, ptys):
                            p, a2, _ = self.hoist(a)
                            pre += p
                            args.append(self.paren(self.expr(a2, pt)))
                        n = lname(v.name)
                        return pre + [f'let {n}{self.asc(t, e.line, n)} := ' + ' '.join([lean, n] + args)] + nxt()
        pre, e2, _ = self.hoist(e)
        if not pre:
            self.bad('expression statement without effect (not an assignment, a call with effects or `&mut` arguments, `…?;`, '
                     'retain / push / extend_from_slice)', e.line)
        if e2.kind not in ('unit', 'path'): self.bad('expression statement whose outermost operation has no effect', e.line)
        return pre + nxt()

    # ---- whole function
    def run(self, self_ty, assoc):
        fn, sig = self.fn, self.sig
        self.self_ty, self.assoc = self_ty, assoc
        self.is_entry = (self.modname == '' and sig.owner is None and sig.name == 'main' and not sig.params and sig.ret is None)
        params = []
        for m in sorted(self.G.needs_api.get(sig.key, ())):
            params.append(f'({m} : {RECORDS[m]})' if m in RECORDS else f'({m}_api : {m}.Api)')
        if sig.key in self.G.effectful:
            self.sysvar = self.declare(SYS_NAME, T_SYS, True, 'sys', fn.line)
            params.append(f'({SYS_NAME} : RsCli.Sys)')
            self.mut_vars.append(self.sysvar)
        if sig.self_kind is not None:
            v = self.declare('self', self_ty, sig.self_kind == 'mut', 'mutref' if sig.self_kind == 'mut' else 'param', fn.line)
            params.append(f'(self : {self.lt(self_ty, fn.line)})')
            if sig.self_kind == 'mut': self.mut_vars.append(v)
        for (pn, pt, mut), (_, _, pl) in zip(sig.params, fn.params):
            v = self.declare(pn, pt, mut, 'mutref' if mut else 'param', pl)
            params.append(f'({lname(pn)} : {self.lt(pt, pl)})')
            if mut: self.mut_vars.append(v)
        self.tracked.append(self.mut_vars)
        body = fn.body
        if body.fns and sig.owner is not None and not sig.owner.startswith('fn:'): self.bad('nested `fn` inside a method', body.fns[0].line)
        fx = has_effects(body) or self.has_exit(body)
        ctx = Ctx(fx, None)
        unit_fn = sig.ret in (None, 'unit')

        def fin():
            tail = body.tail
            if unit_fn:
                val = lambda: [self.val(ctx, self.ret_pack('()' if sig.ret == 'unit' else None, fn.line))]
                if tail is None or strip_paren(tail).kind == 'unit': return val()
                return self.seq([Node('expr', tail.line, e=tail, was_tail=True)], val, ctx)      # a final expression of type ()
            if tail is None: self.bad('missing result expression', fn.line)
            return self.comment(tail.line) + self.with_value(tail, self.ret, ctx, lambda r: [self.val(ctx, self.ret_pack(r[0], tail.line))])

        lines = self.seq(body.stmts, fin, ctx)
        rets = [self.lt(v.ty, fn.line) for v in self.mut_vars] + ([self.lt(sig.ret, fn.line)] if sig.ret is not None else [])
        if not rets: self.bad('function without result, without `&mut` parameters and without effects', fn.line)
        if fx: lines = ['RsStr.run ('] + ind(lines) + [')']
        p = lambda s: s if ' ' not in s else f'({s})'
        rty = rets[0] if len(rets) == 1 else ' × '.join(p(r) for r in rets)
        head_ = f'def {sig.lean} {" ".join(params)} : {rty} :=' if params else f'def {sig.lean} : {rty} :='
        self.G.calls[sig.key] = self.calls
        self.G.dyn_used[sig.key] = self.dyn_used
        return [head_] + ind(lines)

    def has_exit(self, body):
        found = []
        walk(body, lambda n: found.append(n) if (n.kind == 'call' and self.classify_call(n) == ('exit',)) else None)
        return bool(found)

# ------------------------------------------------------------------------------------------------ whole crate

class Omitted(Exception):
    pass


def read_cargo_env(repo):
    """the compile-time environment Cargo sets from Cargo.toml (`env!("CARGO_PKG_VERSION")` …)"""
    path = os.path.join(repo, *CRATE_DIR, 'Cargo.toml')
    env, section = {}, None
    with open(path, encoding='utf-8') as f:
        for raw in f:
            line = raw.strip()
            if line.startswith('['):
                section = line.strip('[]').strip(); continue
            if section == 'package' and '=' in line:
                k, v = [x.strip() for x in line.split('=', 1)]
                if len(v) >= 2 and v[0] == '"' and v[-1] == '"' and '\\' not in v:
                    if k == 'version': env['CARGO_PKG_VERSION'] = v[1:-1]
                    if k == 'name': env['CARGO_PKG_NAME'] = v[1:-1]
    return env


def translate(repo):
    base = os.path.join(repo, *CRATE_DIR, 'src')
    label = lambda f: '/'.join(CRATE_DIR + ('src', f))
    with open(os.path.join(base, ROOT_FILE), encoding='utf-8') as f:
        modules = {'': Module('', label(ROOT_FILE), f.read())}
    for m in TRANSLATED_MODULES:
        if m not in modules[''].mods: raise Unsupported(f'`mod {m};` is not declared in {ROOT_FILE}')
        with open(os.path.join(base, m + '.rs'), encoding='utf-8') as f:
            modules[m] = Module(m, label(m + '.rs'), f.read())
        if modules[m].mods: raise Unsupported(f'sub-modules of `{m}`')
    G = Globals(modules, read_cargo_env(repo))
    G.mut_method_names = extern_mut_method_names()
    G.effect_method_names = extern_effect_method_names()

    def where(u, M, name=None):
        if not getattr(u, 'file', None): u.file = M.label
        if name and not getattr(u, 'fn', None): u.fn = name
        return u

    # names of the items of each file
    for mn, M in modules.items():
        for it in M.items:
            if it.kind in ('struct', 'enum', 'const', 'fn'):
                if it.name in M.local and it.kind != 'fn': raise where(Unsupported(f'two items named `{it.name}`', it.line), M)
                M.local[it.name] = it.kind
    # structs and enums (types may refer to each other in any order in Rust; Lean needs them in dependency order)
    type_items = []
    for mn, M in modules.items():
        for it in M.items:
            if it.kind in ('struct', 'enum'):
                it.mod, it.qname = mn, M.q(it.name)
                (G.structs if it.kind == 'struct' else G.enums)[it.qname] = it
                type_items.append(it)
    skipped_types = {}
    for it in list(type_items):
        M = modules[it.mod]
        try:
            if it.kind == 'struct':
                it.fields = [(fn_, G.norm_type(ft, it.line, it.mod)) for fn_, ft in it.fields]
                for _, ft in it.fields:
                    if head(ft) == 'mutref': raise Unsupported('`&mut` field', it.line)
            else:
                it.variants = [(vn, [G.norm_type(t, it.line, it.mod) for t in args]) for vn, args in it.variants]
        except Unsupported as u:
            if it.mod == '': raise where(u, M, f'{it.kind} {it.name}')
            skipped_types[it.qname] = u.what                     # a type of an optional module: whatever uses it is left out
            (G.structs if it.kind == 'struct' else G.enums).pop(it.qname)
            type_items.remove(it)
    # constants
    const_chunks = []
    for mn, M in modules.items():
        for it in M.items:
            if it.kind != 'const': continue
            try:
                ty = G.norm_type(it.ty, it.line, mn)
                tr = FnTr(G, mn, it, None)
                r = tr.expr(it.init, ty)
            except Unsupported as u:
                raise where(u, M, f'const {it.name}')
            G.consts[M.q(it.name)] = ty
            const_chunks.append(f'/-- `{M.src_lines[it.line - 1].strip()}` ({M.label.rsplit("/", 1)[-1]} line {it.line}) -/\n'
                                f'def {lqual(M.q(it.name))} : {G.lean_type(ty, it.line)} := {r[0]}')
    # signatures
    fns = []   # (module name, fn node, self type, assoc types, sig)

    def add_fn(mn, f, owner_label, self_ty, assoc, trait, lean):
        M = modules[mn]
        key = (mn, owner_label, f.name)
        if key in G.omitted:
            for g in f.body.fns: G.omitted[(mn, 'fn:' + f.name, g.name)] = G.omitted[key]
        try:
            params = []
            for pn, pt, pl in f.params:
                t = G.norm_type(pt, pl, mn, self_ty, assoc, f.generics)
                mut = head(t) == 'mutref'
                if mut: t = t[1]
                params.append((pn, t, mut))
            ret = G.norm_type(f.ret, f.line, mn, self_ty, assoc, f.generics) if f.ret is not None else None
        except Unsupported as u:
            if key in G.omitted: return
            raise where(u, M, lean.replace('.', '::'))
        f.owner = owner_label
        sig = Sig(mn, f, params, ret, trait, lqual(lean), f.generics)
        if sig.key in G.fns: raise where(Unsupported(f'two functions named `{lean}`', f.line), M)
        G.fns[sig.key] = sig
        fns.append((mn, f, self_ty, assoc, sig))
        for g in f.body.fns:
            if owner_label is not None: raise where(Unsupported('nested `fn` inside a method or a nested `fn`', g.line), M, lean)
            add_fn(mn, g, 'fn:' + f.name, None, None, None, f'{lean}.{g.name}')

    for mn, M in modules.items():
        if mn in OMIT_MODULES:
            for it in M.items:
                if it.kind == 'fn': G.omitted[(mn, None, it.name)] = OMIT_MODULES[mn]
                if it.kind == 'impl':
                    for f in it.fns: G.omitted[(mn, it.owner, f.name)] = OMIT_MODULES[mn]
    for mn, M in modules.items():
        for it in M.items:
            if it.kind == 'fn':
                add_fn(mn, it, None, None, None, None, M.q(it.name))
            elif it.kind == 'impl':
                q = M.q(it.owner)
                if q not in G.structs and q not in G.enums:
                    if q in skipped_types or mn != '':
                        skipped_types.setdefault(q, 'not translated')
                        continue
                    raise where(Unsupported(f'`impl` for `{it.owner}`, which is not a struct / enum of this file', it.line), M)
                self_ty = ('adt', q)
                trait = None
                if it.trait is not None and it.trait[0] == 'named':
                    r = G.resolve_path(mn, it.trait[1], it.line)
                    trait = r[1] if r[0] == 'extern' else None
                if trait in DYN_TRAITS and q not in G.dyn_user_impls.setdefault(trait, []):
                    G.dyn_user_impls[trait].append(q)
                for f in it.fns:
                    add_fn(mn, f, it.owner, self_ty, it.assoc, trait, f'{q}.{f.name}')
    # bodies.  A first series of passes finds out which functions have effects / need a module's Api (each discovery
    # restarts the pass) and fixes type variables (integer literals, `None`, targets of `into`); the final pass emits.
    bodies = {}
    for final in (False, True):
        G.final = final
        while True:
            G.unwraps = []
            changed, first_error = False, None
            for mn, f, self_ty, assoc, sig in fns:
                if sig.key in G.omitted: continue
                try:
                    bodies[sig.key] = FnTr(G, mn, f, sig).run(self_ty, assoc)
                except Restart:
                    changed = True
                except Omitted as o:
                    if mn == '': raise where(Unsupported(f'{o}', f.line), modules[mn], sig.lean)
                    G.omitted[sig.key] = str(o)
                    changed = True
                except Unsupported as u:
                    # (a callee that is translated later in the pass may still turn out to have effects: judge at the fixpoint)
                    if first_error is None: first_error = where(u, modules[mn], sig.lean.replace('.', '::'))
            if changed: continue
            if first_error is not None: raise first_error
            break
    for key in G.omitted:
        bodies.pop(key, None)
    # dependency order (stable)
    order, state = [], {}

    def visit(key, line):
        if state.get(key) == 2: return
        if state.get(key) == 1: raise Unsupported(f'recursion through `{G.fns[key].lean}`', line)
        state[key] = 1
        for k2 in sorted(G.calls.get(key, ()), key=lambda k: (k[0] == '', G.fns[k].line)):
            visit(k2, G.fns[key].line)
        state[key] = 2
        order.append(key)
    for mn, f, _, _, sig in fns:
        if sig.key in bodies: visit(sig.key, f.line)
    chunks = list(const_chunks)
    done = set()

    def emit_type(it, stack=()):
        if it.qname in done: return
        if it.qname in stack: raise Unsupported(f'recursive type `{it.qname}`', it.line)

        def deps(t):
            t = resolve(t)
            if isinstance(t, tuple):
                if t[0] == 'adt':
                    if isinstance(t[1], str): emit_type(G.structs.get(t[1]) or G.enums[t[1]], stack + (it.qname,))
                elif t[0] == 'tuple':
                    for x in t[1]: deps(x)
                else:
                    for x in t[1:]: deps(x)
        M = modules[it.mod]
        sig_src = M.src_lines[it.line - 1].strip()
        doc = f'/-- `{sig_src}` ({M.label.rsplit("/", 1)[-1]} line {it.line}) -/\n'
        if it.kind == 'struct':
            for _, ft in it.fields: deps(ft)
            done.add(it.qname)
            chunks.append(doc + f'structure {lqual(it.qname)} where\n' +
                          '\n'.join(f'  {lname(fn_)} : {G.lean_type(ft, it.line)}' for fn_, ft in it.fields) +
                          '\nderiving Inhabited, DecidableEq, Repr')
        else:
            for _, args in it.variants:
                for t in args: deps(t)
            done.add(it.qname)
            p = lambda s: s if ' ' not in s else f'({s})'
            ctors = []
            for vn, args in it.variants:
                ctors.append(f'  | {lname(vn)}' + ''.join(f' (a{i} : {G.lean_type(t, it.line)})' for i, t in enumerate(args)))
            chunks.append(doc + f'inductive {lqual(it.qname)} where\n' + '\n'.join(ctors) + '\nderiving Inhabited, DecidableEq, Repr')
    for it in type_items: emit_type(it)
    for trait, spec in DYN_TRAITS.items():
        if not spec['generated']: continue
        ctors = [f'  | {lname(G.structs[q].name)} (v : {lqual(q)})' for q in G.dyn_user_impls.get(trait, []) if q in G.structs]
        ctors += [f'  | {c} (v : {EXTERN_TYPES[t]["lean"]})' for t, c in spec['impls'].items()]
        chunks.append(f'/-- `Box<dyn {"::".join(trait)}>`: one of the types that implement the trait -- the translated structs with an\n'
                      f'    `impl {trait[-1]} for …`, and the library types the translated code puts into such a box -/\n'
                      f'inductive {spec["lean"]} where\n' + '\n'.join(ctors) + '\nderiving Inhabited, DecidableEq, Repr')
    for m in ABSTRACT_MODULES:
        members = G.api_members[m]
        if not members: continue
        fields = []
        for name in members:
            sig = G.fns[(m, None, name)]
            fields.append(f'  {lname(name)} : {G.fn_lean_type(sig, sig.line)}')
        chunks.append(f'/-- The functions of `{modules[m].label}` that `{modules[""].label}` calls, as a record: the translated functions of\n'
                      f'    {ROOT_FILE} take it as the parameter `{m}_api`, so every statement about them holds for ANY behaviour of these functions.\n'
                      f'    Signatures as in the source (a function behind this record may have effects: it takes and returns the process state). -/\n'
                      f'structure {m}.Api where\n' + '\n'.join(fields))
    by_key = {sig.key: (mn, f, sig) for mn, f, _, _, sig in fns}
    dispatched = set()

    def emit_dispatch(trait):
        d = DYN_TRAITS[trait]
        L = d['lean']
        p = lambda x: x if ' ' not in x else f'({x})'
        for mname, (ptys, rty) in d['methods'].items():
            ps = [f'a{i}' for i in range(len(ptys))]
            pdecl = ''.join(f' ({a} : {G.lean_type(t)})' for a, t in zip(ps, ptys))
            arms = []
            for q in G.dyn_user_impls.get(trait, []):
                st = G.structs[q]
                sig = G.fns[(st.mod, st.name, mname)]
                if sig.key not in G.effectful or sig.self_kind != 'mut': raise Unsupported(f'`{sig.lean}`: expected a `&mut self` method with effects')
                c = lname(st.name)
                arms.append(f'  | .{c} v => let ({SYS_NAME}, v, r) := {sig.lean} {SYS_NAME} v {" ".join(ps)}; ({SYS_NAME}, .{c} v, r)'.replace(' ;', ';'))
            for t, c in d['impls'].items():
                arms.append(f'  | .{c} v => let ({SYS_NAME}, r) := {EXTERN_TYPES[t]["lean"]}.{mname} {SYS_NAME} v {" ".join(ps)}; ({SYS_NAME}, .{c} v, r)'.replace(' ;', ';'))
            chunks.append(f'/-- `{trait[-1]}::{mname}` on a `Box<dyn {trait[-1]}>`: the method of the type in the box -/\n'
                          f'def {L}.{mname} ({SYS_NAME} : RsCli.Sys) (w : {L}){pdecl} : RsCli.Sys × {L} × {p(G.lean_type(rty))} :=\n'
                          f'  match w with\n' + '\n'.join(arms))
        for mname, (ptys, rty, glue, needs) in d.get('provided', {}).items():
            chunks.append(f'/-- `{trait[-1]}::{mname}` (a provided method of the trait, in terms of {", ".join(needs)}) on a `Box<dyn {trait[-1]}>` -/\n'
                          f'def {L}.{mname} := {glue} ' + ' '.join(f'{L}.{x}' for x in needs))

    for key in order:
        mn, f, sig = by_key[key]
        for trait in sorted(G.dyn_used.get(key, ())):
            if trait not in dispatched:
                dispatched.add(trait); emit_dispatch(trait)
        M = modules[mn]
        sig_src = ' '.join(x.strip() for x in M.src_lines[f.line - 1:f.body.line]).rstrip('{').strip()
        chunks.append(f'/-- `{sig_src}` ({M.label.rsplit("/", 1)[-1]} line {f.line}) -/\n' + '\n'.join(bodies[key]))
    for m in ABSTRACT_MODULES:
        members = G.api_members[m]
        if not members: continue
        missing = [n for n in members if (m, None, n) not in bodies]
        if missing:
            chunks.append(f'/- `{m}.api` (the record of the translated functions of {m}.rs) is not defined: not translated: {", ".join(missing)} -/')
            continue
        fields, recs = [], set()
        for name in members:
            sig = G.fns[(m, None, name)]
            ps = ' '.join(lname(p[0]) for p in sig.params)
            need = sorted(G.needs_api.get(sig.key, ()))
            if any(x not in RECORDS for x in need): raise Unsupported(f'`{sig.lean}` calls back into another module')
            recs.update(need)
            pre = ' '.join([sig.lean] + need)
            if sig.key in G.effectful:
                fields.append(f'  {lname(name)} := fun {SYS_NAME} {ps} => {pre} {SYS_NAME} {ps}'.replace('  =>', ' =>'))
            else:
                fields.append(f'  {lname(name)} := fun {SYS_NAME} {ps} => ({SYS_NAME}, {pre} {ps})')
        rp = ''.join(f' ({r} : {RECORDS[r]})' for r in sorted(recs))
        chunks.append(f'/-- the translated functions of `{modules[m].label}` behind `{m}.Api` -/\n'
                      f'def {m}.api{rp} : {m}.Api where\n' + '\n'.join(fields))
    seen, unw = set(), []
    for u in G.unwraps:
        if u not in seen:
            seen.add(u); unw.append(u)
    unwraps = '\n'.join('    ' + u for u in unw) if unw else '    (none)'
    srcs = '\n'.join(f'  source : {M.label}  ({len(M.region.encode())} bytes, {M.region.count(chr(10))} lines)\n'
                     f'  sha256 : {M.digest}' for M in modules.values())
    translated = {}
    for key in order: translated.setdefault(key[0], []).append(G.fns[key].lean)
    omitted = '\n'.join(f'    {G.fns[k].lean if k in G.fns else ".".join(x for x in k if x)}: {why}' for k, why in sorted(G.omitted.items(), key=str)) or '    (none)'
    skipped = '\n'.join(f'    {q}: {why}' for q, why in sorted(skipped_types.items())) or '    (none)'
    header = f'''/-
  GENERATED by tools/rs2lean_cli.py -- do not edit.
{srcs}
  Cargo.toml: {", ".join(f"{k} = {v}" for k, v in sorted(G.cargo_env.items()))} (`env!`);  `cfg!(target_os = …)` evaluated for {TARGET_OS}.
  Shallow embedding: one `def` per Rust `fn` (`Type.fn` for functions of an `impl`, `f.g` for a `fn g` nested in `fn f`, prefix
  `commands.` for the items of commands.rs; definitions are in dependency order, not in source order), one `structure` per
  `struct`, one `inductive` per `enum`, one `def` per `const`; statement by statement, each group of lines preceded by the Rust
  line it comes from.  The meaning of every library call is in KestrelModel/RsCli.lean (and RsStr.lean / RsPrelude.lean).
  Strings are `Str = List Char`; `&`, `*`, `as_str`, `as_ref`, `as_deref`, `as_slice`, `to_string` (of a string), `to_owned`, `clone`,
  `into` (to `String`), `iter`, `collect` (into a Vec), `Box::new` are the identity.  usize is `Nat`, i32 is `Int`.
  `Result<T, E>` is `Except E T`; `Option` is `Option`.
  Effects.  A function that (transitively) prints, reads the command line / environment / files, or exits has an extra FIRST
  parameter `sys : RsCli.Sys` (the process state: command line, file system, environment, standard streams, exit code) and
  returns the final state as the first component of its result.  Calls with effects and `?` are lifted out of expressions
  in evaluation order (temporaries `v'N`).  Calls from {ROOT_FILE} into commands.rs go through the record `commands.Api`.
  The streaming functions of the library (`encrypt::key_encrypt` …) are not given a meaning: a function that calls one takes
  the record `lib : RsCli.StreamLib …` as a parameter.  `Box<dyn Read>` is `RsCli.DynRead`, `Box<dyn Write>` the inductive
  `DynWrite` below (the translated `OnDemandFile`, standard output, a file).  Paths are the strings they were made from.
  `&mut self` methods take and return the receiver; `*x` / method calls through `impl Deref` use the translated `deref`.
  `loop` is `RsCli.loop (RsCli.fuel sys) body state r0` (see RsCli.lean): `break v` = `Flow.cont (Sum.inr (state…, v))`,
  `continue` = `Flow.cont (Sum.inl state)`; `r0` (state marked out-of-fuel, `default`) is returned when the budget runs out.
  Early exits: a function body that contains `return`, `?`, `continue` or `std::process::exit` is `RsStr.run (…)` of a term of
  the three-outcome type `RsStr.Flow` (`next` = fell through, `cont` = `continue`, `ret` = `return`); `Flow.bind` sequences
  statements.  An `if` / `match` yields the tuple of the outer variables its branches assign (followed by its value, if it is
  used as a value); a `match` on string literals is a chain of `==` tests; `if let P = e {{A}} else {{B}}` is
  `match e with | P => A | _ => B`.  `let mut` / assignment is a shadowing `let`.  `std::process::exit(c)` (accepted only in the
  entry point `fn main()`) records the exit code and returns from `main`.
  Rust panics are totalised: `unwrap` / `expect` give `default` on `None` / `Err`, `a[i]` gives `default` out of range
  (RsStr.unwrap_opt / unwrap_res, Rs.idx).  The translation is faithful only where these are unreachable; the unwrap sites are:
{unwraps}
  Left out (functions):
{omitted}
  Left out (types of commands.rs that are not needed by what is translated):
{skipped}
-/
import KestrelModel.RsCli
set_option linter.unusedVariables false
namespace Kestrel.CliSrc
open Kestrel Kestrel.RsStr
'''
    return header + '\n' + '\n\n'.join(chunks) + '\n\nend Kestrel.CliSrc\n'


def main(argv):
    here = os.path.dirname(os.path.abspath(__file__))
    repo = os.environ.get('KESTREL_REPO', '/repo')
    out = os.path.join(here, '..', 'lean', 'KestrelModel', 'GeneratedCli.lean')
    args = argv[1:]
    while args:
        a = args.pop(0)
        if a == '--repo' and args: repo = args.pop(0)
        elif a == '--out' and args: out = args.pop(0)
        else:
            print(f'usage: {argv[0]} [--repo DIR] [--out GeneratedCli.lean]', file=sys.stderr); return 2
    try:
        result = translate(repo)
    except OSError as ex:
        print(f'rs2lean_cli: cannot read the sources under {repo}: {ex}', file=sys.stderr); return 2
    except Unsupported as u:
        where = f'in fn `{u.fn}`' if getattr(u, 'fn', None) else 'at top level'
        file_ = f' of {u.file}' if getattr(u, 'file', None) else ''
        line = f' (line {u.line})' if u.line else ''
        print(f'rs2lean_cli: unsupported construct {where}{file_}{line}: {u.what}', file=sys.stderr)
        return 3
    old = None
    try:
        with open(out, encoding='utf-8') as f: old = f.read()
    except OSError:
        pass
    if old != result:
        tmp = out + '.tmp'
        with open(tmp, 'w', encoding='utf-8') as f: f.write(result)
        os.replace(tmp, out)
        print(f'rs2lean_cli: wrote {os.path.normpath(out)} ({len(result)} bytes)')
    else:
        print(f'rs2lean_cli: {os.path.normpath(out)} is up to date')
    return 0


if __name__ == '__main__':
    sys.exit(main(sys.argv))
