#!/usr/bin/env python3
"""Call the exported C function `scrypt` of the cdylib built from the working tree (tools/build_cli.sh) through ctypes,
with guard bytes around every buffer, and compare with OpenSSL.  Prints one JSON object."""
import ctypes, hashlib, json, os, random, sys
so = os.environ.get("KESTREL_FFI", "/verif/.cache/bin/libkestrel_ffi.so")
n_cases = int(sys.argv[1]) if len(sys.argv) > 1 else 40
rnd = random.Random(int(os.environ.get("VERIF_SEED", "1")))
lib = ctypes.CDLL(so)
lib.scrypt.argtypes = [ctypes.c_void_p, ctypes.c_size_t, ctypes.c_void_p, ctypes.c_size_t, ctypes.c_uint, ctypes.c_uint, ctypes.c_uint, ctypes.c_void_p, ctypes.c_size_t]
lib.scrypt.restype = None
G = 64
fails, samples = [], []
for i in range(n_cases):
    pw = bytes(rnd.randrange(256) for _ in range(rnd.choice([0, 1, 7, 33, 64, 65, 66, 100, 129])))
    if pw and i % 3 == 1: pw = pw[:-1] + b"\x00"          # C strings: a caller passing sizeof(buf) hands over the terminator too
    if pw and i % 7 == 3: pw = b"\x00" + pw[1:]
    salt = bytes(rnd.randrange(256) for _ in range(rnd.randrange(0, 80)))
    N = 1 << rnd.randrange(1, 12); r = rnd.randrange(1, 9); p = rnd.randrange(1, 5); dk = rnd.choice([1, 16, 31, 32, 33, 64, 100, rnd.randrange(1, 200)])
    if i == 0: pw, salt, N, r, p, dk = b"hackme", b"yellowsubmarine.", 32768, 8, 1, 32
    arena = bytearray(b"\xA5" * (4 * G + len(pw) + len(salt) + dk))
    po, so_, do = G, 2 * G + len(pw), 3 * G + len(pw) + len(salt)
    arena[po:po + len(pw)] = pw; arena[so_:so_ + len(salt)] = salt; arena[do:do + dk] = b"\x3C" * dk
    before = bytes(arena)
    buf = (ctypes.c_ubyte * len(arena)).from_buffer(arena)
    base = ctypes.addressof(buf)
    lib.scrypt(base + po, len(pw), base + so_, len(salt), N, r, p, base + do, dk)
    after = bytes(arena)
    got = after[do:do + dk]
    want = hashlib.scrypt(pw, salt=salt, n=N, r=r, p=p, dklen=dk, maxmem=256 << 20)
    outside_same = after[:do] == before[:do] and after[do + dk:] == before[do + dk:]
    case = {"pw": pw.hex(), "salt": salt.hex(), "N": N, "r": r, "p": p, "dk": dk}
    if got != want: fails.append({"what": "value", "case": case, "got": got.hex(), "want": want.hex()})
    elif not outside_same: fails.append({"what": "frame", "case": case, "detail": "bytes outside [dk, dk+dk_len) changed"})
    if i < 3: samples.append(case)
print(json.dumps({"calls": n_cases, "fails": fails, "samples": samples}))
