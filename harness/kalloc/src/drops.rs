//! Watch list for C20: heap blocks whose contents are inspected at the moment they are released.
use std::cell::RefCell;

thread_local! {
    static WATCH: RefCell<Vec<(usize, usize)>> = const { RefCell::new(Vec::new()) };       // (address, len)
    static SEEN: RefCell<Vec<(usize, Vec<u8>)>> = const { RefCell::new(Vec::new()) };      // (address, bytes at release)
    static BUSY: std::cell::Cell<bool> = const { std::cell::Cell::new(false) };
}

pub fn watch(addr: usize, len: usize) { BUSY.with(|b| b.set(true)); WATCH.with(|w| w.borrow_mut().push((addr, len))); BUSY.with(|b| b.set(false)); }
pub fn take_seen() -> Vec<(usize, Vec<u8>)> { BUSY.with(|b| b.set(true)); let v = SEEN.with(|s| std::mem::take(&mut *s.borrow_mut())); BUSY.with(|b| b.set(false)); v }
pub fn clear() { BUSY.with(|b| b.set(true)); WATCH.with(|w| w.borrow_mut().clear()); SEEN.with(|s| s.borrow_mut().clear()); BUSY.with(|b| b.set(false)); }

// ---- process-wide watch list (no allocation, no locks: usable from any thread inside the allocator) ----
use std::sync::atomic::{AtomicUsize, Ordering};
const SLOTS: usize = 32;
#[allow(clippy::declare_interior_mutable_const)]
const Z: AtomicUsize = AtomicUsize::new(0);
static GADDR: [AtomicUsize; SLOTS] = [Z; SLOTS];
static GRELEASED: AtomicUsize = AtomicUsize::new(0);
static GDIRTY: AtomicUsize = AtomicUsize::new(0);
static GACTIVE: AtomicUsize = AtomicUsize::new(0);
/// watch a block from any thread; its release (by whichever thread) is counted, and counted as dirty when any byte of the block is non-zero
pub fn gwatch(addr: usize) { for s in GADDR.iter() { if s.compare_exchange(0, addr, Ordering::SeqCst, Ordering::SeqCst).is_ok() { GACTIVE.fetch_add(1, Ordering::SeqCst); return; } } }
/// (released, dirty) since the last call; clears the counters and any slot still occupied
pub fn gtake() -> (usize, usize) { for s in GADDR.iter() { if s.swap(0, Ordering::SeqCst) != 0 { GACTIVE.fetch_sub(1, Ordering::SeqCst); } } (GRELEASED.swap(0, Ordering::SeqCst), GDIRTY.swap(0, Ordering::SeqCst)) }
fn g_on_dealloc(p: *mut u8, size: usize) {
    if GACTIVE.load(Ordering::Relaxed) == 0 { return; }
    for s in GADDR.iter() {
        if s.load(Ordering::SeqCst) == p as usize && s.compare_exchange(p as usize, 0, Ordering::SeqCst, Ordering::SeqCst).is_ok() {
            GACTIVE.fetch_sub(1, Ordering::SeqCst);
            let dirty = unsafe { std::slice::from_raw_parts(p, size) }.iter().any(|&b| b != 0);
            GRELEASED.fetch_add(1, Ordering::SeqCst);
            if dirty { GDIRTY.fetch_add(1, Ordering::SeqCst); }
            return;
        }
    }
}

// ---- secret scan: while armed on this thread, EVERY block released by this thread is searched for a byte pattern ----
thread_local! {
    static SCAN_ON: std::cell::Cell<bool> = const { std::cell::Cell::new(false) };
    static SCAN_PAT: std::cell::Cell<[u8; 30]> = const { std::cell::Cell::new([0u8; 30]) };
    static SCAN_HITS: std::cell::Cell<(usize, usize, usize)> = const { std::cell::Cell::new((0, 0, 0)) };     // (hits, address of the first, its size)
}
/// arm the scan with a 30-byte pattern (bytes 1..31 of a key: what clamping leaves alone); no allocation
pub fn scan_arm(pattern: &[u8]) { let mut p = [0u8; 30]; p.copy_from_slice(&pattern[..30]); SCAN_PAT.with(|c| c.set(p)); SCAN_HITS.with(|c| c.set((0, 0, 0))); SCAN_ON.with(|c| c.set(true)); }
/// disarm; returns (number of released blocks that held the pattern, address and size of the first)
pub fn scan_disarm() -> (usize, usize, usize) { SCAN_ON.with(|c| c.set(false)); SCAN_HITS.with(|c| c.replace((0, 0, 0))) }
fn scan_on_dealloc(p: *mut u8, size: usize) {
    if !SCAN_ON.try_with(|c| c.get()).unwrap_or(false) || size < 30 || size > (1 << 20) { return; }
    let pat = SCAN_PAT.try_with(|c| c.get()).unwrap_or([0u8; 30]);
    let block = unsafe { std::slice::from_raw_parts(p, size) };
    if block.windows(30).any(|w| w == pat) { let _ = SCAN_HITS.try_with(|c| { let (n, a, s) = c.get(); c.set(if n == 0 { (1, p as usize, size) } else { (n + 1, a, s) }); }); }
}

/// called by the allocator before a block is handed back
pub fn on_dealloc(p: *mut u8, size: usize) {
    g_on_dealloc(p, size);
    scan_on_dealloc(p, size);
    let busy = BUSY.try_with(|b| b.get()).unwrap_or(true);
    if busy { return; }
    let _ = BUSY.try_with(|b| b.set(true));
    let _ = WATCH.try_with(|w| {
        if let Ok(mut w) = w.try_borrow_mut() {
            if let Some(i) = w.iter().position(|(a, _)| *a == p as usize) {
                let (a, len) = w.remove(i);
                // the WHOLE block that goes back to the allocator, not only the bytes the container calls its length:
                // secret bytes left in spare capacity are released just the same
                let bytes = unsafe { std::slice::from_raw_parts(p, size.max(len)) }.to_vec();
                let _ = SEEN.try_with(|s| if let Ok(mut s) = s.try_borrow_mut() { s.push((a, bytes)); });
            }
        }
    });
    let _ = BUSY.try_with(|b| b.set(false));
}
