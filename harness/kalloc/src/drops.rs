//! Watch list for C20: heap blocks whose contents are inspected at the moment they are released.
use std::cell::RefCell;

thread_local! {
    static WATCH: RefCell<Vec<(usize, usize)>> = const { RefCell::new(Vec::new()) };       // (address, len)
    static SEEN: RefCell<Vec<(usize, Vec<u8>)>> = const { RefCell::new(Vec::new()) };      // (address, bytes at release)
    static BUSY: std::cell::Cell<bool> = const { std::cell::Cell::new(false) };
}

pub fn watch(addr: usize, len: usize) { BUSY.with(|b| b.set(true)); WATCH.with(|w| w.borrow_mut().push((addr, len))); BUSY.with(|b| b.set(false)); }
pub fn take_seen() -> Vec<(usize, Vec<u8>)> { BUSY.with(|b| b.set(true)); let v = SEEN.with(|s| std::mem::take(&mut *s.borrow_mut())); BUSY.with(|b| b.set(false)); v }
pub fn clear() { BUSY.with(|b| b.set(true)); WATCH.with(|w| w.borrow_mut().clear()); SEEN.with(|s| s.borrow_mut().clear()); BUSY.with(|b| b.set(false)); }

// ---- process-wide watch list (no allocation, no locks: usable from any thread inside the allocator) ----
use std::sync::atomic::{AtomicUsize, Ordering};
const SLOTS: usize = 32;
#[allow(clippy::declare_interior_mutable_const)]
const Z: AtomicUsize = AtomicUsize::new(0);
static GADDR: [AtomicUsize; SLOTS] = [Z; SLOTS];
static GRELEASED: AtomicUsize = AtomicUsize::new(0);
static GDIRTY: AtomicUsize = AtomicUsize::new(0);
static GACTIVE: AtomicUsize = AtomicUsize::new(0);
/// watch a block from any thread; its release (by whichever thread) is counted, and counted as dirty when any byte of the block is non-zero
pub fn gwatch(addr: usize) { for s in GADDR.iter() { if s.compare_exchange(0, addr, Ordering::SeqCst, Ordering::SeqCst).is_ok() { GACTIVE.fetch_add(1, Ordering::SeqCst); return; } } }
/// (released, dirty) since the last call; clears the counters and any slot still occupied
pub fn gtake() -> (usize, usize) { for s in GADDR.iter() { if s.swap(0, Ordering::SeqCst) != 0 { GACTIVE.fetch_sub(1, Ordering::SeqCst); } } (GRELEASED.swap(0, Ordering::SeqCst), GDIRTY.swap(0, Ordering::SeqCst)) }
fn g_on_dealloc(p: *mut u8, size: usize) {
    if GACTIVE.load(Ordering::Relaxed) == 0 { return; }
    for s in GADDR.iter() {
        if s.load(Ordering::SeqCst) == p as usize && s.compare_exchange(p as usize, 0, Ordering::SeqCst, Ordering::SeqCst).is_ok() {
            GACTIVE.fetch_sub(1, Ordering::SeqCst);
            let dirty = unsafe { std::slice::from_raw_parts(p, size) }.iter().any(|&b| b != 0);
            GRELEASED.fetch_add(1, Ordering::SeqCst);
            if dirty { GDIRTY.fetch_add(1, Ordering::SeqCst); }
            return;
        }
    }
}

/// called by the allocator before a block is handed back
pub fn on_dealloc(p: *mut u8, size: usize) {
    g_on_dealloc(p, size);
    let busy = BUSY.try_with(|b| b.get()).unwrap_or(true);
    if busy { return; }
    let _ = BUSY.try_with(|b| b.set(true));
    let _ = WATCH.try_with(|w| {
        if let Ok(mut w) = w.try_borrow_mut() {
            if let Some(i) = w.iter().position(|(a, _)| *a == p as usize) {
                let (a, len) = w.remove(i);
                // the WHOLE block that goes back to the allocator, not only the bytes the container calls its length:
                // secret bytes left in spare capacity are released just the same
                let bytes = unsafe { std::slice::from_raw_parts(p, size.max(len)) }.to_vec();
                let _ = SEEN.try_with(|s| if let Ok(mut s) = s.try_borrow_mut() { s.push((a, bytes)); });
            }
        }
    });
    let _ = BUSY.try_with(|b| b.set(false));
}
