//! Watch list for C20: heap blocks whose contents are inspected at the moment they are released.
use std::cell::RefCell;

thread_local! {
    static WATCH: RefCell<Vec<(usize, usize)>> = const { RefCell::new(Vec::new()) };       // (address, len)
    static SEEN: RefCell<Vec<(usize, Vec<u8>)>> = const { RefCell::new(Vec::new()) };      // (address, bytes at release)
    static BUSY: std::cell::Cell<bool> = const { std::cell::Cell::new(false) };
}

pub fn watch(addr: usize, len: usize) { BUSY.with(|b| b.set(true)); WATCH.with(|w| w.borrow_mut().push((addr, len))); BUSY.with(|b| b.set(false)); }
pub fn take_seen() -> Vec<(usize, Vec<u8>)> { BUSY.with(|b| b.set(true)); let v = SEEN.with(|s| std::mem::take(&mut *s.borrow_mut())); BUSY.with(|b| b.set(false)); v }
pub fn clear() { BUSY.with(|b| b.set(true)); WATCH.with(|w| w.borrow_mut().clear()); SEEN.with(|s| s.borrow_mut().clear()); BUSY.with(|b| b.set(false)); }

/// called by the allocator before a block is handed back
pub fn on_dealloc(p: *mut u8, _size: usize) {
    let busy = BUSY.try_with(|b| b.get()).unwrap_or(true);
    if busy { return; }
    let _ = BUSY.try_with(|b| b.set(true));
    let _ = WATCH.try_with(|w| {
        if let Ok(mut w) = w.try_borrow_mut() {
            if let Some(i) = w.iter().position(|(a, _)| *a == p as usize) {
                let (a, len) = w.remove(i);
                let bytes = unsafe { std::slice::from_raw_parts(p, len) }.to_vec();
                let _ = SEEN.try_with(|s| if let Ok(mut s) = s.try_borrow_mut() { s.push((a, bytes)); });
            }
        }
    });
    let _ = BUSY.try_with(|b| b.set(false));
}
