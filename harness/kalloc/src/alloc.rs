//! Counting global allocator with per-thread live/peak byte counters (for C09 bounded-work and C11 streaming).
use std::alloc::{GlobalAlloc, Layout, System};
use std::cell::Cell;

pub struct Counting;

thread_local! {
    static LIVE: Cell<usize> = const { Cell::new(0) };
    static PEAK: Cell<usize> = const { Cell::new(0) };
    static MAXONE: Cell<usize> = const { Cell::new(0) };
}

unsafe impl GlobalAlloc for Counting {
    unsafe fn alloc(&self, l: Layout) -> *mut u8 {
        let p = System.alloc(l);
        if !p.is_null() { note_alloc(l.size()); }
        p
    }
    unsafe fn alloc_zeroed(&self, l: Layout) -> *mut u8 {
        let p = System.alloc_zeroed(l);
        if !p.is_null() { note_alloc(l.size()); }
        p
    }
    unsafe fn dealloc(&self, p: *mut u8, l: Layout) {
        crate::drops::on_dealloc(p, l.size());
        let _ = LIVE.try_with(|c| c.set(c.get().saturating_sub(l.size())));
        System.dealloc(p, l)
    }
    unsafe fn realloc(&self, p: *mut u8, l: Layout, new: usize) -> *mut u8 {
        crate::drops::on_dealloc(p, l.size());
        let q = System.realloc(p, l, new);
        if !q.is_null() { let _ = LIVE.try_with(|c| c.set(c.get().saturating_sub(l.size()))); note_alloc(new); }
        q
    }
}

fn note_alloc(n: usize) {
    let _ = LIVE.try_with(|c| { c.set(c.get() + n); let v = c.get(); let _ = PEAK.try_with(|p| if v > p.get() { p.set(v) }); });
    let _ = MAXONE.try_with(|m| if n > m.get() { m.set(n) });
}

/// start a measurement on this thread: peak is reset to the current live size
pub fn reset() -> usize { let live = LIVE.with(|c| c.get()); PEAK.with(|p| p.set(live)); MAXONE.with(|m| m.set(0)); live }
/// peak live bytes above the level at `reset`
pub fn peak_since(base: usize) -> usize { PEAK.with(|p| p.get()).saturating_sub(base) }
pub fn max_single() -> usize { MAXONE.with(|m| m.get()) }
