//! Counting allocator and release monitor, kept in a crate of its own: with the allocator in the same compilation unit as
//! the code that drops a key, the optimiser may inline `dealloc` and keep stores it would otherwise remove as dead — which
//! would hide a wipe that is not protected against dead-store elimination.
pub mod alloc;
pub mod drops;
