//! Process-level driver: runs the real `kestrel` binary (built from the working tree by tools/build_cli.sh) in a private
//! directory with a given world (files, environment, piped stdin) and reports what can be observed from outside;
//! and asks the Lean CLI model (`cli_run`) for the same world.
use crate::keyring::{EncodedPk, EncodedSk, Keyring};
use crate::model::Model;
use crate::util::*;
use std::io::{Read, Write};
use std::os::unix::fs::OpenOptionsExt;
use std::process::{Command, Stdio};
use std::sync::atomic::{AtomicUsize, Ordering};
use std::sync::OnceLock;
use std::time::{Duration, Instant};

#[derive(Clone, Default, Debug)]
pub struct World { pub files: Vec<(String, Vec<u8>)>, pub env: Vec<(String, String)>, pub stdin: Vec<u8> }

impl World { pub fn file_bytes(&self, p: &str) -> Option<Vec<u8>> { self.files.iter().find(|(n, _)| n == p).map(|(_, b)| b.clone()) } }

#[derive(Clone, Debug, Default)]
pub struct CliObs { pub exit: Option<i32>, pub signal: bool, pub timed_out: bool, pub stdout: Vec<u8>, pub stderr: String, pub files: Vec<(String, Vec<u8>)>,
    /// peak resident set size of the child in KiB as seen in /proc/<pid>/status while it ran (only filled in by `run_kestrel_wired`; 0 = not measured)
    pub peak_rss_kb: usize }
impl CliObs {
    pub fn file(&self, p: &str) -> Option<&Vec<u8>> { self.files.iter().find(|(n, _)| n == p).map(|(_, b)| b) }
    pub fn error_line(&self) -> bool { self.stderr.lines().any(|l| l.starts_with("Error:")) }
    /// Some(Ok(name)) for "Success. File from: name", Some(Err(enc)) for "Unknown key: enc"
    pub fn sender(&self) -> Option<Result<String, String>> {
        for l in self.stderr.lines() {
            if let Some(n) = l.strip_prefix("Success. File from: ") { return Some(Ok(n.to_string())); }
            if let Some(e) = l.strip_prefix("Unknown key: ") { return Some(Err(e.to_string())); }
        }
        None
    }
}

pub fn bin() -> String { std::env::var("KESTREL_BIN").unwrap_or_else(|_| "/verif/.cache/bin/kestrel".into()) }
static COUNTER: AtomicUsize = AtomicUsize::new(0);

/// open a pseudo-terminal pair; returns (master, slave)
fn open_pty() -> Option<(std::fs::File, std::fs::File)> {
    use std::os::unix::io::FromRawFd;
    unsafe {
        let m = libc::posix_openpt(libc::O_RDWR | libc::O_NOCTTY | libc::O_CLOEXEC);
        if m < 0 { return None; }
        if libc::grantpt(m) != 0 || libc::unlockpt(m) != 0 { libc::close(m); return None; }
        let mut buf = [0 as libc::c_char; 128];
        if libc::ptsname_r(m, buf.as_mut_ptr(), buf.len()) != 0 { libc::close(m); return None; }
        let s = libc::open(buf.as_ptr(), libc::O_RDWR | libc::O_NOCTTY | libc::O_CLOEXEC);
        if s < 0 { libc::close(m); return None; }
        Some((std::fs::File::from_raw_fd(m), std::fs::File::from_raw_fd(s)))
    }
}

pub fn run_kestrel(w: &World, args: &[String]) -> CliObs { run_kestrel_opts(w, args, false, 30) }

/// peak resident set size (KiB) of the child, measured by /usr/bin/time; big inputs are passed as files on disk
pub fn run_kestrel_rss(w: &World, args: &[String], timeout_s: u64) -> (CliObs, usize) {
    let mut a = vec!["-f".to_string(), "%M".to_string(), "-o".to_string(), "rss.txt".to_string(), bin()];
    a.extend(args.iter().cloned());
    let obs = run_cmd("/usr/bin/time", w, &a, false, timeout_s, true);
    let kb = obs.file("rss.txt").and_then(|b| String::from_utf8_lossy(b).trim().lines().last().and_then(|l| l.trim().parse().ok())).unwrap_or(0);
    (obs, kb)
}

/// `kestrel` in the middle of a pipeline whose consumer is slower than its producer: standard input is fed as fast as the
/// tool takes it, nothing is read from its standard output for `stall_ms`, then the output is drained (and counted, not kept).
/// Returns the observation (stdout empty), the peak resident set size in KiB (/usr/bin/time) and the number of bytes it wrote.
pub fn run_kestrel_stalled_rss(w: &World, args: &[String], stall_ms: u64, timeout_s: u64) -> (CliObs, usize, usize) {
    let dir = format!("/verif/.cache/tmp/{}-{}", std::process::id(), COUNTER.fetch_add(1, Ordering::SeqCst));
    let _ = std::fs::remove_dir_all(&dir);
    std::fs::create_dir_all(&dir).expect("scratch dir");
    for (p, b) in &w.files { std::fs::write(format!("{}/{}", dir, p), b).expect("write fixture"); }
    let mut cmd = Command::new("/usr/bin/time");
    cmd.args(["-f", "%M", "-o", "rss.txt"]).arg(bin()).args(args).current_dir(&dir).env_clear().stdin(Stdio::piped()).stdout(Stdio::piped()).stderr(Stdio::piped());
    for (k, v) in &w.env { cmd.env(k, v); }
    unsafe { use std::os::unix::process::CommandExt; cmd.pre_exec(|| { libc::setsid(); Ok(()) }); }
    let mut obs = CliObs::default();
    let mut child = match cmd.spawn() { Ok(c) => c, Err(e) => { obs.stderr = format!("spawn failed: {}", e); let _ = std::fs::remove_dir_all(&dir); return (obs, 0, 0); } };
    let stdin = child.stdin.take(); let data = w.stdin.clone();
    let tin = std::thread::spawn(move || { if let Some(mut si) = stdin { let _ = si.write_all(&data); } });
    let mut so = child.stdout.take().unwrap(); let mut se = child.stderr.take().unwrap();
    let tout = std::thread::spawn(move || { std::thread::sleep(Duration::from_millis(stall_ms)); let mut n = 0usize; let mut buf = vec![0u8; 1 << 16]; loop { match so.read(&mut buf) { Ok(0) | Err(_) => break, Ok(k) => n += k } } n });
    let terr = std::thread::spawn(move || { let mut v = vec![]; let _ = se.read_to_end(&mut v); v });
    let t0 = Instant::now();
    let status = loop {
        match child.try_wait() { Ok(Some(s)) => break Some(s), Ok(None) => { if t0.elapsed() > Duration::from_secs(timeout_s) { let _ = child.kill(); let _ = child.wait(); obs.timed_out = true; break None; } std::thread::sleep(Duration::from_millis(5)); } Err(_) => break None }
    };
    let _ = tin.join();
    let nout = tout.join().unwrap_or(0);
    obs.stderr = String::from_utf8_lossy(&terr.join().unwrap_or_default()).to_string();
    if let Some(s) = status { obs.exit = s.code(); obs.signal = s.code().is_none(); }
    let kb = std::fs::read_to_string(format!("{}/rss.txt", dir)).ok().and_then(|t| t.trim().lines().last().and_then(|l| l.trim().parse().ok())).unwrap_or(0);
    let _ = std::fs::remove_dir_all(&dir);
    (obs, kb, nout)
}

/// like `run_kestrel`, but standard input is a terminal (nothing is ever typed on it)
pub fn run_kestrel_tty(w: &World, args: &[String], timeout_s: u64) -> CliObs { run_kestrel_opts(w, args, true, timeout_s) }

pub fn run_kestrel_opts(w: &World, args: &[String], tty_stdin: bool, timeout_s: u64) -> CliObs { run_cmd(&bin(), w, args, tty_stdin, timeout_s, false) }

pub fn run_cmd(program: &str, w: &World, args: &[String], tty_stdin: bool, timeout_s: u64, discard_stdout: bool) -> CliObs {
    let a: Vec<std::ffi::OsString> = args.iter().map(std::ffi::OsString::from).collect();
    run_cmd_os(program, w, &a, &[], tty_stdin, timeout_s, discard_stdout)
}

/// arguments and extra environment values as raw bytes (they need not be UTF-8)
pub fn run_kestrel_raw(w: &World, args: &[Vec<u8>], env_raw: &[(&str, Vec<u8>)]) -> CliObs {
    use std::os::unix::ffi::OsStringExt;
    let a: Vec<std::ffi::OsString> = args.iter().map(|b| std::ffi::OsString::from_vec(b.clone())).collect();
    let e: Vec<(std::ffi::OsString, std::ffi::OsString)> = env_raw.iter().map(|(k, v)| (std::ffi::OsString::from(*k), std::ffi::OsString::from_vec(v.clone()))).collect();
    run_cmd_os(&bin(), w, &a, &e, false, 30, false)
}

pub fn run_cmd_os(program: &str, w: &World, args: &[std::ffi::OsString], env_os: &[(std::ffi::OsString, std::ffi::OsString)], tty_stdin: bool, timeout_s: u64, discard_stdout: bool) -> CliObs {
    let dir = format!("/verif/.cache/tmp/{}-{}", std::process::id(), COUNTER.fetch_add(1, Ordering::SeqCst));
    let _ = std::fs::remove_dir_all(&dir);
    std::fs::create_dir_all(&dir).expect("scratch dir");
    for (p, b) in &w.files { std::fs::write(format!("{}/{}", dir, p), b).expect("write fixture"); }
    let mut cmd = Command::new(program);
    cmd.args(args).current_dir(&dir).env_clear().stdout(if discard_stdout { Stdio::null() } else { Stdio::piped() }).stderr(Stdio::piped());
    let pty = if tty_stdin { open_pty() } else { None };
    match &pty { Some((_, slave)) => { cmd.stdin(Stdio::from(slave.try_clone().expect("dup pty"))); } None => { cmd.stdin(Stdio::piped()); } }
    for (k, v) in &w.env { cmd.env(k, v); }
    for (k, v) in env_os { cmd.env(k, v); }
    // no controlling terminal: password prompts must fail instead of waiting for a human
    unsafe { use std::os::unix::process::CommandExt; cmd.pre_exec(|| { libc::setsid(); Ok(()) }); }
    let mut obs = CliObs::default();
    let mut child = match cmd.spawn() { Ok(c) => c, Err(e) => { obs.stderr = format!("spawn failed: {}", e); let _ = std::fs::remove_dir_all(&dir); return obs; } };
    let stdin = child.stdin.take();
    let data = w.stdin.clone();
    let tin = std::thread::spawn(move || { if let Some(mut si) = stdin { let _ = si.write_all(&data); } });
    let so = child.stdout.take(); let mut se = child.stderr.take().unwrap();
    let tout = std::thread::spawn(move || { let mut v = vec![]; if let Some(mut so) = so { let _ = so.read_to_end(&mut v); } v });
    let terr = std::thread::spawn(move || { let mut v = vec![]; let _ = se.read_to_end(&mut v); v });
    let t0 = Instant::now();
    let status = loop {
        match child.try_wait() { Ok(Some(s)) => break Some(s), Ok(None) => { if t0.elapsed() > Duration::from_secs(timeout_s) { let _ = child.kill(); let _ = child.wait(); obs.timed_out = true; break None; } std::thread::sleep(Duration::from_millis(2)); } Err(_) => break None }
    };
    let _ = tin.join();
    drop(pty);
    obs.stdout = tout.join().unwrap_or_default();
    obs.stderr = String::from_utf8_lossy(&terr.join().unwrap_or_default()).to_string();
    if let Some(s) = status { obs.exit = s.code(); obs.signal = s.code().is_none(); }
    if let Ok(rd) = std::fs::read_dir(&dir) { for e in rd.flatten() { if let Ok(name) = e.file_name().into_string() { let big = e.metadata().map(|m| m.len() > (4 << 20)).unwrap_or(false); if big { obs.files.push((name, format!("<{} bytes>", e.metadata().map(|m| m.len()).unwrap_or(0)).into_bytes())); } else if let Ok(b) = std::fs::read(e.path()) { obs.files.push((name, b)); } } } }
    obs.files.sort();
    let _ = std::fs::remove_dir_all(&dir);
    obs
}

/// two runs of the tool in ONE directory that overlap in time: `a` is started first and left waiting for its standard input; `b` runs
/// from start to end (with its standard input supplied at once); then `a` receives its input and finishes. Returns (a, b); the files
/// of the directory after both have ended are in `a.files`.
pub fn run_kestrel_overlapped(w: &World, args_a: &[String], stdin_a: &[u8], args_b: &[String], stdin_b: &[u8]) -> (CliObs, CliObs) {
    let dir = format!("/verif/.cache/tmp/{}-{}", std::process::id(), COUNTER.fetch_add(1, Ordering::SeqCst));
    let _ = std::fs::remove_dir_all(&dir);
    std::fs::create_dir_all(&dir).expect("scratch dir");
    for (p, b) in &w.files { std::fs::write(format!("{}/{}", dir, p), b).expect("write fixture"); }
    let mk = |args: &[String]| { let mut cmd = Command::new(bin()); cmd.args(args).current_dir(&dir).env_clear().stdin(Stdio::piped()).stdout(Stdio::piped()).stderr(Stdio::piped());
        for (k, v) in &w.env { cmd.env(k, v); }
        unsafe { use std::os::unix::process::CommandExt; cmd.pre_exec(|| { libc::setsid(); Ok(()) }); } cmd };
    let finish = |mut child: std::process::Child, input: &[u8]| -> CliObs {
        let mut obs = CliObs::default();
        if let Some(mut si) = child.stdin.take() { let _ = si.write_all(input); }
        let mut so = child.stdout.take().unwrap(); let mut se = child.stderr.take().unwrap();
        let tout = std::thread::spawn(move || { let mut v = vec![]; let _ = so.read_to_end(&mut v); v });
        let terr = std::thread::spawn(move || { let mut v = vec![]; let _ = se.read_to_end(&mut v); v });
        let t0 = Instant::now();
        let status = loop { match child.try_wait() { Ok(Some(s)) => break Some(s), Ok(None) => { if t0.elapsed() > Duration::from_secs(30) { let _ = child.kill(); let _ = child.wait(); obs.timed_out = true; break None; } std::thread::sleep(Duration::from_millis(2)); } Err(_) => break None } };
        obs.stdout = tout.join().unwrap_or_default(); obs.stderr = String::from_utf8_lossy(&terr.join().unwrap_or_default()).to_string();
        if let Some(s) = status { obs.exit = s.code(); obs.signal = s.code().is_none(); }
        obs
    };
    let (mut oa, mut ob) = (CliObs::default(), CliObs::default());
    match mk(args_a).spawn() {
        Err(e) => { oa.stderr = format!("spawn failed: {}", e); }
        Ok(ca) => {
            std::thread::sleep(Duration::from_millis(200));          // `a` is now past its start-up and waits for its first line
            match mk(args_b).spawn() { Ok(cb) => { ob = finish(cb, stdin_b); } Err(e) => { ob.stderr = format!("spawn failed: {}", e); } }
            oa = finish(ca, stdin_a);
        }
    }
    if let Ok(rd) = std::fs::read_dir(&dir) { for e in rd.flatten() { if let Ok(name) = e.file_name().into_string() { if let Ok(b) = std::fs::read(e.path()) { oa.files.push((name, b)); } } } }
    oa.files.sort();
    let _ = std::fs::remove_dir_all(&dir);
    (oa, ob)
}

/// how the child's standard output is wired, and which symbolic links exist in its directory
#[derive(Clone, Debug)]
pub enum StdoutMode { Pipe, DevFull, CloseAfter(usize) }
#[derive(Clone, Debug)]
pub struct Wiring { pub stdout: StdoutMode, pub links: Vec<(String, String)>, pub fifos: Vec<(String, Vec<u8>)> }

/// `kestrel` with an unusual but legal wiring: standard output on a full device (every write fails with ENOSPC), or on a pipe whose
/// reader goes away after `n` bytes (EPIPE / SIGPIPE for the rest), and symbolic links pre-created in the working directory.
/// For each link `l` the observation carries a pseudo-file `l@symlink` (present iff `l` is still a symbolic link afterwards).
/// big named-pipe inputs get more time
fn wiring_timeout(w: &Wiring) -> u64 { if w.fifos.iter().any(|(_, b)| b.len() > (8 << 20)) { 120 } else { 30 } }

pub fn run_kestrel_wired(w: &World, args: &[String], wiring: &Wiring) -> CliObs {
    let dir = format!("/verif/.cache/tmp/{}-{}", std::process::id(), COUNTER.fetch_add(1, Ordering::SeqCst));
    let _ = std::fs::remove_dir_all(&dir);
    std::fs::create_dir_all(&dir).expect("scratch dir");
    for (p, b) in &w.files { std::fs::write(format!("{}/{}", dir, p), b).expect("write fixture"); }
    for (l, t) in &wiring.links { let _ = std::os::unix::fs::symlink(t, format!("{}/{}", dir, l)); }
    // named pipes: each is written ONCE by a feeder thread (what `mkfifo in; producer > in &` does); a tool that opens its input twice starves
    let mut feeders = vec![];
    for (name, bytes) in &wiring.fifos {
        let path = format!("{}/{}", dir, name);
        let c = std::ffi::CString::new(path.clone()).unwrap();
        unsafe { libc::mkfifo(c.as_ptr(), 0o600); }
        let b = bytes.clone();
        feeders.push(std::thread::spawn(move || { if let Ok(mut f) = std::fs::OpenOptions::new().write(true).open(&path) { let _ = f.write_all(&b); } }));
    }
    let mut cmd = Command::new(bin());
    cmd.args(args).current_dir(&dir).env_clear().stderr(Stdio::piped()).stdin(Stdio::piped());
    match wiring.stdout {
        StdoutMode::DevFull => { match std::fs::OpenOptions::new().write(true).open("/dev/full") { Ok(f) => { cmd.stdout(Stdio::from(f)); } Err(_) => { cmd.stdout(Stdio::piped()); } } }
        _ => { cmd.stdout(Stdio::piped()); }
    }
    for (k, v) in &w.env { cmd.env(k, v); }
    unsafe { use std::os::unix::process::CommandExt; cmd.pre_exec(|| { libc::setsid(); Ok(()) }); }
    let mut obs = CliObs::default();
    let mut child = match cmd.spawn() { Ok(c) => c, Err(e) => { obs.stderr = format!("spawn failed: {}", e); let _ = std::fs::remove_dir_all(&dir); return obs; } };
    let stdin = child.stdin.take(); let data = w.stdin.clone();
    let tin = std::thread::spawn(move || { if let Some(mut si) = stdin { let _ = si.write_all(&data); } });
    let so = child.stdout.take(); let mut se = child.stderr.take().unwrap();
    let mode = wiring.stdout.clone();
    let tout = std::thread::spawn(move || { let mut v = vec![]; if let Some(mut so) = so { match mode {
        StdoutMode::CloseAfter(n) => { let mut buf = vec![0u8; n.max(1)]; let mut got = 0; while got < n { match so.read(&mut buf[got..]) { Ok(0) | Err(_) => break, Ok(k) => got += k } } v.extend_from_slice(&buf[..got]); drop(so); }
        _ => { let _ = so.read_to_end(&mut v); } } } v });
    let terr = std::thread::spawn(move || { let mut v = vec![]; let _ = se.read_to_end(&mut v); v });
    let t0 = Instant::now();
    let pid = child.id(); let mut hwm = 0usize;
    let status = loop {
        if let Ok(st) = std::fs::read_to_string(format!("/proc/{}/status", pid)) { if let Some(l) = st.lines().find(|l| l.starts_with("VmHWM:")) { if let Some(v) = l.split_whitespace().nth(1).and_then(|x| x.parse::<usize>().ok()) { hwm = hwm.max(v); } } }
        match child.try_wait() { Ok(Some(s)) => break Some(s), Ok(None) => { if t0.elapsed() > Duration::from_secs(wiring_timeout(wiring)) { let _ = child.kill(); let _ = child.wait(); obs.timed_out = true; break None; } std::thread::sleep(Duration::from_millis(2)); } Err(_) => break None }
    };
    obs.peak_rss_kb = hwm;
    let _ = tin.join();
    obs.stdout = tout.join().unwrap_or_default();
    obs.stderr = String::from_utf8_lossy(&terr.join().unwrap_or_default()).to_string();
    if let Some(s) = status { obs.exit = s.code(); obs.signal = s.code().is_none(); }
    // a feeder whose pipe was never opened for reading is still blocked in open(): unblock it
    for (name, _) in &wiring.fifos { let _ = std::fs::OpenOptions::new().read(true).custom_flags(libc::O_NONBLOCK).open(format!("{}/{}", dir, name)); }
    for f in feeders { let _ = f.join(); }
    for (name, _) in &wiring.fifos { let _ = std::fs::remove_file(format!("{}/{}", dir, name)); }
    if let Ok(rd) = std::fs::read_dir(&dir) { for e in rd.flatten() { if let Ok(name) = e.file_name().into_string() {
        if std::fs::symlink_metadata(e.path()).map(|m| m.file_type().is_symlink()).unwrap_or(false) { obs.files.push((format!("{}@symlink", name), vec![1])); }
        if let Ok(b) = std::fs::read(e.path()) { if b.len() <= (4 << 20) { obs.files.push((name, b)); } else { obs.files.push((name, format!("<{} bytes>", b.len()).into_bytes())); } } } } }
    obs.files.sort();
    let _ = std::fs::remove_dir_all(&dir);
    obs
}

/// Run `kestrel` on a terminal: standard input is a pseudo-terminal that is also the controlling terminal of the
/// child (so /dev/tty works), standard output and standard error stay pipes, and `typed` is what the user types
/// (one line per prompt, each ending in '\n'). Returns the observation and everything the terminal displayed.
pub fn run_kestrel_typed(w: &World, args: &[String], typed: &[u8], timeout_s: u64) -> (CliObs, Vec<u8>) {
    let dir = format!("/verif/.cache/tmp/{}-{}", std::process::id(), COUNTER.fetch_add(1, Ordering::SeqCst));
    let _ = std::fs::remove_dir_all(&dir);
    std::fs::create_dir_all(&dir).expect("scratch dir");
    for (p, b) in &w.files { std::fs::write(format!("{}/{}", dir, p), b).expect("write fixture"); }
    let mut obs = CliObs::default();
    let (mut master, slave) = match open_pty() { Some(p) => p, None => { obs.stderr = "no pty".into(); return (obs, vec![]); } };
    let mut cmd = Command::new(bin());
    cmd.args(args).current_dir(&dir).env_clear().stdout(Stdio::piped()).stderr(Stdio::piped()).stdin(Stdio::from(slave.try_clone().expect("dup pty")));
    for (k, v) in &w.env { cmd.env(k, v); }
    unsafe { use std::os::unix::process::CommandExt; cmd.pre_exec(|| { libc::setsid(); if libc::ioctl(0, libc::TIOCSCTTY, 0) != 0 { return Err(std::io::Error::last_os_error()); } Ok(()) }); }
    let mut child = match cmd.spawn() { Ok(c) => c, Err(e) => { obs.stderr = format!("spawn failed: {}", e); let _ = std::fs::remove_dir_all(&dir); return (obs, vec![]); } };
    drop(cmd); drop(slave);        // the child now holds the only descriptors of the terminal's other end
    let mut mrd = master.try_clone().expect("dup master");
    let tscreen = std::thread::spawn(move || { let mut v = vec![]; let mut buf = [0u8; 4096]; loop { match mrd.read(&mut buf) { Ok(0) | Err(_) => break, Ok(n) => v.extend_from_slice(&buf[..n]) } } v });
    let _ = master.write_all(typed);
    let mut so = child.stdout.take().unwrap(); let mut se = child.stderr.take().unwrap();
    let tout = std::thread::spawn(move || { let mut v = vec![]; let _ = so.read_to_end(&mut v); v });
    let terr = std::thread::spawn(move || { let mut v = vec![]; let _ = se.read_to_end(&mut v); v });
    let t0 = Instant::now();
    let status = loop {
        match child.try_wait() { Ok(Some(s)) => break Some(s), Ok(None) => { if t0.elapsed() > Duration::from_secs(timeout_s) { let _ = child.kill(); let _ = child.wait(); obs.timed_out = true; break None; } std::thread::sleep(Duration::from_millis(2)); } Err(_) => break None }
    };
    obs.stdout = tout.join().unwrap_or_default();
    obs.stderr = String::from_utf8_lossy(&terr.join().unwrap_or_default()).to_string();
    drop(master);
    let screen = tscreen.join().unwrap_or_default();
    if let Some(s) = status { obs.exit = s.code(); obs.signal = s.code().is_none(); }
    if let Ok(rd) = std::fs::read_dir(&dir) { for e in rd.flatten() { if let Ok(name) = e.file_name().into_string() { if let Ok(b) = std::fs::read(e.path()) { obs.files.push((name, b)); } } } }
    obs.files.sort();
    let _ = std::fs::remove_dir_all(&dir);
    (obs, screen)
}

#[derive(Clone, Debug, Default)]
pub struct ModelObs { pub exit: i32, pub err: String, pub stdout: Vec<u8>, pub sender: String, pub files: Vec<(String, Vec<u8>)> }
impl ModelObs { pub fn file(&self, p: &str) -> Option<&Vec<u8>> { self.files.iter().find(|(n, _)| n == p).map(|(_, b)| b) } }

fn pairs(v: &[(String, Vec<u8>)]) -> String { if v.is_empty() { "-".into() } else { v.iter().map(|(k, b)| format!("{}:{}", hexd(k.as_bytes()), hexd(b))).collect::<Vec<_>>().join(",") } }

pub fn model_cli(m: &mut Model, w: &World, args: &[String], ra: &[u8], rb: &[u8]) -> ModelObs {
    let env: Vec<(String, Vec<u8>)> = w.env.iter().map(|(k, v)| (k.clone(), v.as_bytes().to_vec())).collect();
    let mut argv = vec![hex(b"kestrel")]; for a in args { argv.push(if a.is_empty() { String::new() } else { hex(a.as_bytes()) }); }
    let q = format!("{} {} {} {} {} {}", pairs(&w.files), pairs(&env), hexd(&w.stdin), hexd(ra), hexd(rb), argv.join(","));
    let resp = m.ask(&format!("cli_run {}", q));
    let o = parse_model_obs(&resp);
    // the GENERATED program (main.rs / commands.rs translated by tools/rs2lean_cli.py, its streaming library calls given the meaning of the
    // GENERATED encrypt.rs / decrypt.rs functions — KestrelModel/RsCliStream.lean) on the same world: it must end like the hand-written model
    let rsrc = m.ask(&format!("cli_run_src {}", q));
    if rsrc.contains("libcall=") && rsrc.contains("outoffuel=0") {
        let g = parse_model_obs(&rsrc);
        // (the help and version texts are not part of the hand-written model: a successful run for which it predicts no output is compared on exit status and files)
        let informational = o.exit == 0 && o.stdout.is_empty();
        if g.exit != o.exit || (!informational && g.stdout != o.stdout) || g.files != o.files {
            SRC_DIFF.with(|d| { let mut d = d.borrow_mut(); if d.is_none() { *d = Some(format!("kestrel {:?}: generated program (cli_run_src) ends with exit={} stdout={}B files={:?}, the model (cli_run) with exit={} stdout={}B files={:?}",
                args, g.exit, g.stdout.len(), g.files.iter().map(|(n, b)| (n.clone(), b.len())).collect::<Vec<_>>(), o.exit, o.stdout.len(), o.files.iter().map(|(n, b)| (n.clone(), b.len())).collect::<Vec<_>>())); } });
        }
    } else if !rsrc.contains("libcall=") {
        SRC_DIFF.with(|d| { let mut d = d.borrow_mut(); if d.is_none() { *d = Some(format!("kestrel {:?}: cli_run_src answered {:?}", args, rsrc.chars().take(200).collect::<String>())); } });
    }
    o
}

thread_local! { static SRC_DIFF: std::cell::RefCell<Option<String>> = std::cell::RefCell::new(None); }
/// a difference between the generated CLI program and the hand-written CLI model seen since the last call (see `model_cli`)
pub fn take_src_diff() -> Option<String> { SRC_DIFF.with(|d| d.borrow_mut().take()) }

fn parse_model_obs(resp: &str) -> ModelObs {
    let mut o = ModelObs::default();
    for f in resp.split(' ') {
        if let Some(v) = f.strip_prefix("exit=") { o.exit = v.parse().unwrap_or(-1); }
        else if let Some(v) = f.strip_prefix("err=") { o.err = v.to_string(); }
        else if let Some(v) = f.strip_prefix("stdout=") { o.stdout = unhex(v); }
        else if let Some(v) = f.strip_prefix("sender=") { o.sender = v.to_string(); }
        else if let Some(v) = f.strip_prefix("files=") { if v != "-" { for kv in v.split(',') { if let Some((k, b)) = kv.split_once(':') { o.files.push((String::from_utf8_lossy(&unhex(k)).to_string(), unhex(b))); } } } }
    }
    o.files.sort();
    o
}

/// the Lean model of the tool on a terminal (`cli_tty`): `typed` = the lines typed, in order; returns the outcome and the number of retries
pub fn model_cli_tty(m: &mut Model, w: &World, args: &[String], typed: &[&str], ra: &[u8], rb: &[u8]) -> (ModelObs, usize) {
    let env: Vec<(String, Vec<u8>)> = w.env.iter().map(|(k, v)| (k.clone(), v.as_bytes().to_vec())).collect();
    let mut argv = vec![hex(b"kestrel")]; for a in args { argv.push(if a.is_empty() { String::new() } else { hex(a.as_bytes()) }); }
    let lines = if typed.is_empty() { "-".to_string() } else { typed.iter().map(|l| if l.is_empty() { String::new() } else { hex(l.as_bytes()) }).collect::<Vec<_>>().join(",") };
    let resp = m.ask(&format!("cli_tty {} {} {} {} {} {}", pairs(&w.files), pairs(&env), lines, hexd(ra), hexd(rb), argv.join(",")));
    let retries = resp.split(' ').find_map(|f| f.strip_prefix("retries=")).and_then(|v| v.parse().ok()).unwrap_or(usize::MAX);
    (parse_model_obs(&resp), retries)
}

/// canonical sender string of the implementation in the model's format
pub fn sender_canon(s: &Option<Result<String, String>>) -> String {
    match s { Some(Ok(n)) => format!("name:{}", hexd(n.as_bytes())), Some(Err(e)) => format!("unknown:{}", hexd(e.as_bytes())), None => "-".into() }
}

// ---- fixtures: three identities with known passwords -----------------------------------------------------------

pub struct Ident { pub name: &'static str, pub sk: Vec<u8>, pub pk: Vec<u8>, pub pw: &'static str, pub enc_pk: String, pub enc_sk: String }
pub struct Fixtures { pub alice: Ident, pub bob: Ident, pub carol: Ident }

pub fn fixtures() -> &'static Fixtures {
    static F: OnceLock<Fixtures> = OnceLock::new();
    F.get_or_init(|| {
        let mk = |name: &'static str, pw: &'static str, seed: u64| {
            let mut r = Rng::new(seed);
            let sk = r.bytes(32); let salt: [u8; 32] = r.bytes(32).try_into().unwrap();
            let pk = crate::props::c01::pub_of(&sk);
            let enc_pk = Keyring::encode_public_key(&crate::imp::pk(&pk)).as_str().to_string();
            let enc_sk = Keyring::lock_private_key(&crate::imp::sk(&sk), pw.as_bytes(), salt).as_str().to_string();
            Ident { name, sk, pk, pw, enc_pk, enc_sk }
        };
        Fixtures { alice: mk("alice", "alice-pw", 0xA11CE), bob: mk("bob", "bób's pässword", 0xB0B), carol: mk("carol smith", "", 0xCA401) }
    })
}

pub fn section(i: &Ident, with_sk: bool) -> String {
    if with_sk { Keyring::serialize_key(i.name, &EncodedPk::try_from(i.enc_pk.as_str()).unwrap(), &EncodedSk::try_from(i.enc_sk.as_str()).unwrap()) }
    else { format!("[Key]\nName = {}\nPublicKey = {}\n", i.name, i.enc_pk) }
}

/// a keyring text: who has a private key, in which order
pub fn keyring(order: &[(&Ident, bool)]) -> String {
    // every keyring starts with public-only entries of OTHER people whose names look like the ones the cases use (case variants, prefixes,
    // extensions): all distinct names, each with a key of its own, so a lookup that is not exact-by-name picks the wrong key
    static DECOYS: OnceLock<String> = OnceLock::new();
    let decoys = DECOYS.get_or_init(|| {
        let mut r = Rng::new(0xDEC0);
        ["Alice", "BOB", "bo", "alic", "bobby", "Carol Smith", "alice2"].iter().map(|n| { let k = r.bytes(32); let p = crate::props::c01::pub_of(&k);
            format!("[Key]\nName = {}\nPublicKey = {}\n", n, Keyring::encode_public_key(&crate::imp::pk(&p)).as_str()) }).collect::<Vec<_>>().join("\n")
    });
    format!("{}\n{}", decoys, order.iter().map(|(i, s)| section(i, *s)).collect::<Vec<_>>().join("\n"))
}

pub fn sv(xs: &[&str]) -> Vec<String> { xs.iter().map(|s| s.to_string()).collect() }
