//! The tool on a terminal (standard input = a pseudo-terminal that is also the controlling terminal; somebody types).
//! Every command that asks for a password is driven with mistyped passwords / mismatching confirmations before the
//! right input; the outcome must be what the property says and what the Lean terminal model (`cli_tty`,
//! KestrelModel/CliTty.lean) computes: exit status, files, standard output, retry count.
//! Shared by C12 (exit status truthful, outcome independent of how the password arrives) and C13 (output files).
use crate::cli::*;
use crate::imp::{self, NOSCRIPT};
use crate::model::Model;
use crate::report::*;
use crate::util::*;

pub const OPS_C12: [&str; 5] = ["decrypt-file", "decrypt-stdout", "encrypt-file", "extract-pub", "change-pass"];
pub const OPS_C13: [&str; 4] = ["pass-encrypt", "pass-decrypt", "key-generate", "key-generate-envpass"];

pub fn tty_cases(ops: &[&str], tier: &str, seed: u64) -> Vec<Case> {
    let mut rng = Rng::new(seed ^ 0x77E1);
    let mut v = vec![];
    for op in ops { for retries in (if tier == "thorough" { vec![0usize, 1, 2, 3] } else { vec![0usize, 2] }) {
        v.push(case(&[("kind", "tty".into()), ("op", op.to_string()), ("retries", retries.to_string()), ("len", (*rng.pick(&[0usize, 33, 70000])).to_string()), ("seed", rng.next().to_string())]));
    } }
    v
}

pub fn run_tty_case(c: &Case, m: &mut Model) -> Outcome {
    let mut o = Outcome::default();
    let fx = fixtures();
    let mut rng = Rng::new(get(c, "seed").parse().unwrap_or(0));
    let op = get(c, "op"); let retries = getn(c, "retries"); let len = getn(c, "len");
    let plain = crate::gen::payload(rng.next(), len);
    let kr = keyring(&[(&fx.alice, true), (&fx.bob, true)]).into_bytes();
    let wrong_pool = ["nope", "alice-pw ", "bób's pässword!", "x", ""];
    let wrongs: Vec<&str> = (0..retries).map(|i| wrong_pool[(i + len) % wrong_pool.len()]).collect();
    let newpw = "nouveau mot de passe"; let ppw = "pass phrase 123";
    // (files, args, typed lines, what a retry prints on stderr)
    let (files, args, typed, retry_msg): (Vec<(String, Vec<u8>)>, Vec<String>, Vec<String>, &str) = match op {
        "decrypt-file" | "decrypt-stdout" => {
            let ct = imp::key_encrypt(&fx.alice.sk, &fx.alice.pk, &fx.bob.pk, None, None, &plain, &NOSCRIPT).out;
            let mut a = sv(&["decrypt", "c", "-t", "bob", "-k", "kr"]); if op == "decrypt-file" { a.push("-o".into()); a.push("out".into()); }
            let mut t: Vec<String> = wrongs.iter().map(|s| s.to_string()).collect(); t.push(fx.bob.pw.into());
            (vec![("c".into(), ct), ("kr".into(), kr.clone())], a, t, "Key unlock failed.")
        }
        "encrypt-file" => {
            let mut t: Vec<String> = wrongs.iter().map(|s| s.to_string()).collect(); t.push(fx.alice.pw.into());
            (vec![("p".into(), plain.clone()), ("kr".into(), kr.clone())], sv(&["encrypt", "p", "-t", "bob", "-f", "alice", "-k", "kr", "-o", "out"]), t, "Key unlock failed.")
        }
        // one attempt only: these commands do not loop on a wrong password
        "extract-pub" => (vec![], sv(&["key", "extract-pub", &fx.alice.enc_sk]), vec![fx.alice.pw.to_string()], "-"),
        "change-pass" => {
            // old password, then (new, confirmation) pairs: `retries` mismatching pairs first
            let mut t = vec![fx.alice.pw.to_string()]; for i in 0..retries { t.push(format!("{}{}", newpw, i)); t.push(newpw.to_string()); } t.push(newpw.into()); t.push(newpw.into());
            (vec![], sv(&["key", "change-pass", &fx.alice.enc_sk]), t, "Passwords do not match")
        }
        "pass-encrypt" => {
            let mut t = vec![]; for i in 0..retries { t.push(ppw.to_string()); t.push(format!("{} {}", ppw, i)); } t.push(ppw.into()); t.push(ppw.into());
            (vec![("p".into(), plain.clone())], sv(&["password", "encrypt", "p", "-o", "out"]), t, "Passwords do not match")
        }
        "pass-decrypt" => {
            let ct = imp::pass_encrypt(ppw.as_bytes(), &rng.bytes(32), &plain, &NOSCRIPT).out;
            (vec![("c".into(), ct)], sv(&["password", "decrypt", "c", "-o", "out"]), vec![ppw.to_string()], "-")
        }
        "key-generate" => {
            let mut t = vec!["  typed name ".to_string()]; for i in 0..retries { t.push(format!("{}{}", newpw, i)); t.push(newpw.to_string()); } t.push(newpw.into()); t.push(newpw.into());
            let mut f = vec![]; if retries % 2 == 1 || len == 33 { f.push(("ring".to_string(), kr.clone())); }
            (f, sv(&["key", "generate", "-o", "ring"]), t, "Passwords do not match")
        }
        _ => (vec![], sv(&["key", "generate", "-o", "ring", "--env-pass"]), vec!["typed name".to_string()], "-"),
    };
    let mut env = vec![]; if op == "key-generate-envpass" { env.push(("KESTREL_PASSWORD".to_string(), newpw.to_string())); }
    let w = World { files, env, stdin: vec![] };
    let keys: Vec<u8> = typed.iter().flat_map(|l| { let mut b = l.as_bytes().to_vec(); b.push(b'\n'); b }).collect();
    let (obs, screen) = run_kestrel_typed(&w, &args, &keys, 90);
    let typed_refs: Vec<&str> = typed.iter().map(|s| s.as_str()).collect();
    let (mo, mretries) = model_cli_tty(m, &w, &args, &typed_refs, &rng.bytes(32), &rng.bytes(32)); o.validated += 1;
    let seen_retries = if retry_msg == "-" { 0 } else { obs.stderr.matches(retry_msg).count() };
    let expect_retries = if retry_msg == "-" { 0 } else { retries };
    let out_name = if op.starts_with("key-generate") { "ring" } else { "out" };
    o.tags.push(format!("tty {} retries={} -> exit {:?}", op, retries, obs.exit)); o.nontrivial = Some(format!("tty/{}/{}/{}", op, retries, len));
    o.impl_obs = format!("exit={:?} stdout={}B {}={:?}B retries={} sender={:?}", obs.exit, obs.stdout.len(), out_name, obs.file(out_name).map(|x| x.len()), seen_retries, obs.sender());
    o.model_obs = format!("exit={} stdout={}B {}={:?}B retries={} sender={}", mo.exit, mo.stdout.len(), out_name, mo.file(out_name).map(|x| x.len()), mretries, mo.sender);
    let what = format!("`kestrel {}` on a terminal, typing {:?}", args.iter().map(|a| if a.len() > 24 { format!("{}…", &a[..12]) } else { a.clone() }).collect::<Vec<_>>().join(" "), typed);
    // ---- oracle: the command completes, and what it delivers is right ----
    if obs.timed_out || obs.signal { o.oracle_fail = Some(("terminates".into(), format!("{}: timed out = {}, killed by a signal = {}; terminal showed {:?}", what, obs.timed_out, obs.signal, String::from_utf8_lossy(&screen)))); return o; }
    if obs.exit != Some(0) { o.oracle_fail = Some(("completes-after-the-right-input".into(), format!("{}: exit {:?}, stderr {:?}", what, obs.exit, obs.stderr))); return o; }
    if obs.error_line() { o.oracle_fail = Some(("error-line-iff-exit-1".into(), format!("{}: exit 0 with an Error: line: {:?}", what, obs.stderr))); return o; }
    if seen_retries != expect_retries { o.oracle_fail = Some(("one-message-per-failed-attempt".into(), format!("{}: {} failed attempts were typed, {:?} was printed {} times", what, expect_retries, retry_msg, seen_retries))); return o; }
    let delivered = |name: &str| obs.file(name).cloned();
    match op {
        "decrypt-file" | "pass-decrypt" => { if delivered("out").as_ref() != Some(&plain) { o.oracle_fail = Some(("exit-0=>full-plaintext-delivered".into(), format!("{}: the output file holds {:?} bytes, the plaintext {}", what, delivered("out").map(|x| x.len()), plain.len()))); return o; } if !obs.stdout.is_empty() { o.oracle_fail = Some(("nothing-else-on-stdout".into(), format!("{}: {} bytes on standard output", what, obs.stdout.len()))); return o; } }
        "decrypt-stdout" => { if obs.stdout != plain { o.oracle_fail = Some(("exit-0=>full-plaintext-delivered".into(), format!("{}: standard output carries {} bytes, the plaintext has {} (equal: {})", what, obs.stdout.len(), plain.len(), obs.stdout == plain))); return o; } }
        "encrypt-file" => { let d = imp::key_decrypt(&fx.bob.sk, &fx.bob.pk, &delivered("out").unwrap_or_default(), &NOSCRIPT); if d.res != "ok" || d.out != plain || d.sender.as_deref() != Some(&fx.alice.pk[..]) { o.oracle_fail = Some(("exit-0=>valid-ciphertext-delivered".into(), format!("{}: the output file does not decrypt to the plaintext from alice ({})", what, d.res))); return o; } }
        "pass-encrypt" => { let d = imp::pass_decrypt(ppw.as_bytes(), &delivered("out").unwrap_or_default(), &NOSCRIPT); if d.res != "ok" || d.out != plain { o.oracle_fail = Some(("exit-0=>valid-ciphertext-delivered".into(), format!("{}: the output file does not decrypt under the confirmed password ({})", what, d.res))); return o; } }
        "extract-pub" => { let want = format!("PublicKey = {}\n", fx.alice.enc_pk); if obs.stdout != want.as_bytes() { o.oracle_fail = Some(("prints-the-public-key".into(), format!("{}: printed {:?}", what, String::from_utf8_lossy(&obs.stdout)))); return o; } }
        "change-pass" => { let line = String::from_utf8_lossy(&obs.stdout).trim().to_string(); let r = crate::props::c15::rust_unlock(line.trim_start_matches("PrivateKey = "), newpw.as_bytes()); if r != format!("ok {}", hex(&fx.alice.sk)) { o.oracle_fail = Some(("new-string-unlocks-with-the-confirmed-password".into(), format!("{}: printed {:?}, which unlocks to {}", what, line, r))); return o; } }
        _ => {
            let ring = delivered("ring").unwrap_or_default(); let text = String::from_utf8_lossy(&ring).to_string();
            let had = w.file_bytes("ring");
            if let Some(old) = &had { if !ring.starts_with(old) { o.oracle_fail = Some(("earlier-contents-are-a-prefix".into(), format!("{}: the keyring that was there is not a prefix of the new file", what))); return o; } }
            let sk_line = text.lines().rev().find(|l| l.starts_with("PrivateKey = ")).map(|l| l[13..].to_string()).unwrap_or_default();
            let r = crate::props::c15::rust_unlock(&sk_line, newpw.as_bytes());
            if !r.starts_with("ok ") || !text.contains("Name = typed name\n") { o.oracle_fail = Some(("generated-key-usable".into(), format!("{}: the keyring written does not hold a key named 'typed name' that unlocks with the confirmed password ({}); file: {:?}", what, r, text.chars().rev().take(200).collect::<String>().chars().rev().collect::<String>()))); return o; }
        }
    }
    // ---- correspondence with the terminal model ----
    let deterministic = matches!(op, "decrypt-file" | "decrypt-stdout" | "pass-decrypt" | "extract-pub");
    if mo.exit != 0 || mretries != expect_retries { o.disagreement = Some(format!("{}: model exit {} ({}) retries {}", what, mo.exit, mo.err, mretries)); }
    else if deterministic && (mo.stdout != obs.stdout || mo.file("out") != obs.file("out")) { o.disagreement = Some(format!("{}: delivered bytes differ from the model (stdout {} vs {}, out {:?} vs {:?})", what, obs.stdout.len(), mo.stdout.len(), obs.file("out").map(|x| x.len()), mo.file("out").map(|x| x.len()))); }
    else if !deterministic && (mo.stdout.len() != obs.stdout.len() || mo.file(out_name).map(|x| x.len()) != obs.file(out_name).map(|x| x.len())) { o.disagreement = Some(format!("{}: sizes differ from the model (stdout {} vs {}, {} {:?} vs {:?})", what, obs.stdout.len(), mo.stdout.len(), out_name, obs.file(out_name).map(|x| x.len()), mo.file(out_name).map(|x| x.len()))); }
    else if op.starts_with("decrypt") && sender_canon(&obs.sender()) != mo.sender { o.disagreement = Some(format!("{}: sender impl {} model {}", what, sender_canon(&obs.sender()), mo.sender)); }
    o
}
