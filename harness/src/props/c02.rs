//! C02 — password-mode round trip; every other password is rejected.
use crate::gen::*;
use crate::imp::{self, Scripts};
use crate::model::{parse_stream, Model};
use crate::props::c15::{other_password, passwords};
use crate::report::*;
use crate::sio::*;
use crate::util::*;

pub struct C02;

impl Prop for C02 {
    fn id(&self) -> &'static str { "C02" }
    fn rule(&self) -> String {
        "passwords {empty, ASCII, UTF-8 multi-byte, 64 / 65 / 200 bytes, trailing NUL, single 0x80 byte, trailing space / newline / tab, 87-byte passphrase} x plaintext lengths {0, 1, 30, 65536, 65537} x read schedules {full, oneshort, random, halves} and write schedules (partial writes on the ciphertext sink while encrypting and on the plaintext sink while decrypting): \
         Rust pass_encrypt output == model output, decrypts on both sides to the plaintext; wrong passwords (one-bit neighbour, appended byte, dropped byte, unrelated) must give an error with zero bytes written on both sides; \
         the two HMAC key-normalisation pairs (NUL padding, long password vs its SHA-256) are run every time and reported as the known finding. round trips through the real binary with -o (|P| in {0, 15, 70000, ...}, output paths empty or already holding an older longer / shorter file): exit 0, the output file exists and equals P. non-trivial = distinct (kind, password kind, length, schedule)".into()
    }
    fn cases(&self, tier: &str, seed: u64) -> Vec<Case> {
        let th = tier == "thorough";
        let mut rng = Rng::new(seed ^ 0xC02);
        let mut v = vec![];
        let npw = passwords(&mut Rng::new(1)).len();
        let lens: Vec<usize> = if th { vec![0, 1, 30, 65535, 65536, 65537, 131072, 200000] } else { vec![0, 1, 30, 65536, 65537] };
        for i in 0..npw { for (j, &l) in lens.iter().enumerate() {
            if !th && (i + j) % 2 == 1 { continue; }
            v.push(case(&[("kind", "rt".into()), ("pwi", i.to_string()), ("len", l.to_string()), ("rk", (*rng.pick(&["full", "oneshort", "random", "halves"])).into()), ("wk", (*rng.pick(&["all", "random", "small"])).into()), ("seed", rng.next().to_string())]));
        } }
        for i in 0..(if th { 60 } else { 14 }) { v.push(case(&[("kind", "wrong".into()), ("pwi", (i % npw).to_string()), ("len", (*rng.pick(&[0usize, 30, 65537])).to_string()), ("rel", (*rng.pick(&["bitflip", "append", "drop", "other"])).into()), ("seed", rng.next().to_string())])); }
        v.extend(crate::props::clirt::cli_rt_cases("pass", tier, seed));
        // through the tool: passwords that differ only in a trailing line end, in case, or by a space are DIFFERENT passwords (KESTREL_PASSWORD is taken verbatim)
        for pair in ["lf", "crlf", "cr", "case", "space", "prefix"] { v.push(case(&[("kind", "cli-wrong".into()), ("pair", pair.into()), ("seed", rng.next().to_string())])); }
        v.extend(crate::props::c12::C12.cases(tier, seed ^ 0x02).into_iter().filter(|c| get(c, "op") == "fifo-input" && get(c, "cmd").starts_with("pass")));
        v.push(case(&[("kind", "wrong".into()), ("pwi", "1".into()), ("len", "30".into()), ("rel", "nulpad".into()), ("seed", "21".into())]));
        v.push(case(&[("kind", "wrong".into()), ("pwi", "5".into()), ("len", "30".into()), ("rel", "longhash".into()), ("seed", "22".into())]));
        v
    }
    fn run(&self, c: &Case, m: &mut Model) -> Outcome {
        if get(c, "kind") == "cli-rt" { return crate::props::clirt::run_cli_rt(c, m); }
        if get(c, "op") == "fifo-input" { return crate::props::c12::C12.run(c, m); }
        if get(c, "kind") == "cli-wrong" {
            use crate::cli::*;
            let mut o = Outcome::default(); let mut rng = Rng::new(get(c, "seed").parse().unwrap_or(0));
            let (a, b): (&str, &str) = match get(c, "pair") { "lf" => ("hunter2\n", "hunter2"), "crlf" => ("hunter2", "hunter2\r\n"), "cr" => ("pw\r", "pw"), "case" => ("Hunter2", "hunter2"), "space" => ("hunter2 ", "hunter2"), _ => ("hunter22", "hunter2") };
            let plain = rng.bytes(100);
            let e = run_kestrel(&World { files: vec![("p".into(), plain.clone())], env: vec![("KESTREL_PASSWORD".into(), a.into())], stdin: vec![] }, &sv(&["password", "encrypt", "p", "-o", "c", "--env-pass"]));
            let Some(ct) = e.file("c").cloned() else { o.oracle_fail = Some(("cli-encrypt-succeeds".into(), e.stderr)); return o; };
            o.nontrivial = Some(format!("cli-wrong/{}", get(c, "pair"))); o.tags.push(format!("cli other password: {}", get(c, "pair")));
            for (enc_pw, dec_pw) in [(a, b), (a, a)] {
                let d = run_kestrel(&World { files: vec![("c".into(), ct.clone())], env: vec![("KESTREL_PASSWORD".into(), dec_pw.into())], stdin: vec![] }, &sv(&["password", "decrypt", "c", "-o", "out", "--env-pass"])); o.validated += 1;
                if dec_pw == enc_pw { if d.exit != Some(0) || d.file("out") != Some(&plain) { o.oracle_fail = Some(("cli-decrypt(encrypt(P))=P".into(), format!("password {:?}: the same password does not decrypt (exit {:?})", enc_pw, d.exit))); return o; } }
                else if d.exit == Some(0) || d.file("out").map(|f| !f.is_empty()).unwrap_or(false) { o.oracle_fail = Some(("other-password-rejected".into(), format!("a file encrypted with KESTREL_PASSWORD = {:?} is decrypted by `kestrel password decrypt --env-pass` with KESTREL_PASSWORD = {:?} (a different byte string): exit {:?}, {} bytes released", enc_pw, dec_pw, d.exit, d.file("out").map(|f| f.len()).unwrap_or(0)))); return o; }
            }
            o.impl_obs = "the other password is refused, the same one decrypts".into(); o.model_obs = "same".into();
            return o;
        }
        let mut o = Outcome::default();
        let mut rng = Rng::new(get(c, "seed").parse().unwrap_or(0));
        let pws = passwords(&mut rng);
        let pw = pws[getn(c, "pwi") % pws.len()].clone();
        let salt = rng.bytes(32); let len = getn(c, "len"); let p = payload(rng.next(), len);
        let kind = get(c, "kind");
        o.tags.push(format!("{} pw#{}", kind, getn(c, "pwi")));
        let rs = if kind == "rt" { read_schedule(get(c, "rk"), len, 65536, &mut rng) } else { vec![] };
        // the ciphertext sink accepts what the write schedule says (partial writes included): 36 + 32 * chunks + len bytes in all
        let ews = if kind == "rt" { write_schedule(get(c, "wk"), 36 + 32 * (len / 65536 + 1) + len, &mut rng) } else { vec![] };
        let enc = imp::pass_encrypt(&pw, &salt, &p, &Scripts { rs: &rs, ws: &ews, fs: &[] });
        if enc.res != "ok" { o.oracle_fail = Some(("encrypt-succeeds".into(), enc.res.clone())); return o; }
        if kind == "rt" {
            let menc = parse_stream(&m.ask(&format!("pass_encrypt {} {} {} {} {} -", hexd(&pw), hex(&salt), hexd(&p), rd_script(&rs), wr_script(&ews)))); o.validated += 1;
            o.impl_obs = format!("enc ok {}B", enc.out.len()); o.model_obs = format!("enc {} {}B", menc.res, menc.out.len());
            o.nontrivial = Some(format!("rt/{}/{}/{}/{}", getn(c, "pwi"), len, get(c, "rk"), get(c, "wk")));
            if menc.out != enc.out { o.disagreement = Some("pass_encrypt output differs from the model".into()); }
            let drs = read_schedule(*rng.pick(&["full", "random", "halves", "oneshort"]), enc.out.len(), 70000, &mut rng);
            let dws = write_schedule(get(c, "wk"), len, &mut rng);
            let dec = imp::pass_decrypt(&pw, &enc.out, &Scripts { rs: &drs, ws: &dws, fs: &[] });
            o.impl_obs += &format!(" dec {} {}B", dec.res, dec.out.len());
            if dec.res != "ok" || dec.out != p { o.oracle_fail = Some(("decrypt(encrypt(P))=P".into(), format!("pass_decrypt gave {} with {} of {} bytes", dec.res, dec.out.len(), p.len()))); return o; }
            let mdec = parse_stream(&m.ask(&format!("pass_decrypt {} {} {} {} -", hexd(&pw), hexd(&enc.out), rd_script(&drs), wr_script(&dws)))); o.validated += 1;
            if o.disagreement.is_none() && (mdec.res != "ok" || mdec.out != p) { o.disagreement = Some(format!("model pass_decrypt: {} {}B", mdec.res, mdec.out.len())); }
        } else {
            let rel = get(c, "rel");
            let wrong = other_password(&pw, rel, &mut rng);
            let dec = imp::pass_decrypt(&wrong, &enc.out, &imp::NOSCRIPT);
            let mdec = parse_stream(&m.ask(&format!("pass_decrypt {} {} - - -", hexd(&wrong), hexd(&enc.out)))); o.validated += 1;
            o.impl_obs = format!("{} {}B written", dec.res, dec.out.len()); o.model_obs = format!("{} {}B written", mdec.res, mdec.out.len());
            o.nontrivial = Some(format!("wrong/{}/{}/{}", getn(c, "pwi"), len, rel)); o.tags.push(format!("wrong {}", rel));
            if dec.res == "ok" || !dec.out.is_empty() { o.oracle_fail = Some(("other-password-rejected".into(), format!("decryption under a different password ({}: {} vs {}) gave {} and released {} bytes", rel, hexd(&pw), hexd(&wrong), dec.res, dec.out.len()))); }
            else if dec.res != mdec.res || dec.out != mdec.out { o.disagreement = Some(format!("impl {} model {}", dec.res, mdec.res)); }
        }
        o
    }
}
