//! C20 — key containers erase their secret bytes when dropped.
use crate::model::Model;
use crate::report::*;
use crate::util::*;
use kestrel_crypto::{PayloadKey, PrivateKey};
use std::mem::ManuallyDrop;

pub struct C20;

#[derive(Clone, Copy, Debug, PartialEq)]
enum Op { Generate, FromBytes, Clone(usize), Drop(usize), Unwind(usize), CloneFrom(usize, usize) }   // Unwind(i): container i is dropped by stack unwinding out of a panic; CloneFrom(i, j): live[i].clone_from(&live[j]) — the value i held is released

fn ops_alphabet(slots: usize) -> Vec<Op> { let mut v = vec![Op::Generate, Op::FromBytes]; for i in 0..slots { v.push(Op::Clone(i)); v.push(Op::Drop(i)); } v.push(Op::Unwind(0)); v.push(Op::Unwind(1)); v.push(Op::CloneFrom(0, 1)); v.push(Op::CloneFrom(1, 0)); v.push(Op::CloneFrom(2, 1)); v }
fn op_str(o: &Op) -> String { match o { Op::Generate => "gen".into(), Op::FromBytes => "from".into(), Op::Clone(i) => format!("clone{}", i), Op::Drop(i) => format!("drop{}", i), Op::Unwind(i) => format!("unwind{}", i), Op::CloneFrom(i, j) => format!("clonefrom{}<-{}", i, j) } }

/// key VALUES are arbitrary 32-byte strings: besides dense ones, values with long runs of zero bytes at the start, at the end, or everywhere but one place
/// (a left-padded shorter secret, a small scalar) — a wipe must not depend on what the key looks like
fn shape(step: usize, mut raw: Vec<u8>) -> Vec<u8> {
    match step % 5 { 1 => { for b in raw.iter_mut().take(8) { *b = 0; } } 2 => { for b in raw.iter_mut().skip(24) { *b = 0; } } 3 => { for (i, b) in raw.iter_mut().enumerate() { if i != 17 { *b = 0; } } } 4 => { for b in raw.iter_mut().take(16) { *b = 0; } } _ => {} }
    raw
}

/// what a program does with a key between construction and drop: derive its public key, run a key exchange
fn use_key(k: &PrivateKey) {
    if let Ok(p) = k.to_public() { let _ = k.diffie_hellman(&p); }
}

/// run a program on PrivateKey values; returns Err(description) on the first violation
fn run_private(prog: &[Op]) -> Result<usize, String> {
    kalloc::drops::clear();
    let mut live: Vec<Option<(PrivateKey, Vec<u8>)>> = vec![];   // (container, expected secret)
    let mut released = 0usize;
    for (step, op) in prog.iter().enumerate() {
        match op {
            Op::Generate => { let k = PrivateKey::generate(); let b = k.as_bytes().to_vec(); kalloc::drops::watch(k.as_bytes().as_ptr() as usize, 32); if step % 2 == 0 { use_key(&k); } live.push(Some((k, b))); }
            Op::FromBytes => { let raw: Vec<u8> = shape(step, (0..32).map(|i| (step * 37 + i * 11 + 1) as u8).collect()); let k = PrivateKey::try_from(raw.as_slice()).unwrap(); kalloc::drops::watch(k.as_bytes().as_ptr() as usize, 32); if step % 2 == 0 { use_key(&k); } live.push(Some((k, raw))); }
            Op::Clone(i) => { if let Some(Some((k, b))) = live.get(*i) { if step % 2 == 1 { use_key(k); } let c = k.clone(); if c.as_bytes().as_ptr() == k.as_bytes().as_ptr() { return Err(format!("step {}: clone shares its buffer with the original", step)); } kalloc::drops::watch(c.as_bytes().as_ptr() as usize, 32); if step % 3 == 0 { use_key(&c); } let b = b.clone(); live.push(Some((c, b))); } }
            Op::CloneFrom(i, j) => { if i != j && matches!(live.get(*i), Some(Some(_))) && matches!(live.get(*j), Some(Some(_))) {
                let (src, sb) = { let (k, b) = live[*j].as_ref().unwrap(); (k.clone(), b.clone()) };     // a private copy of the source keeps the borrow checker out of the way; it is dropped (and checked) below
                let src_addr = src.as_bytes().as_ptr() as usize; kalloc::drops::watch(src_addr, 32);
                let (dst, db) = live[*i].as_mut().unwrap();
                let old_addr = dst.as_bytes().as_ptr() as usize;
                dst.clone_from(&src);
                *db = sb;
                let new_addr = dst.as_bytes().as_ptr() as usize;
                if new_addr != old_addr { kalloc::drops::watch(new_addr, 32); }
                drop(src);
                let seen = kalloc::drops::take_seen();
                for (a, bytes) in &seen { released += 1; if bytes.iter().any(|&x| x != 0) { return Err(format!("step {} ({}): the buffer at {:#x} ({}) was released still holding secret bytes {}", step, op_str(op), a, if *a == old_addr { "the key that clone_from replaced" } else { "a temporary" }, hex(bytes))); } }
                if new_addr != old_addr && !seen.iter().any(|(a, _)| *a == old_addr) { return Err(format!("step {} ({}): the replaced key's buffer was neither reused nor released", step, op_str(op))); }
            } }
            Op::Drop(i) | Op::Unwind(i) => { if let Some(slot) = live.get_mut(*i) { if let Some((k, secret)) = slot.take() { let addr = k.as_bytes().as_ptr() as usize;
                // while the container is being dropped, EVERY block this thread releases is searched for the key (bytes 1..31: what scalar clamping
                // leaves alone) — a second buffer the value owns (a cached, decoded or formatted copy of the key) is part of the value
                kalloc::drops::scan_arm(&secret[1..31]);
                if matches!(op, Op::Unwind(_)) { let r = std::panic::catch_unwind(std::panic::AssertUnwindSafe(move || { let _held = k; panic!("fault while a key is alive"); })); let _ = r; } else { drop(k); }
                let (hits, haddr, hsize) = kalloc::drops::scan_disarm();
                if hits > 0 { return Err(format!("step {} ({}): while the key was dropped, {} other heap block(s) owned by it went back to the allocator still holding the key bytes (first: {} bytes at {:#x}; the key's main buffer is at {:#x})", step, op_str(op), hits, hsize, haddr, addr)); }
                let seen = kalloc::drops::take_seen();
                match seen.iter().find(|(a, _)| *a == addr) { None => return Err(format!("step {}: the key's buffer was not released by drop", step)),
                    Some((_, bytes)) => { released += 1; if bytes.iter().any(|&x| x != 0) { return Err(format!("step {} ({}): released buffer still holds secret bytes {}", step, op_str(op), hex(bytes))); } } } } } }
        }
        // dropping one container must not disturb the others
        for (j, s) in live.iter().enumerate() { if let Some((k, b)) = s { if k.as_bytes() != &b[..] { return Err(format!("step {}: container {} changed after {}", step, j, op_str(op))); } } }
    }
    Ok(released)
}

/// PayloadKey values living on the heap (Box<PayloadKey>): the allocator sees the block at the moment it is freed
fn run_payload_boxed(prog: &[Op]) -> Result<usize, String> {
    kalloc::drops::clear();
    let mut live: Vec<Option<(Box<PayloadKey>, Vec<u8>)>> = vec![];
    let mut released = 0usize;
    let sz = std::mem::size_of::<PayloadKey>();
    for (step, op) in prog.iter().enumerate() {
        match op {
            Op::Generate | Op::FromBytes => { let raw: Vec<u8> = if *op == Op::Generate { kestrel_crypto::secure_random(32) } else { shape(step, (0..32).map(|i| (step * 53 + i * 7 + 3) as u8).collect()) }; let b = Box::new(PayloadKey::new(&raw)); kalloc::drops::watch(&*b as *const PayloadKey as usize, sz); live.push(Some((b, raw))); }
            Op::Clone(i) => { if let Some(Some((k, b))) = live.get(*i) { let c = Box::new((**k).clone()); kalloc::drops::watch(&*c as *const PayloadKey as usize, sz); let b = b.clone(); live.push(Some((c, b))); } }
            Op::CloneFrom(i, j) => { if i != j && matches!(live.get(*i), Some(Some(_))) && matches!(live.get(*j), Some(Some(_))) { let (src, sb) = { let (k, b) = live[*j].as_ref().unwrap(); ((**k).clone(), b.clone()) }; let (dst, db) = live[*i].as_mut().unwrap(); (**dst).clone_from(&src); *db = sb; } }
            Op::Drop(i) | Op::Unwind(i) => { if let Some(slot) = live.get_mut(*i) { if let Some((k, _)) = slot.take() { let addr = &*k as *const PayloadKey as usize;
                if matches!(op, Op::Unwind(_)) { let _ = std::panic::catch_unwind(std::panic::AssertUnwindSafe(move || { let _held = k; panic!("fault while a key is alive"); })); } else { drop(k); }
                let seen = kalloc::drops::take_seen();
                match seen.iter().find(|(a, _)| *a == addr) { None => return Err(format!("step {}: the boxed key was not released", step)),
                    Some((_, bytes)) => { released += 1; if bytes.iter().any(|&x| x != 0) { return Err(format!("step {} ({}): heap block of a PayloadKey released while still holding {}", step, op_str(op), hex(bytes))); } } } } } }
        }
        for (j, s) in live.iter().enumerate() { if let Some((k, b)) = s { if k.as_bytes() != &b[..] { return Err(format!("step {}: payload key {} changed after {}", step, j, op_str(op))); } } }
    }
    Ok(released)
}

fn run_payload(prog: &[Op]) -> Result<usize, String> {
    let mut live: Vec<Option<(Box<ManuallyDrop<PayloadKey>>, Vec<u8>)>> = vec![];
    let mut released = 0usize;
    for (step, op) in prog.iter().enumerate() {
        match op {
            Op::Generate | Op::FromBytes => { let raw: Vec<u8> = if *op == Op::Generate { kestrel_crypto::secure_random(32) } else { shape(step, (0..32).map(|i| (step * 53 + i * 7 + 3) as u8).collect()) }; live.push(Some((Box::new(ManuallyDrop::new(PayloadKey::new(&raw))), raw))); }
            Op::Clone(i) => { if let Some(Some((k, b))) = live.get(*i) { let c: PayloadKey = (***k).clone(); let b = b.clone(); live.push(Some((Box::new(ManuallyDrop::new(c)), b))); } }
            Op::CloneFrom(i, j) => { if i != j && matches!(live.get(*i), Some(Some(_))) && matches!(live.get(*j), Some(Some(_))) { let (src, sb) = { let (k, b) = live[*j].as_ref().unwrap(); ((***k).clone(), b.clone()) }; let (dst, db) = live[*i].as_mut().unwrap(); (***dst).clone_from(&src); *db = sb; } }
            Op::Drop(i) | Op::Unwind(i) => { if let Some(slot) = live.get_mut(*i) { if let Some((mut k, _)) = slot.take() {
                // drop in place, then look at the bytes the value occupied (the Box keeps the storage alive)
                let p = (&**k as *const PayloadKey) as *const u8;
                unsafe { ManuallyDrop::drop(&mut *k); }
                let after: Vec<u8> = unsafe { std::slice::from_raw_parts(p, std::mem::size_of::<PayloadKey>()) }.to_vec();
                released += 1;
                if after.iter().any(|&x| x != 0) { return Err(format!("step {} ({}): dropped PayloadKey still holds {}", step, op_str(op), hex(&after))); } } } }
        }
        for (j, s) in live.iter().enumerate() { if let Some((k, b)) = s { if k.as_bytes() != &b[..] { return Err(format!("step {}: payload key {} changed after {}", step, j, op_str(op))); } } }
    }
    Ok(released)
}

/// a PayloadKey that does not start on a word boundary: one byte in front of it (what `Option<PayloadKey>` or a packed record does)
#[repr(C)]
struct Odd { tag: u8, key: ManuallyDrop<PayloadKey> }

fn run_payload_unaligned(prog: &[Op]) -> Result<usize, String> {
    let mut live: Vec<Option<(Box<Odd>, Vec<u8>)>> = vec![];
    let mut released = 0usize;
    for (step, op) in prog.iter().enumerate() {
        match op {
            Op::Generate | Op::FromBytes => { let raw: Vec<u8> = if *op == Op::Generate { kestrel_crypto::secure_random(32) } else { shape(step, (0..32).map(|i| (step * 53 + i * 7 + 3) as u8).collect()) }; live.push(Some((Box::new(Odd { tag: 1, key: ManuallyDrop::new(PayloadKey::new(&raw)) }), raw))); }
            Op::Clone(i) => { if let Some(Some((k, b))) = live.get(*i) { let c: PayloadKey = (*k.key).clone(); let b = b.clone(); live.push(Some((Box::new(Odd { tag: 1, key: ManuallyDrop::new(c) }), b))); } }
            Op::CloneFrom(i, j) => { if i != j && matches!(live.get(*i), Some(Some(_))) && matches!(live.get(*j), Some(Some(_))) { let (src, sb) = { let (k, b) = live[*j].as_ref().unwrap(); ((*k.key).clone(), b.clone()) }; let (dst, db) = live[*i].as_mut().unwrap(); (*dst.key).clone_from(&src); *db = sb; } }
            Op::Drop(i) | Op::Unwind(i) => { if let Some(slot) = live.get_mut(*i) { if let Some((mut k, _)) = slot.take() {
                let p = (&*k.key as *const PayloadKey) as *const u8;
                unsafe { ManuallyDrop::drop(&mut k.key); }
                let after: Vec<u8> = unsafe { std::slice::from_raw_parts(p, std::mem::size_of::<PayloadKey>()) }.to_vec();
                released += 1; let _ = k.tag;
                if after.iter().any(|&x| x != 0) { return Err(format!("step {} ({}): a dropped PayloadKey at address {:#x} (one byte past a word boundary) still holds {}", step, op_str(op), p as usize, hex(&after))); } } } }
        }
        for (j, s) in live.iter().enumerate() { if let Some((k, b)) = s { if k.key.as_bytes() != &b[..] { return Err(format!("step {}: payload key {} changed after {}", step, j, op_str(op))); } } }
    }
    Ok(released)
}

impl Prop for C20 {
    fn id(&self) -> &'static str { "C20" }
    fn rule(&self) -> String {
        "all programs of up to 5 (quick) / 6 (thorough) operations over {generate, from-bytes, clone i, drop i, unwind i (the container is dropped by stack unwinding out of a panic), i.clone_from(j) (the value i held is replaced)} with up to 3 live slots, run on real PrivateKey values that are USED between construction and drop (public key derived, a key exchange run) — heap buffer watched by a global allocator: contents inspected at the moment of deallocation, and every other block released while the key is dropped searched for the key bytes — \
         on PayloadKey values dropped in place inside a ManuallyDrop slot (bytes read afterwards), also at an address one byte past a word boundary, and on heap-resident Box<PayloadKey> values (block inspected by the allocator, which lives in a crate of its own so that the optimiser cannot see through it); every release must carry zeros, clones must own their own buffer, dropping one container must not change another; \
         plus the library's own use: after key_encrypt / key_decrypt return, no live heap block of the call holds the payload key. non-trivial = distinct program with at least one drop".into()
    }
    fn cases(&self, tier: &str, _seed: u64) -> Vec<Case> {
        let maxlen = if tier == "thorough" { 6 } else { 5 };
        let alpha = ops_alphabet(3).len();
        let mut v = vec![];
        // two owners of one key value (a key and its clone) dropped at the same moment on two threads
        for b in 0..(if tier == "thorough" { 40 } else { 8 }) { v.push(case(&[("ty", "race".into()), ("batch", b.to_string())])); }
        // constructors: byte strings of every length 0..130 in three alphabets (raw bytes, hexadecimal digits, base64 text); whatever becomes a key is dropped and its block inspected
        for alphabet in ["raw", "hex", "b64"] { for len in 0..=130usize { v.push(case(&[("ty", "ctor".into()), ("alphabet", alphabet.into()), ("len", len.to_string())])); } }
        for ty in ["private", "payload", "payload-boxed", "payload-unaligned"] {
            let mut total = 0usize; let mut p = 1usize;
            for _ in 0..=maxlen { total += p; p *= alpha; }
            // programs are enumerated by index; those without a drop are skipped inside `run` cheaply — to keep the count manageable, stride in quick
            let stride = if tier == "thorough" { 1 } else { 7 };
            let mut idx = 0; while idx < total { v.push(case(&[("ty", ty.into()), ("idx", idx.to_string())])); idx += stride; }
        }
        v
    }
    fn run(&self, c: &Case, _m: &mut Model) -> Outcome {
        let mut o = Outcome::default();
        if get(c, "ty") == "race" {
            // serialised across the harness threads: the process-wide watch list has one user at a time
            static GATE: std::sync::Mutex<()> = std::sync::Mutex::new(());
            let _g = GATE.lock().unwrap_or_else(|e| e.into_inner());
            let trials = 400usize; let mut dirty_total = 0usize; let mut missing = 0usize; let mut first: Option<usize> = None;
            for t in 0..trials {
                let raw: Vec<u8> = (0..32).map(|i| (t * 13 + i * 5 + 1) as u8 | 1).collect();
                let a = PrivateKey::try_from(raw.as_slice()).unwrap(); let b = a.clone();
                let (pa, pb) = (a.as_bytes().as_ptr() as usize, b.as_bytes().as_ptr() as usize);
                let _ = kalloc::drops::gtake();
                kalloc::drops::gwatch(pa); if pb != pa { kalloc::drops::gwatch(pb); }
                let expect = if pb != pa { 2 } else { 1 };
                let bar = std::sync::Arc::new(std::sync::Barrier::new(2)); let bar2 = bar.clone();
                let h = std::thread::spawn(move || { bar2.wait(); drop(b); });
                bar.wait(); drop(a);
                let _ = h.join();
                let (rel, dirty) = kalloc::drops::gtake();
                if dirty > 0 && first.is_none() { first = Some(t); }
                dirty_total += dirty; if rel < expect { missing += 1; }
            }
            o.validated += 1; o.nontrivial = Some(format!("race/{}", get(c, "batch"))); o.tags.push("race: key and clone dropped on two threads".into());
            o.impl_obs = format!("{} trials: {} blocks released with secret bytes, {} trials with a block not released", trials, dirty_total, missing);
            o.model_obs = "every release carries zeros, whichever thread performs it".into();
            if dirty_total > 0 { o.oracle_fail = Some(("secret-erased-before-release".into(), format!("a key and its clone dropped at the same moment on two threads: in {} of {} trials (first: trial {}) a key buffer went back to the allocator still holding the key", dirty_total, trials, first.unwrap_or(0)))); }
            else if missing > 0 { o.oracle_fail = Some(("secret-erased-before-release".into(), format!("a key and its clone dropped on two threads: in {} of {} trials a key buffer was never released", missing, trials))); }
            return o;
        }
        if get(c, "ty") == "ctor" {
            let len = getn(c, "len");
            let input: Vec<u8> = (0..len).map(|i| match get(c, "alphabet") { "hex" => b"0123456789abcdefABCDEF"[(i * 7 + len) % 22], "b64" => b"ABCDEFGHIJKLMNOPQRSTUVWXYZabcdefghijklmnopqrstuvwxyz0123456789+/"[(i * 11 + len) % 64], _ => (i * 37 + len * 3 + 1) as u8 }).collect();
            kalloc::drops::clear();
            let r = std::panic::catch_unwind(|| PrivateKey::try_from(input.as_slice()));
            o.model_obs = if len == 32 { "accepted (exactly 32 bytes), wiped on drop".into() } else { "rejected (a private key is exactly 32 bytes)".into() };
            o.tags.push(format!("ctor {}", get(c, "alphabet"))); o.validated += 1;
            match r {
                Err(_) => { o.impl_obs = "panic".into(); o.disagreement = Some(format!("PrivateKey::try_from panicked on a {}-byte input", len)); }
                Ok(Err(_)) => { o.impl_obs = "rejected".into(); if len == 32 { o.disagreement = Some("PrivateKey::try_from rejects a 32-byte input".into()); } }
                Ok(Ok(k)) => {
                    let addr = k.as_bytes().as_ptr() as usize; kalloc::drops::watch(addr, k.as_bytes().len());
                    let secret = k.as_bytes().to_vec();
                    drop(k);
                    let seen = kalloc::drops::take_seen();
                    o.nontrivial = Some(format!("ctor/{}/{}", get(c, "alphabet"), len));
                    o.impl_obs = format!("accepted as a {}-byte key", secret.len());
                    match seen.iter().find(|(a, _)| *a == addr) {
                        None => { o.oracle_fail = Some(("secret-erased-before-release".into(), format!("a key built from a {}-byte {} input: its buffer was not released by drop", len, get(c, "alphabet")))); }
                        Some((_, bytes)) => { if bytes.iter().any(|&x| x != 0) { o.oracle_fail = Some(("secret-erased-before-release".into(), format!("a key built from a {}-byte {} input: the {}-byte block released by drop still holds {} non-zero bytes ({})", len, get(c, "alphabet"), bytes.len(), bytes.iter().filter(|&&x| x != 0).count(), hex(bytes)))); } } }
                    if o.oracle_fail.is_none() && len != 32 { o.disagreement = Some(format!("PrivateKey::try_from accepts a {}-byte {} input (the model: exactly 32 bytes)", len, get(c, "alphabet"))); }
                }
            }
            return o;
        }
        let alpha = ops_alphabet(3); let n = alpha.len();
        let mut idx = getn(c, "idx"); let mut len = 0; let mut p = 1;
        while idx >= p { idx -= p; p *= n; len += 1; }
        let prog: Vec<Op> = (0..len).map(|_| { let o = alpha[idx % n]; idx /= n; o }).collect();
        let text = prog.iter().map(op_str).collect::<Vec<_>>().join(",");
        let r = match get(c, "ty") { "private" => run_private(&prog), "payload" => run_payload(&prog), "payload-unaligned" => run_payload_unaligned(&prog), _ => run_payload_boxed(&prog) };
        o.model_obs = "every release carries zeros (C20_lifecycle)".into();
        match r {
            Ok(rel) => { o.impl_obs = format!("[{}]: {} releases, all zero", text, rel); if rel > 0 { o.nontrivial = Some(format!("{}/{}", get(c, "ty"), text)); o.validated += 1; } o.tags.push(format!("{} releases={}", get(c, "ty"), rel.min(3))); }
            Err(e) => { o.impl_obs = format!("[{}]: {}", text, e); o.oracle_fail = Some(("secret-erased-before-release".into(), format!("{} program [{}]: {}", get(c, "ty"), text, e))); }
        }
        o
    }
}
