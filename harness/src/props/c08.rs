//! C08 — files reveal no identities; size depends only on plaintext and chunking (library level).
use crate::gen::*;
use crate::imp::{self, Scripts};
use crate::model::Model;
use crate::props::c01::pub_of;
use crate::report::*;
use crate::util::*;
use ct_codecs::{Base64, Encoder};

pub struct C08;

fn find(h: &[u8], n: &[u8]) -> bool { !n.is_empty() && h.windows(n.len()).any(|w| w == n) }

/// magic, bytes 4..36, and the 16 header bytes of every record
pub fn clear_view(f: &[u8], hdr: usize) -> Option<Vec<u8>> {
    if f.len() < hdr { return None; }
    let mut v = f[..36].to_vec();
    let mut off = hdr;
    while off < f.len() {
        if off + 16 > f.len() { return None; }
        v.extend_from_slice(&f[off..off + 16]);
        let l = u32::from_be_bytes(f[off + 12..off + 16].try_into().unwrap()) as usize;
        off += 16 + l + 16;
    }
    if off == f.len() { Some(v) } else { None }
}

impl Prop for C08 {
    fn id(&self) -> &'static str { "C08" }
    fn rule(&self) -> String {
        "plaintext lengths {0, 1, 100, 65535, 65536, 65537, 131072, random} x read schedules {full, oneshort, boundary, random, halves}: output length must be 132 (36) + 32 * max(1, non-empty reads) + |P|, \
         for 3 identity pairs with the same injected ephemeral key the clear view (magic, bytes 4..36, every record's 16 header bytes) must be identical and everything else differ, \
         and the ciphertext must not contain either party's public key in raw, hex or base64 (with and without checksum) form; password mode: length formula for several passwords; the real binary: ciphertexts written by `kestrel encrypt` searched for the keyring names (raw, base64) and both public keys (raw, hex, base64, keyring encoding). non-trivial = distinct (mode, length, schedule)".into()
    }
    fn cases(&self, tier: &str, seed: u64) -> Vec<Case> {
        let th = tier == "thorough";
        let mut rng = Rng::new(seed ^ 0xC08);
        let mut v = vec![];
        let mut lens = vec![0usize, 1, 100, 65535, 65536, 65537, 131072];
        for _ in 0..(if th { 10 } else { 3 }) { lens.push(rng.range(2, 300000)); }
        for &l in &lens { for rk in ["full", "oneshort", "boundary", "random", "halves"] {
            v.push(case(&[("mode", "key".into()), ("len", l.to_string()), ("rk", rk.into()), ("seed", rng.next().to_string())]));
            if th || l <= 65537 && (rk == "full" || rk == "random") { v.push(case(&[("mode", "pass".into()), ("len", l.to_string()), ("rk", rk.into()), ("seed", rng.next().to_string())])); }
        } }
        // a sink that accepts a few kilobytes at a time and is briefly unavailable once (every error kind in turn, at every position of the stream):
        // whenever the encryption reports success all the same, the file has exactly the size the formula gives and the bytes a plain sink would get
        for mode in ["key", "pass"] { for plen in [65536usize, 140000] { v.push(case(&[("mode", format!("busy-{}", mode)), ("len", plen.to_string()), ("seed", rng.next().to_string())])); } }
        // the tool on a terminal: 0..2 mistyped passwords before the right one, ciphertext to standard output
        for (i, wrongs) in (if th { vec![0usize, 1, 2, 3, 1, 2] } else { vec![0usize, 1, 2] }).into_iter().enumerate() { v.push(case(&[("mode", "tty".into()), ("len", (*[50usize, 0, 70000].get(i % 3).unwrap()).to_string()), ("wrongs", wrongs.to_string()), ("rk", "full".into()), ("seed", rng.next().to_string())])); }
        // freshness of the ephemeral field across a long history on one thread
        for _ in 0..(if th { 4 } else { 1 }) { v.push(case(&[("mode", "fresh".into()), ("len", (if th { 400usize } else { 150 }).to_string()), ("rk", "full".into()), ("seed", rng.next().to_string())])); }
        for i in 0..(if th { 24 } else { 6 }) { v.push(case(&[("mode", "cli".into()), ("len", (*[0usize, 50, 70000].get(i % 3).unwrap()).to_string()), ("rk", "full".into()), ("seed", rng.next().to_string())])); }
        v
    }
    fn run(&self, c: &Case, _m: &mut Model) -> Outcome {
        let mut o = Outcome::default();
        if get(c, "mode") == "tty" { return run_tty(c, _m); }
        if get(c, "mode").starts_with("busy-") {
            let mut rng = Rng::new(get(c, "seed").parse().unwrap_or(0));
            let keym = get(c, "mode") == "busy-key"; let plen = getn(c, "len"); let p = rng.bytes(plen);
            let (s, r, e, pk) = (rng.bytes(32), rng.bytes(32), rng.bytes(32), rng.bytes(32)); let (spk, rpk, epk) = (pub_of(&s), pub_of(&r), pub_of(&e)); let salt = rng.bytes(32);
            let hdr = if keym { 132 } else { 36 };
            let enc = |sc: &crate::imp::Scripts| if keym { imp::key_encrypt(&s, &spk, &rpk, Some((&e, &epk)), Some(&pk), &p, sc) } else { imp::pass_encrypt(b"pw", &salt, &p, sc) };
            let reference = enc(&crate::imp::NOSCRIPT);
            o.tags.push("busy sink".into()); o.nontrivial = Some(format!("busy/{}/{}", get(c, "mode"), plen));
            let want_len = hdr + plen + 32 * plen.div_ceil(65536).max(1);
            if reference.res != "ok" || reference.out.len() != want_len { o.oracle_fail = Some(("length-formula".into(), format!("{} bytes for |P|={}, expected {}", reference.out.len(), plen, want_len))); return o; }
            let mut successes = 0;
            for k in 0..40usize {
                let mut ws: Vec<crate::sio::WrEv> = (0..k).map(|i| crate::sio::WrEv::Accept(1000 + 3096 * (i % 2))).collect(); ws.push(crate::sio::WrEv::ErrOther);
                let f = enc(&crate::imp::Scripts { rs: &[], ws: &ws, fs: &[] }); o.validated += 1;
                if f.res != "ok" { continue; }
                successes += 1;
                if f.out != reference.out { o.impl_obs = format!("{} bytes, plain sink {} bytes", f.out.len(), reference.out.len());
                    o.oracle_fail = Some(("length-formula".into(), format!("{} mode, |P|={}: a sink that takes a few KiB per call and fails write call {} once: the encryption reported success and the sink holds {} bytes; the size formula (and a plain sink) give {}", if keym { "key" } else { "password" }, plen, k, f.out.len(), want_len))); return o; }
            }
            o.impl_obs = format!("40 fault positions, {} reported success, each byte-identical to the plain-sink file of {} bytes", successes, want_len);
            return o;
        }
        if get(c, "mode") == "fresh" {
            // "a fresh ephemeral public key (or random salt)": n files written one after the other by one thread
            let mut rng = Rng::new(get(c, "seed").parse().unwrap_or(0));
            let n = getn(c, "len");
            let (s, r) = (rng.bytes(32), rng.bytes(32)); let (spk, rpk) = (pub_of(&s), pub_of(&r));
            let pk = rng.bytes(32);
            let mut seen: std::collections::HashMap<Vec<u8>, usize> = Default::default();
            o.tags.push("fresh".into()); o.nontrivial = Some(format!("fresh/{}/{}", n, get(c, "seed")));
            for i in 0..n {
                // the payload key is left to the library in two of three files
                let f = imp::key_encrypt(&s, &spk, &rpk, None, if i % 3 == 2 { Some(&pk) } else { None }, b"same plaintext", &crate::imp::NOSCRIPT);
                if f.res != "ok" || f.out.len() < 36 { o.oracle_fail = Some(("encrypt-succeeds".into(), f.res)); return o; }
                if let Some(j) = seen.insert(f.out[4..36].to_vec(), i) { o.impl_obs = format!("file {} and file {} both carry ephemeral key {}", j, i, hex(&f.out[4..36])); o.oracle_fail = Some(("fresh-ephemeral-key".into(), format!("file {} of a run of identical encryptions on one thread repeats the ephemeral public key of file {}", i, j))); return o; }
            }
            o.impl_obs = format!("{} files, {} distinct ephemeral keys", n, seen.len());
            return o;
        }
        if get(c, "mode") == "cli" {
            use crate::cli::*;
            let fx = fixtures();
            let mut rng = Rng::new(get(c, "seed").parse().unwrap_or(0));
            let len = getn(c, "len"); let plain = payload(rng.next(), len);
            let names = ["Alice Q. Sender-Person", "Bob the Recipient (work)"];
            let kr = format!("[Key]\nName = {}\nPublicKey = {}\nPrivateKey = {}\n\n[Key]\nName = {}\nPublicKey = {}\n", names[0], fx.alice.enc_pk, fx.alice.enc_sk, names[1], fx.bob.enc_pk);
            // every second run finds a longer, older ciphertext already at the output path
            let mut files = vec![("p".to_string(), plain.clone()), ("kr".to_string(), kr.into_bytes())];
            if rng.chance(1, 2) || len == 50 { files.push(("c".into(), rng.bytes(len + 5000))); }
            let w = World { files, env: vec![("KESTREL_PASSWORD".into(), fx.alice.pw.into())], stdin: vec![] };
            // who writes to whom, and where the ciphertext goes, is none of the file's business: some runs are self-addressed, some write to standard output
            let seedn = getn(c, "seed"); let to = if seedn % 3 == 0 { names[0] } else { names[1] }; let to_stdout = seedn % 2 == 0;
            let mut args = sv(&["encrypt", "p", "-t", to, "-f", names[0], "-k", "kr", "--env-pass"]); if !to_stdout { args.push("-o".into()); args.push("c".into()); }
            let obs = run_kestrel(&w, &args);
            let f = if to_stdout { if obs.exit != Some(0) { o.oracle_fail = Some(("encrypt-succeeds".into(), obs.stderr)); return o; } obs.stdout.clone() } else { let Some(f) = obs.file("c").cloned() else { o.oracle_fail = Some(("encrypt-succeeds".into(), obs.stderr)); return o; }; f };
            o.tags.push(format!("cli {} {}", if to == names[0] { "self-addressed" } else { "to another key" }, if to_stdout { "stdout" } else { "-o" }));
            o.tags.push("cli".into()); o.nontrivial = Some(format!("cli/{}/{}", len, get(c, "seed")));
            o.impl_obs = format!("{}B ciphertext for {}B plaintext", f.len(), len);
            if f.len() != 132 + 32 * len.div_ceil(65536).max(1) + len { o.oracle_fail = Some(("length-formula".into(), format!("`kestrel {}`: the output is {} bytes for |P| = {} (starts with {})", args.join(" "), f.len(), len, hex(&f[..f.len().min(8)])))); return o; }
            let mut needles: Vec<(String, Vec<u8>)> = vec![];
            for n in names { needles.push((format!("keyring name {:?}", n), n.as_bytes().to_vec())); needles.push((format!("base64 of name {:?}", n), Base64::encode_to_string(n.as_bytes()).unwrap().into_bytes())); }
            for (who, id) in [("sender", &fx.alice), ("recipient", &fx.bob)] { needles.push((format!("{} public key (raw)", who), id.pk.clone())); needles.push((format!("{} public key (keyring encoding)", who), id.enc_pk.clone().into_bytes())); needles.push((format!("{} public key (hex)", who), hex(&id.pk).into_bytes())); needles.push((format!("{} public key (base64)", who), Base64::encode_to_string(&id.pk).unwrap().into_bytes())); }
            for (what, n) in needles { if find(&f, &n) { o.oracle_fail = Some(("no-identity-in-file".into(), format!("the ciphertext written by the CLI contains the {}", what))); return o; } }
            return o;
        }
        let mut rng = Rng::new(get(c, "seed").parse().unwrap_or(0));
        let len = getn(c, "len"); let p = payload(rng.next(), len);
        let rs = read_schedule(get(c, "rk"), len, 65536, &mut rng);
        let sc = Scripts { rs: &rs, ws: &[], fs: &[] };
        // number of non-empty reads the schedule delivers
        let mut nreads = 0usize; { let mut left = len; let mut it = rs.iter(); while left > 0 { let k = match it.next() { Some(crate::sio::RdEv::Data(n)) => (*n).min(65536).min(left), _ => 65536.min(left) }; left -= k; nreads += 1; } }
        let nrec = nreads.max(1);
        o.tags.push(format!("{} {}", get(c, "mode"), get(c, "rk"))); o.nontrivial = Some(format!("{}/{}/{}", get(c, "mode"), len, get(c, "rk")));
        if get(c, "mode") == "pass" {
            for pw in [&b""[..], b"pw", "pässwörd".as_bytes()] {
                let f = imp::pass_encrypt(pw, &rng.bytes(32), &p, &sc);
                o.impl_obs = format!("{} {}B, {} records", f.res, f.out.len(), nrec);
                if f.res != "ok" || f.out.len() != 36 + 32 * nrec + len { o.oracle_fail = Some(("length-formula".into(), format!("password mode: {} bytes for |P|={} in {} records, expected {}", f.out.len(), len, nrec, 36 + 32 * nrec + len))); return o; }
                if clear_view(&f.out, 36).is_none() { o.oracle_fail = Some(("record-framing".into(), "record headers do not tile the file".into())); return o; }
            }
            return o;
        }
        let (e, pk) = (rng.bytes(32), rng.bytes(32)); let epk = pub_of(&e);
        let mut views = vec![]; let mut files = vec![];
        for _ in 0..3 {
            let (s, r) = (rng.bytes(32), rng.bytes(32)); let (spk, rpk) = (pub_of(&s), pub_of(&r));
            let f = imp::key_encrypt(&s, &spk, &rpk, Some((&e, &epk)), Some(&pk), &p, &sc);
            if f.res != "ok" || f.out.len() != 132 + 32 * nrec + len { o.oracle_fail = Some(("length-formula".into(), format!("key mode: {} bytes for |P|={} in {} records, expected {}", f.out.len(), len, nrec, 132 + 32 * nrec + len))); return o; }
            let b64 = |b: &[u8]| Base64::encode_to_string(b).unwrap().into_bytes();
            for (who, k) in [("sender", &spk), ("recipient", &rpk)] {
                let mut with_ck = k.clone(); with_ck.extend_from_slice(&kestrel_crypto::sha256(k)[..4]);
                let forms: Vec<(&str, Vec<u8>)> = vec![("raw", k.clone()), ("hex", hex(k).into_bytes()), ("base64", b64(k)), ("keyring encoding", b64(&with_ck))];
                for (form, needle) in forms { if find(&f.out, &needle) { o.oracle_fail = Some(("no-identity-in-file".into(), format!("the {} public key appears in the file in {} form", who, form))); return o; } }
            }
            match clear_view(&f.out, 132) { Some(v) => views.push(v), None => { o.oracle_fail = Some(("record-framing".into(), "record headers do not tile the file".into())); return o; } }
            files.push(f.out);
        }
        o.impl_obs = format!("3 identity pairs: {}B each, clear views equal: {}", files[0].len(), views[0] == views[1] && views[1] == views[2]);
        if views[0] != views[1] || views[1] != views[2] { o.oracle_fail = Some(("clear-view-independent-of-identities".into(), "the cleartext fields differ between identity pairs although the ephemeral key and schedule are the same".into())); }
        else if files[0][36..132] == files[1][36..132] { o.oracle_fail = Some(("handshake-depends-on-identities".into(), "encrypted handshake fields identical for different identities".into())); }
        o
    }
}

/// `kestrel encrypt p -t bob -f alice -k kr > out` on a terminal: the user mistypes the password `wrongs` times
fn run_tty(c: &Case, m: &mut Model) -> Outcome {
    use crate::cli::*;
    let mut o = Outcome::default();
    let fx = fixtures();
    let mut rng = Rng::new(get(c, "seed").parse().unwrap_or(0));
    let len = getn(c, "len"); let wrongs = getn(c, "wrongs"); let plain = payload(rng.next(), len);
    let w = World { files: vec![("p".to_string(), plain.clone()), ("kr".to_string(), keyring(&[(&fx.alice, true), (&fx.bob, true)]).into_bytes())], env: vec![], stdin: vec![] };
    let args = sv(&["encrypt", "p", "-t", "bob", "-f", "alice", "-k", "kr"]);
    let pool = ["alice-pw ", "Alice-pw", "x", "alice-pw1"];
    let mut typed: Vec<&str> = (0..wrongs).map(|i| pool[i % pool.len()]).collect(); typed.push(fx.alice.pw);
    let keys: Vec<u8> = typed.iter().flat_map(|l| { let mut b = l.as_bytes().to_vec(); b.push(b'\n'); b }).collect();
    let (obs, screen) = run_kestrel_typed(&w, &args, &keys, 60);
    let (mo, mretries) = model_cli_tty(m, &w, &args, &typed, &rng.bytes(32), &rng.bytes(32));
    let retries = obs.stderr.matches("Key unlock failed.").count();
    o.validated += 1; o.tags.push(format!("tty wrongs={} exit={:?}", wrongs, obs.exit)); o.nontrivial = Some(format!("tty/{}/{}", len, wrongs));
    o.impl_obs = format!("exit={:?} stdout={}B retries={} stderr={:?}", obs.exit, obs.stdout.len(), retries, obs.stderr); o.model_obs = format!("exit={} stdout={}B retries={}", mo.exit, mo.stdout.len(), mretries);
    let f = &obs.stdout;
    let what = format!("`kestrel {} > out` on a terminal, {} mistyped password(s) then the right one, |P| = {}", args.join(" "), wrongs, len);
    if obs.exit != Some(0) { o.oracle_fail = Some(("interactive-encrypt-succeeds".into(), format!("{}: exit {:?}, stderr {:?}, terminal {:?}", what, obs.exit, obs.stderr, String::from_utf8_lossy(&screen)))); return o; }
    if f.len() != 132 + 32 * len.div_ceil(65536).max(1) + len { o.oracle_fail = Some(("length-formula".into(), format!("{}: the output stream has {} bytes, the format has {}", what, f.len(), 132 + 32 * len.div_ceil(65536).max(1) + len))); return o; }
    if f[..4] != [0x65, 0x67, 0x6b, 0x10] { o.oracle_fail = Some(("only-format-fields-in-clear".into(), format!("{}: the output stream starts with {:?}, not with the format magic", what, String::from_utf8_lossy(&f[..f.len().min(24)])))); return o; }
    if clear_view(f, 132).is_none() { o.oracle_fail = Some(("record-framing".into(), format!("{}: record headers do not tile the output", what))); return o; }
    let d = imp::key_decrypt(&fx.bob.sk, &fx.bob.pk, f, &crate::imp::NOSCRIPT);
    if d.res != "ok" || d.out != plain { o.oracle_fail = Some(("output-is-the-encrypted-file".into(), format!("{}: the output does not decrypt to the plaintext ({})", what, d.res))); return o; }
    if mo.exit != 0 || mo.stdout.len() != f.len() || mretries != retries { o.disagreement = Some(format!("{}: impl exit {:?} {}B {} retries, model exit {} {}B {} retries", what, obs.exit, f.len(), retries, mo.exit, mo.stdout.len(), mretries)); }
    o
}
