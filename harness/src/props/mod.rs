pub mod c01;
pub mod c18;
pub mod c19;
pub mod c09;
pub mod c15;
pub mod c17;
