pub mod c01;
