pub mod c01;
pub mod c18;
