pub mod c01;
pub mod c18;
pub mod c19;
pub mod c09;
