//! C14 — generating a key into an existing keyring keeps every existing key.
use crate::cli::*;
use crate::model::Model;
use crate::props::c17::rust_parse;
use crate::report::*;
use crate::util::*;

pub struct C14;

fn initial(kind: &str) -> Option<Vec<u8>> {
    let fx = fixtures();
    let base = keyring(&[(&fx.alice, true), (&fx.carol, false)]);
    match kind {
        "absent" => None,
        "empty" => Some(vec![]),
        "keyring-nl" => Some(base.into_bytes()),
        "keyring-no-nl" => Some(base.trim_end_matches('\n').as_bytes().to_vec()),
        "keyring-comments" => Some(format!("# my keys\n\n{}\n# end\n", base).into_bytes()),
        "keyring-crlf" => Some(base.replace('\n', "\r\n").into_bytes()),
        "keyring-crlf-no-nl" => Some(base.replace('\n', "\r\n").trim_end_matches('\n').as_bytes().to_vec()),
        // an address book that is already large (more than 2^16 bytes / more than 2^17 bytes): 900 / 1700 public-only peers
        "big-64k" | "big-128k" => {
            let n = if kind == "big-64k" { 900 } else { 1700 };
            let mut t = String::from("# address book\n");
            for i in 0..n { let mut k = [0x42u8; 32]; k[0] = i as u8; k[1] = (i >> 8) as u8; t.push_str(&format!("[Key]\nName = peer {:04}\nPublicKey = {}\n\n", i, crate::props::c17::enc_pk(&k))); }
            Some(format!("{}{}", t, base).into_bytes())
        }
        _ => Some(b"# only a comment\n".to_vec()),
    }
}

impl Prop for C14 {
    fn id(&self) -> &'static str { "C14" }
    fn rule(&self) -> String {
        "real binary: histories of 1..5 (thorough 1..12) `key generate -o F` commands with distinct names (ASCII, with spaces, UTF-8, 128 bytes) and passwords (empty, ASCII, UTF-8) over initial states of F \
         {absent, empty, keyring with / without trailing newline, with comments, CRLF line ends, comment only, an address book of 900 (thorough: 1700) public-only peers = more than 64 KiB (128 KiB)}; after every command: previous contents are a byte prefix of the new contents, the file parses (Keyring::new and the Lean parser agree on the entries), \
         all earlier entries are still there in order followed by the new one; at the end every generated key is used for an encrypt/decrypt round trip with its own password. non-trivial = distinct (initial state, history)".into()
    }
    fn cases(&self, tier: &str, seed: u64) -> Vec<Case> {
        let th = tier == "thorough";
        let mut rng = Rng::new(seed ^ 0xC14);
        let mut v = vec![];
        for init in ["absent", "empty", "keyring-nl", "keyring-no-nl", "keyring-comments", "keyring-crlf", "keyring-crlf-no-nl", "comment-only"] {
            for n in if th { vec![1usize, 2, 3, 5, 12] } else { vec![1usize, 2, 4] } { v.push(case(&[("init", init.into()), ("n", n.to_string()), ("seed", rng.next().to_string())])); }
        }
        // two `key gen -o ring.txt` that overlap in time (one waits for its name while the other runs): both keys, and everything before
        for init in ["absent", "keyring-nl", "keyring-no-nl"] { v.push(case(&[("init", init.into()), ("overlap", "1".into()), ("n", "2".into()), ("seed", rng.next().to_string())])); }
        for init in ["big-64k", "big-128k"] { if th || init == "big-64k" { v.push(case(&[("init", init.into()), ("n", "2".into()), ("seed", rng.next().to_string())])); } }
        v
    }
    fn run(&self, c: &Case, m: &mut Model) -> Outcome {
        let mut o = Outcome::default();
        let mut rng = Rng::new(get(c, "seed").parse().unwrap_or(0));
        let init = get(c, "init"); let n = getn(c, "n");
        let name_pool = ["team=dev", "team=ops", "dave", "erin with spaces", "frédérique", "名前", "#hash", "i]j[", "k'l\"m", "Name", "[Key]"];
        let mut names: Vec<String> = (0..n).map(|i| if i == 3 { "x".repeat(128) } else if i < name_pool.len() { name_pool[(i + rng.below(2)) % name_pool.len()].to_string() } else { format!("key number {}", i) }).collect();
        // every third history generates names that are prefixes / case variants of one another (and one of 127 bytes): all distinct, all legal
        if getn(c, "seed") % 3 == 0 { for (i, f) in ["Bob", "Bob Smith", "bob", "Bo"].iter().enumerate() { if i < names.len() { names[i] = f.to_string(); } } if names.len() > 4 { names[4] = "y".repeat(127); } }
        names.dedup(); let mut seen = std::collections::HashSet::new(); names.retain(|x| seen.insert(x.clone()));
        let pws = ["", "pw", "pässwörd 🔑"];
        if get(c, "overlap") == "1" {
            let cur = initial(init);
            let mut files = vec![]; if let Some(b) = &cur { files.push(("ring.txt".to_string(), b.clone())); }
            let world = World { files, env: vec![("KESTREL_PASSWORD".into(), "pw".into())], stdin: vec![] };
            let args = sv(&["key", "gen", "-o", "ring.txt", "--env-pass"]);
            let (a, b) = crate::cli::run_kestrel_overlapped(&world, &args, b"first started\n", &args, b"second started\n");
            o.validated += 2; o.nontrivial = Some(format!("overlap/{}", init)); o.tags.push(format!("init={}", init)); o.tags.push("two overlapping generations".into());
            let label = format!("two overlapping `kestrel key gen -o ring.txt` into {} keyring (the first waits for its name while the second runs)", init);
            if a.exit != Some(0) || b.exit != Some(0) { o.oracle_fail = Some(("generate-succeeds".into(), format!("{}: exits {:?} / {:?}: {} {}", label, a.exit, b.exit, a.stderr.trim(), b.stderr.trim()))); return o; }
            let newf = a.file("ring.txt").cloned().unwrap_or_default();
            if let Some(old) = &cur { if !newf.starts_with(old) { o.oracle_fail = Some(("earlier-contents-are-a-prefix".into(), format!("{}: the previous {} bytes are not a prefix of the new contents ({} bytes)", label, old.len(), newf.len()))); return o; } }
            let parsed = rust_parse(&String::from_utf8_lossy(&newf));
            let got: Vec<String> = if parsed.starts_with("ok ") { parsed[3..].split(';').filter(|x| !x.is_empty()).map(|e| e.split('|').next().unwrap_or("").to_string()).collect() } else { vec![] };
            o.impl_obs = format!("{} bytes, parse {}, {} entries", newf.len(), &parsed[..parsed.len().min(3)], got.len()); o.model_obs = "both generated keys present after everything that was there".into();
            if !parsed.starts_with("ok ") { o.oracle_fail = Some(("file-parses-as-keyring".into(), format!("{}: the resulting file is rejected by the keyring parser", label))); return o; }
            for n in ["first started", "second started"] { if !got.contains(&hexd(n.as_bytes())) { o.oracle_fail = Some(("every-key-present-in-order".into(), format!("{}: both commands reported success but the key {:?} is not in the keyring afterwards ({} entries)", label, n, got.len()))); return o; } }
            return o;
        }
        let mut cur = initial(init);
        let before_entries: Vec<String> = match &cur { Some(b) => { let r = rust_parse(&String::from_utf8_lossy(b)); if r.starts_with("ok ") { r[3..].split(';').filter(|x| !x.is_empty()).map(|x| x.to_string()).collect() } else { vec![] } } None => vec![] };
        let mut expected_names: Vec<String> = before_entries.iter().map(|e| e.split('|').next().unwrap_or("").to_string()).collect();
        o.nontrivial = Some(format!("{}/{}", init, names.join(","))); o.tags.push(format!("init={}", init)); o.tags.push(format!("n={}", names.len()));
        let mut gen: Vec<(String, String)> = vec![];
        for (i, name) in names.iter().enumerate() {
            let pw = pws[(i + rng.below(3)) % 3];
            let mut files = vec![]; if let Some(b) = &cur { files.push(("ring.txt".to_string(), b.clone())); }
            // the name is the first LINE of standard input; what follows it (more lines, bytes that are not UTF-8, CR LF endings) is not part of it
            let mut stdin = format!("{}\n", name).into_bytes();
            match (i + getn(c, "seed")) % 4 { 1 => stdin.extend_from_slice(&[0xff, 0xfe, b'x', b'\n']), 2 => { stdin.pop(); stdin.extend_from_slice(b"\r\nsecond line\n"); } _ => {} }
            // other files next to the keyring (an editor's backup, a leftover temporary, a lock file) are none of the command's business:
            // they do not change what it writes, and they are still there, unchanged, afterwards
            let siblings: Vec<(String, Vec<u8>)> = if getn(c, "seed") % 2 == 0 { vec![("ring.txt.tmp".into(), b"[Key]\nName = leftover\nPublicKey = AAAA\n".to_vec()), ("ring.txt~".into(), b"old backup\n".to_vec()), (".ring.txt.swp".into(), vec![0u8; 64]), ("ring.txt.lock".into(), vec![])] } else { vec![] };
            files.extend(siblings.iter().cloned());
            let world = World { files, env: vec![("KESTREL_PASSWORD".into(), pw.into())], stdin };
            let args = sv(&["key", "gen", "-o", "ring.txt", "--env-pass"]);
            let obs = run_kestrel(&world, &args);
            let mo = model_cli(m, &world, &args, &rng.bytes(32), &rng.bytes(32)); o.validated += 1;
            let label = format!("generation {} ({:?}) into {} keyring", i + 1, name, init);
            if obs.exit != Some(0) { o.oracle_fail = Some(("generate-succeeds".into(), format!("{}: exit {:?}: {}", label, obs.exit, obs.stderr.trim()))); return o; }
            for (n, b) in &siblings { if obs.file(n) != Some(b) { o.oracle_fail = Some(("neighbouring-files-untouched".into(), format!("{}: the file {:?} next to the keyring was changed or removed by the command", label, n))); return o; } }
            let Some(newf) = obs.file("ring.txt").cloned() else { o.oracle_fail = Some(("file-written".into(), format!("{}: no file", label))); return o; };
            if let Some(old) = &cur { if !newf.starts_with(old) { o.impl_obs = format!("before {}B, after {}B", old.len(), newf.len()); o.oracle_fail = Some(("earlier-contents-are-a-prefix".into(), format!("{}: the previous {} bytes of the keyring are not a prefix of the new contents ({} bytes) — existing keys were overwritten", label, old.len(), newf.len()))); return o; } }
            let parsed = rust_parse(&String::from_utf8_lossy(&newf));
            let mparsed = m.ask(&format!("parse_keyring {}", hexd(&newf)));
            expected_names.push(hexd(name.as_bytes()));
            if !parsed.starts_with("ok ") { o.oracle_fail = Some(("file-parses-as-keyring".into(), format!("{}: the resulting file is rejected by the keyring parser", label))); return o; }
            let got_names: Vec<String> = parsed[3..].split(';').filter(|x| !x.is_empty()).map(|e| e.split('|').next().unwrap_or("").to_string()).collect();
            if got_names != expected_names { o.oracle_fail = Some(("every-key-present-in-order".into(), format!("{}: entries are {:?}, expected {:?}", label, got_names.len(), expected_names.len()))); return o; }
            if parsed != mparsed { o.disagreement = Some(format!("{}: Keyring::new and the model read the file differently", label)); }
            let mnew = mo.file("ring.txt").cloned().unwrap_or_default();
            if mo.exit != 0 || mnew.len() != newf.len() || cur.as_ref().map(|o| !mnew.starts_with(o)).unwrap_or(false) { if o.disagreement.is_none() { o.disagreement = Some(format!("{}: model exit {} file {}B vs impl {}B", label, mo.exit, mnew.len(), newf.len())); } }
            gen.push((name.clone(), pw.to_string()));
            cur = Some(newf);
        }
        // every generated key is usable with its own password: encrypt to it from itself, decrypt back
        let ring = cur.unwrap_or_default();
        for (name, pw) in gen.iter().take(4) {
            let plain = rng.bytes(40);
            let w1 = World { files: vec![("ring.txt".into(), ring.clone()), ("p.bin".into(), plain.clone())], env: vec![("KESTREL_PASSWORD".into(), pw.clone())], stdin: vec![] };
            let e = run_kestrel(&w1, &sv(&["encrypt", "p.bin", "-t", name, "-f", name, "-o", "c.bin", "-k", "ring.txt", "--env-pass"]));
            let Some(ct) = e.file("c.bin").cloned() else { o.oracle_fail = Some(("generated-key-usable".into(), format!("encrypting with generated key {:?} failed: {}", name, e.stderr.trim()))); return o; };
            let w2 = World { files: vec![("ring.txt".into(), ring.clone()), ("c.bin".into(), ct)], env: vec![("KESTREL_PASSWORD".into(), pw.clone())], stdin: vec![] };
            let d = run_kestrel(&w2, &sv(&["decrypt", "c.bin", "-t", name, "-o", "d.bin", "-k", "ring.txt", "--env-pass"]));
            if d.exit != Some(0) || d.file("d.bin") != Some(&plain) || d.sender() != Some(Ok(name.clone())) { o.oracle_fail = Some(("generated-key-usable".into(), format!("round trip with generated key {:?} failed: exit {:?} {}", name, d.exit, d.stderr.trim()))); return o; }
        }
        o.impl_obs = format!("{} generations into {}: prefix preserved, {} entries, round trips ok", gen.len(), init, expected_names.len()); o.model_obs = "same entries".into();
        o
    }
}
