//! C06 — files conform byte-for-byte to the documented, frozen wire format.
use crate::gen::*;
use crate::imp::{self, Scripts, NOSCRIPT};
use crate::model::{parse_stream, Model};
use crate::report::*;
use crate::sio::*;
use crate::util::*;

pub struct C06;

const GOLDEN_KEY: &str = "/repo/src/cli/tests/data.txt.ktl";
const GOLDEN_PASS: &str = "/repo/src/cli/tests/pdata.txt.ktl";
const GOLDEN_PLAIN: &str = "/repo/src/cli/tests/data.txt";
const BOB_SK: &str = "ZWdrMDJgXksGfgKQ8A9wTo/1PhQ8YCXDYSGCTb737pxrQ7pJtGH79RZWjOIlSSWApiEQEsryBh/oOY9jLVWlgEXEuKNFhIiUEhFLPsIkMG984lMP";
const ALICE_PK: &str = "IFi4oklOSLMCfUhqstD6YYlG9XcaVkREIqyDwCMY0SykFyD8";

impl Prop for C06 {
    fn id(&self) -> &'static str { "C06" }
    fn rule(&self) -> String {
        "encrypt: key_encrypt / pass_encrypt with explicit (sender, recipient, ephemeral, payload key | password, salt), plaintext sizes {0, 1, 13, 65535, 65536, 65537, 131072, random} and read partitions {full, oneshort, boundary, random, halves}: \
         output must equal the Lean reference (docs/file-format.txt + Noise_X_25519_ChaChaPoly_SHA256 + RFC 8439/7748/5869/7914) byte for byte; password lengths 63, 64, 65, 128, 129 (thorough: 0..200 around every HMAC block boundary); \
         decrypt: reference-built files with chunkings the encryptor never emits (1-byte chunks, a full chunk then 1 byte, empty final chunk, 65536-byte chunks, zero or junk counter fields) must decrypt in Rust to the plaintext and sender; \
         golden files shipped with the repository decrypt in Rust and in the model. non-trivial = distinct (mode, size, partition / chunking)".into()
    }
    fn cases(&self, tier: &str, seed: u64) -> Vec<Case> {
        let th = tier == "thorough";
        let mut rng = Rng::new(seed ^ 0xC06);
        let mut v = vec![];
        let mut lens = vec![0usize, 1, 13, 65535, 65536, 65537, 131072];
        for _ in 0..(if th { 8 } else { 2 }) { lens.push(rng.range(2, 300 * 1024)); }
        for mode in ["key", "pass"] {
            for &l in &lens {
                if mode == "pass" && !th && l > 65537 { continue; }
                for rk in ["full", "oneshort", "boundary", "random", "halves"] {
                    if mode == "pass" && !th && rk != "full" && rk != "random" { continue; }
                    v.push(case(&[("kind", "enc".into()), ("mode", mode.into()), ("len", l.to_string()), ("rk", rk.into()), ("seed", rng.next().to_string())]));
                }
            }
        }
        for _ in 0..(if th { 400 } else { 60 }) { v.push(case(&[("kind", "enc".into()), ("mode", "key".into()), ("len", rng.range(0, 200).to_string()), ("rk", "random".into()), ("seed", rng.next().to_string())])); }
        for mode in ["key", "pass"] {
            for ch in ["ones", "full+1", "emptyfinal", "fulls", "mixed", "single-empty", "max-then-max"] {
                for ctr in ["seq", "zero", "junk"] {
                    if mode == "pass" && !th && ctr == "junk" { continue; }
                    v.push(case(&[("kind", "chunking".into()), ("mode", mode.into()), ("ch", ch.into()), ("ctr", ctr.into()), ("seed", rng.next().to_string())]));
                }
            }
        }
        for _ in 0..(if th { 200 } else { 30 }) { v.push(case(&[("kind", "chunking".into()), ("mode", "key".into()), ("ch", "random".into()), ("ctr", (*rng.pick(&["seq", "zero", "junk"])).into()), ("seed", rng.next().to_string())])); }
        // password lengths around the HMAC-SHA-256 block size (RFC 2104: only keys LONGER than 64 bytes are hashed first) and its multiples
        for pl in [0usize, 1, 31, 32, 33, 55, 56, 63, 64, 65, 119, 127, 128, 129, 200] { if th || [63, 64, 65, 128, 129].contains(&pl) { v.push(case(&[("kind", "enc".into()), ("mode", "pass".into()), ("len", "13".into()), ("rk", "full".into()), ("pwlen", pl.to_string()), ("seed", rng.next().to_string())])); } }
        v.push(case(&[("kind", "golden".into()), ("which", "key".into())]));
        v.push(case(&[("kind", "golden".into()), ("which", "pass".into())]));
        // the tool itself: files it writes over an older, longer file at the output path are still exactly the format (and decrypt back); the
        // repository's golden files decrypt through the binary onto an older, longer output file to exactly their plaintext
        v.extend(crate::props::clirt::cli_rt_cases("key", tier, seed ^ 0x6).into_iter().filter(|c| get(c, "stale") != "none"));
        v.extend(crate::props::clirt::cli_rt_cases("pass", tier, seed ^ 0x66).into_iter().filter(|c| get(c, "stale") != "none"));
        for g in ["key", "pass"] { v.push(case(&[("kind", "golden-cli".into()), ("mode", g.into()), ("seed", rng.next().to_string())])); }
        v
    }
    fn run(&self, c: &Case, m: &mut Model) -> Outcome {
        if get(c, "kind") == "cli-rt" { return crate::props::clirt::run_cli_rt(c, m); }
        if get(c, "kind") == "golden-cli" {
            use crate::cli::*;
            let mut o = Outcome::default();
            let keym = get(c, "mode") == "key";
            let (gf, plain) = (std::fs::read(if keym { GOLDEN_KEY } else { GOLDEN_PASS }).unwrap_or_default(), std::fs::read(GOLDEN_PLAIN).unwrap_or_default());
            let kr = std::fs::read("/repo/src/cli/tests/keyring.txt").unwrap_or_default();
            o.nontrivial = Some(format!("golden-cli/{}", get(c, "mode"))); o.tags.push("golden file through the binary".into()); o.validated += 1;
            let w = World { files: vec![("g.ktl".into(), gf), ("kr.txt".into(), kr), ("out.bin".into(), vec![0x33u8; 5000])], env: vec![("KESTREL_PASSWORD".into(), if keym { "bob".into() } else { "pass123".into() })], stdin: vec![] };
            let args = if keym { sv(&["decrypt", "g.ktl", "-t", "bob", "-o", "out.bin", "-k", "kr.txt", "--env-pass"]) } else { sv(&["password", "decrypt", "g.ktl", "-o", "out.bin", "--env-pass"]) };
            let obs = run_kestrel(&w, &args);
            o.impl_obs = format!("exit={:?} out={:?}B", obs.exit, obs.file("out.bin").map(|b| b.len())); o.model_obs = format!("exit 0, out = {} bytes", plain.len());
            if obs.exit != Some(0) { o.disagreement = Some(format!("the repository's golden {} file does not decrypt through the binary with the test suite's key / password: exit {:?} {}", get(c, "mode"), obs.exit, obs.stderr.trim())); }
            else if obs.file("out.bin") != Some(&plain) { o.oracle_fail = Some(("conforming-file-decrypts".into(), format!("the golden {} file, decrypted by the binary onto an older 5000-byte output file: the output holds {:?} bytes, the plaintext has {}", get(c, "mode"), obs.file("out.bin").map(|b| b.len()), plain.len()))); }
            return o;
        }
        let mut o = Outcome::default();
        let mut rng = Rng::new(get(c, "seed").parse().unwrap_or(0));
        let keym = get(c, "mode") == "key";
        let (s, r, e, pk) = (rng.bytes(32), rng.bytes(32), rng.bytes(32), rng.bytes(32));
        let (spk, mut rpk, epk) = (crate::props::c01::pub_of(&s), crate::props::c01::pub_of(&r), crate::props::c01::pub_of(&e));
        // a public key is the 32 bytes it is given as: every third key-mode encryption addresses the non-canonical encoding of the recipient's key
        // (bit 255 set — legal input to X25519, which ignores the bit; Noise hashes the bytes as they are), and the file must still be the reference file
        if keym && get(c, "kind") == "enc" && getn(c, "seed") % 3 == 0 { rpk[31] |= 0x80; o.tags.push("recipient key with bit 255 set".into()); }
        let pws: [&[u8]; 4] = [b"", b"pass123", "pässwörd".as_bytes(), &[0x41; 70]];
        let mut pw = pws[rng.below(4)].to_vec(); let salt = rng.bytes(32);
        if !get(c, "pwlen").is_empty() { let n = getn(c, "pwlen"); pw = (0..n).map(|i| b"correct horse battery staple "[i % 29]).collect(); }
        match get(c, "kind") {
            "enc" => {
                let len = getn(c, "len"); let p = payload(rng.next(), len);
                let rs = read_schedule(get(c, "rk"), len, 65536, &mut rng);
                let sc = Scripts { rs: &rs, ws: &[], fs: &[] };
                let (enc, line) = if keym { (imp::key_encrypt(&s, &spk, &rpk, Some((&e, &epk)), Some(&pk), &p, &sc), format!("key_encrypt {} {} {} {} {} {} {} {} - -", hex(&s), hex(&spk), hex(&rpk), hex(&e), hex(&epk), hex(&pk), hexd(&p), rd_script(&rs))) }
                    else { (imp::pass_encrypt(&pw, &salt, &p, &sc), format!("pass_encrypt {} {} {} {} - -", hexd(&pw), hex(&salt), hexd(&p), rd_script(&rs))) };
                let menc = parse_stream(&m.ask(&line)); o.validated += 1;
                o.impl_obs = format!("{} {}B", enc.res, enc.out.len()); o.model_obs = format!("{} {}B", menc.res, menc.out.len());
                o.tags.push(format!("enc {} {}", get(c, "mode"), get(c, "rk")));
                o.nontrivial = Some(format!("enc/{}/{}/{}/{}", get(c, "mode"), len, get(c, "rk"), get(c, "seed")));
                if enc.res != "ok" { o.oracle_fail = Some(("encrypt-succeeds".into(), enc.res.clone())); }
                else if enc.out != menc.out || menc.res != "ok" {
                    let at = enc.out.iter().zip(menc.out.iter()).position(|(a, b)| a != b).unwrap_or(enc.out.len().min(menc.out.len()));
                    let field = if keym { if at < 4 { "prologue" } else if at < 36 { "ephemeral public key" } else if at < 84 { "encrypted static key" } else if at < 132 { "encrypted payload key" } else { "chunk records" } } else if at < 4 { "magic" } else if at < 36 { "salt" } else { "chunk records" };
                    o.oracle_fail = Some(("output=reference-format".into(), format!("{} mode, |P|={}, reads {}: output differs from the reference at byte {} ({}); lengths {} vs {}", get(c, "mode"), len, get(c, "rk"), at, field, enc.out.len(), menc.out.len())));
                }
            }
            "chunking" => {
                let ch = get(c, "ch");
                let chunks: Vec<Vec<u8>> = match ch {
                    "ones" => (0..rng.range(2, 9)).map(|_| rng.bytes(1)).collect(),
                    "full+1" => vec![rng.bytes(65536), rng.bytes(1)],
                    "emptyfinal" => vec![rng.bytes(5), vec![]],
                    "fulls" => vec![rng.bytes(65536), rng.bytes(65536)],
                    "mixed" => vec![rng.bytes(3), rng.bytes(65536), vec![], rng.bytes(100)],
                    "single-empty" => vec![vec![]],
                    "max-then-max" => vec![rng.bytes(65536)],
                    _ => { let n = rng.range(1, 6); (0..n).map(|_| { let l = *rng.pick(&[0usize, 1, 2, 17, 300]); rng.bytes(l) }).collect() }
                };
                let plain = chunks.concat();
                let cl = if chunks.len() == 1 && chunks[0].is_empty() { "-".to_string() } else { chunks.iter().map(|x| if x.is_empty() { "".to_string() } else { hex(x) }).collect::<Vec<_>>().join(",") };
                let line = if keym { format!("key_file {} {} {} {} {} {} {} {}", hex(&s), hex(&spk), hex(&rpk), hex(&e), hex(&epk), hex(&pk), get(c, "ctr"), cl) } else { format!("pass_file {} {} {} {}", hexd(&pw), hex(&salt), get(c, "ctr"), cl) };
                let resp = m.ask(&line);
                let file = unhex(resp.strip_prefix("ok ").unwrap_or(""));
                let drs = read_schedule(*rng.pick(&["full", "random", "halves"]), file.len(), 70000, &mut rng);
                let dec = if keym { imp::key_decrypt(&r, &rpk, &file, &Scripts { rs: &drs, ws: &[], fs: &[] }) } else { imp::pass_decrypt(&pw, &file, &Scripts { rs: &drs, ws: &[], fs: &[] }) };
                o.validated += 1;
                o.model_obs = format!("reference file {}B, {} chunks ({}), counters {}", file.len(), chunks.len(), ch, get(c, "ctr"));
                o.impl_obs = format!("{} {}B", dec.res, dec.out.len());
                o.tags.push(format!("chunking {} {} ctr={}", get(c, "mode"), ch, get(c, "ctr")));
                o.nontrivial = Some(format!("ch/{}/{}/{}/{}", get(c, "mode"), ch, get(c, "ctr"), get(c, "seed")));
                if file.is_empty() { o.disagreement = Some(format!("model could not build the file: {}", resp)); }
                else if dec.res != "ok" || dec.out != plain { o.oracle_fail = Some(("conforming-file-decrypts".into(), format!("a file conforming to the format ({} mode, chunk lengths {:?}, counter fields {}) gave {} with {} of {} bytes", get(c, "mode"), chunks.iter().map(|x| x.len()).collect::<Vec<_>>(), get(c, "ctr"), dec.res, dec.out.len(), plain.len()))); }
                else if keym && dec.sender.as_deref() != Some(&spk[..]) { o.oracle_fail = Some(("conforming-file-names-sender".into(), "wrong sender reported".into())); }
            }
            _ => {
                let which = get(c, "which");
                let plain = std::fs::read(GOLDEN_PLAIN).unwrap_or_default();
                o.nontrivial = Some(format!("golden/{}", which)); o.tags.push(format!("golden {}", which));
                if which == "key" {
                    let file = std::fs::read(GOLDEN_KEY).unwrap_or_default();
                    let sk = crate::keyring::Keyring::unlock_private_key(&crate::keyring::EncodedSk::try_from(BOB_SK).unwrap(), b"bob");
                    let Ok(sk) = sk else { o.oracle_fail = Some(("golden-key-unlocks".into(), "the shipped keyring's bob key does not unlock with its password".into())); return o; };
                    let rk = sk.as_bytes().to_vec(); let rpk = crate::props::c01::pub_of(&rk);
                    let dec = imp::key_decrypt(&rk, &rpk, &file, &NOSCRIPT);
                    let md = parse_stream(&m.ask(&format!("key_decrypt {} {} {} - - -", hex(&rk), hex(&rpk), hexd(&file)))); o.validated += 1;
                    let alice = crate::keyring::Keyring::decode_public_key(&crate::keyring::EncodedPk::try_from(ALICE_PK).unwrap()).map(|p| p.as_bytes().to_vec()).unwrap_or_default();
                    o.impl_obs = format!("{} {:?}", dec.res, String::from_utf8_lossy(&dec.out)); o.model_obs = format!("{} {:?}", md.res, String::from_utf8_lossy(&md.out));
                    if dec.res != "ok" || dec.out != plain || dec.sender.as_deref() != Some(&alice[..]) { o.oracle_fail = Some(("golden-file-decrypts".into(), format!("tests/data.txt.ktl: {} ({} bytes)", dec.res, dec.out.len()))); }
                    else if md.res != "ok" || md.out != plain || md.sender != dec.sender { o.disagreement = Some(format!("the model does not decrypt the golden key-mode file: {}", md.res)); }
                } else {
                    let file = std::fs::read(GOLDEN_PASS).unwrap_or_default();
                    let dec = imp::pass_decrypt(b"pass123", &file, &NOSCRIPT);
                    let md = parse_stream(&m.ask(&format!("pass_decrypt {} {} - - -", hex(b"pass123"), hexd(&file)))); o.validated += 1;
                    o.impl_obs = format!("{} {:?}", dec.res, String::from_utf8_lossy(&dec.out)); o.model_obs = format!("{} {:?}", md.res, String::from_utf8_lossy(&md.out));
                    if dec.res != "ok" || dec.out != plain { o.oracle_fail = Some(("golden-file-decrypts".into(), format!("tests/pdata.txt.ktl: {} ({} bytes)", dec.res, dec.out.len()))); }
                    else if md.res != "ok" || md.out != plain { o.disagreement = Some(format!("the model does not decrypt the golden password-mode file: {}", md.res)); }
                }
            }
        }
        o
    }
}
