//! Round trips through the real binary with `-o`: encrypt to a path, decrypt that file to another path, both of which may
//! already hold an older, longer file (the tool must replace it) — for every plaintext length including 0 (the output file
//! must exist and be empty).  Shared by C01 (key mode) and C02 (password mode).
use crate::cli::*;
use crate::model::Model;
use crate::report::*;
use crate::util::*;

pub fn cli_rt_cases(mode: &str, tier: &str, seed: u64) -> Vec<Case> {
    let mut rng = Rng::new(seed ^ 0xC117);
    let mut v = vec![];
    let lens: Vec<usize> = if tier == "thorough" { vec![0, 1, 15, 4096, 65536, 65537, 70000, 140000] } else { vec![0, 15, 70000] };
    for &l in &lens { for stale in ["none", "longer", "shorter", "both-longer"] {
        if tier != "thorough" && stale == "shorter" { continue; }
        v.push(case(&[("kind", "cli-rt".into()), ("mode", mode.into()), ("len", l.to_string()), ("stale", stale.into()), ("seed", rng.next().to_string())]));
    } }
    // what the plaintext IS must not matter: all zeros, a long zero tail (a disk image), a zero head, one repeated byte, text
    for content in ["zeros", "zero-tail", "zero-head", "ff", "text"] { for &l in &[10000usize, 73728] {
        v.push(case(&[("kind", "cli-rt".into()), ("mode", mode.into()), ("len", l.to_string()), ("stale", "none".into()), ("content", content.into()), ("seed", rng.next().to_string())]));
    } }
    v
}

pub fn run_cli_rt(c: &Case, m: &mut Model) -> Outcome {
    let mut o = Outcome::default();
    let fx = fixtures();
    let mut rng = Rng::new(get(c, "seed").parse().unwrap_or(0));
    let keym = get(c, "mode") == "key"; let len = getn(c, "len"); let stale = get(c, "stale");
    let mut plain = crate::gen::payload(rng.next(), len);
    match get(c, "content") { "zeros" => plain.iter_mut().for_each(|b| *b = 0), "zero-tail" => { let k = len.saturating_sub(len.min(8192)); plain[k..].iter_mut().for_each(|b| *b = 0) } "zero-head" => { let k = len.min(8192); plain[..k].iter_mut().for_each(|b| *b = 0) }
        "ff" => plain.iter_mut().for_each(|b| *b = 0xff), "text" => plain.iter_mut().enumerate().for_each(|(i, b)| *b = b"the quick brown fox\n"[i % 20]), _ => {} }
    let kr = keyring(&[(&fx.alice, true), (&fx.bob, true)]).into_bytes();
    let pw = "pass phrase 123";
    let clen = (if keym { 132 } else { 36 }) + 32 * len.div_ceil(65536).max(1) + len;
    let old = |n: usize, rng: &mut Rng| -> Option<Vec<u8>> { match stale { "none" => None, "shorter" => Some(rng.bytes(n / 2 + 1)), _ => Some(rng.bytes(n + 4985)) } };
    o.tags.push(format!("cli-rt {} stale={}", get(c, "mode"), stale)); o.nontrivial = Some(format!("cli-rt/{}/{}/{}/{}", get(c, "mode"), len, stale, get(c, "content")));
    // step 1: encrypt p -> c
    let mut files = vec![("p".to_string(), plain.clone())]; if keym { files.push(("kr".into(), kr.clone())); }
    if let Some(b) = old(clen, &mut rng) { files.push(("c".into(), b)); }
    let w1 = World { files, env: vec![("KESTREL_PASSWORD".into(), if keym { fx.alice.pw.into() } else { pw.into() })], stdin: vec![] };
    let a1 = if keym { sv(&["encrypt", "p", "-t", "bob", "-f", "alice", "-o", "c", "-k", "kr", "--env-pass"]) } else { sv(&["password", "encrypt", "p", "-o", "c", "--env-pass"]) };
    let o1 = run_kestrel(&w1, &a1);
    let m1 = model_cli(m, &w1, &a1, &rng.bytes(32), &rng.bytes(32)); o.validated += 1;
    let cfile = o1.file("c").cloned();
    o.impl_obs = format!("encrypt exit={:?} c={:?}B", o1.exit, cfile.as_ref().map(|x| x.len())); o.model_obs = format!("encrypt exit={} c={:?}B", m1.exit, m1.file("c").map(|x| x.len()));
    let what1 = format!("`kestrel {}` with |p| = {}{}", a1.join(" "), len, if stale == "none" { "".to_string() } else { format!(", an older {} file already at the output path", stale) });
    if o1.exit != Some(0) { o.oracle_fail = Some(("cli-encrypt-succeeds".into(), format!("{}: exit {:?}, {}", what1, o1.exit, o1.stderr.trim()))); return o; }
    let Some(cfile) = cfile else { o.oracle_fail = Some(("cli-encrypt-writes-output".into(), format!("{}: exit 0 but no output file", what1))); return o; };
    // step 2: decrypt c -> out
    let mut files = vec![("c".to_string(), cfile.clone())]; if keym { files.push(("kr".into(), kr.clone())); }
    if stale == "both-longer" || stale == "longer" || stale == "shorter" { if let Some(b) = old(len, &mut rng) { files.push(("out".into(), b)); } }
    let w2 = World { files, env: vec![("KESTREL_PASSWORD".into(), if keym { fx.bob.pw.into() } else { pw.into() })], stdin: vec![] };
    let a2 = if keym { sv(&["decrypt", "c", "-t", "bob", "-o", "out", "-k", "kr", "--env-pass"]) } else { sv(&["password", "decrypt", "c", "-o", "out", "--env-pass"]) };
    let o2 = run_kestrel(&w2, &a2);
    let m2 = model_cli(m, &w2, &a2, &rng.bytes(32), &rng.bytes(32)); o.validated += 1;
    o.impl_obs += &format!("; decrypt exit={:?} out={:?}B sender={:?}", o2.exit, o2.file("out").map(|x| x.len()), o2.sender());
    o.model_obs += &format!("; decrypt exit={} out={:?}B sender={}", m2.exit, m2.file("out").map(|x| x.len()), m2.sender);
    let what2 = format!("{}, then `kestrel {}`{}", what1, a2.join(" "), if stale == "none" { "" } else { " (an older file already at that output path too)" });
    if o2.exit != Some(0) { o.oracle_fail = Some(("cli-decrypt(encrypt(P))-succeeds".into(), format!("{}: exit {:?}, {} (ciphertext file has {} bytes, the format gives {})", what2, o2.exit, o2.stderr.trim(), cfile.len(), clen))); return o; }
    match o2.file("out") {
        None => { o.oracle_fail = Some(("cli-decrypt(encrypt(P))=P".into(), format!("{}: exit 0 but there is no output file (the plaintext has {} bytes)", what2, len))); return o; }
        Some(b) if *b != plain => { o.oracle_fail = Some(("cli-decrypt(encrypt(P))=P".into(), format!("{}: the output file has {} bytes and differs from the {}-byte plaintext", what2, b.len(), len))); return o; }
        _ => {}
    }
    if keym && o2.sender() != Some(Ok("alice".to_string())) { o.oracle_fail = Some(("cli-names-the-sender".into(), format!("{}: sender line {:?}", what2, o2.sender()))); return o; }
    if cfile.len() != clen { o.oracle_fail = Some(("cli-ciphertext-length".into(), format!("{}: ciphertext file has {} bytes, the format gives {}", what1, cfile.len(), clen))); return o; }
    if m1.exit != 0 || m1.file("c").map(|x| x.len()) != Some(clen) { o.disagreement = Some(format!("{}: model exit {} c {:?}", what1, m1.exit, m1.file("c").map(|x| x.len()))); }
    else if m2.exit != 0 || m2.file("out") != Some(&plain) || sender_canon(&o2.sender()) != m2.sender { o.disagreement = Some(format!("{}: model exit {} out {:?}B sender {}", what2, m2.exit, m2.file("out").map(|x| x.len()), m2.sender)); }
    o
}
