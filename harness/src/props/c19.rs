//! C19 — exported primitives equal their RFC definitions (as transcribed in the Lean model).
use crate::model::Model;
use crate::report::*;
use crate::util::*;
use std::panic::{catch_unwind, AssertUnwindSafe};

pub struct C19;

pub const LOW_ORDER: [&str; 7] = [
    "0000000000000000000000000000000000000000000000000000000000000000",
    "0100000000000000000000000000000000000000000000000000000000000000",
    "e0eb7a7c3b41b8ae1656e3faf19fc46ada098deb9c32b1fd866205165f49b800",
    "5f9c95bca3508c24b1d0b1559c83ef5b04445cc4581c8e86d8224eddd09f1157",
    "ecffffffffffffffffffffffffffffffffffffffffffffffffffffffffffff7f",
    "edffffffffffffffffffffffffffffffffffffffffffffffffffffffffffff7f",
    "eeffffffffffffffffffffffffffffffffffffffffffffffffffffffffffff7f",
];

fn guard<T, F: FnOnce() -> T>(f: F) -> Option<T> { catch_unwind(AssertUnwindSafe(f)).ok() }
fn fmt_res(r: &Option<Result<Vec<u8>, ()>>) -> String { match r { None => "crash".into(), Some(Ok(v)) => format!("ok {}", hexd(v)), Some(Err(())) => "err".into() } }

impl Prop for C19 {
    fn id(&self) -> &'static str { "C19" }
    fn rule(&self) -> String {
        "AEAD: plaintext length 0..130 x AAD length 0..40 (exhaustive in thorough, stratified sample in quick) plus random sizes up to 70 KiB, each with seal equality, \
         open(seal) = id and one single-bit alteration of key / nonce / AAD / ciphertext / tag; ciphertexts of every length 0..17; Noise AEAD counters over the whole 64-bit range; \
         X25519 on random scalars, non-canonical u, the 7 low-order points (and their aliases), symmetry on random pairs; HKDF salt/ikm/info lengths 0..100 and output lengths 1..64, 8160; \
         HMAC key lengths 0..130; SHA-256 lengths 0..200 and 1 MiB. non-trivial = distinct (kind, sizes, alteration)".into()
    }
    fn cases(&self, tier: &str, seed: u64) -> Vec<Case> {
        let th = tier == "thorough";
        let mut rng = Rng::new(seed ^ 0xC19);
        let mut v = vec![];
        let alts = ["key", "nonce", "ad", "ct", "tag"];
        for pl in 0..=130usize {
            for al in 0..=40usize {
                if th || al == 0 || al == 13 || pl % 16 == 0 && al % 8 == 0 || rng.chance(1, 14) {
                    v.push(case(&[("kind", "aead".into()), ("pl", pl.to_string()), ("al", al.to_string()), ("alt", alts[rng.below(5)].into()), ("seed", rng.next().to_string())]));
                }
            }
        }
        for _ in 0..(if th { 40 } else { 8 }) {
            v.push(case(&[("kind", "aead".into()), ("pl", rng.range(131, 70 * 1024).to_string()), ("al", rng.range(0, 300).to_string()), ("alt", alts[rng.below(5)].into()), ("seed", rng.next().to_string())]));
        }
        // degenerate but legal keys and nonces (all-zero, all-ones, a single set bit): RFC 8439 defines the AEAD for every 256-bit key
        for kp in ["zero", "ones", "bit0", "bit255", "zerokey-only"] { for pl in [0usize, 1, 16, 64, 100] {
            v.push(case(&[("kind", "aead".into()), ("pl", pl.to_string()), ("al", (pl % 3 * 6).to_string()), ("alt", alts[rng.below(5)].into()), ("kp", kp.into()), ("seed", rng.next().to_string())]));
        } }
        for l in 0..=17usize { for al in [0usize, 4] { v.push(case(&[("kind", "short".into()), ("cl", l.to_string()), ("al", al.to_string()), ("seed", rng.next().to_string())])); } }
        let mut ctrs: Vec<u64> = vec![0, 1, 255, 256, 65535, 65536, (1 << 32) - 1, 1 << 32, 1 << 56, 1 << 63, u64::MAX - 1];
        for _ in 0..(if th { 200 } else { 30 }) { ctrs.push(rng.next() % (u64::MAX - 1)); }
        for c in ctrs { v.push(case(&[("kind", "noise".into()), ("ctr", c.to_string()), ("pl", rng.range(0, 80).to_string()), ("seed", rng.next().to_string())])); }
        for _ in 0..(if th { 5000 } else { 400 }) { v.push(case(&[("kind", "dh".into()), ("mode", (*rng.pick(&["random", "random", "noncanon", "highbit"])).into()), ("seed", rng.next().to_string())])); }
        // public-key derivation on many scalars (no model query: derive_public(k) must succeed and equal x25519(k, 9), which the `dh` cases tie to RFC 7748)
        for _ in 0..(if th { 40 } else { 6 }) { v.push(case(&[("kind", "pubsweep".into()), ("n", "2000".into()), ("seed", rng.next().to_string())])); }
        for (i, _) in LOW_ORDER.iter().enumerate() { for alias in ["plain", "highbit"] { v.push(case(&[("kind", "loworder".into()), ("idx", i.to_string()), ("alias", alias.into()), ("seed", rng.next().to_string())])); } }
        for _ in 0..(if th { 1500 } else { 250 }) {
            let out = if rng.chance(1, 12) { 8160 } else { rng.range(1, 64) };
            v.push(case(&[("kind", "hkdf".into()), ("sl", rng.range(0, 100).to_string()), ("il", rng.range(0, 100).to_string()), ("nl", rng.range(0, 100).to_string()), ("out", out.to_string()), ("seed", rng.next().to_string())]));
        }
        for kl in 0..=130usize { if th || kl % 3 == 0 || (60..70).contains(&kl) { v.push(case(&[("kind", "hmac".into()), ("kl", kl.to_string()), ("ml", rng.range(0, 150).to_string()), ("seed", rng.next().to_string())])); } }
        for l in 0..=200usize { if th || l % 4 == 0 || (50..70).contains(&l) || (115..130).contains(&l) { v.push(case(&[("kind", "sha".into()), ("l", l.to_string()), ("seed", rng.next().to_string())])); } }
        v.push(case(&[("kind", "sha".into()), ("l", (if th { 1 << 20 } else { 70000 }).to_string()), ("seed", rng.next().to_string())]));
        // long inputs (a patterned message the OpenSSL post-check regenerates): around 1 MiB and not a multiple of any power-of-two block
        for l in [(1usize << 20) - 1, 1 << 20, (1 << 20) + 1, (3 << 20) + 5, if th { (16 << 20) + 13 } else { (2 << 20) + 77 }] {
            v.push(case(&[("kind", "shabig".into()), ("l", l.to_string()), ("seed", (rng.next() % 251).to_string())]));
            v.push(case(&[("kind", "hmacbig".into()), ("l", l.to_string()), ("seed", (rng.next() % 251).to_string())]));
        }
        for _ in 0..(if th { 100 } else { 20 }) { v.push(case(&[("kind", "hkdfnoise".into()), ("il", (*rng.pick(&[0usize, 32, 32, 1, 64, 100])).to_string()), ("seed", rng.next().to_string())])); }
        v
    }
    fn run(&self, c: &Case, m: &mut Model) -> Outcome {
        let mut o = Outcome::default();
        let mut rng = Rng::new(get(c, "seed").parse().unwrap_or(0));
        let kind = get(c, "kind");
        o.tags.push(kind.to_string());
        match kind {
            "aead" => {
                let (pl, al) = (getn(c, "pl"), getn(c, "al"));
                let mut key = rng.bytes(32); let mut nonce = rng.bytes(12); let ad = rng.bytes(al); let pt = rng.bytes(pl);
                match get(c, "kp") { "zero" => { key = vec![0; 32]; nonce = vec![0; 12]; } "ones" => { key = vec![0xff; 32]; nonce = vec![0xff; 12]; }
                    "bit0" => { key = vec![0; 32]; key[0] = 1; } "bit255" => { key = vec![0; 32]; key[31] = 0x80; } "zerokey-only" => { key = vec![0; 32]; } _ => {} }
                o.nontrivial = Some(format!("aead/{}/{}/{}/{}", pl, al, get(c, "alt"), get(c, "kp")));
                let ct = guard(|| kestrel_crypto::chapoly_encrypt_ietf(&key, &nonce, &pt, &ad));
                let Some(ct) = ct else { o.impl_obs = "crash".into(); o.oracle_fail = Some(("seal-no-panic".into(), "chapoly_encrypt_ietf panicked".into())); return o; };
                let mct = m.ask(&format!("aead_seal {} {} {} {}", hex(&key), hex(&nonce), hexd(&ad), hexd(&pt)));
                o.impl_obs = format!("seal={}", preview(&ct)); o.model_obs = shorten(&mct);
                o.validated += 1;
                if mct != format!("ok {}", hex(&ct)) { o.oracle_fail = Some(("seal=RFC8439".into(), format!("seal output differs from the RFC 8439 model for |pt|={} |ad|={}", pl, al))); return o; }
                let back = guard(|| kestrel_crypto::chapoly_decrypt_ietf(&key, &nonce, &ct, &ad).map_err(|_| ()));
                if back != Some(Ok(pt.clone())) { o.oracle_fail = Some(("open(seal)=id".into(), format!("open(seal(p)) = {}", fmt_res(&back)))); return o; }
                // one single-bit alteration
                let (mut k2, mut n2, mut a2, mut c2) = (key.clone(), nonce.clone(), ad.clone(), ct.clone());
                let alt = get(c, "alt");
                let done = match alt {
                    "key" => { let i = rng.below(256); k2[i / 8] ^= 1 << (i % 8); true }
                    "nonce" => { let i = rng.below(96); n2[i / 8] ^= 1 << (i % 8); true }
                    "ad" => if al > 0 { let i = rng.below(al * 8); a2[i / 8] ^= 1 << (i % 8); true } else { a2.push(0); true },
                    "ct" => if pl > 0 { let i = rng.below(pl * 8); c2[i / 8] ^= 1 << (i % 8); true } else { false },
                    _ => { let i = rng.below(128); c2[pl + i / 8] ^= 1 << (i % 8); true }
                };
                if done {
                    let r = guard(|| kestrel_crypto::chapoly_decrypt_ietf(&k2, &n2, &c2, &a2).map_err(|_| ()));
                    let mr = m.ask(&format!("aead_open {} {} {} {}", hex(&k2), hex(&n2), hexd(&a2), hexd(&c2)));
                    o.impl_obs += &format!(" altered({})={}", alt, fmt_res(&r)); o.model_obs += &format!(" altered={}", shorten(&mr));
                    o.validated += 1;
                    if r != Some(Err(())) { o.oracle_fail = Some(("altered-rejected".into(), format!("open accepted an input with one bit of the {} flipped: {}", alt, fmt_res(&r)))); }
                    else if mr != "err" { o.disagreement = Some(format!("model opens the altered input: {}", shorten(&mr))); }
                }
            }
            "short" => {
                let cl = getn(c, "cl"); let al = getn(c, "al");
                let key = rng.bytes(32); let nonce = rng.bytes(12); let ad = rng.bytes(al); let ct = rng.bytes(cl);
                o.nontrivial = Some(format!("short/{}/{}", cl, al));
                let r = guard(|| kestrel_crypto::chapoly_decrypt_ietf(&key, &nonce, &ct, &ad).map_err(|_| ()));
                let mr = m.ask(&format!("aead_open {} {} {} {}", hex(&key), hex(&nonce), hexd(&ad), hexd(&ct)));
                o.impl_obs = fmt_res(&r); o.model_obs = mr.clone(); o.validated += 1;
                if r.is_none() { o.oracle_fail = Some(("open-short-input-is-error".into(), format!("chapoly_decrypt_ietf panicked on a {}-byte ciphertext (RFC 8439: reject)", cl))); }
                else if fmt_res(&r) != mr { if r != Some(Err(())) { o.oracle_fail = Some(("open-random-bytes-rejected".into(), format!("open accepted {} random bytes", cl))); } else { o.disagreement = Some(format!("impl {} model {}", fmt_res(&r), mr)); } }
            }
            "noise" => {
                let ctr: u64 = get(c, "ctr").parse().unwrap_or(0); let pl = getn(c, "pl");
                let key = rng.bytes(32); let adl = rng.below(40); let ad = rng.bytes(adl); let pt = rng.bytes(pl);
                o.nontrivial = Some(format!("noise/{}", ctr));
                let ct = guard(|| kestrel_crypto::verif_chapoly_noise_encrypt(&key, ctr, &ad, &pt));
                let Some(ct) = ct else { o.impl_obs = "crash".into(); o.oracle_fail = Some(("noise-seal-no-panic".into(), "panicked".into())); return o; };
                // independent expectation straight from RFC 8439 through the exported IETF function: nonce = 0^4 || LE64(ctr)
                let mut nonce = vec![0u8; 4]; nonce.extend_from_slice(&ctr.to_le_bytes());
                let want = kestrel_crypto::chapoly_encrypt_ietf(&key, &nonce, &pt, &ad);
                let mct = m.ask(&format!("noise_seal {} {} {} {}", hex(&key), ctr, hexd(&ad), hexd(&pt)));
                o.impl_obs = format!("ctr={} ct={}", ctr, preview(&ct)); o.model_obs = shorten(&mct); o.validated += 1;
                if ct != want { o.oracle_fail = Some(("noise-nonce-layout".into(), format!("Noise AEAD with counter {} does not use nonce 00000000||LE64(counter)", ctr))); }
                else if mct != format!("ok {}", hex(&ct)) { o.disagreement = Some("noise_seal differs from the model".into()); }
                // the translated chapoly_encrypt_noise (tools/rs2lean_noise.py) on the same input
                let sct = m.ask(&format!("noise_seal_src {} {} {} {}", hex(&key), ctr, hexd(&ad), hexd(&pt))); o.validated += 1; o.tags.push("translated lib.rs run".into());
                if sct != format!("ok {}", hex(&ct)) && o.disagreement.is_none() && o.oracle_fail.is_none() { o.disagreement = Some(format!("the Lean definition translated from chapoly_encrypt_noise differs from the real function at counter {}", ctr)); }
                let back = guard(|| kestrel_crypto::verif_chapoly_noise_decrypt(&key, ctr, &ad, &ct).map_err(|_| ()));
                if back != Some(Ok(pt)) && o.oracle_fail.is_none() { o.oracle_fail = Some(("noise-open(seal)=id".into(), fmt_res(&back))); }
            }
            "dh" => {
                let a = rng.bytes(32); let b = rng.bytes(32);
                let mode = get(c, "mode");
                o.nontrivial = Some(format!("dh/{}/{}", mode, hex(&a[..4])));
                let pa = guard(|| kestrel_crypto::x25519_derive_public(&a).map_err(|_| ()));
                let pb = guard(|| kestrel_crypto::x25519_derive_public(&b).map_err(|_| ()));
                let (Some(Ok(pa)), Some(Ok(pb))) = (pa, pb) else { o.oracle_fail = Some(("derive-public".into(), "x25519_derive_public failed on a random scalar".into())); return o; };
                let mut base = vec![0u8; 32]; base[0] = 9;
                let viabase = guard(|| kestrel_crypto::x25519(&a, &base).map_err(|_| ()));
                if viabase != Some(Ok(pa.clone())) { o.oracle_fail = Some(("public=scalar*basepoint".into(), format!("derive_public(a) = {} but x25519(a, 9) = {}", hex(&pa), fmt_res(&viabase)))); return o; }
                let mpa = m.ask(&format!("x25519_pub {}", hex(&a)));
                o.validated += 1;
                if mpa != format!("ok {}", hex(&pa)) { o.oracle_fail = Some(("public=RFC7748".into(), format!("derive_public differs from the RFC 7748 model: {} vs {}", hex(&pa), mpa))); return o; }
                let mut u = pb.clone();
                if mode == "noncanon" { u = rng.bytes(32); u[31] |= 0x7f; for x in u.iter_mut().take(31).skip(1) { *x = 0xff; } u[0] = 0xed + (rng.below(19) as u8); }  // u in [p, 2^255)
                if mode == "highbit" { u[31] |= 0x80; }
                let s1 = guard(|| kestrel_crypto::x25519(&a, &u).map_err(|_| ()));
                let ms1 = m.ask(&format!("x25519 {} {}", hex(&a), hex(&u)));
                o.impl_obs = format!("x25519={}", fmt_res(&s1)); o.model_obs = ms1.clone(); o.validated += 1;
                if fmt_res(&s1) != ms1 { o.oracle_fail = Some(("x25519=RFC7748".into(), format!("x25519(k,u) = {} but the RFC 7748 model gives {} (u {})", fmt_res(&s1), ms1, mode))); return o; }
                if mode == "random" {
                    let s2 = guard(|| kestrel_crypto::x25519(&b, &pa).map_err(|_| ()));
                    if s1 != s2 { o.oracle_fail = Some(("dh-symmetric".into(), format!("x25519(a, B) = {} but x25519(b, A) = {}", fmt_res(&s1), fmt_res(&s2)))); }
                    let via = guard(|| crate::imp::sk(&a).diffie_hellman(&crate::imp::pk(&pb)).map_err(|_| ()));
                    if via != s1 && o.oracle_fail.is_none() { o.oracle_fail = Some(("diffie_hellman=x25519".into(), "PrivateKey::diffie_hellman differs from x25519".into())); }
                }
            }
            "pubsweep" => {
                let n = getn(c, "n"); o.nontrivial = Some(format!("pubsweep/{}", get(c, "seed")));
                let mut base = vec![0u8; 32]; base[0] = 9;
                for i in 0..n {
                    let mut k = rng.bytes(32);
                    match i % 8 { 0 => { k[0] &= 7; } 1 => { k[31] |= 0xc0; } 2 => { for x in k.iter_mut().skip(4) { *x = 0; } } _ => {} }   // scalars that clamping changes, and small ones
                    let pa = guard(|| kestrel_crypto::x25519_derive_public(&k).map_err(|_| ()));
                    let via = guard(|| kestrel_crypto::x25519(&k, &base).map_err(|_| ()));
                    o.validated += 1;
                    if !matches!(pa, Some(Ok(_))) || pa != via { o.impl_obs = format!("derive_public={} x25519(k,9)={}", fmt_res(&pa), fmt_res(&via)); o.model_obs = "equal, and a public key".into();
                        o.oracle_fail = Some(("public=scalar*basepoint".into(), format!("derive_public({}) = {} but x25519(k, 9) = {}", hex(&k), fmt_res(&pa), fmt_res(&via)))); return o; }
                }
                o.impl_obs = format!("{} scalars: derive_public = x25519(k, 9)", n); o.model_obs = "same".into();
            }
            "loworder" => {
                let mut u = unhex(LOW_ORDER[getn(c, "idx")]);
                if get(c, "alias") == "highbit" { u[31] |= 0x80; }
                let k = rng.bytes(32);
                o.nontrivial = Some(format!("low/{}/{}", get(c, "idx"), get(c, "alias")));
                let r = guard(|| kestrel_crypto::x25519(&k, &u).map_err(|_| ()));
                let mr = m.ask(&format!("x25519 {} {}", hex(&k), hex(&u)));
                o.impl_obs = fmt_res(&r); o.model_obs = mr.clone(); o.validated += 1;
                if r != Some(Err(())) { o.oracle_fail = Some(("all-zero-dh-fails".into(), format!("x25519 with low-order point {} returned {}", hex(&u), fmt_res(&r)))); }
                else if mr != "err" { o.disagreement = Some(format!("model returns {} for a low-order point", mr)); }
            }
            "hkdf" => {
                let salt = rng.bytes(getn(c, "sl")); let ikm = rng.bytes(getn(c, "il")); let info = rng.bytes(getn(c, "nl")); let out = getn(c, "out");
                o.nontrivial = Some(format!("hkdf/{}/{}/{}/{}", salt.len(), ikm.len(), info.len(), out));
                let r = guard(|| kestrel_crypto::hkdf_sha256(&salt, &ikm, &info, out));
                let mr = m.ask(&format!("hkdf {} {} {} {}", hexd(&salt), hexd(&ikm), hexd(&info), out));
                o.impl_obs = r.as_ref().map(|x| preview(x)).unwrap_or("crash".into()); o.model_obs = shorten(&mr); o.validated += 1;
                match r { None => o.oracle_fail = Some(("hkdf-no-panic".into(), "hkdf_sha256 panicked on a legal length".into())),
                    Some(x) => if mr != format!("ok {}", hex(&x)) { o.oracle_fail = Some(("hkdf=RFC5869".into(), format!("hkdf_sha256 differs from the RFC 5869 model (|salt|={} |ikm|={} |info|={} len={})", salt.len(), ikm.len(), info.len(), out))); } }
            }
            "hkdfnoise" => {
                let ck = rng.bytes(32); let ikm = rng.bytes(getn(c, "il"));
                o.nontrivial = Some(format!("hkdfnoise/{}/{}", ikm.len(), hex(&ck[..3])));
                let (a, b) = kestrel_crypto::verif_hkdf_noise(&ck, &ikm);
                // HKDF identity: the two Noise outputs are the first 64 bytes of RFC 5869 HKDF(salt = ck, ikm, info = "")
                let okm = kestrel_crypto::hkdf_sha256(&ck, &ikm, &[], 64);
                let mr = m.ask(&format!("hkdf_noise {} {}", hex(&ck), hexd(&ikm)));
                o.impl_obs = format!("{} {}", hex(&a), hex(&b)); o.model_obs = mr.clone(); o.validated += 1;
                if [a.clone(), b.clone()].concat() != okm { o.oracle_fail = Some(("hkdf_noise=RFC5869".into(), "hkdf_noise outputs are not HKDF(salt=ck, ikm, info=\"\", 64)".into())); }
                else if mr != format!("ok {} {}", hex(&a), hex(&b)) { o.disagreement = Some("hkdf_noise differs from the model".into()); }
                let sr = m.ask(&format!("hkdf_noise_src {} {}", hex(&ck), hexd(&ikm))); o.validated += 1; o.tags.push("translated lib.rs run".into());
                if sr != format!("ok {} {}", hex(&a), hex(&b)) && o.disagreement.is_none() && o.oracle_fail.is_none() { o.disagreement = Some("the Lean definition translated from hkdf_noise differs from the real function".into()); }
            }
            "hmac" => {
                let key = rng.bytes(getn(c, "kl")); let msg = rng.bytes(getn(c, "ml"));
                o.nontrivial = Some(format!("hmac/{}/{}", key.len(), msg.len()));
                let r = guard(|| kestrel_crypto::hmac_sha256(&key, &msg));
                let mr = m.ask(&format!("hmac {} {}", hexd(&key), hexd(&msg)));
                o.impl_obs = r.as_ref().map(|x| hex(x)).unwrap_or("crash".into()); o.model_obs = mr.clone(); o.validated += 1;
                match r { None => o.oracle_fail = Some(("hmac-no-panic".into(), format!("hmac_sha256 panicked for a {}-byte key", key.len()))),
                    Some(x) => if mr != format!("ok {}", hex(&x)) { o.oracle_fail = Some(("hmac=RFC2104".into(), format!("hmac_sha256 differs from the model for a {}-byte key", key.len()))); } }
                o.tags.push(format!("@hmac {} {} {}", hexd(&key), hexd(&msg), o.impl_obs));
            }
            "shabig" | "hmacbig" => {
                let seed: usize = get(c, "seed").parse().unwrap_or(0); let l = getn(c, "l");
                let msg: Vec<u8> = (0..l).map(|i| ((i * 31 + seed) & 0xff) as u8).collect();
                o.nontrivial = Some(format!("{}/{}", kind, l));
                let r = if kind == "shabig" { guard(|| kestrel_crypto::sha256(&msg)) } else { guard(|| kestrel_crypto::hmac_sha256(&msg[..l / 2], &msg[l / 2..])) };
                o.impl_obs = r.as_ref().map(|x| hex(x)).unwrap_or("crash".into()); o.model_obs = "(OpenSSL post-check on the regenerated message)".into(); o.validated += 1;
                match r { None => o.oracle_fail = Some(("hash-no-panic".into(), format!("{} panicked on a {}-byte input", kind, l))),
                    Some(_) => o.tags.push(format!("@{} {} {} {}", kind, seed, l, o.impl_obs)) }
            }
            _ => {
                let msg = rng.bytes(getn(c, "l"));
                o.nontrivial = Some(format!("sha/{}", msg.len()));
                let r = guard(|| kestrel_crypto::sha256(&msg));
                let mr = m.ask(&format!("sha256 {}", hexd(&msg)));
                o.impl_obs = r.as_ref().map(|x| hex(x)).unwrap_or("crash".into()); o.model_obs = mr.clone(); o.validated += 1;
                match r { None => o.oracle_fail = Some(("sha-no-panic".into(), "sha256 panicked".into())),
                    Some(x) => if mr != format!("ok {}", hex(&x)) { o.oracle_fail = Some(("sha256=FIPS180-4".into(), format!("sha256 differs from the model for a {}-byte message", msg.len()))); } }
                if msg.len() <= 200 { o.tags.push(format!("@sha256 {} {}", hexd(&msg), o.impl_obs)); }
            }
        }
        o
    }
}
fn shorten(s: &str) -> String { if s.len() > 70 { format!("{}..({} chars)", &s[..40], s.len()) } else { s.to_string() } }
