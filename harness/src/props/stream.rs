//! Shared machinery for the stream-format properties (C03, C04, C10, C11): authentic hook-built streams with known
//! record boundaries, and the catalogue of tamperings.
use crate::imp::{self, Scripts};
use crate::sio::*;
use crate::util::*;

#[derive(Clone)]
pub struct Authentic { pub key: Vec<u8>, pub aad: Vec<u8>, pub cs: usize, pub chunks: Vec<Vec<u8>>, pub file: Vec<u8>, pub plain: Vec<u8>, pub rec_end: Vec<usize> }

/// encrypt `chunks` (each 1..=cs bytes, or a single empty chunk) through the real `encrypt_chunks` with one read per chunk
pub fn authentic(seed: u64, cs: usize, lens: &[usize], aad: &[u8]) -> Authentic {
    let mut rng = Rng::new(seed ^ 0xA07E);
    let key = rng.bytes(32);
    let chunks: Vec<Vec<u8>> = lens.iter().map(|&l| rng.bytes(l)).collect();
    let plain: Vec<u8> = chunks.concat();
    let rs = reads_of(lens);
    let enc = imp::enc_chunks(&key, aad, cs as u32, &plain, &Scripts { rs: &rs, ws: &[], fs: &[] });
    assert_eq!(enc.res, "ok", "authentic stream must encrypt");
    let eff: Vec<Vec<u8>> = if chunks.is_empty() { vec![vec![]] } else { chunks.clone() };
    let mut rec_end = vec![]; let mut off = 0;
    for c in &eff { off += 32 + c.len(); rec_end.push(off); }
    Authentic { key, aad: aad.to_vec(), cs, chunks: eff, file: enc.out, plain, rec_end }
}

pub fn records(a: &Authentic) -> Vec<Vec<u8>> {
    let mut v = vec![]; let mut s = 0;
    for &e in &a.rec_end { v.push(a.file[s..e].to_vec()); s = e; }
    v
}

/// rewrite counter / flag fields of a record (without touching the sealed part)
pub fn with_header(rec: &[u8], ctr: Option<u64>, last: Option<u32>) -> Vec<u8> {
    let mut r = rec.to_vec();
    if let Some(c) = ctr { r[..8].copy_from_slice(&c.to_be_bytes()); }
    if let Some(l) = last { r[8..12].copy_from_slice(&l.to_be_bytes()); }
    r
}

/// does `f2` equal `f` outside the 8-byte counter fields of the records of `a`?
pub fn equal_outside_counters(a: &Authentic, f2: &[u8]) -> bool {
    if f2.len() != a.file.len() { return false; }
    let mut s = 0;
    for &e in &a.rec_end { if f2[s + 8..e] != a.file[s + 8..e] { return false; } s = e; }
    true
}

/// All structural tamperings of a small authentic stream; returns (label, bytes)
pub fn structural(a: &Authentic, other: &Authentic) -> Vec<(String, Vec<u8>)> {
    let recs = records(a); let n = recs.len();
    let mut v: Vec<(String, Vec<u8>)> = vec![];
    let join = |rs: &[Vec<u8>]| rs.concat();
    // deletions, duplications, swaps — raw and with counters / flags rewritten to look consistent
    for i in 0..n {
        let mut d = recs.clone(); d.remove(i); v.push((format!("drop{}", i), join(&d)));
        let fixed: Vec<Vec<u8>> = d.iter().enumerate().map(|(j, r)| with_header(r, Some(j as u64), Some(if j + 1 == d.len() { 1 } else { 0 }))).collect();
        v.push((format!("drop{}+fix", i), join(&fixed)));
        let mut du = recs.clone(); du.insert(i, recs[i].clone()); v.push((format!("dup{}", i), join(&du)));
        let fixed: Vec<Vec<u8>> = du.iter().enumerate().map(|(j, r)| with_header(r, Some(j as u64), Some(if j + 1 == du.len() { 1 } else { 0 }))).collect();
        v.push((format!("dup{}+fix", i), join(&fixed)));
        for j in i + 1..n {
            let mut sw = recs.clone(); sw.swap(i, j); v.push((format!("swap{}-{}", i, j), join(&sw)));
            let fixed: Vec<Vec<u8>> = sw.iter().enumerate().map(|(k, r)| with_header(r, Some(k as u64), Some(if k + 1 == sw.len() { 1 } else { 0 }))).collect();
            v.push((format!("swap{}-{}+fix", i, j), join(&fixed)));
        }
        // flag edits
        for l in [0u32, 1, 2, 0x0100_0000, 0xffff_ffff] { let mut e = recs.clone(); e[i] = with_header(&recs[i], None, Some(l)); v.push((format!("flag{}={:x}", i, l), join(&e))); }
        // length-field edits
        let cur = u32::from_be_bytes(recs[i][12..16].try_into().unwrap());
        for l in [0u32, cur.wrapping_sub(1), cur + 1, a.cs as u32 + 1, 0xffff_ffff, 65536, 65537] {
            if l == cur { continue; }
            let mut e = recs.clone(); e[i][12..16].copy_from_slice(&l.to_be_bytes()); v.push((format!("len{}={:x}", i, l), join(&e)));
        }
        // splice a record of another authentic stream (other key) in place / appended
        let orecs = records(other);
        if !orecs.is_empty() { let o = &orecs[i.min(orecs.len() - 1)]; let mut e = recs.clone(); e[i] = o.clone(); v.push((format!("splice{}", i), join(&e))); }
        // counter-field edits only: these are advisory, acceptance is allowed (output must still be the plaintext)
        let mut e = recs.clone(); e[i] = with_header(&recs[i], Some(0xdead_beef), None); v.push((format!("ctr{}", i), join(&e)));
    }
    // "steering": every counter field announces the TRUE nonce of the record that follows it minus one — the natural attack on a decryptor
    // that trusts the advisory field for anything (drop / duplicate / swap become self-consistent for such a decryptor)
    let orig_idx = |r: &Vec<u8>| recs.iter().position(|x| x[16..] == r[16..]).unwrap_or(0) as u64;
    let steer = |list: &[Vec<u8>]| -> Vec<Vec<u8>> { (0..list.len()).map(|j| { let next = if j + 1 < list.len() { orig_idx(&list[j + 1]) } else { orig_idx(&list[j]) + 1 }; with_header(&list[j], Some(next.wrapping_sub(1)), None) }).collect() };
    for i in 0..n {
        let mut d = recs.clone(); d.remove(i); if !d.is_empty() { v.push((format!("drop{}+steer", i), join(&steer(&d)))); }
        let mut du = recs.clone(); du.insert(i, recs[i].clone()); v.push((format!("dup{}+steer", i), join(&steer(&du))));
        for j in i + 1..n { let mut sw = recs.clone(); sw.swap(i, j); v.push((format!("swap{}-{}+steer", i, j), join(&steer(&sw)))); }
    }
    // cut at a record boundary and append a forged EMPTY final record (flag 1, length 0, junk tag): accepted only by a decryptor that
    // skips authentication of empty messages
    for k in 0..=n {
        let mut e: Vec<Vec<u8>> = recs[..k].to_vec();
        let mut forged = vec![]; forged.extend_from_slice(&(k as u64).to_be_bytes()); forged.extend_from_slice(&1u32.to_be_bytes()); forged.extend_from_slice(&0u32.to_be_bytes()); forged.extend_from_slice(&[0x5au8; 16]);
        e.push(forged); v.push((format!("forged-empty-final@{}", k), join(&e)));
    }
    // the real last record with its length field cleared and the file cut 16 bytes after that header (authentic bytes only)
    { let mut e = recs.clone(); let last = n - 1; let mut r = recs[last][..32.min(recs[last].len())].to_vec(); r[12..16].copy_from_slice(&0u32.to_be_bytes()); e[last] = r; v.push(("last-len0-cut".into(), join(&e))); }
    // early final flag: truncate after record i and set its flag (AD mismatch must catch it)
    for i in 0..n.saturating_sub(1) { let mut e: Vec<Vec<u8>> = recs[..=i].to_vec(); e[i] = with_header(&recs[i], None, Some(1)); v.push((format!("earlyfinal{}", i), join(&e))); }
    // the same with a flag value that is neither 0 nor 1 (a decryptor that tests `flag != 0`, or only the low bit, or only for equality with 0)
    for i in 0..n.saturating_sub(1) { for l in [2u32, 3, 0x100, 0x0100_0000, 0x8000_0000, 0x8000_0001, 0xffff_ffff] { let mut e: Vec<Vec<u8>> = recs[..=i].to_vec(); e[i] = with_header(&recs[i], None, Some(l)); v.push((format!("earlyfinal{}:flag={:x}", i, l), join(&e))); } }
    // continuation after the final record
    { let mut e = recs.clone(); let last = n - 1; e[last] = with_header(&recs[last], None, Some(0)); e.push(with_header(&recs[last], Some(n as u64), Some(1))); v.push(("extend-with-copy".into(), join(&e))); }
    for k in 1..=3usize { let mut f = a.file.clone(); f.extend(std::iter::repeat(0x5a).take(k)); v.push((format!("append{}", k), f)); }
    v.push(("other-file".into(), other.file.clone()));
    v.push(("empty".into(), vec![]));
    v
}
