//! C07 — fresh randomness everywhere: no (key, nonce) pair is ever reused (library level; the CLI part is in cli.rs).
use crate::imp::{self, Scripts, NOSCRIPT};
use crate::model::Model;
use crate::props::c01::pub_of;
use crate::props::stream::*;
use crate::report::*;
use crate::util::*;
use std::collections::HashSet;

pub struct C07;

impl Prop for C07 {
    fn id(&self) -> &'static str { "C07" }
    fn rule(&self) -> String {
        "library with randomness left to the implementation: batches of N identical key_encrypt calls on one thread (same keys, same plaintext; N = 150 quick / 400 thorough; also with the payload key given by the caller and only the ephemeral key left to the library) — ephemeral public keys (bytes 4..36) pairwise distinct, \
         payload key and file key of every file recovered by the Lean decryptor and pairwise distinct, none equal to an input or to zero; N PrivateKey::generate and secure_random(32) values pairwise distinct; \
         the real binary: batches of identical `password encrypt`, `encrypt`, `key generate`, `key change-pass` invocations — salts / ephemeral keys / file keys / private keys pairwise distinct; nonce discipline through the hook: for multi-chunk streams (cs in {1,2,4}, 1..6 chunks) record i opens in the model under nonce i and under no other nonce 0..n. \
         non-trivial = distinct (batch / stream shape)".into()
    }
    fn cases(&self, tier: &str, seed: u64) -> Vec<Case> {
        let th = tier == "thorough";
        let mut rng = Rng::new(seed ^ 0xC07);
        let mut v = vec![];
        for b in 0..(if th { 6 } else { 3 }) { v.push(case(&[("kind", "batch".into()), ("n", (if th { 400 } else { 150 }).to_string()), ("plen", (*[0usize, 13, 70000].get(b % 3).unwrap()).to_string()), ("seed", rng.next().to_string())])); }
        // the caller brings the payload key (the same one every time) and leaves only the ephemeral key to the library
        for _ in 0..(if th { 3 } else { 1 }) { v.push(case(&[("kind", "batch".into()), ("given", "payload".into()), ("n", (if th { 400 } else { 150 }).to_string()), ("plen", "13".into()), ("seed", rng.next().to_string())])); }
        v.push(case(&[("kind", "generate".into()), ("n", (if th { 5000 } else { 300 }).to_string())]));
        for what in ["pass-encrypt", "encrypt", "key-generate", "change-pass", "change-pass-same", "key-generate-empty", "change-pass-empty", "pass-encrypt-empty", "encrypt-self"] { v.push(case(&[("kind", "cli".into()), ("what", what.into()), ("n", (if th { 120 } else { 16 }).to_string()), ("seed", rng.next().to_string())])); }
        // one invocation, several inputs (more FILE arguments than the usage line names, with and without -o): whatever the tool makes of it —
        // a usage error today — every encrypted file a single invocation leaves behind carries its own salt / ephemeral key
        for what in ["pass-encrypt", "encrypt"] { for shape in ["two", "three", "two-o", "dup"] { v.push(case(&[("kind", "cli-multi".into()), ("what", what.into()), ("shape", shape.into()), ("seed", rng.next().to_string())])); } }
        // a sink that is briefly unavailable (one failing write somewhere in the stream, every error kind in turn): whenever the encryption reports
        // success all the same, the records in the output carry the counters 0,1,2,… once each — a restarted loop would seal two chunks under nonce 0
        for mode in ["key", "pass"] { for plen in [65536usize * 2 + 5, 65536 * 3] { v.push(case(&[("kind", "busy-sink".into()), ("mode", mode.into()), ("plen", plen.to_string()), ("seed", rng.next().to_string())])); } }
        // counters 2^32 (and more) apart: one plaintext sealed under one key must give unrelated ciphertexts, and each opens under its own counter only
        for _ in 0..(if th { 40 } else { 8 }) { v.push(case(&[("kind", "nonce-pairs".into()), ("seed", rng.next().to_string())])); }
        for &cs in &[1usize, 2, 4] { for n in 1..=6usize { for rep in 0..(if th { 6 } else { 2 }) {
            v.push(case(&[("kind", "nonces".into()), ("cs", cs.to_string()), ("n", n.to_string()), ("rep", rep.to_string()), ("seed", rng.next().to_string())]));
        } } }
        v
    }
    fn run(&self, c: &Case, m: &mut Model) -> Outcome {
        let mut o = Outcome::default();
        let kind = get(c, "kind");
        o.tags.push(kind.to_string());
        match kind {
            "busy-sink" => {
                let mut rng = Rng::new(get(c, "seed").parse().unwrap_or(0));
                let keym = get(c, "mode") == "key"; let plen = getn(c, "plen"); let p = rng.bytes(plen);
                let (s, r) = (rng.bytes(32), rng.bytes(32)); let (spk, rpk) = (pub_of(&s), pub_of(&r)); let salt = rng.bytes(32);
                let hdr = if keym { 132 } else { 36 };
                o.nontrivial = Some(format!("busy-sink/{}/{}", get(c, "mode"), plen));
                let mut successes = 0usize;
                // the fault-free run makes 2 header writes + 2 per record; fail write number k for every k (the kind of the error varies with k)
                for k in 0..14usize {
                    let mut ws: Vec<crate::sio::WrEv> = (0..k).map(|_| crate::sio::WrEv::Accept(usize::MAX)).collect(); ws.push(crate::sio::WrEv::ErrOther);
                    let f = if keym { imp::key_encrypt(&s, &spk, &rpk, None, None, &p, &Scripts { rs: &[], ws: &ws, fs: &[] }) } else { imp::pass_encrypt(b"pw", &salt, &p, &Scripts { rs: &[], ws: &ws, fs: &[] }) };
                    o.validated += 1;
                    if f.res != "ok" { continue; }
                    successes += 1;
                    // walk the records of what reached the sink
                    let mut off = hdr; let mut ctrs: Vec<u64> = vec![];
                    while off + 16 <= f.out.len() { let ctr = u64::from_be_bytes(f.out[off..off + 8].try_into().unwrap()); let len = u32::from_be_bytes(f.out[off + 12..off + 16].try_into().unwrap()) as usize; ctrs.push(ctr); off += 16 + len + 16; }
                    let want: Vec<u64> = (0..ctrs.len() as u64).collect();
                    if ctrs != want || off != f.out.len() { o.oracle_fail = Some(("nonce-used-once".into(), format!("{} mode, {} bytes, write call {} of the stream failed once: the encryption reported success and the sink holds records with the counters {:?} (each counter is the AEAD nonce under the one file key)", get(c, "mode"), plen, k, ctrs))); o.impl_obs = format!("counters {:?}", ctrs); return o; }
                }
                o.impl_obs = format!("14 fault positions, {} reported success, counters sequential", successes); o.model_obs = "a failing write is an error: no success expected".into();
            }
            "nonce-pairs" => {
                let mut rng = Rng::new(get(c, "seed").parse().unwrap_or(0));
                let key = rng.bytes(32); let adl = rng.below(20); let ad = rng.bytes(adl); let pt = rng.bytes(40);
                let base = rng.next() % (1u64 << 31);
                let ctrs: Vec<u64> = vec![base, base + (1u64 << 32), base + (3u64 << 32), base + (1u64 << 40), base + (1u64 << 63), base ^ (1u64 << 33)];
                o.nontrivial = Some(format!("nonce-pairs/{}", base)); o.validated += 1;
                let cts: Vec<Vec<u8>> = ctrs.iter().map(|&n| kestrel_crypto::verif_chapoly_noise_encrypt(&key, n, &ad, &pt)).collect();
                for i in 0..ctrs.len() { for j in 0..ctrs.len() { if i == j { continue; }
                    if cts[i] == cts[j] { o.oracle_fail = Some(("distinct-counters-distinct-nonces".into(), format!("counters {} and {} (same key, same plaintext) give the same ciphertext: they are mapped to the same 96-bit nonce", ctrs[i], ctrs[j]))); return o; }
                    if kestrel_crypto::verif_chapoly_noise_decrypt(&key, ctrs[j], &ad, &cts[i]).is_ok() { o.oracle_fail = Some(("distinct-counters-distinct-nonces".into(), format!("a chunk sealed under counter {} opens under counter {}", ctrs[i], ctrs[j]))); return o; }
                } }
                o.impl_obs = format!("{} counters up to 2^63 apart: pairwise different ciphertexts, each opens under its own counter only", ctrs.len()); o.model_obs = "nonce = 0^32 || le64(counter) is injective (C07_nonce_injective)".into();
            }
            "batch" => {
                let mut rng = Rng::new(get(c, "seed").parse().unwrap_or(0));
                let (s, r) = (rng.bytes(32), rng.bytes(32)); let (spk, rpk) = (pub_of(&s), pub_of(&r));
                let p = rng.bytes(getn(c, "plen")); let n = getn(c, "n");
                let (mut eph, mut pks, mut fks) = (HashSet::new(), HashSet::new(), HashSet::new());
                let inputs: Vec<Vec<u8>> = vec![s.clone(), r.clone(), spk.clone(), rpk.clone(), vec![0u8; 32]];
                let given = get(c, "given") == "payload"; let given_pk = rng.bytes(32);
                o.nontrivial = Some(format!("batch/{}/{}/{}", n, get(c, "given"), get(c, "seed")));
                for i in 0..n {
                    let f = imp::key_encrypt(&s, &spk, &rpk, None, if given { Some(&given_pk) } else { None }, &p, &NOSCRIPT);
                    if f.res != "ok" || f.out.len() < 132 { o.oracle_fail = Some(("encrypt-succeeds".into(), f.res)); return o; }
                    let e = f.out[4..36].to_vec();
                    let resp = m.ask(&format!("key_open {} {} {}", hex(&r), hex(&rpk), hex(&f.out[..132]))); o.validated += 1;
                    let parts: Vec<&str> = resp.split(' ').collect();
                    if parts.len() != 5 || parts[0] != "ok" { o.disagreement = Some(format!("the model cannot open the header of file {}: {}", i, resp)); return o; }
                    let (pk, fk) = (unhex(parts[1]), unhex(parts[4]));
                    for (what, val) in [("ephemeral public key", &e), ("payload key", &pk), ("file key", &fk)] {
                        if inputs.contains(val) { o.oracle_fail = Some(("fresh-value-not-an-input".into(), format!("file {}: the {} equals one of the inputs / zero", i, what))); return o; }
                    }
                    if !eph.insert(e) { o.oracle_fail = Some(("ephemeral-key-fresh".into(), format!("two of {} identical encryptions share the ephemeral key (file {})", n, i))); return o; }
                    if given { if pk != given_pk { o.oracle_fail = Some(("given-payload-key-used".into(), format!("file {}: the payload key in the handshake is not the one the caller gave", i))); return o; } }
                    else if !pks.insert(pk) { o.oracle_fail = Some(("payload-key-fresh".into(), format!("two of {} identical encryptions share the payload key (file {})", n, i))); return o; }
                    if !fks.insert(fk) { o.oracle_fail = Some(("file-key-fresh".into(), format!("two of {} identical encryptions share the file key (file {})", n, i))); return o; }
                }
                o.impl_obs = format!("{} files: {} ephemeral, {} payload, {} file keys, all distinct", n, eph.len(), pks.len(), fks.len()); o.model_obs = "opened every header".into();
            }
            "cli" => {
                use crate::cli::*;
                let fx = fixtures(); let what = get(c, "what"); let n = getn(c, "n");
                let mut rng = Rng::new(get(c, "seed").parse().unwrap_or(0));
                let plain = rng.bytes(20);
                let kr = keyring(&[(&fx.alice, true), (&fx.bob, true)]).into_bytes();
                let (mut a, mut b) = (HashSet::new(), HashSet::new());
                if what.starts_with("change-pass") { use ct_codecs::{Base64, Decoder}; let blob = Base64::decode_to_vec(&fx.alice.enc_sk, None).unwrap(); a.insert(blob[4..36].to_vec()); b.insert(blob[36..].to_vec()); }   // the input's own salt counts as used
                o.nontrivial = Some(format!("cli/{}/{}", what, n));
                for i in 0..n {
                    // identical invocation every time
                    let (world, args): (World, Vec<String>) = match what {
                        "pass-encrypt" => (World { files: vec![("p".into(), plain.clone())], env: vec![("KESTREL_PASSWORD".into(), "same".into())], stdin: vec![] }, sv(&["pass", "enc", "p", "-o", "c", "--env-pass"])),
                        "encrypt" => (World { files: vec![("p".into(), plain.clone()), ("kr".into(), kr.clone())], env: vec![("KESTREL_PASSWORD".into(), fx.alice.pw.into())], stdin: vec![] }, sv(&["enc", "p", "-t", "bob", "-f", "alice", "-o", "c", "-k", "kr", "--env-pass"])),
                        // a user encrypting to their own key: the ephemeral key is as fresh as for anybody else (and is not the static key)
                        "encrypt-self" => (World { files: vec![("p".into(), plain.clone()), ("kr".into(), kr.clone())], env: vec![("KESTREL_PASSWORD".into(), fx.alice.pw.into())], stdin: vec![] }, sv(&["enc", "p", "-t", "alice", "-f", "alice", "-o", "c", "-k", "kr", "--env-pass"])),
                        "key-generate" => (World { files: vec![], env: vec![("KESTREL_PASSWORD".into(), "same".into())], stdin: b"same name\n".to_vec() }, sv(&["key", "gen", "-o", "c", "--env-pass"])),
                        // the EMPTY password is a password like any other: salts and keys are as fresh as with any
                        "key-generate-empty" => (World { files: vec![], env: vec![("KESTREL_PASSWORD".into(), "".into())], stdin: b"same name\n".to_vec() }, sv(&["key", "gen", "-o", "c", "--env-pass"])),
                        "pass-encrypt-empty" => (World { files: vec![("p".into(), plain.clone())], env: vec![("KESTREL_PASSWORD".into(), "".into())], stdin: vec![] }, sv(&["pass", "enc", "p", "-o", "c", "--env-pass"])),
                        "change-pass-empty" => (World { files: vec![], env: vec![("KESTREL_PASSWORD".into(), fx.alice.pw.into()), ("KESTREL_NEW_PASSWORD".into(), "".into())], stdin: vec![] }, sv(&["key", "change-pass", &fx.alice.enc_sk, "--env-pass"])),
                        "change-pass-same" => (World { files: vec![], env: vec![("KESTREL_PASSWORD".into(), fx.alice.pw.into()), ("KESTREL_NEW_PASSWORD".into(), fx.alice.pw.into())], stdin: vec![] }, sv(&["key", "change-pass", &fx.alice.enc_sk, "--env-pass"])),
                        _ => (World { files: vec![], env: vec![("KESTREL_PASSWORD".into(), fx.alice.pw.into()), ("KESTREL_NEW_PASSWORD".into(), "same new".into())], stdin: vec![] }, sv(&["key", "change-pass", &fx.alice.enc_sk, "--env-pass"])),
                    };
                    let obs = run_kestrel(&world, &args);
                    if obs.exit != Some(0) { o.oracle_fail = Some(("command-succeeds".into(), format!("{}: {}", what, obs.stderr.trim()))); return o; }
                    use ct_codecs::{Base64, Decoder};
                    let (fresh1, fresh2): (Vec<u8>, Vec<u8>) = match what {
                        "pass-encrypt" | "pass-encrypt-empty" => { let f = obs.file("c").cloned().unwrap_or_default(); (f[4..36].to_vec(), f[36..].to_vec()) }
                        "encrypt" | "encrypt-self" => { let f = obs.file("c").cloned().unwrap_or_default(); let (rsk, rpk) = if what == "encrypt" { (&fx.bob.sk, &fx.bob.pk) } else { (&fx.alice.sk, &fx.alice.pk) };
                            if what == "encrypt-self" && f.len() >= 36 && f[4..36] == fx.alice.pk[..] { o.oracle_fail = Some(("fresh-randomness-per-invocation".into(), format!("`kestrel {}`: the ephemeral public key in the file is the sender's static public key", args.join(" ")))); return o; }
                            let r = m.ask(&format!("key_open {} {} {}", hex(rsk), hex(rpk), hex(&f[..132]))); o.validated += 1; let p: Vec<&str> = r.split(' ').collect(); if p.len() != 5 { o.disagreement = Some(format!("model cannot open CLI output: {}", r)); return o; } (f[4..36].to_vec(), unhex(p[4])) }
                        "key-generate" | "key-generate-empty" => { let t = String::from_utf8_lossy(obs.file("c").map(|x| &x[..]).unwrap_or(&[])).to_string(); let sk = t.lines().find(|l| l.starts_with("PrivateKey = ")).map(|l| l[13..].to_string()).unwrap_or_default(); let blob = Base64::decode_to_vec(&sk, None).unwrap_or(vec![0; 84]); let key = crate::props::c15::rust_unlock(&sk, if what == "key-generate" { &b"same"[..] } else { &b""[..] }); (blob[4..36].to_vec(), key.into_bytes()) }
                        _ => { let t = String::from_utf8_lossy(&obs.stdout).trim().to_string(); let blob = Base64::decode_to_vec(t.trim_start_matches("PrivateKey = "), None).unwrap_or(vec![0; 84]); (blob[4..36].to_vec(), blob[36..].to_vec()) }
                    };
                    if fresh1 == vec![0u8; 32] { o.oracle_fail = Some(("fresh-value-not-zero".into(), format!("{}: all-zero salt / ephemeral key", what))); return o; }
                    if !a.insert(fresh1) { o.oracle_fail = Some(("fresh-randomness-per-invocation".into(), format!("`kestrel {}` run {} times with identical inputs: invocation {} repeated an earlier {}", args.join(" "), n, i, if what.starts_with("encrypt") { "ephemeral key" } else { "salt" }))); return o; }
                    if !b.insert(fresh2) { o.oracle_fail = Some(("fresh-randomness-per-invocation".into(), format!("`kestrel {}` run {} times with identical inputs: invocation {} repeated an earlier {}", args.join(" "), n, i, match what { "encrypt" | "encrypt-self" => "file key", "key-generate" | "key-generate-empty" => "private key", _ => "ciphertext" }))); return o; }
                }
                o.impl_obs = format!("{} x `{}`: {} / {} distinct fresh values", n, what, a.len(), b.len());
            }
            "cli-multi" => {
                use crate::cli::*;
                let fx = fixtures(); let what = get(c, "what"); let shape = get(c, "shape");
                let mut rng = Rng::new(get(c, "seed").parse().unwrap_or(0));
                let kr = keyring(&[(&fx.alice, true), (&fx.bob, true)]).into_bytes();
                let mut files: Vec<(String, Vec<u8>)> = vec![("a.bin".into(), rng.bytes(20)), ("b.bin".into(), rng.bytes(20)), ("c.bin".into(), rng.bytes(70000)), ("kr".into(), kr)];
                if shape == "dup" { files[1].1 = files[0].1.clone(); }
                let names: Vec<&str> = match shape { "three" => vec!["a.bin", "b.bin", "c.bin"], _ => vec!["a.bin", "b.bin"] };
                let mut args: Vec<String> = if what == "encrypt" { sv(&["enc"]) } else { sv(&["pass", "enc"]) };
                args.extend(names.iter().map(|x| x.to_string()));
                if what == "encrypt" { args.extend(sv(&["-t", "bob", "-f", "alice", "-k", "kr"])); }
                if shape == "two-o" { args.extend(sv(&["-o", "out.bin"])); }
                args.push("--env-pass".into());
                let world = World { files: files.clone(), env: vec![("KESTREL_PASSWORD".into(), if what == "encrypt" { fx.alice.pw.into() } else { "same".into() })], stdin: vec![] };
                let obs = run_kestrel(&world, &args);
                o.validated += 1; o.nontrivial = Some(format!("cli-multi/{}/{}", what, shape));
                // every file that was not there before and starts with the format's magic
                let magic: &[u8] = if what == "encrypt" { &[0x65, 0x67, 0x6b, 0x10] } else { &[0x65, 0x67, 0x6b, 0x20] };
                let made: Vec<&(String, Vec<u8>)> = obs.files.iter().filter(|(n, b)| !files.iter().any(|(m, _)| m == n) && b.len() >= 36 && &b[..4] == magic).collect();
                o.tags.push(format!("{} FILE arguments: exit {:?}, {} encrypted files written", names.len(), obs.exit, made.len()));
                o.impl_obs = format!("exit={:?} encrypted files: {:?}", obs.exit, made.iter().map(|(n, b)| (n.clone(), b.len())).collect::<Vec<_>>()); o.model_obs = "pairwise distinct salts / ephemeral keys".into();
                let mut seen: Vec<(&String, &[u8])> = vec![];
                for (n, b) in made.iter().map(|x| (&x.0, &x.1)) {
                    let fresh = &b[4..36];
                    if let Some((other, _)) = seen.iter().find(|(_, f)| *f == fresh) { o.oracle_fail = Some(("fresh-randomness-per-file".into(), format!("one invocation `kestrel {}` wrote {} and {} with the same {} {} — two encryptions under one {}", args.join(" "), other, n, if what == "encrypt" { "ephemeral key" } else { "salt" }, hex(fresh), if what == "encrypt" { "handshake" } else { "password-derived key and nonce sequence" }))); return o; }
                    seen.push((n, fresh));
                }
            }
            "generate" => {
                let n = getn(c, "n");
                let (mut a, mut b) = (HashSet::new(), HashSet::new());
                o.nontrivial = Some("generate".into());
                for i in 0..n {
                    let k = kestrel_crypto::PrivateKey::generate(); let r = kestrel_crypto::secure_random(32);
                    if k.as_bytes() == [0u8; 32] || r == vec![0u8; 32] { o.oracle_fail = Some(("csprng-not-zero".into(), "all-zero output".into())); return o; }
                    if !a.insert(k.as_bytes().to_vec()) { o.oracle_fail = Some(("generated-key-fresh".into(), format!("PrivateKey::generate repeated a key at draw {}", i))); return o; }
                    if !b.insert(r) { o.oracle_fail = Some(("secure-random-fresh".into(), format!("secure_random repeated at draw {}", i))); return o; }
                }
                o.impl_obs = format!("{} generated keys and {} random strings distinct", a.len(), b.len());
            }
            _ => {
                let cs = getn(c, "cs"); let n = getn(c, "n");
                let mut rng = Rng::new(get(c, "seed").parse().unwrap_or(0));
                let lens: Vec<usize> = (0..n).map(|_| rng.range(1, cs)).collect();
                let a = authentic(rng.next(), cs, &lens, &[]);
                let recs = records(&a);
                o.nontrivial = Some(format!("nonces/{}/{}/{}", cs, n, get(c, "rep")));
                for (i, rec) in recs.iter().enumerate() {
                    let ad = rec[8..16].to_vec(); let body = rec[16..].to_vec();
                    // the counter field must be the record index
                    if rec[..8] != (i as u64).to_be_bytes() { o.oracle_fail = Some(("counter-field-is-index".into(), format!("record {} carries counter {:?}", i, &rec[..8]))); return o; }
                    for j in 0..=recs.len() {
                        let r = m.ask(&format!("noise_open {} {} {} {}", hex(&a.key), j, hex(&ad), hex(&body))); o.validated += 1;
                        let opens = r.starts_with("ok");
                        if j == i && !opens { o.oracle_fail = Some(("record-i-sealed-under-nonce-i".into(), format!("record {} of {} does not open under nonce {}", i, recs.len(), i))); return o; }
                        if j != i && opens { o.oracle_fail = Some(("nonce-used-once".into(), format!("record {} opens under nonce {} as well", i, j))); return o; }
                    }
                }
                let _ = Scripts { rs: &[], ws: &[], fs: &[] };
                o.impl_obs = format!("{} records, each opens under exactly its own index", recs.len()); o.model_obs = "same".into();
            }
        }
        o
    }
}
