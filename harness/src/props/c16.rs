//! C16 — a key keeps its identity through any sequence of password changes.
use crate::cli::*;
use crate::model::Model;
use crate::props::c15::other_password;
use crate::report::*;
use crate::util::*;
use ct_codecs::{Base64, Decoder, Encoder};

pub struct C16;

fn find(h: &[u8], n: &[u8]) -> bool { !n.is_empty() && h.windows(n.len()).any(|w| w == n) }

impl Prop for C16 {
    fn id(&self) -> &'static str { "C16" }
    fn rule(&self) -> String {
        "real binary: key generate, then k password changes (k = 1..4 quick, up to 8 thorough) over passwords {empty, ASCII, UTF-8, 100 bytes, two long passphrases sharing an 87-byte prefix, trailing space}, including changes to the SAME password, interleaved with extract-pub (run with KESTREL_KEYRING naming a keyring that holds the very locked string — next to its own or to somebody else's public key) and with an encrypt/decrypt round trip using the current string; \
         every printed PrivateKey string is unlocked by the Lean model with the newest password to one and the same private key; every earlier password of the history (unless equal as an HMAC key) and unrelated passwords are refused by the binary (extract-pub and change-pass) and by the model, including histories where passwords differ only by trailing white space or line endings; salts pairwise distinct; \
         extract-pub always prints the PublicKey line written at generation, equal to encode(pub(sk)) computed by the model; no output (stdout, stderr, keyring) contains the private key in raw, hex or base64 form. non-trivial = distinct history".into()
    }
    fn cases(&self, tier: &str, seed: u64) -> Vec<Case> {
        let th = tier == "thorough";
        let mut rng = Rng::new(seed ^ 0xC16);
        let mut v: Vec<Case> = (0..(if th { 40 } else { 10 })).map(|i| case(&[("k", (1 + i % (if th { 8 } else { 4 })).to_string()), ("seed", rng.next().to_string())])).collect();
        // histories in which a password is a later one plus white space / a line ending (KESTREL_PASSWORD is taken verbatim)
        // histories that start from a GIVEN key (any 32 bytes are a private key): all zero, all ones, a small scalar, mostly zeros
        for g in ["zeros", "ff", "one", "sparse"] { v.push(case(&[("k", "2".into()), ("given", g.into()), ("seed", rng.next().to_string())])); }
        for h in ["lf", "crlf", "space", "only-lf"] { v.push(case(&[("k", "3".into()), ("hist", h.into()), ("seed", rng.next().to_string())])); }
        v
    }
    fn run(&self, c: &Case, m: &mut Model) -> Outcome {
        let mut o = Outcome::default();
        let mut rng = Rng::new(get(c, "seed").parse().unwrap_or(0));
        let k = getn(c, "k");
        let pool: Vec<String> = vec!["".into(), "hunter2".into(), "pässwörd–🔑".into(), "x".repeat(100), "a".into()];
        let mut pws: Vec<String> = vec![pool[rng.below(pool.len())].clone()];
        let long_a = format!("{} — first", "correct horse battery staple ".repeat(3)); let long_b = format!("{} — second", "correct horse battery staple ".repeat(3));   // share an 87-byte prefix
        let pool: Vec<String> = { let mut p = pool; p.push(long_a.clone()); p.push(long_b.clone()); p.push("trailing space ".into()); p };
        for i in 0..k { let mut p = pool[rng.below(pool.len())].clone(); if rng.chance(1, 4) || (i == 0 && k >= 2) { p = pws.last().unwrap().clone(); } if i == 1 && k >= 3 { p = long_a.clone(); } if i == 2 && k >= 3 { p = long_b.clone(); } pws.push(p); }
        match get(c, "hist") { "lf" => pws = vec!["hunter2\n".into(), "hunter2".into(), "hunter2\n\n".into(), "hunter2\n".into()], "crlf" => pws = vec!["пароль\r\n".into(), "пароль".into(), "пароль\r".into(), "пароль".into()],
            "space" => pws = vec![" pw ".into(), "pw".into(), "pw ".into(), " pw".into()], "only-lf" => pws = vec!["\n".into(), "".into(), "\r\n".into(), "".into()], _ => {} }
        o.nontrivial = Some(format!("{}/{}{}", k, get(c, "seed"), get(c, "hist"))); o.tags.push(format!("changes={}", k)); if !get(c, "hist").is_empty() { o.tags.push(format!("history {}", get(c, "hist"))); }
        if !get(c, "given").is_empty() {
            let raw: Vec<u8> = match get(c, "given") { "zeros" => vec![0u8; 32], "ff" => vec![0xff; 32], "one" => { let mut v = vec![0u8; 32]; v[0] = 1; v } _ => { let mut v = vec![0u8; 32]; v[19] = 0x5a; v } };
            let salt: [u8; 32] = rng.bytes(32).try_into().unwrap();
            let pubk = crate::props::c01::pub_of(&raw);
            let want = format!("PublicKey = {}", crate::keyring::Keyring::encode_public_key(&crate::imp::pk(&pubk)).as_str());
            let mut cur = crate::keyring::Keyring::lock_private_key(&crate::imp::sk(&raw), pws[0].as_bytes(), salt).as_str().to_string();
            o.nontrivial = Some(format!("given/{}", get(c, "given"))); o.tags.push(format!("given key {}", get(c, "given")));
            for i in 0..k {
                let x = run_kestrel(&World { files: vec![], env: vec![("KESTREL_PASSWORD".into(), pws[i].clone())], stdin: vec![] }, &sv(&["key", "extract-pub", &cur, "--env-pass"])); o.validated += 1;
                if x.exit != Some(0) || String::from_utf8_lossy(&x.stdout).trim() != want { o.oracle_fail = Some(("extract-pub-prints-public-key-of-private-key".into(), format!("given private key {} locked under {:?}: after {} changes `kestrel key extract-pub` printed {:?} (exit {:?}: {}), the public key of that private key is {:?}", hex(&raw), pws[i], i, String::from_utf8_lossy(&x.stdout).trim(), x.exit, x.stderr.trim(), want))); return o; }
                let ch = run_kestrel(&World { files: vec![], env: vec![("KESTREL_PASSWORD".into(), pws[i].clone()), ("KESTREL_NEW_PASSWORD".into(), pws[i + 1].clone())], stdin: vec![] }, &sv(&["key", "change-pass", &cur, "--env-pass"]));
                let line = String::from_utf8_lossy(&ch.stdout).trim().to_string();
                if ch.exit != Some(0) || !line.starts_with("PrivateKey = ") { o.oracle_fail = Some(("change-pass-succeeds".into(), format!("given private key {}: change {}: exit {:?} {}", hex(&raw), i, ch.exit, ch.stderr.trim()))); return o; }
                cur = line[13..].to_string();
                let mu = m.ask(&format!("unlock {} {}", hex(cur.as_bytes()), hexd(pws[i + 1].as_bytes()))); o.validated += 1;
                if mu != format!("ok {}", hex(&raw)) { o.oracle_fail = Some(("newest-string-unlocks-to-original-key".into(), format!("given private key {}: after change {} the new string unlocks (reference model) to {}", hex(&raw), i + 1, mu))); return o; }
            }
            o.impl_obs = format!("given key {}: {} changes, public key constant", get(c, "given"), k); o.model_obs = "same".into();
            return o;
        }
        // generate
        let g = run_kestrel(&World { files: vec![], env: vec![("KESTREL_PASSWORD".into(), pws[0].clone())], stdin: b"subject\n".to_vec() }, &sv(&["key", "generate", "-o", "ring.txt", "--env-pass"]));
        let Some(ring) = g.file("ring.txt").cloned() else { o.oracle_fail = Some(("generate-succeeds".into(), g.stderr)); return o; };
        let text = String::from_utf8_lossy(&ring).to_string();
        let publine = text.lines().find(|l| l.starts_with("PublicKey = ")).unwrap_or("").to_string();
        let mut cur = text.lines().find(|l| l.starts_with("PrivateKey = ")).map(|l| l[13..].to_string()).unwrap_or_default();
        let sk0 = m.ask(&format!("unlock {} {}", hex(cur.as_bytes()), hexd(pws[0].as_bytes()))); o.validated += 1;
        let Some(skhex) = sk0.strip_prefix("ok ") else { o.disagreement = Some(format!("the model cannot unlock the generated key: {}", sk0)); return o; };
        let sk = unhex(skhex);
        let mpub = m.ask(&format!("x25519_pub {}", skhex)); let mline = m.ask(&format!("encode_pk {}", mpub.strip_prefix("ok ").unwrap_or("")));
        let want_publine = format!("PublicKey = {}", String::from_utf8_lossy(&unhex(mline.strip_prefix("ok ").unwrap_or(""))));
        if publine != want_publine { o.oracle_fail = Some(("publickey-line-is-pub-of-private-key".into(), format!("generation wrote {:?}, the model computes {:?}", publine, want_publine))); return o; }
        let mut outputs: Vec<Vec<u8>> = vec![ring.clone(), g.stdout.clone(), g.stderr.clone().into_bytes()];
        let mut salts = std::collections::HashSet::new();
        salts.insert(Base64::decode_to_vec(&cur, None).map(|b| b[4..36].to_vec()).unwrap_or_default());
        for i in 0..k {
            let (old, new) = (pws[i].clone(), pws[i + 1].clone());
            // extract-pub with the current password
            // (the configured keyring holds this very locked string next to SOMEBODY ELSE's public key: what is printed must come from the private key)
            let decoy_ring = format!("[Key]\nName = subject\nPublicKey = {}\nPrivateKey = {}\n", fixtures().carol.enc_pk, cur).into_bytes();
            let x = run_kestrel(&World { files: vec![("kr.txt".into(), decoy_ring)], env: vec![("KESTREL_PASSWORD".into(), old.clone()), ("KESTREL_KEYRING".into(), "kr.txt".into())], stdin: vec![] }, &sv(&["key", "extract-pub", &cur, "--env-pass"]));
            outputs.push(x.stdout.clone()); outputs.push(x.stderr.clone().into_bytes());
            if x.exit != Some(0) || String::from_utf8_lossy(&x.stdout).trim() != publine { o.oracle_fail = Some(("extract-pub-prints-generation-line".into(), format!("after {} changes extract-pub printed {:?} (exit {:?}), generation wrote {:?}", i, String::from_utf8_lossy(&x.stdout).trim(), x.exit, publine))); return o; }
            // a wrong old password must stop the change
            let wrong = String::from_utf8_lossy(&other_password(old.as_bytes(), "other", &mut rng)).to_string();
            let bad = run_kestrel(&World { files: vec![], env: vec![("KESTREL_PASSWORD".into(), wrong), ("KESTREL_NEW_PASSWORD".into(), new.clone())], stdin: vec![] }, &sv(&["key", "change-pass", &cur, "--env-pass"]));
            if bad.exit != Some(1) || !bad.stdout.is_empty() { o.oracle_fail = Some(("change-needs-current-password".into(), format!("change-pass with a wrong old password: exit {:?}, printed {} bytes", bad.exit, bad.stdout.len()))); return o; }
            // … also when the new password is that same wrong password ("changing" to the password one typed proves nothing)
            let wrong2 = String::from_utf8_lossy(&other_password(old.as_bytes(), "other", &mut rng)).to_string();
            let bad2 = run_kestrel(&World { files: vec![], env: vec![("KESTREL_PASSWORD".into(), wrong2.clone()), ("KESTREL_NEW_PASSWORD".into(), wrong2.clone())], stdin: vec![] }, &sv(&["key", "change-pass", &cur, "--env-pass"]));
            if bad2.exit != Some(1) || !bad2.stdout.is_empty() { o.oracle_fail = Some(("change-needs-current-password".into(), format!("change-pass with a wrong old password that is also given as the new password ({:?}): exit {:?}, printed {} bytes", wrong2, bad2.exit, bad2.stdout.len()))); return o; }
            let ch = run_kestrel(&World { files: vec![], env: vec![("KESTREL_PASSWORD".into(), old.clone()), ("KESTREL_NEW_PASSWORD".into(), new.clone())], stdin: vec![] }, &sv(&["key", "change-pass", &cur, "--env-pass"]));
            outputs.push(ch.stdout.clone()); outputs.push(ch.stderr.clone().into_bytes());
            let line = String::from_utf8_lossy(&ch.stdout).trim().to_string();
            if ch.exit != Some(0) || !line.starts_with("PrivateKey = ") { o.oracle_fail = Some(("change-pass-succeeds".into(), format!("change {}: exit {:?} {}", i, ch.exit, ch.stderr.trim()))); return o; }
            let next = line[13..].to_string();
            let mu = m.ask(&format!("unlock {} {}", hex(next.as_bytes()), hexd(new.as_bytes()))); o.validated += 1;
            if mu != format!("ok {}", hex(&sk)) { o.oracle_fail = Some(("newest-string-unlocks-to-original-key".into(), format!("after change {} the new string unlocks (in the reference model, newest password) to {}", i + 1, mu))); return o; }
            // the old password stops working unless it is the same HMAC key
            if crate::props::c15::hmac_norm(old.as_bytes()) != crate::props::c15::hmac_norm(new.as_bytes()) {
                let r = crate::props::c15::rust_unlock(&next, old.as_bytes());
                let mr = m.ask(&format!("unlock {} {}", hex(next.as_bytes()), hexd(old.as_bytes())));
                if r.starts_with("ok") { o.oracle_fail = Some(("earlier-password-stops-working".into(), format!("after change {} the previous password still unlocks the new string", i + 1))); return o; }
                if r != mr { o.disagreement = Some(format!("old password on new string: impl {} model {}", r, mr)); }
            }
            // ... and through the tool itself: every earlier password that differs (as an HMAC key) from the newest one is refused
            for (j, earlier) in pws[..=i].iter().enumerate() {
                if crate::props::c15::hmac_norm(earlier.as_bytes()) == crate::props::c15::hmac_norm(new.as_bytes()) { continue; }
                // (the configured keyring holds the key — with its public key in the clear: knowing the password is still what the command asks for)
                let own_ring = format!("[Key]\nName = subject\n{}\nPrivateKey = {}\n", publine, next).into_bytes();
                let x = run_kestrel(&World { files: vec![("kr.txt".into(), own_ring.clone())], env: vec![("KESTREL_PASSWORD".into(), earlier.clone()), ("KESTREL_KEYRING".into(), "kr.txt".into())], stdin: vec![] }, &sv(&["key", "extract-pub", &next, "--env-pass"]));
                if x.exit != Some(1) || !x.stdout.is_empty() { o.oracle_fail = Some(("earlier-password-stops-working".into(), format!("after change {} (to {:?}) `kestrel key extract-pub` still accepts password {} of the history ({:?}): exit {:?}, printed {:?}", i + 1, new, j, earlier, x.exit, String::from_utf8_lossy(&x.stdout).trim()))); return o; }
                let y = run_kestrel(&World { files: vec![("kr.txt".into(), own_ring)], env: vec![("KESTREL_PASSWORD".into(), earlier.clone()), ("KESTREL_NEW_PASSWORD".into(), "n".into()), ("KESTREL_KEYRING".into(), "kr.txt".into())], stdin: vec![] }, &sv(&["key", "change-pass", &next, "--env-pass"]));
                if y.exit != Some(1) || !y.stdout.is_empty() { o.oracle_fail = Some(("earlier-password-stops-working".into(), format!("after change {} (to {:?}) `kestrel key change-pass` still accepts password {} of the history ({:?}) as the old password", i + 1, new, j, earlier))); return o; }
            }
            let salt = Base64::decode_to_vec(&next, None).map(|b| b[4..36].to_vec()).unwrap_or_default();
            if !salts.insert(salt) { o.oracle_fail = Some(("every-change-uses-a-new-salt".into(), format!("change {} reused a salt", i + 1))); return o; }
            cur = next;
        }
        // use the final string: encrypt / decrypt with a keyring holding it
        let last = pws[k].clone();
        let ring2 = format!("[Key]\nName = subject\n{}\nPrivateKey = {}\n", publine, cur).into_bytes();
        let plain = rng.bytes(33);
        let e = run_kestrel(&World { files: vec![("r.txt".into(), ring2.clone()), ("p".into(), plain.clone())], env: vec![("KESTREL_PASSWORD".into(), last.clone())], stdin: vec![] }, &sv(&["enc", "p", "-t", "subject", "-f", "subject", "-o", "c", "-k", "r.txt", "--env-pass"]));
        let d = e.file("c").cloned().map(|ct| run_kestrel(&World { files: vec![("r.txt".into(), ring2.clone()), ("c".into(), ct)], env: vec![("KESTREL_PASSWORD".into(), last.clone())], stdin: vec![] }, &sv(&["dec", "c", "-t", "subject", "-o", "d", "-k", "r.txt", "--env-pass"])));
        match d { Some(d) if d.file("d") == Some(&plain) && d.sender() == Some(Ok("subject".into())) => { outputs.push(d.stderr.into_bytes()); } _ => { o.oracle_fail = Some(("key-still-usable".into(), format!("round trip with the re-locked key failed: {}", e.stderr.trim()))); return o; } }
        // the raw private key never appears anywhere
        let forms: Vec<(&str, Vec<u8>)> = vec![("raw", sk.clone()), ("hex", hex(&sk).into_bytes()), ("HEX", hex(&sk).to_uppercase().into_bytes()), ("base64", Base64::encode_to_string(&sk).unwrap().into_bytes())];
        for out in &outputs { for (f, n) in &forms { if find(out, n) { o.oracle_fail = Some(("private-key-never-printed".into(), format!("the private key appears in {} form in an output of the tool", f))); return o; } } }
        o.impl_obs = format!("{} password changes, {} distinct salts, public key line constant", k, salts.len()); o.model_obs = "every string unlocks to the same key".into();
        o
    }
}
