//! C17 — keyring parsing: complete, unambiguous entries; checksummed keys; no crashes.
use crate::keyring::{EncodedPk, EncodedSk, Keyring};
use crate::model::Model;
use crate::report::*;
use crate::util::*;
use ct_codecs::{Base64, Decoder, Encoder};
use std::panic::{catch_unwind, AssertUnwindSafe};

pub struct C17;

pub const SK1: &str = "ZWdrMNgYZk3ECRscuyfyjc0qaMuv2h6/AnTIOKXhvusYrp8gRkbevOql6RfkZUcUTAeZIS9mDDI0p1c03jihe4tHUdYdLaYX0lplA6iTEG88h78n";

pub fn enc_pk(k: &[u8]) -> String {
    let mut b = k.to_vec(); b.extend_from_slice(&kestrel_crypto::sha256(k)[..4]); Base64::encode_to_string(&b).unwrap()
}

fn unescape_debug(s: &str) -> String {
    let mut out = String::new();
    let cs: Vec<char> = s.chars().collect();
    let mut i = 0;
    while i < cs.len() {
        if cs[i] == '\\' && i + 1 < cs.len() {
            match cs[i + 1] {
                'n' => { out.push('\n'); i += 2; } 't' => { out.push('\t'); i += 2; } 'r' => { out.push('\r'); i += 2; } '0' => { out.push('\0'); i += 2; }
                '\\' => { out.push('\\'); i += 2; } '"' => { out.push('"'); i += 2; } '\'' => { out.push('\''); i += 2; }
                'u' => { let j = (i..cs.len()).find(|&j| cs[j] == '}').unwrap_or(cs.len() - 1); let h: String = cs[i + 3..j].iter().collect(); out.push(char::from_u32(u32::from_str_radix(&h, 16).unwrap_or(0xfffd)).unwrap_or('\u{fffd}')); i = j + 1; }
                c => { out.push(c); i += 2; }
            }
        } else { out.push(cs[i]); i += 1; }
    }
    out
}

/// canonical rendering of the Debug output of `Keyring` in the model's response format
pub fn canon_keyring(dbg: &str) -> String {
    // Key { name: "..", public_key: EncodedPk(".."), private_key: Some(EncodedSk("..")) | None }
    let mut items = vec![];
    let mut rest = dbg;
    while let Some(i) = rest.find("Key { name: \"") {
        rest = &rest[i + 13..];
        let (name, r2) = take_quoted(rest);
        let j = r2.find("EncodedPk(\"").unwrap_or(0);
        let (pk, r3) = take_quoted(&r2[j + 11..]);
        let j2 = r3.find("private_key: ").unwrap_or(0);
        let r4 = &r3[j2 + 13..];
        let (sk, r5) = if r4.starts_with("Some(EncodedSk(\"") { let (s, r) = take_quoted(&r4[16..]); (Some(s), r) } else { (None, r4) };
        items.push(format!("{}|{}|{}", hexd(unescape_debug(&name).as_bytes()), hexd(unescape_debug(&pk).as_bytes()), sk.map(|s| hexd(unescape_debug(&s).as_bytes())).unwrap_or("none".into())));
        rest = r5;
    }
    format!("ok {}", items.join(";"))
}
fn take_quoted(s: &str) -> (String, &str) {
    let b = s.as_bytes(); let mut i = 0;
    while i < b.len() { if b[i] == b'\\' { i += 2; continue; } if b[i] == b'"' { break; } i += 1; }
    (s[..i.min(s.len())].to_string(), &s[(i + 1).min(s.len())..])
}

pub fn rust_parse(text: &str) -> String {
    catch_unwind(AssertUnwindSafe(|| match Keyring::new(text) { Ok(k) => canon_keyring(&format!("{:?}", k)), Err(_) => "err parse".to_string() })).unwrap_or("crash".into())
}

const WS: [&str; 11] = ["", " ", "\t", "  ", "\u{a0}", "\u{2003}", "\r", "\x0b", "\x0c", "\u{85}", "\u{2028}"];
pub const NAMES: [&str; 16] = ["alice", "bob", "a b", "a\tb", "ab", "", "n=1", " lead", "trail\u{a0}", "\u{3000}wide\u{3000}", "#hash", "a\rb", "Name", "[Key]", "é", "x y  z"];

fn gen_names(rng: &mut Rng) -> String {
    match rng.below(22) { 0 => "x".repeat(128), 1 => "x".repeat(129), 2 => "é".repeat(64), 3 => "é".repeat(65), i if i < 12 => format!("k{}", rng.below(6)), _ => NAMES[rng.below(NAMES.len())].to_string() }
}
fn w(rng: &mut Rng) -> &'static str { WS[rng.below(WS.len())] }

fn bad_pk(rng: &mut Rng, pks: &[String]) -> String {
    let p = &pks[0];
    match rng.below(12) { 0 => p[..p.len() - 1].into(), 1 => format!("{}=", p), 2 => format!("{}=", &p[..p.len() - 1]), 3 => format!("{}A", p), 4 => format!("{} {}", &p[..5], &p[5..]), 5 => format!("{}\t{}", &p[..10], &p[10..]),
        6 => "".into(), 7 => "AAAA".into(), 8 => "AA==".into(), 9 => "AR==".into(), 10 => "é".repeat(10), _ => { let mut b = p.clone().into_bytes(); b[7] = b'-'; String::from_utf8(b).unwrap() } }
}

fn token(rng: &mut Rng, pks: &[String]) -> String {
    match rng.below(12) {
        0 => format!("{}[Key]{}{}", w(rng), rng.pick(&["", "x", " junk", "\t"]), w(rng)),
        1 => format!("{}{}{}{}{}{}{}", w(rng), rng.pick(&["Name", "NameX", "Names", "Name\t"]), w(rng), rng.pick(&["=", "= =", " ", "=\t"]), w(rng), gen_names(rng), w(rng)),
        2 => { let p = if rng.chance(2, 3) { pks[rng.below(pks.len())].clone() } else { bad_pk(rng, pks) }; format!("{}{}{}={}{}{}", w(rng), rng.pick(&["PublicKey", "PublicKeyZ", "Public\tKey"]), w(rng), w(rng), p, w(rng)) }
        3 => format!("{}PrivateKey{}{}{}{}{}", w(rng), w(rng), rng.pick(&["=", ""]), w(rng), rng.pick(&[SK1.to_string(), SK1[..SK1.len() - 1].to_string(), format!("{}=", SK1)]), w(rng)),
        4 => format!("{}#{}", w(rng), rng.pick(&["", " comment", "[Key]"])),
        5 => w(rng).to_string(),
        6 => rng.pick(&["junk", "Nam = x", "[key]", "publickey = x", "=", "\u{feff}[Key]"]).to_string(),
        7 => "[Key]".into(),
        8 => format!("Name = {}", NAMES[rng.below(3)]),
        9 => format!("PublicKey = {}", pks[rng.below(pks.len())]),
        10 => format!("PrivateKey = {}", SK1),
        _ => format!("[Key]\nName = {}\nPublicKey = {}", rng.pick(&["alice", "bob", "carol"]), pks[rng.below(pks.len())]),
    }
}

fn section(rng: &mut Rng, pks: &[String]) -> Vec<String> {
    let nm = gen_names(rng);
    let mut lines = vec![format!("{}[Key]{}", w(rng), w(rng))];
    let pk = if rng.chance(1, 5) { pks[rng.below(pks.len())].clone() } else { enc_pk(&rng.bytes(32)) };
    let mut body = vec![format!("{}Name{}={}{}{}", w(rng), w(rng), w(rng), nm, w(rng)), format!("{}PublicKey{}={}{}{}", w(rng), w(rng), w(rng), pk, w(rng))];
    if rng.chance(1, 2) { body.push(format!("PrivateKey = {}", SK1)); }
    if rng.chance(3, 20) { let i = rng.below(body.len()); body.remove(i); }
    if rng.chance(1, 10) && !body.is_empty() { let i = rng.below(body.len()); body.push(body[i].clone()); }
    for i in (1..body.len()).rev() { let j = rng.below(i + 1); body.swap(i, j); }
    for b in body { lines.push(b); if rng.chance(3, 10) { lines.push(rng.pick(&["", "# c", "\t", "  "]).to_string()); } }
    lines
}

pub fn gen_text(rng: &mut Rng) -> (String, &'static str) {
    let pks: Vec<String> = vec![enc_pk(&[7u8; 32]), enc_pk(&[9u8; 32])];
    if rng.chance(7, 10) {
        let mut ls = vec![];
        if rng.chance(3, 10) { ls.push(rng.pick(&["", "# header", "\u{feff}", "junk"]).to_string()); }
        for _ in 0..rng.range(1, 4) { ls.extend(section(rng, &pks)); }
        let mut t = String::new();
        for l in ls { t.push_str(&l); t.push_str(*rng.pick(&["\n", "\n", "\n", "\n", "\n", "\n", "\n", "\n", "\r\n", "\n\n"])); }
        if rng.chance(3, 10) { t = t.trim_end_matches('\n').to_string(); }
        (t, "mostly-valid")
    } else {
        let n = rng.below(9);
        let mut t = String::new();
        for _ in 0..n { t.push_str(&token(rng, &pks)); t.push_str(*rng.pick(&["\n", "\n", "\n", "\r\n", "\n\n", "\r", "\u{2028}", "\n\r"])); }
        if rng.chance(3, 10) { t = t.trim_end_matches('\n').to_string(); }
        (t, "soup")
    }
}

/// the small-scope alphabet for exhaustive token sequences
fn small_tokens() -> Vec<String> {
    let p1 = enc_pk(&[7u8; 32]); let p2 = enc_pk(&[9u8; 32]);
    vec!["[Key]".into(), "Name = a".into(), "Name = b".into(), format!("PublicKey = {}", p1), format!("PublicKey = {}", p2), format!("PrivateKey = {}", SK1),
         "# c".into(), "".into(), "junk".into(), "PublicKey = AAAA".into(), "Name =".into(), "NameX = a".into(), "[Key]x".into()]
}

impl Prop for C17 {
    fn id(&self) -> &'static str { "C17" }
    fn rule(&self) -> String {
        "parser: all sequences up to length 4 (quick) / 5 (thorough) over 13 line tokens {[Key], 2 names, 2 public keys, private key, comment, blank, junk, malformed key, empty name, NameX, [Key]x}, \
         plus seeded texts: 70% mostly-valid keyrings (shuffled fields, dropped/doubled fields, fresh checksummed keys, Unicode whitespace, CR/LF mixes, TABs) and 30% token soup; \
         observable = accept/reject + entry list (Debug output of Keyring, canonicalised) and get_key / get_name_from_key on every name and key; \
         names: valid_key_name vs model and write-then-parse round trip through serialize_key for every name key generation accepts; \
         three- and four-section keyrings with a repeated name or key at every pair of positions; lookups with near-miss names and keys; public keys: encode/decode round trip, every single-character corruption of an encoded key, and blobs of every length 0..60 (key ‖ hash prefix, with and without a flipped bit). non-trivial = distinct text / name / corruption; accepted fraction reported".into()
    }
    fn cases(&self, tier: &str, seed: u64) -> Vec<Case> {
        let th = tier == "thorough";
        let mut rng = Rng::new(seed ^ 0xC17);
        let mut v = vec![];
        let toks = small_tokens().len();
        let maxlen = if th { 5 } else { 4 };
        let mut total = 0usize; let mut p = 1usize;
        for _ in 0..=maxlen { total += p; p *= toks; }
        for idx in 0..total { v.push(case(&[("kind", "seq".into()), ("idx", idx.to_string())])); }
        for _ in 0..(if th { 20000 } else { 3000 }) { v.push(case(&[("kind", "text".into()), ("seed", rng.next().to_string())])); }
        // three and four sections with a repeated name or key at every pair of positions
        for n in [3usize, 4] { for i in 0..n { for j in i + 1..n { for what in ["name", "pk"] { v.push(case(&[("kind", "dup".into()), ("n", n.to_string()), ("i", i.to_string()), ("j", j.to_string()), ("what", what.into())])); } } } }
        for _ in 0..(if th { 300 } else { 40 }) { v.push(case(&[("kind", "lookup".into()), ("seed", rng.next().to_string())])); }
        // the three fields of a section in every order (all accepted, same entry) and every field given twice (rejected)
        for _ in 0..(if th { 12 } else { 3 }) { v.push(case(&[("kind", "field-order".into()), ("seed", rng.next().to_string())])); }
        for l in 0..=60usize { for var in 0..(if th { 6 } else { 2 }) { v.push(case(&[("kind", "pklen".into()), ("len", l.to_string()), ("var", var.to_string()), ("seed", rng.next().to_string())])); } }
        for (i, _) in NAMES.iter().enumerate() { v.push(case(&[("kind", "name".into()), ("ni", i.to_string())])); }
        for extra in ["x128", "x129", "e64", "e65", "tabend", "nl", "crlf", "sp", "eq", "u2028", "bom-mid", "bom-only", "bom-first", "zwsp", "zwj", "shy", "nbsp-mid"] { v.push(case(&[("kind", "name".into()), ("ni", extra.into())])); }
        for _ in 0..(if th { 300 } else { 40 }) { v.push(case(&[("kind", "name".into()), ("ni", "rand".into()), ("seed", rng.next().to_string())])); }
        for pos in 0..48usize { for alt in 0..(if th { 6 } else { 2 }) { v.push(case(&[("kind", "pkcorrupt".into()), ("pos", pos.to_string()), ("alt", alt.to_string()), ("seed", rng.next().to_string())])); } }
        for _ in 0..(if th { 2000 } else { 200 }) { v.push(case(&[("kind", "pkrt".into()), ("seed", rng.next().to_string())])); }
        // EVERY single-character corruption of the key part of an encoded public key (43 positions x 63 other characters) must be refused — among them the
        // few whose wrong checksum differs from the stored one in a way a weak comparison would miss (the byte differences cancel out, sum to zero, agree in one byte …)
        for _ in 0..(if th { 12 } else { 3 }) { v.push(case(&[("kind", "pkall".into()), ("seed", rng.next().to_string())])); }
        // what the TOOL writes (`key gen -o`, appended to keyrings of every shape — with and without a final newline, CRLF, comments) parses back
        v.extend(crate::props::c14::C14.cases(tier, seed ^ 0x17).into_iter().filter(|c| get(c, "n") == "2" && !get(c, "init").starts_with("big")));
        v
    }
    fn run(&self, c: &Case, m: &mut Model) -> Outcome {
        if !get(c, "init").is_empty() { return crate::props::c14::C14.run(c, m); }
        let mut o = Outcome::default();
        let kind = get(c, "kind");
        match kind {
            "seq" | "text" => {
                let (text, flavour) = if kind == "seq" {
                    let toks = small_tokens(); let n = toks.len();
                    let mut idx = getn(c, "idx"); let mut len = 0; let mut p = 1;
                    while idx >= p { idx -= p; p *= n; len += 1; }
                    let mut parts = vec![]; for _ in 0..len { parts.push(toks[idx % n].clone()); idx /= n; }
                    (parts.join("\n") + if len > 0 { "\n" } else { "" }, "seq")
                } else { let mut rng = Rng::new(get(c, "seed").parse().unwrap_or(0)); gen_text(&mut rng) };
                let r = rust_parse(&text);
                let mr = m.ask(&format!("parse_keyring {}", hexd(text.as_bytes())));
                o.impl_obs = r.clone(); o.model_obs = mr.clone(); o.validated += 1;
                let accepted = r.starts_with("ok");
                o.tags.push(format!("{} {}", flavour, if accepted { "accepted" } else { "rejected" }));
                if accepted { o.tags.push(format!("entries={}", r.matches('|').count() / 2)); }
                o.nontrivial = Some(format!("{:x}", { let mut h = 0xcbf29ce484222325u64; for b in text.bytes() { h = (h ^ b as u64).wrapping_mul(0x100000001b3); } h }));
                if r == "crash" { o.oracle_fail = Some(("no-panic".into(), "Keyring::new panicked".into())); return o; }
                if r != mr { o.disagreement = Some(format!("Keyring::new and the model differ on {:?}", text)); }
                // every 4th text also goes through the Lean definitions GENERATED from keyring.rs (tools/rs2lean_keyring.py): this ties the translator to the code
                if o.disagreement.is_none() && { let mut h = 0u32; for b in text.bytes() { h = h.wrapping_mul(31).wrapping_add(b as u32); } h % 4 == 0 } {
                    let sr = m.ask(&format!("parse_keyring_src {}", hexd(text.as_bytes()))); o.validated += 1; o.tags.push("translated keyring.rs run".into());
                    if sr != r { o.disagreement = Some(format!("the Lean definitions translated from keyring.rs give {:?} but Keyring::new gives {:?} on {:?}", sr.chars().take(60).collect::<String>(), r.chars().take(60).collect::<String>(), text)); } }
                if accepted {
                    // oracle: accepted => names 1..128 bytes, distinct; keys well-formed, distinct; lookups have one answer
                    let entries: Vec<Vec<&str>> = r[3..].split(';').filter(|x| !x.is_empty()).map(|e| e.split('|').collect()).collect();
                    let names: Vec<Vec<u8>> = entries.iter().map(|e| unhex(e[0])).collect();
                    let pks: Vec<Vec<u8>> = entries.iter().map(|e| unhex(e[1])).collect();
                    let kr = Keyring::new(&text).unwrap();
                    for (i, n) in names.iter().enumerate() {
                        if n.is_empty() || n.len() > 128 { o.oracle_fail = Some(("name-1..128-bytes".into(), format!("accepted a name of {} bytes", n.len()))); }
                        if names.iter().filter(|x| *x == n).count() != 1 { o.oracle_fail = Some(("names-distinct".into(), "accepted a duplicate name".into())); }
                        if pks.iter().filter(|x| **x == pks[i]).count() != 1 { o.oracle_fail = Some(("keys-distinct".into(), "accepted a duplicate public key".into())); }
                        let pkstr = String::from_utf8(pks[i].clone()).unwrap_or_default();
                        if EncodedPk::try_from(pkstr.as_str()).is_err() { o.oracle_fail = Some(("pk-wellformed".into(), "accepted a malformed public key".into())); }
                        if entries[i][2] != "none" { let s = String::from_utf8(unhex(entries[i][2])).unwrap_or_default(); if EncodedSk::try_from(s.as_str()).is_err() { o.oracle_fail = Some(("sk-wellformed".into(), "accepted a malformed private key".into())); } }
                        let nm = String::from_utf8(n.clone()).unwrap_or_default();
                        match kr.get_key(&nm) { Some(k) if k.public_key.as_str() == pkstr => {} _ => { o.oracle_fail = Some(("lookup-by-name".into(), format!("get_key({:?}) does not return the entry", nm))); } }
                        if let Ok(e) = EncodedPk::try_from(pkstr.as_str()) { if kr.get_name_from_key(&e).as_deref() != Some(nm.as_str()) { o.oracle_fail = Some(("lookup-by-key".into(), "get_name_from_key does not return the entry's name".into())); } }
                    }
                    if entries.is_empty() { o.oracle_fail = Some(("non-empty".into(), "accepted a keyring without entries".into())); }
                }
            }
            "dup" => {
                let n = getn(c, "n"); let (i, j) = (getn(c, "i"), getn(c, "j")); let what = get(c, "what");
                let mut names: Vec<String> = (0..n).map(|k| format!("entry {}", k)).collect();
                let mut pks: Vec<String> = (0..n).map(|k| enc_pk(&[k as u8 + 1; 32])).collect();
                if what == "name" { names[j] = names[i].clone(); } else { pks[j] = pks[i].clone(); }
                let text: String = (0..n).map(|k| format!("[Key]\nName = {}\nPublicKey = {}\n\n", names[k], pks[k])).collect();
                let r = rust_parse(&text); let mr = m.ask(&format!("parse_keyring {}", hexd(text.as_bytes()))); o.validated += 1;
                o.impl_obs = r.chars().take(40).collect(); o.model_obs = mr.chars().take(40).collect();
                o.nontrivial = Some(format!("dup/{}/{}/{}/{}", n, i, j, what)); o.tags.push(format!("dup {} -> {}", what, if r.starts_with("ok") { "accepted" } else { "rejected" }));
                if r.starts_with("ok") { o.oracle_fail = Some((format!("no-{}-occurs-twice", what), format!("a keyring of {} sections in which sections {} and {} have the same {} is accepted", n, i + 1, j + 1, if what == "pk" { "public key" } else { "name" }))); }
                else if r != mr { o.disagreement = Some(format!("impl {} model {}", r, mr)); }
            }
            "field-order" => {
                let mut rng = Rng::new(get(c, "seed").parse().unwrap_or(0));
                let fx = crate::cli::fixtures();
                let other_pk = enc_pk(&rng.bytes(32));
                let fields = [format!("Name = {}", fx.alice.name), format!("PublicKey = {}", fx.alice.enc_pk), format!("PrivateKey = {}", fx.alice.enc_sk)];
                o.nontrivial = Some(format!("field-order/{}", get(c, "seed"))); o.tags.push("field order / repeated field".into());
                let perms: [[usize; 3]; 6] = [[0, 1, 2], [0, 2, 1], [1, 0, 2], [1, 2, 0], [2, 0, 1], [2, 1, 0]];
                let mut first: Option<String> = None;
                for pm in perms.iter() {
                    let text = format!("[Key]\n{}\n{}\n{}\n\n[Key]\nName = other\nPublicKey = {}\n", fields[pm[0]], fields[pm[1]], fields[pm[2]], other_pk);
                    let r = rust_parse(&text); let mr = m.ask(&format!("parse_keyring {}", hexd(text.as_bytes()))); o.validated += 1;
                    if !r.starts_with("ok") { o.impl_obs = r.clone(); o.model_obs = mr; o.oracle_fail = Some(("fields-in-any-order".into(), format!("a section whose fields come in the order {:?} is rejected ({}); Name / PublicKey / PrivateKey may come in any order", pm.iter().map(|&i| ["Name", "PublicKey", "PrivateKey"][i]).collect::<Vec<_>>(), r))); return o; }
                    if let Some(f) = &first { if *f != r { o.oracle_fail = Some(("fields-in-any-order".into(), "the same section with its fields in another order parses to a different entry".into())); return o; } } else { first = Some(r.clone()); }
                    if r != mr && o.disagreement.is_none() { o.disagreement = Some(format!("impl {} model {}", r, mr)); }
                }
                // a field given twice in one section (same value, other value; adjacent, separated) is an error
                for dup in 0..3usize { for other_value in [false, true] { for sep in [false, true] {
                    let second = if other_value { match dup { 0 => "Name = somebody else".to_string(), 1 => format!("PublicKey = {}", other_pk), _ => format!("PrivateKey = {}", fx.bob.enc_sk) } } else { fields[dup].clone() };
                    let mut lines: Vec<String> = vec!["[Key]".into()];
                    for (i, f) in fields.iter().enumerate() { lines.push(f.clone()); if i == dup && !sep { lines.push(second.clone()); } }
                    if sep { lines.push(second.clone()); }
                    let text = lines.join("\n") + "\n";
                    let r = rust_parse(&text); let mr = m.ask(&format!("parse_keyring {}", hexd(text.as_bytes()))); o.validated += 1;
                    if r.starts_with("ok") { o.impl_obs = r.clone(); o.model_obs = mr; o.oracle_fail = Some(("repeated-field-rejected".into(), format!("a section in which {} is given twice ({}, {}) is accepted", ["Name", "PublicKey", "PrivateKey"][dup], if other_value { "two different values" } else { "the same value twice" }, if sep { "the repetition after the other fields" } else { "on adjacent lines" }))); return o; }
                    if r != mr && o.disagreement.is_none() { o.disagreement = Some(format!("impl {} model {}", r, mr)); }
                } } }
                o.impl_obs = "6 field orders accepted to the same entry; 12 repeated-field sections rejected".into(); o.model_obs = "same".into();
            }
            "lookup" => {
                // lookups answer only on exact equality: probe an accepted keyring with near misses of its names and keys
                let mut rng = Rng::new(get(c, "seed").parse().unwrap_or(0));
                let names = ["alice", "Bob B", "carol"]; let pks: Vec<String> = (0..3).map(|_| enc_pk(&rng.bytes(32))).collect();
                let text: String = (0..3).map(|k| format!("[Key]\nName = {}\nPublicKey = {}\n", names[k], pks[k])).collect();
                let kr = Keyring::new(&text).expect("accepted");
                o.nontrivial = Some(format!("lookup/{}", get(c, "seed"))); o.tags.push("lookup near-miss".into()); o.validated += 1;
                for probe in ["Alice", "alice ", " alice", "alic", "alicee", "ecila", "bob b", "Bob  B", "carol\t", ""] { if kr.get_key(probe).is_some() { o.oracle_fail = Some(("lookup-by-name-exact".into(), format!("get_key({:?}) finds an entry although no entry has that name", probe))); return o; } }
                let a: Vec<char> = pks[0].chars().collect();
                let mut probes: Vec<String> = vec![];
                for _ in 0..8 { let (i, j) = (rng.below(48), rng.below(48)); if a[i] != a[j] { let mut b = a.clone(); b.swap(i, j); probes.push(b.into_iter().collect()); } }
                { let mut b = a.clone(); b.reverse(); probes.push(b.into_iter().collect()); } { let mut b = a.clone(); b.sort(); probes.push(b.into_iter().collect()); }
                probes.push(enc_pk(&rng.bytes(32)));
                probes.push(a.iter().zip(pks[1].chars()).enumerate().map(|(i, (x, y))| if i % 2 == 0 { *x } else { y }).collect());
                for pr in probes { if pks.contains(&pr) { continue; } if let Ok(e) = EncodedPk::try_from(pr.as_str()) { if let Some(n) = kr.get_name_from_key(&e) { o.oracle_fail = Some(("lookup-by-key-exact".into(), format!("get_name_from_key finds {:?} for the key string {} which no entry has", n, pr))); return o; } } }
                for k in 0..3 { if kr.get_key(names[k]).map(|x| x.public_key.as_str().to_string()) != Some(pks[k].clone()) || kr.get_name_from_key(&EncodedPk::try_from(pks[k].as_str()).unwrap()).as_deref() != Some(names[k]) { o.oracle_fail = Some(("lookup-finds-entry".into(), format!("entry {} is not found by its own name / key", k))); return o; } }
                // names that are prefixes / case variants / extensions of one another are distinct names: each finds its own entry, in any order
                let fam = ["al", "alice", "Alice", "alice smith", "ALICE", "alice  smith"];
                let fpks: Vec<String> = (0..fam.len()).map(|_| enc_pk(&rng.bytes(32))).collect();
                let mut order: Vec<usize> = (0..fam.len()).collect(); for i in (1..order.len()).rev() { let j = rng.below(i + 1); order.swap(i, j); }
                let ftext: String = order.iter().map(|&k| format!("[Key]\nName = {}\nPublicKey = {}\n", fam[k], fpks[k])).collect();
                match Keyring::new(&ftext) {
                    Err(e) => { o.oracle_fail = Some(("distinct-names-accepted".into(), format!("a keyring whose names are {:?} (all different) is rejected: {}", fam, e))); return o; }
                    Ok(fkr) => { for k in 0..fam.len() { let got = fkr.get_key(fam[k]).map(|x| x.public_key.as_str().to_string());
                        if got != Some(fpks[k].clone()) { o.oracle_fail = Some(("lookup-finds-own-entry".into(), format!("keyring with the names {:?} in file order {:?}: get_key({:?}) returns {}", fam, order, fam[k], match got { None => "nothing".to_string(), Some(p) => format!("the entry of {:?}", fam[fpks.iter().position(|q| *q == p).unwrap_or(0)]) }))); return o; } } }
                }
                o.impl_obs = "near-miss names and keys find nothing; exact ones find their entry, also among names that are prefixes or case variants of one another".into();
            }
            "pklen" => {
                // an encoded public key is usable only as 32 key bytes + the 4 matching checksum bytes: blobs of every other length must be unusable
                let mut rng = Rng::new(get(c, "seed").parse().unwrap_or(0));
                let len = getn(c, "len");
                let key = rng.bytes(32); let ck = kestrel_crypto::sha256(&key);
                let mut blob: Vec<u8> = key.clone(); blob.extend_from_slice(&ck);          // key || full hash: every prefix >= 32 "has a right checksum prefix"
                blob.truncate(len.min(blob.len())); while blob.len() < len { blob.push(rng.next() as u8); }
                if getn(c, "var") % 2 == 1 && len > 0 { let i = rng.below(len); blob[i] ^= 1 << rng.below(8); }
                let sstr = Base64::encode_to_string(&blob).unwrap();
                let r = catch_unwind(AssertUnwindSafe(|| match EncodedPk::try_from(sstr.as_str()) { Err(_) => "err pkformat".to_string(), Ok(e) => match Keyring::decode_public_key(&e) { Ok(k) => format!("ok {}", hex(k.as_bytes())), Err(e) => format!("err {}", crate::props::c09::kr_class(&e)) } })).unwrap_or("crash".into());
                let mr = m.ask(&format!("decode_pk {}", hexd(sstr.as_bytes()))); o.validated += 1;
                o.impl_obs = r.clone(); o.model_obs = mr.clone(); o.nontrivial = Some(format!("pklen/{}/{}", len, getn(c, "var"))); o.tags.push(format!("pklen -> {}", r.split(' ').take(2).collect::<Vec<_>>().join(" ").chars().take(16).collect::<String>()));
                let well_formed = blob.len() == 36 && blob[32..] == ck[..4];
                if r.starts_with("ok") && !well_formed { o.oracle_fail = Some(("usable-only-with-matching-4-byte-checksum".into(), format!("a {}-byte blob ({}) is accepted as a usable public key", blob.len(), sstr))); }
                else if r == "crash" { o.oracle_fail = Some(("no-panic".into(), format!("decoding {:?} panicked", sstr))); }
                else if r.starts_with("ok") != mr.starts_with("ok") { o.disagreement = Some(format!("impl {} model {}", r, mr)); }
            }
            "name" => {
                let ni = get(c, "ni");
                let name: String = match ni { "x128" => "x".repeat(128), "x129" => "x".repeat(129), "e64" => "é".repeat(64), "e65" => "é".repeat(65), "tabend" => "ab\t".into(), "nl" => "a\nb".into(),
                    "crlf" => "a\r\nb".into(), "sp" => " a ".into(), "eq" => "a = b = c".into(), "u2028" => "a\u{2028}b".into(),
                    // characters that render as nothing: a name is its characters, none of them may get lost on the way through the file
                    "bom-mid" => "ali\u{feff}ce".into(), "bom-only" => "\u{feff}".into(), "bom-first" => "\u{feff}alice".into(), "zwsp" => "ali\u{200b}ce".into(), "zwj" => "a\u{200d}b".into(), "shy" => "co\u{ad}op".into(), "nbsp-mid" => "a\u{a0}b".into(),
                    "rand" => { let mut rng = Rng::new(get(c, "seed").parse().unwrap_or(0)); let n = rng.range(1, 12); (0..n).map(|_| *rng.pick(&['a', 'B', ' ', '\t', 'é', '=', '#', '[', ']', '\u{a0}', '\r', '7', '\u{1F511}', '\u{feff}', '\u{200b}'])).collect() }
                    i => NAMES[i.parse::<usize>().unwrap_or(0)].to_string() };
                // what `key generate` does: read_line + trim, then valid_key_name
                let name = name.trim().to_string();
                let valid = Keyring::valid_key_name(&name);
                let mv = m.ask(&format!("valid_name {}", hexd(name.as_bytes())));
                o.impl_obs = format!("valid={}", valid); o.model_obs = mv.clone(); o.validated += 1;
                o.nontrivial = Some(format!("name/{}", hex(name.as_bytes())));
                o.tags.push(format!("name valid={}", valid));
                if valid && !name.contains('\n') {
                    let pk = EncodedPk::try_from(enc_pk(&[5u8; 32]).as_str()).unwrap(); let sk = EncodedSk::try_from(SK1).unwrap();
                    let text = Keyring::serialize_key(&name, &pk, &sk);
                    let back = rust_parse(&text);
                    let want = format!("ok {}|{}|{}", hexd(name.as_bytes()), hex(pk.as_str().as_bytes()), hex(SK1.as_bytes()));
                    o.impl_obs += &format!(" written-then-parsed={}", if back == want { "same" } else { "DIFFERENT" });
                    if back != want { o.oracle_fail = Some(("written-keyring-parses-back".into(), format!("a key named {:?} is accepted by key generation, but the keyring written for it parses back as {}", name, back.chars().take(120).collect::<String>()))); return o; }
                }
                if mv != format!("ok {}", valid) { o.disagreement = Some(format!("valid_key_name({:?}) = {} but the model says {}", name, valid, mv)); }
            }
            "pkall" => {
                let mut rng = Rng::new(get(c, "seed").parse().unwrap_or(0));
                let k = rng.bytes(32); let s = enc_pk(&k);
                let alpha = b"ABCDEFGHIJKLMNOPQRSTUVWXYZabcdefghijklmnopqrstuvwxyz0123456789+/";
                o.nontrivial = Some(format!("pkall/{}", get(c, "seed")));
                let (mut tried, mut cancelling) = (0usize, 0usize);
                for pos in 0..43usize { for &nc in alpha.iter() {
                    let mut b = s.clone().into_bytes(); if b[pos] == nc { continue; } b[pos] = nc;
                    let s2 = String::from_utf8(b).unwrap(); tried += 1;
                    // how the wrong checksum relates to the stored one (for the record only)
                    if let Ok(raw) = Base64::decode_to_vec(&s2, None) { if raw.len() == 36 { let calc = kestrel_crypto::sha256(&raw[..32]); let d: Vec<u8> = (0..4).map(|i| calc[i] ^ raw[32 + i]).collect(); if d.iter().fold(0u8, |a, x| a ^ x) == 0 && d.iter().any(|&x| x != 0) { cancelling += 1; } } }
                    let r = catch_unwind(AssertUnwindSafe(|| match EncodedPk::try_from(s2.as_str()) { Err(_) => false, Ok(e) => Keyring::decode_public_key(&e).is_ok() }));
                    match r { Err(_) => { o.oracle_fail = Some(("no-crash".into(), format!("decode_public_key panicked on {:?}", s2))); return o; }
                        Ok(true) => { o.impl_obs = format!("accepted {}", s2); o.model_obs = m.ask(&format!("decode_pk {}", hex(s2.as_bytes()))); o.oracle_fail = Some(("checksum-detects-corruption".into(), format!("the encoded public key {} with character {} replaced by {:?} ({}) is accepted as a usable key although its checksum does not match", s, pos, nc as char, s2))); return o; }
                        Ok(false) => {} }
                } }
                o.validated += tried as u64; o.tags.push(format!("pkall: {} corruptions, {} with cancelling checksum differences", tried, cancelling.min(20)));
                o.impl_obs = format!("{} single-character corruptions refused ({} of them with checksum differences that cancel under XOR)", tried, cancelling); o.model_obs = "all refused".into();
            }
            "pkcorrupt" => {
                let mut rng = Rng::new(get(c, "seed").parse().unwrap_or(0));
                let k = rng.bytes(32); let s = enc_pk(&k);
                let pos = getn(c, "pos");
                let mut b = s.clone().into_bytes();
                let alpha = b"ABCDEFGHIJKLMNOPQRSTUVWXYZabcdefghijklmnopqrstuvwxyz0123456789+/";
                let mut nc = alpha[rng.below(64)]; while nc == b[pos] { nc = alpha[rng.below(64)]; }
                b[pos] = nc;
                let s2 = String::from_utf8(b).unwrap();
                let r = catch_unwind(AssertUnwindSafe(|| match EncodedPk::try_from(s2.as_str()) { Err(_) => "err pkformat".to_string(), Ok(e) => match Keyring::decode_public_key(&e) { Ok(k) => format!("ok {}", hex(k.as_bytes())), Err(e) => format!("err {}", crate::props::c09::kr_class(&e)) } })).unwrap_or("crash".into());
                let mr = m.ask(&format!("decode_pk {}", hex(s2.as_bytes())));
                o.impl_obs = r.clone(); o.model_obs = mr.clone(); o.validated += 1;
                o.nontrivial = Some(format!("pkc/{}/{}", pos, nc)); o.tags.push(format!("pkcorrupt -> {}", r.split(' ').take(2).collect::<Vec<_>>().join(" ").chars().take(16).collect::<String>()));
                if r.starts_with("ok") { o.oracle_fail = Some(("checksum-detects-corruption".into(), format!("encoded key with character {} replaced is still usable", pos))); }
                else if r != mr { o.disagreement = Some(format!("impl {} model {}", r, mr)); }
            }
            _ => {
                let mut rng = Rng::new(get(c, "seed").parse().unwrap_or(0));
                let k = rng.bytes(32);
                let e = Keyring::encode_public_key(&crate::imp::pk(&k));
                let me = m.ask(&format!("encode_pk {}", hex(&k)));
                let d = Keyring::decode_public_key(&e).map(|p| p.as_bytes().to_vec());
                o.impl_obs = e.as_str().to_string(); o.model_obs = me.clone(); o.validated += 1;
                o.nontrivial = Some(format!("pkrt/{}", hex(&k[..4]))); o.tags.push("pk round trip".into());
                if d.as_ref().ok() != Some(&k) { o.oracle_fail = Some(("decode(encode(k))=k".into(), "public key does not survive encode/decode".into())); }
                else if me != format!("ok {}", hex(e.as_str().as_bytes())) { o.disagreement = Some("encode_public_key differs from the model".into()); }
            }
        }
        o
    }
}
