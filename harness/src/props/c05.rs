//! C05 — sender identity needs its private key; only the addressed key decrypts.
use crate::imp::{self, NOSCRIPT};
use crate::model::{parse_stream, Model};
use crate::props::c01::pub_of;
use crate::props::c19::LOW_ORDER;
use crate::report::*;
use crate::util::*;

pub struct C05;

impl Prop for C05 {
    fn id(&self) -> &'static str { "C05" }
    fn rule(&self) -> String {
        "seeded key quadruples (S, S', R, R' pairwise distinct): files built by the real encryptor with a claimed sender public key that does not match the private key used; files built by the independent Lean encryptor with every combination of \
         (private key used, public key claimed, recipient addressed); handshake fields (ephemeral / encrypted static / encrypted payload) exchanged between two authentic files to the same recipient; decryption under 3 wrong recipient keys; \
         the 7 low-order X25519 points and their high-bit aliases as recipient key (encryption must be refused with not a byte written) and as ephemeral key inside a handshake (decryption must fail). \
         sender naming: keyring lookups with keys that are near an entry's key (characters swapped, reversed, sorted, case-swapped, one character changed, interleaved) must find nothing, and files from keys outside the keyring are reported as unknown by the real binary. an independent Noise X writer (harness, from the crate's primitives) with claimed static key in {own, a victim's, the 7 low-order points} x ss in {honest, skipped, all-zero, repeated es}: only (own, honest) may be accepted; the payload key chosen by the library, recovered by the Lean reader, is neither constant nor a public value. compared with the model: accept/reject, reported sender. non-trivial = distinct (scenario, seed)".into()
    }
    fn cases(&self, tier: &str, seed: u64) -> Vec<Case> {
        let th = tier == "thorough";
        let mut rng = Rng::new(seed ^ 0xC05);
        let mut v = vec![];
        let n = if th { 150 } else { 25 };
        for sc in ["honest", "claim-other", "claim-recipient", "model-claim-other", "wrong-recipient", "swap-ephemeral", "swap-static", "swap-payload", "swap-all-header", "recipient-pub-mismatch"] {
            for _ in 0..n { v.push(case(&[("sc", sc.into()), ("seed", rng.next().to_string())])); }
        }
        // an independent (hostile) Noise writer: honest control, and files that claim a static key without taking part with its private key
        for claim in ["own", "victim", "low0", "low1", "low2", "low3", "low4", "low5", "low6"] { for ss in ["honest", "skip", "zero", "same-as-es"] { for _ in 0..(if th { 6 } else { 1 }) {
            v.push(case(&[("sc", "forged-writer".into()), ("claim", claim.into()), ("ss", ss.into()), ("seed", rng.next().to_string())]));
        } } }
        for _ in 0..(if th { 60 } else { 12 }) { v.push(case(&[("sc", "payload-key-secret".into()), ("seed", rng.next().to_string())])); }
        for _ in 0..(if th { 400 } else { 60 }) { v.push(case(&[("sc", "name-lookup".into()), ("seed", rng.next().to_string())])); }
        for _ in 0..(if th { 12 } else { 3 }) { v.push(case(&[("sc", "cli-unknown-sender".into()), ("seed", rng.next().to_string())])); }
        // the recipient is the keyring entry with EXACTLY the given name, also when other entries have names that look alike
        for _ in 0..(if th { 8 } else { 2 }) { v.push(case(&[("sc", "cli-addressed-name".into()), ("seed", rng.next().to_string())])); }
        // the file arrives through a named pipe that can be read exactly once: the sender named must be the sender of the bytes that were decrypted
        v.extend(crate::props::c12::C12.cases(tier, seed ^ 0x05).into_iter().filter(|c| get(c, "op") == "fifo-input" && get(c, "cmd") == "decrypt"));
        for (i, _) in LOW_ORDER.iter().enumerate() { for alias in ["plain", "highbit"] { for role in ["recipient", "ephemeral"] {
            v.push(case(&[("sc", "loworder".into()), ("idx", i.to_string()), ("alias", alias.into()), ("role", role.into()), ("seed", rng.next().to_string())]));
        } } }
        v
    }
    fn run(&self, c: &Case, m: &mut Model) -> Outcome {
        if get(c, "op") == "fifo-input" { return crate::props::c12::C12.run(c, m); }
        let mut o = Outcome::default();
        let mut rng = Rng::new(get(c, "seed").parse().unwrap_or(0));
        let (s, s2, r, r2, e, pk) = (rng.bytes(32), rng.bytes(32), rng.bytes(32), rng.bytes(32), rng.bytes(32), rng.bytes(32));
        let (spk, s2pk, rpk, r2pk, epk) = (pub_of(&s), pub_of(&s2), pub_of(&r), pub_of(&r2), pub_of(&e));
        let p = rng.bytes(40);
        let sc = get(c, "sc");
        o.tags.push(sc.to_string()); o.nontrivial = Some(format!("{}/{}", sc, get(c, "seed")));
        let mdec = |m: &mut Model, rk: &[u8], rp: &[u8], f: &[u8]| parse_stream(&m.ask(&format!("key_decrypt {} {} {} - - -", hex(rk), hex(rp), hexd(f))));
        let check = |o: &mut Outcome, label: &str, d: &crate::model::StreamResp, md: &crate::model::StreamResp, must_reject: bool, expect_sender: Option<&[u8]>| {
            o.impl_obs = format!("{}: {} sender={}", label, d.res, d.sender.as_ref().map(|x| hex(&x[..4])).unwrap_or("-".into()));
            o.model_obs = format!("{} sender={}", imp::canon(&md.res), md.sender.as_ref().map(|x| hex(&x[..4])).unwrap_or("-".into()));
            o.validated += 1;
            if d.res == "crash" { o.oracle_fail = Some(("no-panic".into(), label.into())); }
            else if must_reject && d.res == "ok" { o.oracle_fail = Some((format!("{}-rejected", label), format!("{}: decryption succeeded and reported sender {:?}", label, d.sender.as_ref().map(|x| hex(x))))); }
            else if must_reject && !d.out.is_empty() { o.oracle_fail = Some(("no-plaintext-on-reject".into(), format!("{}: {} bytes released", label, d.out.len()))); }
            else if !must_reject && (d.res != "ok" || d.sender.as_deref() != expect_sender) { o.oracle_fail = Some((format!("{}-accepted-with-right-sender", label), format!("{}: {} sender {:?}", label, d.res, d.sender.as_ref().map(|x| hex(x))))); }
            else if d.res != imp::canon(&md.res) || d.sender != md.sender { o.disagreement = Some(format!("{}: impl {} model {}", label, d.res, md.res)); }
        };
        match sc {
            "name-lookup" => {
                // the name printed after decryption is found by looking the authenticated key up in the keyring: only an entry with EXACTLY
                // that public key may answer. Probe with keys that are "close" to an entry's key in ways sloppy comparisons confuse.
                use crate::keyring::{EncodedPk, Keyring};
                let enc = |k: &[u8]| crate::props::c17::enc_pk(k);
                let (ka, kb) = (enc(&spk), enc(&rpk));
                let text = format!("[Key]\nName = alice\nPublicKey = {}\n\n[Key]\nName = bob\nPublicKey = {}\n", ka, kb);
                let kr = Keyring::new(&text).expect("keyring");
                let mut probes: Vec<(String, String)> = vec![("fresh key".into(), enc(&s2pk)), ("fresh key".into(), enc(&r2pk))];
                let a: Vec<char> = ka.chars().collect();
                for _ in 0..6 { let (i, j) = (rng.below(48), rng.below(48)); if a[i] != a[j] { let mut b = a.clone(); b.swap(i, j); probes.push(("two characters swapped".into(), b.into_iter().collect())); } }
                { let mut b = a.clone(); b.reverse(); probes.push(("reversed".into(), b.into_iter().collect())); }
                { let mut b = a.clone(); b.sort(); probes.push(("sorted".into(), b.into_iter().collect())); }
                { let b: String = a.iter().map(|ch| if ch.is_ascii_lowercase() { ch.to_ascii_uppercase() } else { ch.to_ascii_lowercase() }).collect(); probes.push(("case swapped".into(), b)); }
                { let mut b = a.clone(); let i = rng.below(48); b[i] = if b[i] == 'A' { 'B' } else { 'A' }; probes.push(("one character changed".into(), b.into_iter().collect())); }
                { let b: String = a.iter().zip(kb.chars()).enumerate().map(|(i, (x, y))| if i % 2 == 0 { *x } else { y }).collect(); probes.push(("interleaved with another entry".into(), b)); }
                o.impl_obs = format!("{} probes", probes.len()); o.model_obs = "exact match only".into();
                for (what, pstr) in probes {
                    if pstr == ka || pstr == kb { continue; }
                    let Ok(e) = EncodedPk::try_from(pstr.as_str()) else { continue };
                    let got = kr.get_name_from_key(&e);
                    let mr = m.ask(&format!("parse_keyring {}", hexd(text.as_bytes()))); let _ = mr; o.validated += 1;
                    if let Some(n) = got { o.oracle_fail = Some(("sender-named-only-on-exact-key-match".into(), format!("get_name_from_key answers {:?} for a key that is not in the keyring ({}: {})", n, what, pstr))); return o; }
                }
                if kr.get_name_from_key(&EncodedPk::try_from(ka.as_str()).unwrap()).as_deref() != Some("alice") { o.oracle_fail = Some(("sender-named".into(), "an entry's own key is not found".into())); }
            }
            "cli-addressed-name" => {
                use crate::cli::*;
                let fx = fixtures();
                // look-alike names, each with a key pair of its own (public-only entries), in a shuffled order; alice is the sender
                let names = ["bob", "Bob", "bo", "bob ", "bobby", "BOB"];
                let keys: Vec<(Vec<u8>, Vec<u8>)> = (0..names.len()).map(|_| { let k = rng.bytes(32); let p = pub_of(&k); (k, p) }).collect();
                let mut order: Vec<usize> = (0..names.len()).collect(); for i in (1..order.len()).rev() { let j = rng.below(i + 1); order.swap(i, j); }
                // a name is trimmed by the parser: "bob " cannot be told from "bob" in a keyring, so leave that one out of the file
                let mut text = section(&fx.alice, true);
                for &k in &order { if names[k].trim() != names[k] { continue; } text.push_str(&format!("\n[Key]\nName = {}\nPublicKey = {}\n", names[k], crate::props::c17::enc_pk(&keys[k].1))); }
                for &k in &order { if names[k].trim() != names[k] { continue; }
                    let world = World { files: vec![("p.bin".into(), p.clone()), ("kr.txt".into(), text.clone().into_bytes())], env: vec![("KESTREL_PASSWORD".into(), fx.alice.pw.into())], stdin: vec![] };
                    let obs = run_kestrel(&world, &sv(&["encrypt", "p.bin", "-t", names[k], "-f", "alice", "-o", "c.bin", "-k", "kr.txt", "--env-pass"])); o.validated += 1;
                    let Some(ct) = obs.file("c.bin").cloned() else { o.oracle_fail = Some(("addressed-name-found".into(), format!("encrypt -t {:?} with the keyring names {:?}: exit {:?} {}", names[k], order.iter().map(|&i| names[i]).collect::<Vec<_>>(), obs.exit, obs.stderr.trim()))); return o; };
                    for &j in &order { if names[j].trim() != names[j] { continue; }
                        let d = imp::key_decrypt(&keys[j].0, &keys[j].1, &ct, &NOSCRIPT);
                        if (d.res == "ok") != (j == k) { o.oracle_fail = Some(("only-the-addressed-key-decrypts".into(), format!("`encrypt -t {:?}` (keyring entries {:?}): the file {} under the key of entry {:?}", names[k], order.iter().map(|&i| names[i]).collect::<Vec<_>>(), if d.res == "ok" { "decrypts" } else { "does NOT decrypt" }, names[j]))); o.impl_obs = format!("-t {:?}: key of {:?} -> {}", names[k], names[j], d.res); return o; }
                    }
                }
                o.impl_obs = "every look-alike name addresses exactly its own key".into(); o.model_obs = "lookup by exact name".into();
            }
            "cli-unknown-sender" => {
                // end to end through the binary: a file from a key that is NOT in the recipient's keyring must be reported as unknown, with its encoding
                use crate::cli::*;
                let fx = fixtures();
                let f = imp::key_encrypt(&s, &spk, &fx.bob.pk, None, None, &p, &NOSCRIPT).out;
                let world = World { files: vec![("in.bin".into(), f), ("kr.txt".into(), keyring(&[(&fx.alice, true), (&fx.bob, true), (&fx.carol, false)]).into_bytes())], env: vec![("KESTREL_PASSWORD".into(), fx.bob.pw.into())], stdin: vec![] };
                let obs = run_kestrel(&world, &sv(&["decrypt", "in.bin", "-t", "bob", "-o", "out.bin", "-k", "kr.txt", "--env-pass"]));
                let want = Some(Err(crate::props::c17::enc_pk(&spk)));
                o.impl_obs = format!("exit={:?} sender={:?}", obs.exit, obs.sender()); o.model_obs = format!("{:?}", want); o.validated += 1;
                if obs.exit != Some(0) || obs.sender() != want { o.oracle_fail = Some(("unknown-sender-reported-as-unknown".into(), format!("a file from a key outside the keyring: exit {:?}, sender line {:?}, expected {:?}", obs.exit, obs.sender(), want))); }
            }
            "forged-writer" => {
                use crate::props::noisew::*;
                // the writer owns (s, spk); `victim` is s2pk, whose private key it does not have; low-order points have no private key at all
                let claim = get(c, "claim");
                let claimed: Vec<u8> = match claim { "own" => spk.clone(), "victim" => s2pk.clone(), l => unhex(LOW_ORDER[l[3..].parse::<usize>().unwrap_or(0)]) };
                let ss = match get(c, "ss") { "honest" => Ss::Honest, "skip" => Ss::Skip, "zero" => Ss::Zero, _ => Ss::SameAsEs };
                let f = key_file(&rpk, &Forge { e: &e, s_priv: &s, claimed_s: &claimed, ss, payload: &pk }, &p);
                let d = imp::key_decrypt(&r, &rpk, &f, &NOSCRIPT); let md = mdec(m, &r, &rpk, &f);
                let honest = claim == "own" && ss == Ss::Honest;
                o.tags.push(format!("forged-writer {} {} -> {}", if claim.starts_with("low") { "low-order" } else { claim }, get(c, "ss"), d.res));
                let label = format!("independent writer, claimed static key = {}, ss = {}", claim, get(c, "ss"));
                check(&mut o, &label, &d, &md, !honest, if honest { Some(&spk) } else { None });
            }
            "payload-key-secret" => {
                // "no file is ever produced under keys derivable from public data": what the recipient finds as payload key must not be a constant or a public value
                let f1 = imp::key_encrypt(&s, &spk, &rpk, None, None, &p, &NOSCRIPT).out;
                let f2 = imp::key_encrypt(&s, &spk, &rpk, None, None, &p, &NOSCRIPT).out;
                let mut found = vec![];
                for f in [&f1, &f2] {
                    let resp = m.ask(&format!("key_open {} {} {}", hex(&r), hex(&rpk), hex(&f[..132.min(f.len())]))); o.validated += 1;
                    let parts: Vec<&str> = resp.split(' ').collect();
                    if parts.len() != 5 || parts[0] != "ok" { o.disagreement = Some(format!("the model cannot open the handshake of an honestly written file: {}", resp)); return o; }
                    found.push((unhex(parts[1]), unhex(parts[4])));
                }
                o.impl_obs = format!("payload keys {}.. {}..", hex(&found[0].0[..4]), hex(&found[1].0[..4])); o.model_obs = "opened both handshakes".into();
                let public: Vec<(&str, Vec<u8>)> = vec![("all-zero", vec![0u8; 32]), ("the sender public key", spk.clone()), ("the recipient public key", rpk.clone()), ("the ephemeral public key", f1[4..36].to_vec()), ("the hash of the ephemeral key", kestrel_crypto::sha256(&f1[4..36]))];
                for (what, v) in &public { if &found[0].0 == v { o.oracle_fail = Some(("payload-key-not-public".into(), format!("the payload key the library chose is {} ({})", what, hex(v)))); return o; } }
                if found[0].0 == found[1].0 { o.oracle_fail = Some(("payload-key-not-constant".into(), format!("two files written with the payload key left to the library carry the same payload key {}", hex(&found[0].0)))); return o; }
            }
            "honest" => {
                let f = imp::key_encrypt(&s, &spk, &rpk, None, None, &p, &NOSCRIPT).out;
                let d = imp::key_decrypt(&r, &rpk, &f, &NOSCRIPT); let md = mdec(m, &r, &rpk, &f);
                check(&mut o, "honest", &d, &md, false, Some(&spk));
            }
            "claim-other" | "claim-recipient" => {
                // the real encryptor is handed a sender public key that does not belong to the private key
                let claimed = if sc == "claim-other" { s2pk.clone() } else { rpk.clone() };
                let enc = imp::key_encrypt(&s, &claimed, &rpk, Some((&e, &epk)), Some(&pk), &p, &NOSCRIPT);
                let d = imp::key_decrypt(&r, &rpk, &enc.out, &NOSCRIPT); let md = mdec(m, &r, &rpk, &enc.out);
                check(&mut o, "claimed-key-mismatch", &d, &md, true, None);
            }
            "model-claim-other" => {
                // independent encryptor: private key s, claims s2's public key
                let resp = m.ask(&format!("key_file {} {} {} {} {} {} seq {}", hex(&s), hex(&s2pk), hex(&rpk), hex(&e), hex(&epk), hex(&pk), hex(&p)));
                let f = unhex(resp.strip_prefix("ok ").unwrap_or(""));
                let d = imp::key_decrypt(&r, &rpk, &f, &NOSCRIPT); let md = mdec(m, &r, &rpk, &f);
                check(&mut o, "independent-encryptor-claims-other-key", &d, &md, true, None);
            }
            "wrong-recipient" => {
                let f = imp::key_encrypt(&s, &spk, &rpk, None, None, &p, &NOSCRIPT).out;
                let wrong = match rng.below(3) { 0 => (r2.clone(), r2pk.clone()), 1 => (s.clone(), spk.clone()), _ => (e.clone(), epk.clone()) };
                let d = imp::key_decrypt(&wrong.0, &wrong.1, &f, &NOSCRIPT); let md = mdec(m, &wrong.0, &wrong.1, &f);
                check(&mut o, "wrong-recipient-key", &d, &md, true, None);
            }
            "recipient-pub-mismatch" => {
                // right private key, but the caller passes another public key for it: the handshake hash differs
                let f = imp::key_encrypt(&s, &spk, &rpk, None, None, &p, &NOSCRIPT).out;
                let d = imp::key_decrypt(&r, &r2pk, &f, &NOSCRIPT); let md = mdec(m, &r, &r2pk, &f);
                check(&mut o, "recipient-public-key-mismatch", &d, &md, true, None);
            }
            "loworder" => {
                let mut u = unhex(LOW_ORDER[getn(c, "idx")]); if get(c, "alias") == "highbit" { u[31] |= 0x80; }
                if get(c, "role") == "recipient" {
                    let enc = imp::key_encrypt(&s, &spk, &u, Some((&e, &epk)), Some(&pk), &p, &NOSCRIPT);
                    let menc = parse_stream(&m.ask(&format!("key_encrypt {} {} {} {} {} {} {} - - -", hex(&s), hex(&spk), hex(&u), hex(&e), hex(&epk), hex(&pk), hex(&p)))); o.validated += 1;
                    o.impl_obs = format!("{} {}B written", enc.res, enc.out.len()); o.model_obs = format!("{} {}B written", menc.res, menc.out.len());
                    if enc.res == "ok" || !enc.out.is_empty() { o.oracle_fail = Some(("low-order-recipient-refused".into(), format!("encryption to the low-order point {} returned {} and wrote {} bytes", hex(&u), enc.res, enc.out.len()))); }
                    else if enc.res != menc.res { o.disagreement = Some(format!("impl {} model {}", enc.res, menc.res)); }
                } else {
                    // a handshake whose ephemeral key is a low-order point: every shared secret with it is zero
                    let mut f = imp::key_encrypt(&s, &spk, &rpk, Some((&e, &epk)), Some(&pk), &p, &NOSCRIPT).out;
                    f[4..36].copy_from_slice(&u);
                    let d = imp::key_decrypt(&r, &rpk, &f, &NOSCRIPT); let md = mdec(m, &r, &rpk, &f);
                    check(&mut o, "low-order-ephemeral", &d, &md, true, None);
                }
            }
            _ => {
                // handshake fields exchanged between two authentic files to the same recipient (different senders)
                let f1 = imp::key_encrypt(&s, &spk, &rpk, None, None, &p, &NOSCRIPT).out;
                let f2 = imp::key_encrypt(&s2, &s2pk, &rpk, None, None, &p, &NOSCRIPT).out;
                let mut f = f1.clone();
                match sc { "swap-ephemeral" => f[4..36].copy_from_slice(&f2[4..36]), "swap-static" => f[36..84].copy_from_slice(&f2[36..84]), "swap-payload" => f[84..132].copy_from_slice(&f2[84..132]), _ => f[..132].copy_from_slice(&f2[..132]) }
                let d = imp::key_decrypt(&r, &rpk, &f, &NOSCRIPT); let md = mdec(m, &r, &rpk, &f);
                check(&mut o, sc, &d, &md, true, None);
            }
        }
        o
    }
}
