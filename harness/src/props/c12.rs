//! C12 — CLI exit status is truthful and results do not depend on how I/O is wired.
use crate::cli::*;
use crate::imp::{self, NOSCRIPT};
use crate::model::{parse_stream, Model};
use crate::report::*;
use crate::util::*;

pub struct C12;

const PLAIN: &str = "in.bin"; const KR: &str = "kr.txt";

/// render one logical request in a given wiring
#[allow(clippy::too_many_arguments)]
pub fn render(op: &str, to: &str, from: &str, file_arg: bool, out_opt: bool, k_opt: bool, long: bool, alias: bool, eqform: bool, input: &str, output: &str) -> Vec<String> {
    let mut a: Vec<String> = vec![];
    let o = |l: &str, s: &str, v: &str| -> Vec<String> { let name = if long { format!("--{}", l) } else { format!("-{}", s) }; if eqform { vec![format!("{}={}", name, v)] } else { vec![name, v.to_string()] } };
    match op {
        "encrypt" => { a.push(if alias { "enc" } else { "encrypt" }.into()); if file_arg { a.push(input.into()); } a.extend(o("to", "t", to)); a.extend(o("from", "f", from)); }
        "decrypt" => { a.push(if alias { "dec" } else { "decrypt" }.into()); a.extend(o("to", "t", to)); if file_arg { a.push(input.into()); } }
        "pass-encrypt" => { a.push(if alias { "pass" } else { "password" }.into()); a.push(if alias { "enc" } else { "encrypt" }.into()); if file_arg { a.push(input.into()); } }
        _ => { a.push(if alias { "pass" } else { "password" }.into()); a.push(if alias { "dec" } else { "decrypt" }.into()); if file_arg { a.push(input.into()); } }
    }
    if out_opt { a.extend(o("output", "o", output)); }
    if k_opt && (op == "encrypt" || op == "decrypt") { a.extend(o("keyring", "k", KR)); }
    a.push("--env-pass".into());
    a
}

impl Prop for C12 {
    fn id(&self) -> &'static str { "C12" }
    fn rule(&self) -> String {
        "the real binary (built from the working tree with the tree's crypto crate) over the wiring matrix {file argument | stdin} x {-o | stdout} x {-k | KESTREL_KEYRING} x {long | short option names} x {command | alias} x {--opt value | --opt=value} \
         for encrypt, decrypt, password encrypt, password decrypt; inputs: valid files of 0 B, 10 B, 65536 B, 70000 B; invalid: wrong key, corrupted chunk 0 / chunk 1, truncated, trailing byte, missing keyring; keyrings with the sender first / last / absent, with and without a preceding entry whose checksum is wrong; with and without a longer unrelated file already present at the output path; with -k, KESTREL_KEYRING additionally unset / naming a missing file / another keyring / garbage. \
         compared with the Lean CLI model: exit status, delivered bytes (file or stdout), sender line; oracle: exit 0 iff the delivered bytes are the complete original (decrypt) resp. decrypt back to it under the model (encrypt), 'Error:' line iff exit 1. \
         the same tool on a terminal (passwords typed, 0..3 wrong ones or mismatching confirmations first) for decrypt (-o and stdout), encrypt, extract-pub, change-pass: exit 0, the delivered bytes, the sender line and the number of retry messages as the Lean terminal model computes them. non-trivial = distinct (operation, input, wiring)".into()
    }
    fn cases(&self, tier: &str, seed: u64) -> Vec<Case> {
        let th = tier == "thorough";
        let mut rng = Rng::new(seed ^ 0xC12);
        let mut v = vec![];
        let inputs = ["valid0", "valid10", "valid65536", "valid70000", "wrongkey", "corrupt0", "corrupt1", "truncated", "trailing", "nokeyring", "badmagic"];
        let krs = ["sender-first", "sender-last", "sender-absent"];
        for op in ["decrypt", "pass-decrypt", "encrypt", "pass-encrypt"] {
            for w in 0..64u32 {
                // in quick, each op gets a covering subset of the 64 wirings
                if !th && (w.wrapping_mul(2654435761) >> 28) % 4 != 0 && w != 0 && w != 63 { continue; }
                let inp = if w % 3 == 0 { inputs[rng.below(inputs.len())] } else { inputs[rng.below(4)] };
                let inp = if op.ends_with("encrypt") && !op.contains("decrypt") { ["valid0", "valid10", "valid65536", "valid70000", "nokeyring"][rng.below(5)] } else { inp };
                v.push(case(&[("op", op.into()), ("w", w.to_string()), ("input", inp.into()), ("kr", krs[rng.below(3)].into()), ("seed", rng.next().to_string())]));
            }
            for inp in inputs { for kr in krs {
                if op.ends_with("encrypt") && !op.contains("decrypt") && inp.starts_with("valid") == false && inp != "nokeyring" { continue; }
                if op.starts_with("pass") && kr != "sender-first" { continue; }
                v.push(case(&[("op", op.into()), ("w", rng.below(64).to_string()), ("input", inp.into()), ("kr", kr.into()), ("seed", rng.next().to_string())]));
            } }
        }
        v.extend(crate::props::tty::tty_cases(&crate::props::tty::OPS_C12, tier, seed));
        // the input arrives through a named pipe that is written exactly once (`mkfifo in; producer > in &`): same outcome as a regular file
        for op in ["decrypt", "pass-decrypt", "encrypt", "pass-encrypt"] { for plen in [10usize, 70000] { v.push(case(&[("op", "fifo-input".into()), ("cmd", op.into()), ("plen", plen.to_string()), ("seed", rng.next().to_string())])); } }
        // -o names something that is not a regular file (the null device, the process's own standard output as /dev/stdout): same outcome as with a regular file
        for op in ["decrypt", "pass-decrypt", "encrypt", "pass-encrypt"] { for target in ["/dev/null", "/dev/stdout"] { v.push(case(&[("op", "special-output".into()), ("cmd", op.into()), ("target", target.into()), ("plen", "70000".into()), ("seed", rng.next().to_string())])); } }
        // the output cannot be delivered (-o on a full device, standard output on a full device, standard output on a pipe whose reader left):
        // whichever way the output is wired, the tool must not report success
        v.extend(crate::props::c10::C10.cases(tier, seed ^ 0x12).into_iter().filter(|c| get(c, "op") == "cli-devfull"));
        v
    }
    fn run(&self, c: &Case, m: &mut Model) -> Outcome {
        if get(c, "kind") == "tty" { return crate::props::tty::run_tty_case(c, m); }
        if get(c, "op") == "cli-devfull" { return crate::props::c10::C10.run(c, m); }
        if get(c, "op") == "special-output" {
            let mut o = Outcome::default();
            let fx = fixtures();
            let mut rng = Rng::new(get(c, "seed").parse().unwrap_or(0));
            let cmd = get(c, "cmd"); let plen = getn(c, "plen"); let target = get(c, "target"); let plain = crate::gen::payload(rng.next(), plen); let pw = "pass123";
            let keym = !cmd.starts_with("pass"); let decrypting = cmd.ends_with("decrypt");
            let input: Vec<u8> = if !decrypting { plain.clone() } else if keym { imp::key_encrypt(&fx.alice.sk, &fx.alice.pk, &fx.bob.pk, None, None, &plain, &NOSCRIPT).out } else { imp::pass_encrypt(pw.as_bytes(), &rng.bytes(32), &plain, &NOSCRIPT).out };
            let world = World { files: vec![("in.bin".into(), input), (KR.to_string(), keyring(&[(&fx.alice, true), (&fx.bob, true)]).into_bytes())], env: vec![("KESTREL_PASSWORD".into(), if keym { if decrypting { fx.bob.pw.into() } else { fx.alice.pw.into() } } else { pw.into() })], stdin: vec![] };
            let args: Vec<String> = match cmd { "decrypt" => sv(&["decrypt", "in.bin", "-t", "bob", "-o", target, "-k", KR, "--env-pass"]), "encrypt" => sv(&["encrypt", "in.bin", "-t", "bob", "-f", "alice", "-o", target, "-k", KR, "--env-pass"]),
                "pass-decrypt" => sv(&["password", "decrypt", "in.bin", "-o", target, "--env-pass"]), _ => sv(&["password", "encrypt", "in.bin", "-o", target, "--env-pass"]) };
            let obs = run_kestrel(&world, &args);
            o.validated += 1; o.nontrivial = Some(format!("special-output/{}/{}", cmd, target)); o.tags.push(format!("-o {}: {} -> exit {:?}", target, cmd, obs.exit));
            o.impl_obs = format!("exit={:?} stdout={}B {}", obs.exit, obs.stdout.len(), obs.stderr.trim().chars().take(100).collect::<String>()); o.model_obs = "as with a regular file: exit 0".into();
            let label = format!("kestrel {}", args.join(" "));
            if obs.exit != Some(0) { o.oracle_fail = Some(("outcome-independent-of-wiring".into(), format!("{}: exit {:?} ({}) — the same request with -o on a regular file, or with the output redirected by the shell, succeeds", label, obs.exit, obs.stderr.trim().chars().take(120).collect::<String>()))); }
            else if target == "/dev/stdout" { let want_len = if decrypting { plen } else { (if keym { 132 } else { 36 }) + 32 * plen.div_ceil(65536).max(1) + plen };
                if obs.stdout.len() != want_len || (decrypting && obs.stdout != plain) { o.oracle_fail = Some(("exit-0=>full-plaintext-delivered".into(), format!("{}: exit 0 but {} bytes arrived on standard output, expected {}", label, obs.stdout.len(), want_len))); } }
            return o;
        }
        if get(c, "op") == "fifo-input" {
            let mut o = Outcome::default();
            let fx = fixtures();
            let mut rng = Rng::new(get(c, "seed").parse().unwrap_or(0));
            let cmd = get(c, "cmd"); let plen = getn(c, "plen"); let plain = crate::gen::payload(rng.next(), plen); let pw = "pass123";
            let keym = !cmd.starts_with("pass"); let decrypting = cmd.ends_with("decrypt");
            let input: Vec<u8> = if !decrypting { plain.clone() } else if keym { imp::key_encrypt(&fx.alice.sk, &fx.alice.pk, &fx.bob.pk, None, None, &plain, &NOSCRIPT).out } else { imp::pass_encrypt(pw.as_bytes(), &rng.bytes(32), &plain, &NOSCRIPT).out };
            let world = World { files: vec![(KR.to_string(), keyring(&[(&fx.alice, true), (&fx.bob, true)]).into_bytes())], env: vec![("KESTREL_PASSWORD".into(), if keym { if decrypting { fx.bob.pw.into() } else { fx.alice.pw.into() } } else { pw.into() })], stdin: vec![] };
            let args: Vec<String> = match cmd { "decrypt" => sv(&["decrypt", "in.pipe", "-t", "bob", "-o", "out.bin", "-k", KR, "--env-pass"]), "encrypt" => sv(&["encrypt", "in.pipe", "-t", "bob", "-f", "alice", "-o", "out.bin", "-k", KR, "--env-pass"]),
                "pass-decrypt" => sv(&["password", "decrypt", "in.pipe", "-o", "out.bin", "--env-pass"]), _ => sv(&["password", "encrypt", "in.pipe", "-o", "out.bin", "--env-pass"]) };
            let obs = run_kestrel_wired(&world, &args, &Wiring { stdout: StdoutMode::Pipe, links: vec![], fifos: vec![("in.pipe".into(), input.clone())] });
            o.validated += 1; o.nontrivial = Some(format!("fifo/{}/{}", cmd, plen)); o.tags.push(format!("input through a named pipe: {} -> exit {:?}", cmd, obs.exit));
            let out = obs.file("out.bin").cloned().unwrap_or_default();
            o.impl_obs = format!("exit={:?} timed_out={} out={}B sender={}", obs.exit, obs.timed_out, out.len(), sender_canon(&obs.sender())); o.model_obs = "as with a regular file: exit 0, complete output".into();
            let label = format!("kestrel {} with the input on a named pipe that is written once ({} bytes)", args.join(" "), input.len());
            if obs.timed_out { o.oracle_fail = Some(("outcome-independent-of-wiring".into(), format!("{}: the tool did not finish within 30 s (a regular file with the same bytes is processed at once)", label))); }
            else if obs.exit != Some(0) { o.oracle_fail = Some(("outcome-independent-of-wiring".into(), format!("{}: exit {:?} {}", label, obs.exit, obs.stderr.trim().chars().take(120).collect::<String>()))); }
            else if decrypting && out != plain { o.oracle_fail = Some(("exit-0=>full-plaintext-delivered".into(), format!("{}: exit 0 but the output holds {} bytes, the plaintext has {}", label, out.len(), plain.len()))); }
            else if decrypting && keym && obs.sender() != Some(Ok("alice".to_string())) { o.oracle_fail = Some(("names-the-sender".into(), format!("{}: sender line {:?}", label, obs.sender()))); }
            else if !decrypting { let d = if keym { imp::key_decrypt(&fx.bob.sk, &fx.bob.pk, &out, &NOSCRIPT) } else { imp::pass_decrypt(pw.as_bytes(), &out, &NOSCRIPT) };
                if d.res != "ok" || d.out != plain { o.oracle_fail = Some(("exit-0=>valid-ciphertext-delivered".into(), format!("{}: the output does not decrypt back to the input ({})", label, d.res))); } }
            return o;
        }
        let mut o = Outcome::default();
        let fx = fixtures();
        let mut rng = Rng::new(get(c, "seed").parse().unwrap_or(0));
        let op = get(c, "op"); let w = getn(c, "w") as u32; let input = get(c, "input");
        let (file_arg, out_opt, k_opt, long, alias, eqform) = (w & 1 != 0, w & 2 != 0, w & 4 != 0, w & 8 != 0, w & 16 != 0, w & 32 != 0);
        let plen = match input { "valid0" => 0, "valid10" => 10, "valid65536" => 65536, _ => 70000 };
        let plain = crate::gen::payload(rng.next(), plen);
        let pw = "pass123";
        // keyring: bob is always the recipient with a private key; alice is the sender
        // an entry whose checksum is wrong is legal in a keyring (only used entries are verified): it must not disturb anything
        let bogus = { let mut e = fx.carol.enc_pk.clone().into_bytes(); let l = e.len(); e[l - 1] = if e[l - 1] == b'A' { b'B' } else { b'A' }; format!("[Key]\nName = bogus checksum\nPublicKey = {}\n\n", String::from_utf8(e).unwrap()) };
        let kr_text = match get(c, "kr") { "sender-first" => keyring(&[(&fx.alice, true), (&fx.bob, true), (&fx.carol, false)]), "sender-last" => keyring(&[(&fx.carol, false), (&fx.bob, true), (&fx.alice, true)]), _ => keyring(&[(&fx.carol, false), (&fx.bob, true)]) };
        let kr_text = if w % 2 == 1 { format!("{}{}", bogus, kr_text) } else { kr_text };
        let decrypting = op.contains("decrypt");
        let keym = !op.starts_with("pass");
        // the input file
        let mut infile: Vec<u8> = if !decrypting { plain.clone() } else if keym {
            imp::key_encrypt(&fx.alice.sk, &fx.alice.pk, &fx.bob.pk, None, None, &plain, &NOSCRIPT).out
        } else { imp::pass_encrypt(pw.as_bytes(), &rng.bytes(32), &plain, &NOSCRIPT).out };
        let hdr = if keym { 132 } else { 36 };
        let mut env: Vec<(String, String)> = vec![("KESTREL_PASSWORD".into(), if keym { if decrypting { fx.bob.pw.into() } else { fx.alice.pw.into() } } else { pw.into() })];
        let mut expect_ok = true;
        if decrypting { match input {
            "wrongkey" => { if keym { infile = imp::key_encrypt(&fx.alice.sk, &fx.alice.pk, &fx.carol.pk, None, None, &plain, &NOSCRIPT).out; } else { env[0].1 = "not the password".into(); } expect_ok = false; }
            "corrupt0" => { infile[hdr + 20] ^= 1; expect_ok = false; }
            "corrupt1" => { let at = hdr + 65536 + 32 + 20; if at < infile.len() { infile[at] ^= 1; } else { let l = infile.len(); infile[l - 1] ^= 1; } expect_ok = false; }
            "truncated" => { let l = infile.len(); infile.truncate(l - 1 - rng.below(40)); expect_ok = false; }
            "trailing" => { infile.push(0); expect_ok = false; }
            "badmagic" => { infile[3] ^= 0x40; expect_ok = false; }
            _ => {} } }
        if !decrypting && get(c, "kr") == "sender-absent" && keym { expect_ok = false; }
        // the name of the input file is the user's business: it may well be spelled like a command word or an alias
        let in_name: &str = if file_arg { ["in.bin", "dec", "in.bin", "enc", "pass", "in.bin", "gen", "decrypt", "key", "password", "encrypt", "in.bin"][(rng.next() % 12) as usize] } else { PLAIN };
        if in_name != PLAIN { o.tags.push("input file named like a command word".into()); }
        let mut files = vec![(in_name.to_string(), infile.clone())];
        if input != "nokeyring" { files.push((KR.to_string(), kr_text.clone().into_bytes())); } else if keym { expect_ok = false; }
        if !k_opt && keym { env.push(("KESTREL_KEYRING".into(), KR.into())); }
        // -k given: a KESTREL_KEYRING that is set as well (a default exported in the shell profile) must not matter, whatever it names
        let decoy = if k_opt && keym { ["none", "missing", "other-keyring", "garbage", "none"][rng.below(5)] } else { "none" };
        match decoy { "missing" => env.push(("KESTREL_KEYRING".into(), "no-such-keyring.txt".into())),
            "other-keyring" => { env.push(("KESTREL_KEYRING".into(), "default-kr.txt".into())); files.push(("default-kr.txt".into(), keyring(&[(&fx.carol, true)]).into_bytes())); }
            "garbage" => { env.push(("KESTREL_KEYRING".into(), "default-kr.txt".into())); files.push(("default-kr.txt".into(), b"not a keyring\n".to_vec())); }
            _ => {} }
        // half of the runs find a longer, unrelated file already at the output path: it must be replaced, not patched
        let stale: Vec<u8> = vec![0x55u8; 200_000];
        let has_stale = out_opt && (w >> 2) % 2 == 0;
        if has_stale { files.push(("out.bin".into(), stale.clone())); }
        let world = World { files, env, stdin: if file_arg { vec![] } else { infile.clone() } };
        let args = render(op, "bob", "alice", file_arg, out_opt, k_opt, long, alias, eqform, in_name, "out.bin");
        let obs = run_kestrel(&world, &args);
        let (ra, rb) = (rng.bytes(32), rng.bytes(32));
        let mo = model_cli(m, &world, &args, &ra, &rb);
        o.validated += 1;
        // a pre-existing file that is still byte-for-byte there means "nothing delivered, path untouched"
        let untouched = |f: Option<&Vec<u8>>| -> Vec<u8> { match f { Some(b) if has_stale && *b == stale => vec![], Some(b) => b.clone(), None => vec![] } };
        let delivered: Vec<u8> = if out_opt { untouched(obs.file("out.bin")) } else { obs.stdout.clone() };
        let mdelivered: Vec<u8> = if out_opt { untouched(mo.file("out.bin")) } else { mo.stdout.clone() };
        o.impl_obs = format!("exit={:?} delivered={}B sender={} stderr={:?}", obs.exit, delivered.len(), sender_canon(&obs.sender()), obs.stderr.lines().last().unwrap_or("").chars().take(60).collect::<String>());
        o.model_obs = format!("exit={} err={} delivered={}B sender={}", mo.exit, mo.err, mdelivered.len(), mo.sender);
        o.tags.push(format!("{} {} -> exit {:?}", op, input, obs.exit));
        o.nontrivial = Some(format!("{}/{}/{}/{}", op, input, get(c, "kr"), w));
        let label = format!("{} [{}] input={} keyring={}{}", op, args.join(" "), input, get(c, "kr"), if decoy == "none" { String::new() } else { format!(" KESTREL_KEYRING={} as well", decoy) });
        if decoy != "none" { o.tags.push(format!("-k and KESTREL_KEYRING ({})", decoy)); }
        // ---- oracle on the implementation ----
        if obs.signal || obs.timed_out || !matches!(obs.exit, Some(0) | Some(1)) { o.oracle_fail = Some(("exit-0-or-1".into(), format!("{}: exit {:?} signal={} timeout={}", label, obs.exit, obs.signal, obs.timed_out))); return o; }
        let ok = obs.exit == Some(0);
        if ok == obs.error_line() { o.oracle_fail = Some(("error-line-iff-exit-1".into(), format!("{}: exit {:?} but stderr {:?}", label, obs.exit, obs.stderr))); return o; }
        if decrypting {
            if ok && delivered != plain { o.oracle_fail = Some(("exit-0=>full-plaintext-delivered".into(), format!("{}: exit 0 but {} of {} bytes delivered", label, delivered.len(), plain.len()))); return o; }
            if ok && out_opt && obs.file("out.bin") != Some(&plain) { o.oracle_fail = Some(("exit-0=>output-file-holds-the-plaintext".into(), format!("{}: exit 0, but the output file {} (the plaintext has {} bytes)", label, match obs.file("out.bin") { None => "does not exist".to_string(), Some(b) => format!("holds {} other bytes", b.len()) }, plain.len()))); return o; }
            if !ok && expect_ok { o.oracle_fail = Some(("valid-input-succeeds".into(), format!("{}: exit 1 on a valid file: {}", label, obs.stderr.trim()))); return o; }
            if ok && !expect_ok { o.oracle_fail = Some(("invalid-input-fails".into(), format!("{}: exit 0 on an invalid input", label))); return o; }
            if !plain.starts_with(&delivered) { o.oracle_fail = Some(("delivered-is-prefix".into(), format!("{}: delivered bytes are not a prefix of the plaintext", label))); return o; }
            if ok && keym {
                let want = match get(c, "kr") { "sender-absent" => Some(Err(fx.alice.enc_pk.clone())), _ => Some(Ok("alice".to_string())) };
                if obs.sender() != want { o.oracle_fail = Some(("names-the-sender".into(), format!("{}: sender line {:?}, expected {:?}", label, obs.sender(), want))); return o; }
            }
        } else {
            if ok != expect_ok { o.oracle_fail = Some(("exit-status-truthful".into(), format!("{}: exit {:?}, expected success={}", label, obs.exit, expect_ok))); return o; }
            if ok {
                // the ciphertext must decrypt (in the model) to the plaintext, from alice
                let md = if keym { parse_stream(&m.ask(&format!("key_decrypt {} {} {} - - -", hex(&fx.bob.sk), hex(&fx.bob.pk), hexd(&delivered)))) } else { parse_stream(&m.ask(&format!("pass_decrypt {} {} - - -", hex(pw.as_bytes()), hexd(&delivered)))) };
                if md.res != "ok" || md.out != plain || (keym && md.sender.as_deref() != Some(&fx.alice.pk[..])) { o.oracle_fail = Some(("exit-0=>valid-ciphertext-delivered".into(), format!("{}: the delivered ciphertext does not decrypt to the plaintext in the reference model ({})", label, md.res))); return o; }
            }
        }
        // ---- correspondence ----
        if Some(mo.exit) != obs.exit { o.disagreement = Some(format!("{}: exit impl {:?} model {} ({})", label, obs.exit, mo.exit, mo.err)); }
        else if decrypting && delivered != mdelivered { o.disagreement = Some(format!("{}: delivered bytes differ ({} vs {})", label, delivered.len(), mdelivered.len())); }
        else if !decrypting && delivered.len() != mdelivered.len() { o.disagreement = Some(format!("{}: ciphertext length impl {} model {}", label, delivered.len(), mdelivered.len())); }
        else if decrypting && sender_canon(&obs.sender()) != mo.sender { o.disagreement = Some(format!("{}: sender impl {} model {}", label, sender_canon(&obs.sender()), mo.sender)); }
        else if out_opt && obs.file("out.bin").is_some() != mo.file("out.bin").is_some() { o.disagreement = Some(format!("{}: output file exists impl {} model {}", label, obs.file("out.bin").is_some(), mo.file("out.bin").is_some())); }
        o
    }
}
