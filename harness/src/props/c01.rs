//! C01 — key-mode round trip, names the sender.
use crate::gen::*;
use crate::imp::{self, Scripts};
use crate::model::{parse_stream, Model};
use crate::report::*;
use crate::sio::*;
use crate::util::*;

pub struct C01;

fn keyset(seed: u64) -> (Vec<u8>, Vec<u8>, Vec<u8>, Vec<u8>) {
    let mut r = Rng::new(seed ^ 0xC01);
    (r.bytes(32), r.bytes(32), r.bytes(32), r.bytes(32)) // sender, recipient, ephemeral, payload key
}
pub fn pub_of(skb: &[u8]) -> Vec<u8> {
    let p = match imp::sk(skb).to_public() { Ok(p) => p.as_bytes().to_vec(), Err(_) => {
        // every 32-byte string is a private key and has a public key (RFC 7748); say so, and go on with scalar * base point
        imp::note_setup_failure("every-private-key-has-a-public-key", format!("PrivateKey::to_public() failed for the private key {}", hex(skb)));
        let mut base = vec![0u8; 32]; base[0] = 9; kestrel_crypto::x25519(skb, &base).unwrap_or_else(|_| vec![0u8; 32]) } };
    imp::learn_keypair(skb, &p); p }

impl Prop for C01 {
    fn id(&self) -> &'static str { "C01" }
    fn rule(&self) -> String {
        "hook stream: chunk sizes {1,2,3,5,8} x plaintext lengths 0..3cs+1 x read compositions (exhaustive for cs<=3, sampled above), \
         the ciphertext sink accepting 1-byte / small / whole writes, decrypt under a random read partition and write-accept schedule; public API at 64 KiB chunks: lengths around k*65536 x read schedules \
         {full, oneshort, boundary, random, halves, trickle} x write schedules, random key sets, explicit and implementation-chosen randomness. \
         non-trivial = distinct (chunk size, length, read partition / schedule kind) with at least two chunks or a short read".into()
    }
    fn cases(&self, tier: &str, seed: u64) -> Vec<Case> {
        let thorough = tier == "thorough";
        let mut rng = Rng::new(seed);
        let mut v = vec![];
        for &cs in &[1usize, 2, 3, 5, 8] {
            for len in 0..=3 * cs + 1 {
                let total = count_compositions(len, cs);
                let limit = if thorough { 3000 } else { 400 };
                let comps: Vec<Vec<usize>> = if total <= limit { compositions(len, cs) } else {
                    let mut c: Vec<Vec<usize>> = (0..(if thorough { 300 } else { 40 })).map(|_| random_composition(&mut rng, len, cs)).collect();
                    c.push((0..len).map(|_| 1).collect());
                    c.push(random_composition(&mut rng, len, 1.max(cs - 1)));
                    c
                };
                for parts in comps {
                    v.push(case(&[("kind", "hook".into()), ("cs", cs.to_string()), ("len", len.to_string()), ("parts", parts_str(&parts)),
                        ("aad", if rng.chance(1, 2) { "-".into() } else { "65676b20".into() }), ("seed", rng.next().to_string())]));
                }
            }
        }
        let mut lens: Vec<usize> = vec![0, 1, 13, 65535, 65536, 65537, 131071, 131072, 131073];
        for _ in 0..(if thorough { 6 } else { 2 }) { lens.push(rng.range(2, 400 * 1024)); }
        if thorough { lens.extend_from_slice(&[196607, 196608, 196609, 262144]); }
        let rks = ["full", "oneshort", "boundary", "random", "halves"];
        let wks = ["all", "random", "small"];
        for &len in &lens {
            for rk in rks.iter() {
                let wk = wks[rng.below(3)];
                v.push(case(&[("kind", "api".into()), ("len", len.to_string()), ("rk", rk.to_string()), ("wk", wk.into()),
                    ("fresh", (rng.chance(1, 3)).to_string()), ("seed", rng.next().to_string())]));
            }
        }
        for &len in &[1usize, 7, 300, if thorough { 20000 } else { 900 }] {
            v.push(case(&[("kind", "api".into()), ("len", len.to_string()), ("rk", "trickle".into()), ("wk", "one".into()), ("fresh", "false".into()), ("seed", rng.next().to_string())]));
        }
        let nkeys = if thorough { 2000 } else { 150 };
        for _ in 0..nkeys {
            v.push(case(&[("kind", "api".into()), ("len", rng.range(0, 90).to_string()), ("rk", "random".into()), ("wk", "all".into()),
                ("fresh", (rng.chance(1, 4)).to_string()), ("seed", rng.next().to_string())]));
        }
        for i in 0..(if thorough { 60 } else { 12 }) {
            v.push(case(&[("kind", "api".into()), ("len", (*rng.pick(&[0usize, 1, 13, 65535, 65536, 65537])).to_string()), ("rk", (*rng.pick(&["full", "random"])).into()), ("wk", "all".into()),
                ("fresh", (i % 2 == 0).to_string()), ("ident", (if i % 3 == 2 { "self-eph" } else { "self" }).into()), ("seed", rng.next().to_string())]));
        }
        v.extend(crate::props::clirt::cli_rt_cases("key", tier, seed));
        // "however the plaintext source splits the data": the tool reading its input from a named pipe (no length to ask for, written once)
        v.extend(crate::props::c12::C12.cases(tier, seed ^ 0x01).into_iter().filter(|c| get(c, "op") == "fifo-input" && !get(c, "cmd").starts_with("pass")));
        v
    }
    fn run(&self, c: &Case, m: &mut Model) -> Outcome {
        if get(c, "kind") == "cli-rt" { return crate::props::clirt::run_cli_rt(c, m); }
        if get(c, "op") == "fifo-input" { return crate::props::c12::C12.run(c, m); }
        let mut o = Outcome::default();
        let seed: u64 = get(c, "seed").parse().unwrap_or(0);
        let mut rng = Rng::new(seed);
        let len = getn(c, "len");
        let p = payload(seed, len);
        if get(c, "kind") == "hook" {
            let cs = getn(c, "cs");
            let parts = parse_parts(get(c, "parts"));
            let aad = unhex(get(c, "aad"));
            let key = rng.bytes(32);
            let rs = reads_of(&parts);
            // the ciphertext sink accepts the data in pieces too (every second case: one byte at a time, else random small pieces)
            let ews = write_schedule(*rng.pick(&["all", "one", "small"]), 40 * (parts.len() + 1), &mut rng);
            let enc = imp::enc_chunks(&key, &aad, cs as u32, &p, &Scripts { rs: &rs, ws: &ews, fs: &[] });
            let menc = parse_stream(&m.ask(&format!("enc_chunks {} {} {} {} {} {} -", hex(&key), hexd(&aad), cs, hexd(&p), rd_script(&rs), wr_script(&ews))));
            o.impl_obs = format!("enc={} ct={}", enc.res, preview(&enc.out));
            o.model_obs = format!("enc={} ct={}", menc.res, preview(&menc.out));
            o.tags.push(format!("hook cs={}", cs));
            let nchunks = parts.len().max(1);
            o.tags.push(format!("chunks={}", nchunks.min(9)));
            if nchunks >= 2 || parts.iter().any(|&x| x < cs) { o.nontrivial = Some(format!("h/{}/{}/{}", cs, len, get(c, "parts"))); }
            if enc.res != menc.res || enc.out != menc.out {
                o.disagreement = Some(format!("encrypt_chunks: impl {} {} bytes, model {} {} bytes", enc.res, enc.out.len(), menc.res, menc.out.len()));
            }
            o.validated += 1;
            if enc.res != "ok" { o.oracle_fail = Some(("encrypt-succeeds".into(), format!("encrypt_chunks returned {} on a conforming source", enc.res))); return o; }
            // decrypt under another partition and a partial-write schedule
            let maxp = 1 + rng.below(40);
            let dparts = random_composition(&mut rng, enc.out.len(), maxp);
            let drs = reads_of(&dparts);
            let dws = write_schedule(*rng.pick(&["all", "one", "small"]), len, &mut rng);
            let dec = imp::dec_chunks(&key, &aad, cs as u32, &enc.out, &Scripts { rs: &drs, ws: &dws, fs: &[] });
            o.impl_obs += &format!(" dec={} pt={}", dec.res, preview(&dec.out));
            if dec.res != "ok" || dec.out != p {
                o.oracle_fail = Some(("decrypt(encrypt(P))=P".into(), format!("decrypt_chunks gave {} with {} bytes, expected ok with {} bytes", dec.res, dec.out.len(), p.len())));
            }
            let mdec = parse_stream(&m.ask(&format!("dec_chunks {} {} {} {} {} {} -", hex(&key), hexd(&aad), cs, hexd(&enc.out), rd_script(&drs), wr_script(&dws))));
            o.model_obs += &format!(" dec={} pt={}", mdec.res, preview(&mdec.out));
            if o.disagreement.is_none() && (mdec.res != dec.res || mdec.out != dec.out) {
                o.disagreement = Some(format!("decrypt_chunks of the implementation's ciphertext: impl {} {} bytes, model {} {} bytes", dec.res, dec.out.len(), mdec.res, mdec.out.len()));
            }
            o.validated += 1;
            return o;
        }
        // public API
        let (s, mut r, mut e, mut pk) = keyset(seed);
        // identity relations the quantifier allows: a user encrypting to their own key; an ephemeral key equal to the static one
        match get(c, "ident") { "self" => { r = s.clone(); } "self-eph" => { r = s.clone(); e = s.clone(); } _ => {} }
        // the caller-supplied payload key is any 32 bytes: all zero, all ones, mostly zero
        match seed % 7 { 1 => { pk = vec![0u8; 32]; } 2 => { pk = vec![0xff; 32]; } 3 => { pk = vec![0u8; 32]; pk[31] = 1; } _ => {} }
        if !get(c, "ident").is_empty() { o.tags.push(format!("identity relation: {}", get(c, "ident"))); }
        let (spk, rpk, epk) = (pub_of(&s), pub_of(&r), pub_of(&e));
        let fresh = get(c, "fresh") == "true";
        let rs = read_schedule(get(c, "rk"), len, 65536, &mut rng);
        // the ciphertext sink may accept fewer bytes than offered (first writes as small as 1 byte)
        let ews: Vec<WrEv> = match seed % 4 { 0 => vec![], 1 => (0..300).map(|_| WrEv::Accept(1)).collect(), 2 => vec![WrEv::Accept(100), WrEv::Accept(31), WrEv::Accept(1)], _ => write_schedule("random", len, &mut rng) };
        let enc = if fresh { imp::key_encrypt(&s, &spk, &rpk, None, None, &p, &Scripts { rs: &rs, ws: &ews, fs: &[] }) }
                  else { imp::key_encrypt(&s, &spk, &rpk, Some((&e, &epk)), Some(&pk), &p, &Scripts { rs: &rs, ws: &ews, fs: &[] }) };
        o.impl_obs = format!("enc={} ct={}B", enc.res, enc.out.len());
        o.tags.push(format!("api rk={}", get(c, "rk")));
        o.tags.push(format!("api len~{}", if len < 65536 { "lt1chunk" } else if len % 65536 == 0 { "k*64KiB" } else { "multi" }));
        if fresh { o.tags.push("fresh-randomness".into()); }
        if len >= 65536 || get(c, "rk") != "full" { o.nontrivial = Some(format!("a/{}/{}/{}/{}", len, get(c, "rk"), get(c, "wk"), seed % 1000)); }
        if enc.res != "ok" { o.oracle_fail = Some(("encrypt-succeeds".into(), format!("key_encrypt returned {}", enc.res))); return o; }
        if !fresh {
            let menc = parse_stream(&m.ask(&format!("key_encrypt {} {} {} {} {} {} {} {} {} -", hex(&s), hex(&spk), hex(&rpk), hex(&e), hex(&epk), hex(&pk), hexd(&p), rd_script(&rs), wr_script(&ews))));
            o.model_obs = format!("enc={} ct={}B", menc.res, menc.out.len());
            if menc.res != enc.res || menc.out != enc.out {
                let at = enc.out.iter().zip(menc.out.iter()).position(|(a, b)| a != b).unwrap_or(enc.out.len().min(menc.out.len()));
                o.disagreement = Some(format!("key_encrypt output differs from the model at byte {} (impl {} bytes, model {} bytes)", at, enc.out.len(), menc.out.len()));
            }
            o.validated += 1;
        }
        let drs = read_schedule(*rng.pick(&["full", "random", "halves", "oneshort"]), enc.out.len(), 70000, &mut rng);
        let dws = write_schedule(get(c, "wk"), len, &mut rng);
        let dec = imp::key_decrypt(&r, &rpk, &enc.out, &Scripts { rs: &drs, ws: &dws, fs: &[] });
        o.impl_obs += &format!(" dec={} pt={}B sender={}", dec.res, dec.out.len(), dec.sender.as_ref().map(|x| hex(&x[..4])).unwrap_or("-".into()));
        if dec.res != "ok" || dec.out != p {
            o.oracle_fail = Some(("decrypt(encrypt(P))=P".into(), format!("key_decrypt gave {} with {} bytes, expected ok with {} bytes", dec.res, dec.out.len(), p.len())));
        } else if dec.sender.as_deref() != Some(&spk[..]) {
            o.oracle_fail = Some(("reports-sender".into(), format!("key_decrypt reported {:?}, sender public key is {}", dec.sender.as_ref().map(|x| hex(x)), hex(&spk))));
        }
        let mdec = parse_stream(&m.ask(&format!("key_decrypt {} {} {} {} {} -", hex(&r), hex(&rpk), hexd(&enc.out), rd_script(&drs), wr_script(&dws))));
        o.model_obs += &format!(" dec={} pt={}B sender={}", mdec.res, mdec.out.len(), mdec.sender.as_ref().map(|x| hex(&x[..4])).unwrap_or("-".into()));
        if o.disagreement.is_none() && (mdec.res != dec.res || mdec.out != dec.out || mdec.sender != dec.sender) {
            o.disagreement = Some(format!("key_decrypt: impl {} {}B, model {} {}B, senders equal: {}", dec.res, dec.out.len(), mdec.res, mdec.out.len(), mdec.sender == dec.sender));
        }
        o.validated += 1;
        o
    }
    fn shrink(&self, c: &Case) -> Vec<Case> {
        let mut v = vec![];
        let len = getn(c, "len");
        if get(c, "kind") == "hook" {
            let parts = parse_parts(get(c, "parts"));
            if !parts.is_empty() {
                let mut p2 = parts.clone(); let last = p2.pop().unwrap();
                let mut c2 = c.clone(); c2.insert("parts".into(), parts_str(&p2)); c2.insert("len".into(), (len - last).to_string()); v.push(c2);
            }
        } else if len > 0 {
            for l in [0, len / 2, len - 1] { let mut c2 = c.clone(); c2.insert("len".into(), l.to_string()); v.push(c2); }
            if get(c, "rk") != "full" { let mut c2 = c.clone(); c2.insert("rk".into(), "full".into()); v.push(c2); }
        }
        v
    }
}
