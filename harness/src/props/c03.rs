//! C03 — accepted ciphertext always yields exactly the sender's complete plaintext.
//! C04 — only authenticated plaintext is released: in order, in whole chunks (same corpus, different oracle).
use crate::imp::{self, Scripts, NOSCRIPT};
use crate::model::{parse_stream, Model};
use crate::props::stream::*;
use crate::report::*;
use crate::sio::*;
use crate::util::*;

pub struct C03;
pub struct C04;

fn shapes(cs: usize) -> Vec<Vec<usize>> {
    // chunk-length lists: 0..4 chunks, lengths from {1, cs}
    let mut v: Vec<Vec<usize>> = vec![vec![]];
    let opts: Vec<usize> = if cs == 1 { vec![1] } else { vec![1, cs] };
    let mut cur: Vec<Vec<usize>> = vec![vec![]];
    for _ in 0..4 { let mut nxt = vec![]; for p in &cur { for &o in &opts { let mut q = p.clone(); q.push(o); nxt.push(q); } } v.extend(nxt.clone()); cur = nxt; }
    v
}

pub fn tamper_cases(tier: &str, seed: u64) -> Vec<Case> {
    let th = tier == "thorough";
    let mut rng = Rng::new(seed ^ 0xC03);
    let mut v = vec![];
    for &cs in &[1usize, 2, 4] {
        for (si, sh) in shapes(cs).iter().enumerate() {
            let lens = crate::gen::parts_str(sh);
            let fseed = rng.next();
            let flen: usize = sh.iter().map(|l| 32 + l).sum::<usize>().max(32);
            // structural tamperings: all of them
            v.push(case(&[("kind", "structural".into()), ("cs", cs.to_string()), ("lens", lens.clone()), ("fseed", fseed.to_string())]));
            // truncation at every offset
            let step = if th || flen <= 70 { 1 } else { 3 };
            for cut in (0..flen).step_by(step) { v.push(case(&[("kind", "trunc".into()), ("cs", cs.to_string()), ("lens", lens.clone()), ("fseed", fseed.to_string()), ("at", cut.to_string())])); }
            // single-bit flips: all bits (thorough) or all bits of headers + sampled body bits
            for bit in 0..flen * 8 {
                let inrec = { let mut off = bit / 8; let mut pos = 0; for l in sh.iter().chain(std::iter::once(&0usize)).take(sh.len().max(1)) { let rl = 32 + l; if off < rl { pos = off; break; } off -= rl; } pos };
                if th || inrec < 16 || (si % 3 == 0 && bit % 5 == 0) || bit % 29 == 0 { v.push(case(&[("kind", "flip".into()), ("cs", cs.to_string()), ("lens", lens.clone()), ("fseed", fseed.to_string()), ("at", bit.to_string())])); }
            }
        }
    }
    // EVERY bit of the file header through the public API (implementation + oracle only; the model answers one sampled bit per block):
    // key mode 132 bytes = 33 blocks of 32 bits, password mode 36 bytes = 9 blocks (one scrypt per flipped bit)
    for (mode, nblocks) in [("key", 33usize), ("pass", 9usize)] {
        for b in 0..nblocks { v.push(case(&[("kind", "hdrbits".into()), ("mode", mode.into()), ("plen", (if b % 2 == 0 { 13 } else { 65537 }).to_string()), ("block", b.to_string()), ("seed", rng.next().to_string())])); }
    }
    // production-size files through the public API: header and record tamperings
    for mode in ["key", "pass"] {
        for &plen in &[0usize, 13, 65536, 65537, 140000] {
            let n = if th { 60 } else { 14 };
            for _ in 0..n { v.push(case(&[("kind", "api".into()), ("mode", mode.into()), ("plen", plen.to_string()), ("m", rng.below(13).to_string()), ("seed", rng.next().to_string())])); }
        }
    }
    v
}

pub struct Tampered { pub a: Authentic, pub label: String, pub input: Vec<u8>, pub counter_only: bool }

pub fn expand_hook(c: &Case) -> Vec<Tampered> {
    let cs = getn(c, "cs"); let lens = crate::gen::parse_parts(get(c, "lens")); let fseed: u64 = get(c, "fseed").parse().unwrap_or(0);
    let aad = if fseed % 2 == 0 { vec![] } else { vec![0x65, 0x67, 0x6b, 0x20] };
    let a = authentic(fseed, cs, &lens, &aad);
    match get(c, "kind") {
        "structural" => { let other = authentic(fseed ^ 0x55, cs, &lens, &aad); structural(&a, &other).into_iter().map(|(l, b)| { let co = l.starts_with("ctr"); Tampered { a: a.clone(), label: l, input: b, counter_only: co } }).collect() }
        "trunc" => { let at = getn(c, "at"); vec![Tampered { input: a.file[..at.min(a.file.len())].to_vec(), label: format!("trunc@{}", at), a, counter_only: false }] }
        _ => { let bit = getn(c, "at"); let mut f = a.file.clone(); if bit / 8 < f.len() { f[bit / 8] ^= 1 << (bit % 8); }
            // is the flipped byte inside a counter field?
            let mut s = 0; let mut co = false; for &e in &a.rec_end { if bit / 8 >= s && bit / 8 < s + 8 { co = true; } s = e; }
            vec![Tampered { a, label: format!("flip@{}", bit), input: f, counter_only: co }] }
    }
}

fn api_tamper(c: &Case) -> (Vec<u8>, Vec<u8>, Vec<u8>, Vec<u8>, Vec<u8>, String, bool) {
    // returns (authentic file, plaintext, recipient sk, recipient pk, tampered, label, counter_only)
    let mut rng = Rng::new(get(c, "seed").parse().unwrap_or(0));
    let keym = get(c, "mode") == "key"; let plen = getn(c, "plen");
    let pw = b"correct horse".to_vec();
    let fs = 100 + (plen as u64 % 7);
    let (f, rk, rpk, p) = if keym { crate::props::c09::sample_key_file(fs, plen) } else { let (f, p) = crate::props::c09::sample_pass_file(fs, plen, &pw); (f, vec![], vec![], p) };
    let (f2, _, _, _) = if keym { let (mut r2, _) = (Rng::new(fs ^ 0xF11E), 0); let _ = r2.bytes(32); crate::props::c09::sample_key_file(fs + 1000, plen) } else { let (f, p) = crate::props::c09::sample_pass_file(fs + 1000, plen, &pw); (f, vec![], vec![], p) };
    let hdr = if keym { 132 } else { 36 };
    let mut t = f.clone(); let mut co = false;
    let label = match getn(c, "m") {
        0 => { let i = rng.below(hdr * 8); t[i / 8] ^= 1 << (i % 8); format!("hdrflip@{}", i) }
        1 => { let i = hdr * 8 + rng.below((f.len() - hdr) * 8); t[i / 8] ^= 1 << (i % 8); let off = i / 8 - hdr; let rec = off % (65536 + 32); co = rec < 8 && off / (65536 + 32) * (65536 + 32) + 8 <= f.len() - hdr; format!("bodyflip@{}", i) }
        2 => { let at = rng.below(f.len()); t.truncate(at); format!("trunc@{}", at) }
        3 => { t.push(0); "append1".into() }
        4 => { t[..4].copy_from_slice(&[0x65, 0x67, 0x6b, if keym { 0x20 } else { 0x10 }]); "magic-swap".into() }
        5 => { let h2 = f2[..hdr].to_vec(); t[..hdr].copy_from_slice(&h2); "header-of-other-file".into() }   // other file: other ephemeral/payload key (or salt)
        6 => { t = [&f[..hdr], &f2[hdr..]].concat(); "body-of-other-file".into() }
        7 => { if keym { t[4..36].copy_from_slice(&f2[4..36]); "ephemeral-of-other-file".into() } else { t[4..36].copy_from_slice(&f2[4..36]); "salt-of-other-file".into() } }
        8 => { if keym { t[36..84].copy_from_slice(&f2[36..84]); "enc-static-of-other-file".into() } else { t[hdr + 8..hdr + 12].copy_from_slice(&[0, 0, 0, 2]); "flag=2".into() } }
        9 => { if keym { t[84..132].copy_from_slice(&f2[84..132]); "enc-payload-of-other-file".into() } else { t[hdr + 12..hdr + 16].copy_from_slice(&0xffff_ffffu32.to_be_bytes()); "len=ffffffff".into() } }
        10 => { if f.len() > hdr + 65536 + 64 { let r0 = f[hdr..hdr + 65536 + 32].to_vec(); let mut x = f[..hdr].to_vec(); x.extend_from_slice(&f[hdr + 65536 + 32..]); x.extend_from_slice(&r0); t = x; "rotate-records".into() } else { t.extend_from_slice(&f[hdr..]); "duplicate-body".into() } }
        12 => { if f.len() > hdr + 65536 + 64 { let l: u32 = *rng.pick(&[2u32, 0x8000_0000, 0x100, 3]); t.truncate(hdr + 65536 + 32); t[hdr + 8..hdr + 12].copy_from_slice(&l.to_be_bytes()); format!("cut-after-record0+flag={:x}", l) } else { t.truncate(f.len() - 1); "trunc-1".into() } }
        _ => { t[hdr..hdr + 8].copy_from_slice(&0xdeadbeefu64.to_be_bytes()); co = true; "counter0".into() }
    };
    (f, p, rk, rpk, t, label, co)
}

fn run_hdrbits(c: &Case, m: &mut Model) -> Outcome {
    let mut o = Outcome::default();
    let keym = get(c, "mode") == "key"; let plen = getn(c, "plen"); let b = getn(c, "block");
    let mut rng = Rng::new(get(c, "seed").parse().unwrap_or(0));
    let pw = b"correct horse".to_vec();
    let fs = 300 + b as u64;
    let (f, rk, rpk, p) = if keym { crate::props::c09::sample_key_file(fs, plen) } else { let (f, p) = crate::props::c09::sample_pass_file(fs, plen, &pw); (f, vec![], vec![], p) };
    // control: the authentic file is accepted (this also makes it the thread's "last accepted file" for the priming of every flipped variant)
    let ctl = if keym { imp::key_decrypt(&rk, &rpk, &f, &NOSCRIPT) } else { imp::pass_decrypt(&pw, &f, &NOSCRIPT) };
    o.validated += 1;
    if ctl.res != "ok" || ctl.out != p { o.oracle_fail = Some(("authentic-accepted".into(), format!("the authentic {} file is not decrypted to its plaintext: {}", get(c, "mode"), ctl.res))); o.impl_obs = ctl.res; return o; }
    let sampled = b * 32 + rng.below(32);
    let mut accepted = vec![];
    for bit in b * 32..b * 32 + 32 {
        let mut t = f.clone(); t[bit / 8] ^= 1 << (bit % 8);
        let r = if keym { imp::key_decrypt(&rk, &rpk, &t, &NOSCRIPT) } else { imp::pass_decrypt(&pw, &t, &NOSCRIPT) };
        o.validated += 1;
        if r.res == "crash" { o.oracle_fail = Some(("no-panic".into(), format!("decrypt panicked on header bit {}", bit))); break; }
        if r.res == "ok" || !r.out.is_empty() { accepted.push((bit, r.res.clone(), r.out.len())); }
        if bit == sampled {
            let mr = parse_stream(&if keym { m.ask(&format!("key_decrypt {} {} {} - - -", hex(&rk), hex(&rpk), hexd(&t))) } else { m.ask(&format!("pass_decrypt {} {} - - -", hex(&pw), hexd(&t))) });
            o.model_obs = format!("bit {}: {}", bit, imp::canon(&mr.res));
            if r.res != imp::canon(&mr.res) && o.disagreement.is_none() { o.disagreement = Some(format!("header bit {} flipped: impl {}, model {}", bit, r.res, mr.res)); }
        }
    }
    o.tags.push(format!("hdrbits {} block", get(c, "mode")));
    o.nontrivial = Some(format!("hdrbits/{}/{}", get(c, "mode"), b));
    o.impl_obs = format!("header bits {}..{}: {} accepted or released output", b * 32, b * 32 + 31, accepted.len());
    if o.oracle_fail.is_none() { if let Some((bit, res, n)) = accepted.first() {
        o.oracle_fail = Some(("tampered-file-rejected".into(), format!("{} mode, header bit {} (byte {}, mask {:#04x}) flipped, decrypted right after the authentic file on the same thread: result {} with {} bytes released", get(c, "mode"), bit, bit / 8, 1u8 << (bit % 8), res, n))); } }
    o
}

fn run_tamper(c: &Case, m: &mut Model, c04: bool) -> Outcome {
    if get(c, "kind") == "hdrbits" { return run_hdrbits(c, m); }
    let mut o = Outcome::default();
    if get(c, "kind") == "api" {
        let keym = get(c, "mode") == "key"; let pw = b"correct horse".to_vec();
        let (f, p, rk, rpk, t, label, co) = api_tamper(c);
        let r = if keym { imp::key_decrypt(&rk, &rpk, &t, &NOSCRIPT) } else { imp::pass_decrypt(&pw, &t, &NOSCRIPT) };
        let mr = parse_stream(&if keym { m.ask(&format!("key_decrypt {} {} {} - - -", hex(&rk), hex(&rpk), hexd(&t))) } else { m.ask(&format!("pass_decrypt {} {} - - -", hex(&pw), hexd(&t))) });
        o.impl_obs = format!("{} out={}B", r.res, r.out.len()); o.model_obs = format!("{} out={}B", imp::canon(&mr.res), mr.out.len()); o.validated += 1;
        o.tags.push(format!("api {} {} -> {}", get(c, "mode"), label.split('@').next().unwrap_or(""), r.res));
        o.nontrivial = Some(format!("api/{}/{}/{}", get(c, "mode"), getn(c, "plen"), label));
        if r.res == "crash" { o.oracle_fail = Some(("no-panic".into(), format!("decrypt panicked on {}", label))); return o; }
        if !c04 {
            if r.res == "ok" && !(t == f || co) { o.oracle_fail = Some(("tampered-file-rejected".into(), format!("{}: accepted a file that differs from the authentic one outside the counter fields", label))); }
            else if r.res == "ok" && r.out != p { o.oracle_fail = Some(("accepted=>original-plaintext".into(), format!("{}: accepted with output different from the plaintext", label))); }
        } else {
            if !p.starts_with(&r.out) { o.oracle_fail = Some(("released-bytes-are-authentic-prefix".into(), format!("{}: {} bytes released are not a prefix of the plaintext", label, r.out.len()))); }
            else if r.out.len() % 65536 != 0 && r.out.len() != p.len() { o.oracle_fail = Some(("whole-chunks".into(), format!("{}: released {} bytes, not a whole number of chunks", label, r.out.len()))); }
            else if r.res == "ok" && r.out != p { o.oracle_fail = Some(("success=>complete".into(), format!("{}: success with {} of {} bytes", label, r.out.len(), p.len()))); }
        }
        if o.oracle_fail.is_none() && (r.res != imp::canon(&mr.res) || r.out != mr.out) { o.disagreement = Some(format!("{}: impl {} {}B, model {} {}B", label, r.res, r.out.len(), mr.res, mr.out.len())); }
        return o;
    }
    let ts = expand_hook(c);
    let mut worst: Option<(String, String)> = None; let mut dis: Option<String> = None;
    for t in &ts {
        let a = &t.a;
        // C04 additionally drives partial writes so that the log shows each write call
        let ws: Vec<WrEv> = if c04 { (0..64).map(|i| WrEv::Accept(1 + i % 3)).collect() } else { vec![] };
        let r = imp::dec_chunks(&a.key, &a.aad, a.cs as u32, &t.input, &Scripts { rs: &[], ws: &ws, fs: &[] });
        let mr = parse_stream(&m.ask(&format!("dec_chunks {} {} {} {} - {} -", hex(&a.key), hexd(&a.aad), a.cs, hexd(&t.input), wr_script(&ws))));
        o.validated += 1;
        o.tags.push(format!("{} -> {}", t.label.split(|ch: char| ch.is_ascii_digit() || ch == '@' || ch == '=').next().unwrap_or(""), r.res));
        if r.res == "crash" { worst = Some(("no-panic".into(), format!("decrypt_chunks panicked on {}", t.label))); break; }
        if !c04 {
            if r.res == "ok" && !equal_outside_counters(a, &t.input) { worst = Some(("tampered-stream-rejected".into(), format!("{} (cs={}, chunks {:?}): accepted a stream that differs from the authentic one outside the counter fields", t.label, a.cs, a.chunks.iter().map(|x| x.len()).collect::<Vec<_>>()))); }
            else if r.res == "ok" && r.out != a.plain { worst = Some(("accepted=>original-plaintext".into(), format!("{}: accepted with different output", t.label))); }
            else if t.input == a.file && r.res != "ok" { worst = Some(("authentic-accepted".into(), format!("authentic stream rejected: {}", r.res))); }
        } else {
            // every released byte belongs to a whole authentic chunk whose record had been completely read when it was written
            if !a.plain.starts_with(&r.out) { worst = Some(("released-bytes-are-authentic-prefix".into(), format!("{}: released bytes are not a prefix of the authentic plaintext", t.label))); }
            let bounds: Vec<usize> = { let mut b = vec![0]; let mut s = 0; for ch in &a.chunks { s += ch.len(); b.push(s); } b };
            if r.res != "iowrite" && !bounds.contains(&r.out.len()) { worst = Some(("whole-chunks".into(), format!("{}: {} bytes released, not on a chunk boundary {:?}", t.label, r.out.len(), bounds))); }
            if r.res == "ok" && r.out != a.plain { worst = Some(("success=>complete".into(), format!("{}: success with partial output", t.label))); }
            let mut written = 0usize;
            for (pos, _, n) in &r.log {
                // chunk index of the first byte of this write
                let ci = bounds.iter().rposition(|&b| b <= written && b < *bounds.last().unwrap()).unwrap_or(0).min(a.chunks.len() - 1);
                let need = if t.input.len() >= a.rec_end[ci] && t.input[..a.rec_end[ci].min(t.input.len())] == a.file[..a.rec_end[ci].min(a.file.len())] || equal_prefix_outside_counters(a, &t.input, ci) { a.rec_end[ci] } else { 0 };
                if *n > 0 && *pos < need { worst = Some(("no-byte-before-its-chunk-verifies".into(), format!("{}: a write of chunk {} happened with only {} bytes of input consumed (its record ends at {})", t.label, ci, pos, need))); }
                written += n;
            }
        }
        if worst.is_some() { o.impl_obs = format!("{} -> {} out={}", t.label, r.res, hexd(&r.out)); o.model_obs = format!("{} out={}", mr.res, hexd(&mr.out)); break; }
        if dis.is_none() && (r.res != mr.res || r.out != mr.out) { dis = Some(format!("{}: impl {} {}, model {} {}", t.label, r.res, hexd(&r.out), mr.res, hexd(&mr.out))); o.impl_obs = format!("{} -> {}", t.label, r.res); o.model_obs = mr.res.clone(); }
    }
    if o.impl_obs.is_empty() { o.impl_obs = format!("{} tamperings, all rejected or harmless", ts.len()); o.model_obs = "same".into(); }
    o.nontrivial = Some(format!("{}/{}/{}/{}/{}", get(c, "kind"), get(c, "cs"), get(c, "lens"), get(c, "at"), get(c, "fseed")));
    o.oracle_fail = worst; o.disagreement = dis;
    o
}

fn equal_prefix_outside_counters(a: &Authentic, f2: &[u8], upto: usize) -> bool {
    let mut s = 0;
    for (i, &e) in a.rec_end.iter().enumerate() { if i > upto { break; } if f2.len() < e || f2[s + 8..e] != a.file[s + 8..e] { return false; } s = e; }
    true
}

const RULE: &str = "hook-built authentic streams with chunk size in {1,2,4} and every chunk-length list of 0..4 chunks over {1, cs}: \
    every truncation offset, single-bit flips (all bits in thorough; all header bits plus a stride of body bits in quick), and per stream the structural catalogue \
    (drop / duplicate / swap of records with and without consistent rewriting of counters and flags, flag and length-field edits incl. cs+1 and 2^32-1, early final flag, continuation after the final record, \
    appended bytes, record spliced from a stream under another key, counter-only edits); public-API files (key and password mode, 0 B .. 140 KB): header bit flips, body bit flips, truncation, append, magic swap, \
    header / body / ephemeral / encrypted-static / encrypted-payload / salt taken from another authentic file to the same recipient, record rotation, counter edit. \
    non-trivial = distinct (stream shape, tampering)";

impl Prop for C03 {
    fn id(&self) -> &'static str { "C03" }
    fn rule(&self) -> String { format!("{}; oracle: accepted => equals the authentic stream outside counter fields and output = plaintext; model accept/reject and output compared; plus the real binary (both modes, -o and stdout) on intact, extended, corrupted, truncated and flag-cleared two-chunk files: exit 0 only for the intact file with the complete plaintext", RULE) }
    fn cases(&self, tier: &str, seed: u64) -> Vec<Case> { let mut v = tamper_cases(tier, seed); v.extend(c04_cli_cases(tier, seed ^ 3)); v }
    fn run(&self, c: &Case, m: &mut Model) -> Outcome { if get(c, "kind") == "cli" { run_c04_cli(c, m) } else { run_tamper(c, m, false) } }
}
fn c04_cli_cases(tier: &str, seed: u64) -> Vec<Case> {
    let mut rng = Rng::new(seed ^ 0xC04C);
    let mut v = vec![];
    for mode in ["key", "pass"] { for t in ["intact", "trailing-byte", "trailing-newline", "corrupt-chunk1", "corrupt-last", "truncated", "flag-cleared"] { for out in ["file", "stdout"] {
        if tier != "thorough" && out == "stdout" && t != "trailing-byte" && t != "intact" { continue; }
        v.push(case(&[("kind", "cli".into()), ("mode", mode.into()), ("t", t.into()), ("out", out.into()), ("seed", rng.next().to_string())]));
    } } }
    v
}

fn run_c04_cli(c: &Case, m: &mut Model) -> Outcome {
    use crate::cli::*;
    let mut o = Outcome::default();
    let fx = fixtures();
    let mut rng = Rng::new(get(c, "seed").parse().unwrap_or(0));
    let keym = get(c, "mode") == "key"; let t = get(c, "t"); let to_file = get(c, "out") == "file";
    let plain = crate::gen::payload(rng.next(), 65536 + 4000);
    let pw = "pass123";
    let mut f = if keym { imp::key_encrypt(&fx.alice.sk, &fx.alice.pk, &fx.bob.pk, None, None, &plain, &NOSCRIPT).out } else { imp::pass_encrypt(pw.as_bytes(), &rng.bytes(32), &plain, &NOSCRIPT).out };
    let hdr = if keym { 132 } else { 36 };
    match t { "trailing-byte" => f.push(0), "trailing-newline" => f.push(b'\n'), "corrupt-chunk1" => { f[hdr + 65536 + 32 + 50] ^= 2; } "corrupt-last" => { let l = f.len(); f[l - 3] ^= 2; } "truncated" => { let l = f.len(); f.truncate(l - 7); }
        "flag-cleared" => { let at = hdr + 65536 + 32 + 8; f[at..at + 4].copy_from_slice(&[0, 0, 0, 0]); } _ => {} }
    let world = World { files: vec![("in.bin".into(), f), ("kr.txt".into(), keyring(&[(&fx.alice, true), (&fx.bob, true)]).into_bytes())], env: vec![("KESTREL_PASSWORD".into(), if keym { fx.bob.pw.into() } else { pw.into() })], stdin: vec![] };
    let mut args: Vec<String> = if keym { sv(&["decrypt", "in.bin", "-t", "bob", "-k", "kr.txt", "--env-pass"]) } else { sv(&["password", "decrypt", "in.bin", "--env-pass"]) };
    if to_file { args.push("-o".into()); args.push("out.bin".into()); }
    let obs = run_kestrel(&world, &args);
    let mo = model_cli(m, &world, &args, &rng.bytes(32), &rng.bytes(32));
    let delivered = if to_file { obs.file("out.bin").cloned().unwrap_or_default() } else { obs.stdout.clone() };
    let mdel = if to_file { mo.file("out.bin").cloned().unwrap_or_default() } else { mo.stdout.clone() };
    o.validated += 1;
    o.impl_obs = format!("exit={:?} released={}B", obs.exit, delivered.len()); o.model_obs = format!("exit={} released={}B", mo.exit, mdel.len());
    o.tags.push(format!("cli {} {} -> exit {:?}", get(c, "mode"), t, obs.exit)); o.nontrivial = Some(format!("cli/{}/{}/{}", get(c, "mode"), t, get(c, "out")));
    let label = format!("kestrel {} on a {} file ({})", args.join(" "), t, get(c, "mode"));
    if !plain.starts_with(&delivered) { o.oracle_fail = Some(("released-bytes-are-authentic-prefix".into(), format!("{}: released bytes are not a prefix of the plaintext", label))); }
    else if delivered.len() % 65536 != 0 && delivered.len() != plain.len() { o.oracle_fail = Some(("whole-chunks".into(), format!("{}: {} bytes released", label, delivered.len()))); }
    else if obs.exit == Some(0) && (t != "intact" || delivered != plain) { o.oracle_fail = Some(("success-only-after-final-chunk-and-end-of-stream".into(), format!("{}: the tool reported success (exit 0) with {} of {} bytes released", label, delivered.len(), plain.len()))); }
    else if obs.exit != Some(0) && t == "intact" { o.oracle_fail = Some(("intact-file-succeeds".into(), format!("{}: exit {:?}", label, obs.exit))); }
    else if Some(mo.exit) != obs.exit || mdel != delivered { o.disagreement = Some(format!("{}: impl exit {:?} {}B, model exit {} {}B", label, obs.exit, delivered.len(), mo.exit, mdel.len())); }
    o
}

impl Prop for C04 {
    fn id(&self) -> &'static str { "C04" }
    fn rule(&self) -> String { format!("{}; sink accepts 1..3 bytes per write so that every write call is logged with the source position; oracle: released bytes are a whole-chunk prefix of the authentic plaintext, no write of chunk i before record i is fully consumed, success only with complete output; plus the real binary (both modes, -o and stdout) on intact, trailing-byte, corrupted, truncated and flag-cleared two-chunk files: exit 0 only with the complete plaintext released", RULE) }
    fn cases(&self, tier: &str, seed: u64) -> Vec<Case> { let mut v = tamper_cases(tier, seed ^ 4); v.extend(c04_cli_cases(tier, seed));
        // decryption whose output cannot be delivered (full device, reader gone): an error on the write side is never reported as success
        v.extend(crate::props::c10::C10.cases(tier, seed ^ 0x04).into_iter().filter(|c| get(c, "op") == "cli-devfull" && get(c, "cmd").ends_with("decrypt")));
        // an authentic file followed by one more byte, with the probe for the end of the stream interrupted / failing at every read: nothing may be reported as a success
        v.extend(crate::props::c10::C10.cases(tier, seed ^ 0x04).into_iter().filter(|c| get(c, "ext") == "1"));
        // the destination fails (every error kind, would-block and timed-out among them, after none or part of a chunk was taken, or at the flush): the error is final —
        // nothing further is written, what was written is a prefix of the authentic plaintext, no success is reported
        // through the tool, with the plaintext on standard output and a sender the keyring does not know: standard output carries the plaintext and nothing else
        v.extend(crate::props::c12::C12.cases(tier, seed ^ 0x24).into_iter().filter(|c| get(c, "op") == "decrypt" && get(c, "kr") == "sender-absent" && get(c, "input").starts_with("valid") && getn(c, "w") & 2 == 0).take(12));
        v.extend(crate::props::c10::C10.cases(tier, seed ^ 0x14).into_iter().filter(|c| (get(c, "side") == "write" || get(c, "side") == "flush") && get(c, "kind") == "eo" && (get(c, "op") == "dec" || get(c, "op").ends_with("decrypt")))); v }
    fn run(&self, c: &Case, m: &mut Model) -> Outcome { if !get(c, "kr").is_empty() { crate::props::c12::C12.run(c, m) } else if get(c, "op") == "cli-devfull" || get(c, "ext") == "1" || !get(c, "side").is_empty() { crate::props::c10::C10.run(c, m) } else if get(c, "kind") == "cli" { run_c04_cli(c, m) } else { run_tamper(c, m, true) } }
}
