//! C13 — a failed command never creates or clobbers the output file prematurely.
use crate::cli::*;
use crate::imp::{self, NOSCRIPT};
use crate::model::Model;
use crate::props::c17::enc_pk;
use crate::report::*;
use crate::util::*;

pub struct C13;

const CAUSES_DEC: [&str; 16] = ["forged-empty-chunk0", "bad-args", "missing-input", "missing-keyring", "malformed-keyring", "keyring-not-utf8", "unknown-name", "no-private-key", "wrong-password", "unset-password", "wrong-magic", "corrupt-header", "corrupt-chunk0", "truncated-chunk0", "truncated-header", "same-file"];
const CAUSES_ENC: [&str; 11] = ["same-file", "bad-args", "missing-input", "missing-keyring", "malformed-keyring", "unknown-recipient", "unknown-sender", "no-private-key", "wrong-password", "unset-password", "refused-key-exchange"];
const CAUSES_PDEC: [&str; 10] = ["forged-empty-chunk0", "same-file", "bad-args", "missing-input", "wrong-password", "unset-password", "wrong-magic", "corrupt-chunk0", "truncated-chunk0", "truncated-header"];
const CAUSES_PENC: [&str; 4] = ["same-file", "bad-args", "missing-input", "unset-password"];
const CAUSES_GEN: [&str; 3] = ["bad-args", "empty-name", "unset-password"];

impl Prop for C13 {
    fn id(&self) -> &'static str { "C13" }
    fn rule(&self) -> String {
        "real binary: commands {encrypt, decrypt, password encrypt, password decrypt, key generate} x every failure cause that precedes authenticated output (bad arguments, missing input, missing / malformed / non-UTF-8 keyring, unknown key name, no private key, \
         wrong password, unset password variable, wrong magic, corrupted header, corrupted or truncated first chunk, truncated header, input = output, refused key exchange with a low-order recipient key) x prior state of the output path {absent, present with content}; \
         plus late failures (chunk 1 or 2 of a 3-chunk file corrupted, truncation inside chunk 2, trailing byte). observable: exit status and the output path (absent / exact bytes), compared with the Lean CLI model; \
         oracle: early failure => path exactly as before; late failure => path holds exactly the authenticated whole-chunk prefix, exit 1. on a terminal: password encrypt / key generate with mismatching confirmations typed first, password decrypt, key generate --env-pass with a typed name: the output file is written once, after the last prompt, and holds what the confirmed password opens. non-trivial = distinct (command, cause, prior state)".into()
    }
    fn cases(&self, _tier: &str, seed: u64) -> Vec<Case> {
        let mut rng = Rng::new(seed ^ 0xC13);
        let mut v = vec![];
        for (cmd, causes) in [("decrypt", &CAUSES_DEC[..]), ("encrypt", &CAUSES_ENC[..]), ("pass-decrypt", &CAUSES_PDEC[..]), ("pass-encrypt", &CAUSES_PENC[..]), ("key-generate", &CAUSES_GEN[..])] {
            for cause in causes { for prior in ["absent", "present"] {
                v.push(case(&[("cmd", cmd.into()), ("cause", cause.to_string()), ("prior", prior.into()), ("seed", rng.next().to_string())]));
            } }
        }
        for cmd in ["decrypt", "pass-decrypt"] { for late in ["corrupt-chunk1", "corrupt-chunk2", "truncated-chunk2", "trailing-byte"] { for prior in ["absent", "present", "present-long"] {
            v.push(case(&[("cmd", cmd.into()), ("cause", late.into()), ("prior", prior.into()), ("seed", rng.next().to_string())]));
        } } }
        // the output path is a symbolic link to an existing file: a failed command leaves the link and the file it points to alone
        for (cmd, cause) in [("decrypt", "wrong-password"), ("decrypt", "unknown-name"), ("decrypt", "corrupt-chunk0"), ("encrypt", "unknown-recipient"), ("encrypt", "unset-password"),
                             ("pass-decrypt", "wrong-password"), ("pass-decrypt", "wrong-magic"), ("pass-encrypt", "unset-password"), ("pass-encrypt", "missing-input")] {
            v.push(case(&[("cmd", cmd.into()), ("cause", cause.into()), ("prior", "symlink".into()), ("seed", rng.next().to_string())]));
        }
        v.extend(crate::props::tty::tty_cases(&crate::props::tty::OPS_C13, _tier, seed));
        v
    }
    fn run(&self, c: &Case, m: &mut Model) -> Outcome {
        if get(c, "kind") == "tty" { return crate::props::tty::run_tty_case(c, m); }
        let mut o = Outcome::default();
        let fx = fixtures();
        let mut rng = Rng::new(get(c, "seed").parse().unwrap_or(0));
        let (cmd, cause, prior) = (get(c, "cmd"), get(c, "cause"), get(c, "prior"));
        let late = ["corrupt-chunk1", "corrupt-chunk2", "truncated-chunk2", "trailing-byte"].contains(&cause);
        let plain = crate::gen::payload(rng.next(), if late { 65536 * 2 + 100 } else { 50 });
        let old = if prior == "present-long" { crate::gen::payload(99, 200_000) } else { b"precious previous contents\n".to_vec() };
        let keym = cmd == "decrypt" || cmd == "encrypt"; let decrypting = cmd.ends_with("decrypt");
        let pw = "pass123";
        let mut kr = keyring(&[(&fx.alice, true), (&fx.bob, true), (&fx.carol, false)]).into_bytes();
        let mut input: Vec<u8> = if !decrypting { plain.clone() } else if keym { imp::key_encrypt(&fx.alice.sk, &fx.alice.pk, &fx.bob.pk, None, None, &plain, &NOSCRIPT).out } else { imp::pass_encrypt(pw.as_bytes(), &rng.bytes(32), &plain, &NOSCRIPT).out };
        let hdr = if keym { 132 } else { 36 };
        let mut env: Vec<(String, String)> = vec![("KESTREL_PASSWORD".into(), if keym { if decrypting { fx.bob.pw.into() } else { fx.alice.pw.into() } } else { pw.into() })];
        let mut args: Vec<String> = match cmd { "decrypt" => sv(&["decrypt", "in.bin", "-t", "bob", "-o", "out.bin", "-k", "kr.txt", "--env-pass"]), "encrypt" => sv(&["encrypt", "in.bin", "-t", "bob", "-f", "alice", "-o", "out.bin", "-k", "kr.txt", "--env-pass"]),
            "pass-decrypt" => sv(&["password", "decrypt", "in.bin", "-o", "out.bin", "--env-pass"]), "pass-encrypt" => sv(&["password", "encrypt", "in.bin", "-o", "out.bin", "--env-pass"]), _ => sv(&["key", "generate", "-o", "out.bin", "--env-pass"]) };
        let mut have_input = true; let mut have_kr = true; let mut stdin = if cmd == "key-generate" { b"newkey\n".to_vec() } else { vec![] };
        let mut expected_prefix: Option<Vec<u8>> = None;
        match cause {
            "bad-args" => { args.push("--no-such-option".into()); }
            "missing-input" => { have_input = false; }
            "missing-keyring" => { have_kr = false; }
            "malformed-keyring" => { kr = b"[Key]\nName = bob\nPublicKey = AAAA\n".to_vec(); }
            "keyring-not-utf8" => { kr.extend_from_slice(&[0xff, 0xfe]); }
            "unknown-name" | "unknown-recipient" => { let i = args.iter().position(|a| a == "bob").unwrap(); args[i] = "nobody".into(); }
            "unknown-sender" => { let i = args.iter().position(|a| a == "alice").unwrap(); args[i] = "nobody".into(); }
            "no-private-key" => { let who = if decrypting { "bob" } else { "alice" }; let i = args.iter().position(|a| a == who).unwrap(); args[i] = "carol smith".into(); }
            "wrong-password" => { env[0].1 = "definitely wrong".into(); }
            "unset-password" => { env.clear(); }
            "wrong-magic" => { input[3] = 0x77; }
            "corrupt-header" => { input[50] ^= 4; }
            "corrupt-chunk0" => { input[hdr + 30] ^= 1; }
            "truncated-chunk0" => { input.truncate(hdr + 20); }
            "truncated-header" => { input.truncate(hdr - 3); }
            // a record "number 0, not last, zero bytes" with an arbitrary tag in front of the authentic records: nothing authentic has been seen when it is refused
            "forged-empty-chunk0" => { let mut forged = vec![0u8; 16]; forged.extend_from_slice(&rng.bytes(16)); let tail = input.split_off(hdr); input.extend_from_slice(&forged); input.extend_from_slice(&tail); }
            "same-file" => { let i = args.iter().position(|a| a == "out.bin").unwrap(); args[i] = "in.bin".into(); }
            "refused-key-exchange" => { let low = enc_pk(&unhex(crate::props::c19::LOW_ORDER[2])); kr = format!("{}\n[Key]\nName = evil\nPublicKey = {}\n", String::from_utf8(kr).unwrap(), low).into_bytes(); let i = args.iter().position(|a| a == "bob").unwrap(); args[i] = "evil".into(); }
            "empty-name" => { stdin = b"   \n".to_vec(); }
            "corrupt-chunk1" => { input[hdr + 65536 + 32 + 40] ^= 1; expected_prefix = Some(plain[..65536].to_vec()); }
            "corrupt-chunk2" => { input[hdr + 2 * (65536 + 32) + 20] ^= 1; expected_prefix = Some(plain[..131072].to_vec()); }
            "truncated-chunk2" => { let l = input.len(); input.truncate(l - 10); expected_prefix = Some(plain[..131072].to_vec()); }
            _ => { input.push(7); expected_prefix = Some(plain[..131072].to_vec()); }
        }
        let mut files: Vec<(String, Vec<u8>)> = vec![];
        if have_input && cmd != "key-generate" { files.push(("in.bin".into(), input.clone())); }
        if have_kr && keym { files.push(("kr.txt".into(), kr.clone())); }
        let out_name = if cause == "same-file" { "in.bin" } else { "out.bin" };
        if prior.starts_with("present") && cause != "same-file" { files.push(("out.bin".into(), old.clone())); }
        if prior == "symlink" { files.push(("precious.txt".into(), old.clone())); }
        let world = World { files: files.clone(), env, stdin };
        if prior == "symlink" {
            // no model of symbolic links: oracle only
            let obs = run_kestrel_wired(&world, &args, &Wiring { stdout: StdoutMode::Pipe, links: vec![("out.bin".into(), "precious.txt".into())], fifos: vec![] });
            o.validated += 1;
            let still_link = obs.file("out.bin@symlink").is_some();
            let target = obs.file("precious.txt").cloned();
            o.impl_obs = format!("exit={:?} out.bin is {} precious.txt={}B", obs.exit, if still_link { "still a symlink" } else if obs.file("out.bin").is_some() { "a regular file" } else { "gone" }, target.as_ref().map(|b| b.len()).unwrap_or(0));
            o.model_obs = "(oracle only) exit=1, link and target unchanged".into();
            o.tags.push(format!("{} {} symlink", cmd, cause)); o.nontrivial = Some(format!("{}/{}/{}", cmd, cause, prior));
            let label = format!("{} with {} (output path is a symbolic link to an existing file)", cmd, cause);
            if obs.exit != Some(1) { o.oracle_fail = Some(("failure-exits-1".into(), format!("{}: exit {:?}", label, obs.exit))); }
            else if !still_link || target.as_ref() != Some(&old) || obs.file("out.bin").cloned() != Some(old.clone()) { o.oracle_fail = Some(("output-path-untouched".into(), format!("{}: after the failed command {}", label, o.impl_obs))); }
            return o;
        }
        let obs = run_kestrel(&world, &args);
        let mo = model_cli(m, &world, &args, &rng.bytes(32), &rng.bytes(32));
        o.validated += 1;
        let before: Option<Vec<u8>> = files.iter().find(|(n, _)| n == out_name).map(|(_, b)| b.clone());
        let after = obs.file(out_name).cloned();
        let show = |x: &Option<Vec<u8>>| match x { None => "absent".to_string(), Some(b) => format!("{}B", b.len()) };
        o.impl_obs = format!("exit={:?} {}: {} -> {} | {}", obs.exit, out_name, show(&before), show(&after), obs.stderr.lines().last().unwrap_or("").chars().take(70).collect::<String>());
        o.model_obs = format!("exit={} err={} {} -> {}", mo.exit, mo.err, out_name, show(&mo.file(out_name).cloned()));
        o.tags.push(format!("{} {}", cmd, cause)); o.nontrivial = Some(format!("{}/{}/{}", cmd, cause, prior));
        let label = format!("{} with {} (output path {})", cmd, cause, prior);
        if obs.exit != Some(1) { o.oracle_fail = Some(("failure-exits-1".into(), format!("{}: exit {:?}", label, obs.exit))); return o; }
        match &expected_prefix {
            None => { if after != before { o.oracle_fail = Some(("output-path-untouched".into(), format!("{}: output path was {} before and is {} after the failed command", label, show(&before), show(&after)))); return o; } }
            Some(p) => { if after.as_ref() != Some(p) { o.oracle_fail = Some(("output-holds-authenticated-prefix".into(), format!("{}: output path holds {} but the authenticated prefix is {} bytes", label, show(&after), p.len()))); return o; } }
        }
        if Some(mo.exit) != obs.exit { o.disagreement = Some(format!("{}: exit impl {:?} model {} ({})", label, obs.exit, mo.exit, mo.err)); }
        else if mo.file(out_name).cloned() != after { o.disagreement = Some(format!("{}: output path impl {} model {}", label, show(&after), show(&mo.file(out_name).cloned()))); }
        o
    }
}
