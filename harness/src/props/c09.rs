//! C09 — untrusted bytes never crash: errors only, bounded work (library-level surfaces; the CLI argv surface is in c09cli).
use crate::imp::{self, NOSCRIPT};
use crate::keyring::{EncodedPk, EncodedSk, Keyring};
use crate::model::{parse_stream, Model};
use crate::report::*;
use crate::util::*;
use std::panic::{catch_unwind, AssertUnwindSafe};

pub struct C09;

pub const VOCAB: [&str; 48] = ["encrypt", "enc", "decrypt", "dec", "key", "generate", "gen", "change-pass", "extract-pub", "password", "pass", "--env-pass",
    "-t", "--to", "-f", "--from", "-o", "--output", "-k", "--keyring", "-h", "--help", "-v", "--version", "--", "-", "bob", "alice", "nobody", "in.bin", "out.bin", "kr.txt", "missing.bin",
    "", "-x", "--to=bob", "-o=out.bin", "=", "é", "<SK>", "..", "nodir/..", ".", "/", "--from=alice", "-f=alice", "-from", "--t"];

fn guard<T, F: FnOnce() -> T>(f: F) -> Option<T> { catch_unwind(AssertUnwindSafe(f)).ok() }

/// a valid small key-mode file and its keys (deterministic)
pub fn sample_key_file(seed: u64, len: usize) -> (Vec<u8>, Vec<u8>, Vec<u8>, Vec<u8>) {
    let mut r = Rng::new(seed ^ 0xF11E);
    let (s, rk, e, pk) = (r.bytes(32), r.bytes(32), r.bytes(32), r.bytes(32));
    let spk = crate::props::c01::pub_of(&s); let rpk = crate::props::c01::pub_of(&rk); let epk = crate::props::c01::pub_of(&e);
    let p = crate::gen::payload(seed, len);
    let enc = imp::key_encrypt(&s, &spk, &rpk, Some((&e, &epk)), Some(&pk), &p, &NOSCRIPT);
    (enc.out, rk, rpk, p)
}
pub fn sample_pass_file(seed: u64, len: usize, pw: &[u8]) -> (Vec<u8>, Vec<u8>) {
    let mut r = Rng::new(seed ^ 0xFA55);
    let salt = r.bytes(32);
    let p = crate::gen::payload(seed, len);
    (imp::pass_encrypt(pw, &salt, &p, &NOSCRIPT).out, p)
}

fn mutate_file(rng: &mut Rng, f: &[u8], how: usize, hdr: usize) -> Vec<u8> {
    let mut v = f.to_vec();
    match how {
        0 => { v.truncate(rng.below(f.len() + 1)); }
        1 => { let i = rng.below(v.len().max(1)); if !v.is_empty() { v[i] ^= 1 << rng.below(8); } }
        2 => { // hostile length field of the first record
            if v.len() >= hdr + 16 { let l: u32 = *rng.pick(&[0u32, 1, 65535, 65536, 65537, 0x7fff_ffff, 0xffff_ffff, 0x0001_0000, 1 << 24]); v[hdr + 12..hdr + 16].copy_from_slice(&l.to_be_bytes()); } }
        3 => { let n = rng.range(1, 40); v.extend_from_slice(&rng.bytes(n)); }
        4 => { if v.len() >= 4 { let m = *rng.pick(&[[0x65u8, 0x67, 0x6b, 0x10], [0x65, 0x67, 0x6b, 0x20], [0x65, 0x67, 0x6b, 0x30], [0, 0, 0, 0], [0x65, 0x67, 0x6b, 0x11]]); v[..4].copy_from_slice(&m); } }
        5 => { if v.len() >= hdr + 12 { let l: u32 = *rng.pick(&[0u32, 2, 0xffff_ffff, 0x0100_0000]); v[hdr + 8..hdr + 12].copy_from_slice(&l.to_be_bytes()); } }
        _ => { let n = rng.below(300); v = rng.bytes(n); if rng.chance(1, 2) && v.len() >= 4 { v[..4].copy_from_slice(&[0x65, 0x67, 0x6b, if rng.chance(1, 2) { 0x10 } else { 0x20 }]); } }
    }
    v
}

const B64ALPHA: &[u8] = b"ABCDEFGHIJKLMNOPQRSTUVWXYZabcdefghijklmnopqrstuvwxyz0123456789+/";

fn key_string(rng: &mut Rng, target: usize) -> String {
    // mostly-valid base64 of `target` bytes, with corruptions
    use ct_codecs::{Base64, Encoder};
    let mut raw = rng.bytes(target);
    if target == 84 && rng.chance(3, 4) { raw[..4].copy_from_slice(&[0x65, 0x67, 0x6b, 0x30]); }
    if target == 36 && rng.chance(1, 2) { let d = kestrel_crypto::sha256(&raw[..32]); raw[32..].copy_from_slice(&d[..4]); }
    let mut s = Base64::encode_to_string(&raw).unwrap();
    match rng.below(9) {
        0 => {}
        1 => { s.pop(); }
        2 => { s.push('='); }
        3 => { s.push('A'); }
        4 => { let i = rng.below(s.len()); s.insert(i, *rng.pick(&[' ', '\t', '\n', 'é', '-', '_', '=', '\u{2003}'])); }
        5 => { let i = rng.below(s.len()); let c = B64ALPHA[rng.below(64)] as char; s.replace_range(i..i + 1, &c.to_string()); }
        6 => { s = s[..rng.below(s.len() + 1)].to_string(); }
        7 => { let n = rng.below(131); s = (0..n).map(|_| *rng.pick(&['A', 'z', '0', '+', '/', '=', ' ', 'é', '\u{0}'])).collect(); }
        _ => { let l = rng.below(120); raw = rng.bytes(l); s = Base64::encode_to_string(&raw).unwrap(); }
    }
    s
}

impl Prop for C09 {
    fn id(&self) -> &'static str { "C09" }
    fn rule(&self) -> String {
        "per untrusted-input surface, under catch_unwind with overflow checks and debug assertions on: AEAD ciphertexts of every length 0..64 and 1 KiB; Noise handshake messages of every length 0..200, 65535, 65536 \
         (random, and prefixes / bit flips of a valid message); key-mode and password-mode files = every prefix of valid files, single-bit flips, hostile length and flag fields, wrong magics, appended bytes, random bytes; \
         encoded public / private key strings over {base64 alphabet, padding, whitespace, UTF-8} with lengths 0..130; keyring texts; heap peak while rejecting hostile length fields; the real binary with every argument vector of length <= 2 over a 48-word vocabulary (incl. path oddities: empty, `.`, `..`, `nodir/..`, `/`) (commands, aliases, options in all spellings, values, oddities) and seeded longer vectors, in a world with files, environment and piped stdin but no terminal: exit status 0 or 1, an Error: line iff 1, no signal, no hang, and the same exit status and files as the Lean CLI model; argument vectors and a KESTREL_PASSWORD value containing invalid UTF-8 (5 byte patterns x 6 positions): exit 1 with an Error: line, nothing written; and the commands that take a password run with a terminal on standard input (a pseudo-terminal nobody types on) and a wrong or unset KESTREL_PASSWORD: they must terminate with exit 1. \
         compared: result class (ok | err | crash) of the implementation vs the Lean model; non-trivial = distinct (surface, length / mutation kind, outcome)".into()
    }
    fn cases(&self, tier: &str, seed: u64) -> Vec<Case> {
        let th = tier == "thorough";
        let mut rng = Rng::new(seed ^ 0xC09);
        let mut v = vec![];
        for l in (0..=64usize).chain([1024usize]) { v.push(case(&[("surface", "aead".into()), ("len", l.to_string()), ("seed", rng.next().to_string())])); }
        for l in (0..=200usize).chain([65535usize, 65536, 65537, 70000]) {
            for mode in ["random", "prefix"] { v.push(case(&[("surface", "noise".into()), ("len", l.to_string()), ("mode", mode.into()), ("seed", rng.next().to_string())])); }
        }
        for _ in 0..(if th { 400 } else { 60 }) { v.push(case(&[("surface", "noise".into()), ("len", "128".into()), ("mode", "flip".into()), ("seed", rng.next().to_string())])); }
        // the 7 low-order X25519 points (and their high-bit aliases): as the clear-text ephemeral key of a message of every interesting length, and as the
        // AUTHENTIC encrypted static key of a message built by the independent writer (the refusal of the all-zero shared secret must be an error, not a panic)
        for i in 0..7usize { for alias in [0usize, 1] { for len in [96usize, 128, 200] { v.push(case(&[("surface", "noise".into()), ("len", len.to_string()), ("mode", format!("loworder-e-{}-{}", i, alias)), ("seed", rng.next().to_string())])); }
            v.push(case(&[("surface", "noise".into()), ("len", "128".into()), ("mode", format!("loworder-s-{}-{}", i, alias)), ("seed", rng.next().to_string())])); } }
        // files: every prefix of a small valid file (two modes), then mutations
        let (kf, _, _, _) = sample_key_file(7, 40);
        for cut in 0..=kf.len() { v.push(case(&[("surface", "keyfile".into()), ("how", "prefix".into()), ("cut", cut.to_string()), ("seed", "7".into())])); }
        for _ in 0..(if th { 4000 } else { 500 }) { v.push(case(&[("surface", "keyfile".into()), ("how", "mut".into()), ("m", rng.below(7).to_string()), ("seed", rng.next().to_string())])); }
        let npass = if th { 400 } else { 70 };
        for i in 0..npass { v.push(case(&[("surface", "passfile".into()), ("how", "mut".into()), ("m", (i % 7).to_string()), ("seed", rng.next().to_string())])); }
        for cut in (0..=84usize).step_by(if th { 1 } else { 4 }) { v.push(case(&[("surface", "passfile".into()), ("how", "prefix".into()), ("cut", cut.to_string()), ("seed", "7".into())])); }
        // authentic handshake messages (both tags verify) whose payload is not 32 bytes: no honest writer produces them, any Noise peer can
        for pl in [0usize, 1, 16, 31, 33, 48, 64, 100, 1000, 65535 - 96 - 16, 65535 - 96 - 15] { for _ in 0..(if th { 4 } else { 1 }) { v.push(case(&[("surface", "noise".into()), ("len", pl.to_string()), ("mode", "authentic-payload-len".into()), ("seed", rng.next().to_string())])); } }
        // keyring files: valid sections with stray lines of every length 0..160 built from 1-, 2-, 3- and 4-byte characters
        for l in 0..=160usize { for _ in 0..(if th { 6 } else { 2 }) { v.push(case(&[("surface", "keyring".into()), ("len", l.to_string()), ("seed", rng.next().to_string())])); } }
        // keyring files of unusual BULK, through the binary (work and stack must not grow with what is skipped): long runs of blank lines, of comment lines, of CR LF, one very long line
        for shape in ["blank-run", "comment-run", "crlf-run", "long-line", "blank-run-invalid"] { v.push(case(&[("surface", "keyring-bulk".into()), ("shape", shape.into()), ("seed", rng.next().to_string())])); }
        for _ in 0..(if th { 6000 } else { 1200 }) { v.push(case(&[("surface", "pkstr".into()), ("seed", rng.next().to_string())])); }
        for _ in 0..(if th { 1500 } else { 300 }) { v.push(case(&[("surface", "skstr".into()), ("seed", rng.next().to_string())])); }
        // CLI argument vectors: every vector of length <= 2 (thorough: a sample of length 3) over the vocabulary, plus random longer ones
        let nv = VOCAB.len();
        v.push(case(&[("surface", "argv".into()), ("words", "-".into()), ("seed", rng.next().to_string())]));
        for a in 0..nv { v.push(case(&[("surface", "argv".into()), ("words", a.to_string()), ("seed", rng.next().to_string())]));
            for b in 0..nv { v.push(case(&[("surface", "argv".into()), ("words", format!("{},{}", a, b)), ("seed", rng.next().to_string())])); } }
        for _ in 0..(if th { 10000 } else { 1500 }) { let n = rng.range(3, 9); let ws: Vec<String> = (0..n).map(|_| if rng.chance(1, 2) { rng.below(12).to_string() } else { rng.below(nv).to_string() }).collect(); v.push(case(&[("surface", "argv".into()), ("words", ws.join(",")), ("seed", rng.next().to_string())])); }
        // argument vectors and environment values that are not UTF-8
        for cmd in ["encrypt", "decrypt", "pass-encrypt", "pass-decrypt"] { for path in ["", ".", "..", "/", "nodir/..", "/nodir/..", "nodir/", "nodir/.", "./", "kr/.."] {
            v.push(case(&[("surface", "oddpath".into()), ("cmd", cmd.into()), ("path", path.into()), ("seed", rng.next().to_string())])); } }
        for pos in 0..6usize { for bad in ["ff", "c328", "eda080", "f8808080", "e28228"] { if th || pos % 2 == 0 || bad == "ff" { v.push(case(&[("surface", "osargs".into()), ("pos", pos.to_string()), ("bad", bad.into()), ("seed", rng.next().to_string())])); } } }
        // the same tool with a terminal on standard input (nobody types): it must still terminate
        for cmd in ["decrypt", "encrypt", "pass-decrypt", "extract-pub", "change-pass"] { for pw in ["wrong", "unset"] { v.push(case(&[("surface", "tty".into()), ("cmd", cmd.into()), ("pw", pw.into()), ("seed", rng.next().to_string())])); } }
        for i in 0..(if th { 40 } else { 12 }) { v.push(case(&[("surface", "heap".into()), ("mode", (if i % 2 == 0 { "key" } else { "pass" }).into()), ("seed", rng.next().to_string())])); }
        v
    }
    fn run(&self, c: &Case, m: &mut Model) -> Outcome {
        let mut o = Outcome::default();
        let mut rng = Rng::new(get(c, "seed").parse().unwrap_or(0));
        let surface = get(c, "surface");
        o.tags.push(format!("surface={}", surface));
        let fail_crash = |o: &mut Outcome, what: &str| { o.oracle_fail = Some(("no-panic".into(), format!("{} panicked on untrusted input", what))); };
        match surface {
            "aead" => {
                let len = getn(c, "len");
                let key = rng.bytes(32); let nonce = rng.bytes(12); let ad = rng.bytes(4); let ct = rng.bytes(len);
                let r = guard(|| kestrel_crypto::chapoly_decrypt_ietf(&key, &nonce, &ct, &ad).is_ok());
                let mr = m.ask(&format!("aead_open {} {} {} {}", hex(&key), hex(&nonce), hex(&ad), hexd(&ct)));
                o.impl_obs = match r { None => "crash".into(), Some(true) => "ok".into(), Some(false) => "err".into() };
                o.model_obs = mr.split(' ').next().unwrap_or("").to_string(); o.validated += 1;
                o.nontrivial = Some(format!("aead/{}/{}", len, o.impl_obs));
                if r.is_none() { fail_crash(&mut o, &format!("chapoly_decrypt_ietf ({}-byte ciphertext)", len)); }
                else if o.impl_obs != o.model_obs { o.disagreement = Some(format!("impl {} model {}", o.impl_obs, o.model_obs)); }
            }
            "noise" => {
                let len = getn(c, "len");
                let mode = get(c, "mode");
                let (rk, pro) = (rng.bytes(32), vec![0x65u8, 0x67, 0x6b, 0x10]);
                let rpk = crate::props::c01::pub_of(&rk);
                let msg: Vec<u8> = if mode == "random" { rng.bytes(len) } else if mode.starts_with("loworder-") {
                    let parts: Vec<&str> = mode.split('-').collect();
                    let mut pt = unhex(crate::props::c19::LOW_ORDER[parts[2].parse::<usize>().unwrap_or(0) % 7]); if parts[3] == "1" { pt[31] |= 0x80; }
                    if parts[1] == "e" { let mut mm = pt.clone(); let rest = rng.bytes(len.saturating_sub(32)); mm.extend_from_slice(&rest); mm }
                    else { let s = rng.bytes(32); let e = rng.bytes(32); let pl = rng.bytes(32);
                        crate::props::noisew::write_message(&pro, &rpk, &crate::props::noisew::Forge { e: &e, s_priv: &s, claimed_s: &pt, ss: crate::props::noisew::Ss::Skip, payload: &pl }).0 }
                } else if mode == "authentic-payload-len" {
                    let s = rng.bytes(32); let e = rng.bytes(32); let pl = rng.bytes(len);
                    crate::props::noisew::write_message(&pro, &rpk, &crate::props::noisew::Forge { e: &e, s_priv: &s, claimed_s: &crate::props::c01::pub_of(&s), ss: crate::props::noisew::Ss::Honest, payload: &pl }).0
                } else {
                    // a genuine message to this recipient, cut / padded to `len`, or with one bit flipped
                    let s = rng.bytes(32); let e = rng.bytes(32); let pl = rng.bytes(32);
                    let h = kestrel_crypto::noise_encrypt(&imp::sk(&s), &imp::pk(&crate::props::c01::pub_of(&s)), &imp::pk(&rpk), Some(&imp::sk(&e)), Some(&imp::pk(&crate::props::c01::pub_of(&e))), &pro, &kestrel_crypto::PayloadKey::new(&pl)).unwrap();
                    let mut mm = h.ciphertext;
                    if mode == "flip" { let i = rng.below(mm.len() * 8); mm[i / 8] ^= 1 << (i % 8); } else { if len <= mm.len() { mm.truncate(len); } else { let extra = rng.bytes(len - mm.len()); mm.extend_from_slice(&extra); } }
                    mm
                };
                let r = guard(|| kestrel_crypto::noise_decrypt(&imp::sk(&rk), &imp::pk(&rpk), &pro, &msg).is_ok());
                let mr = m.ask(&format!("noise_read {} {} {} {}", hex(&pro), hex(&rk), hex(&rpk), hexd(&msg)));
                o.impl_obs = match r { None => "crash".into(), Some(true) => "ok".into(), Some(false) => "err".into() };
                // noise_decrypt additionally requires a 32-byte payload
                let mut mcls = mr.split(' ').next().unwrap_or("").to_string();
                if mcls == "ok" { let pl = mr.split(' ').nth(1).unwrap_or(""); if unhex(pl).len() != 32 { mcls = "err".into(); } }
                o.model_obs = mcls; o.validated += 1;
                // the Lean definitions GENERATED from noise.rs / lib.rs (tools/rs2lean_noise.py), run on the same message: this ties that translator to the code
                if r.is_some() { let sr = m.ask(&format!("noise_decrypt_src {} {} {} {}", hex(&rk), hex(&rpk), hex(&pro), hexd(&msg))); o.validated += 1; o.tags.push("translated noise.rs run".into());
                    let scls = sr.split(' ').next().unwrap_or("").to_string();
                    if (scls == "ok") != (r == Some(true)) && o.disagreement.is_none() { o.disagreement = Some(format!("the Lean definitions translated from noise.rs / lib.rs say `{}` for a handshake message of {} bytes, the real noise_decrypt says {}", scls, msg.len(), if r == Some(true) { "ok" } else { "err" })); } }
                o.nontrivial = Some(format!("noise/{}/{}/{}", msg.len(), mode, o.impl_obs));
                if r.is_none() { fail_crash(&mut o, &format!("noise_decrypt ({}-byte handshake message)", msg.len())); }
                else if o.impl_obs != o.model_obs { o.disagreement = Some(format!("impl {} model {}", o.impl_obs, o.model_obs)); }
            }
            "oddpath" => {
                // complete, otherwise valid commands whose INPUT path is odd: empty, a directory, `..`, something below a directory that does not exist
                use crate::cli::*;
                let fx = fixtures();
                let path = get(c, "path"); let cmd = get(c, "cmd");
                let w = World { files: vec![("kr".into(), keyring(&[(&fx.alice, true), (&fx.bob, true)]).into_bytes())], env: vec![("KESTREL_PASSWORD".into(), fx.alice.pw.into())], stdin: vec![] };
                let args: Vec<String> = match cmd { "encrypt" => sv(&["encrypt", path, "-t", "bob", "-f", "alice", "-o", "c", "-k", "kr", "--env-pass"]), "decrypt" => sv(&["decrypt", path, "-t", "alice", "-o", "c", "-k", "kr", "--env-pass"]),
                    "pass-encrypt" => sv(&["password", "encrypt", path, "-o", "c", "--env-pass"]), _ => sv(&["password", "decrypt", path, "-o", "c", "--env-pass"]) };
                let obs = run_kestrel(&w, &args);
                o.impl_obs = format!("exit={:?} signal={} stderr={:?}", obs.exit, obs.signal, obs.stderr.chars().take(100).collect::<String>()); o.model_obs = "exit 1 with an Error: line".into();
                o.nontrivial = Some(format!("oddpath/{}/{}", cmd, path)); o.tags.push(format!("odd input path -> exit {:?}", obs.exit));
                let what = format!("kestrel {}", args.iter().map(|a| format!("{:?}", a)).collect::<Vec<_>>().join(" "));
                if obs.signal || obs.timed_out || obs.exit != Some(1) { o.oracle_fail = Some(("exit-0-or-1".into(), format!("{}: exit {:?}, signal = {}, timed out = {}, stderr {:?}", what, obs.exit, obs.signal, obs.timed_out, obs.stderr.chars().take(200).collect::<String>()))); }
                else if !obs.error_line() { o.oracle_fail = Some(("error-line-iff-exit-1".into(), format!("{}: exit 1 without an Error: line; stderr {:?}", what, obs.stderr))); }
            }
            "osargs" => {
                use crate::cli::*;
                let fx = fixtures();
                let bad = unhex(get(c, "bad")); let pos = getn(c, "pos");
                let plain = rng.bytes(20);
                let w = World { files: vec![("p".into(), plain), ("kr".into(), keyring(&[(&fx.alice, true), (&fx.bob, true)]).into_bytes())], env: vec![("KESTREL_PASSWORD".into(), fx.alice.pw.into())], stdin: vec![] };
                let base: Vec<Vec<u8>> = ["encrypt", "p", "-t", "bob", "-f", "alice", "-o", "c", "-k", "kr", "--env-pass"].iter().map(|s| s.as_bytes().to_vec()).collect();
                let mut junk = b"x".to_vec(); junk.extend_from_slice(&bad); junk.push(b'y');
                // pos 0..3: the invalid bytes replace the command / input / recipient / output value; 4: appended as an extra argument; 5: in KESTREL_PASSWORD instead
                let (args, envr): (Vec<Vec<u8>>, Vec<(&str, Vec<u8>)>) = match pos { 0 => { let mut a = base.clone(); a[0] = junk.clone(); (a, vec![]) } 1 => { let mut a = base.clone(); a[1] = junk.clone(); (a, vec![]) } 2 => { let mut a = base.clone(); a[3] = junk.clone(); (a, vec![]) }
                    3 => { let mut a = base.clone(); a[7] = junk.clone(); (a, vec![]) } 4 => { let mut a = base.clone(); a.push(junk.clone()); (a, vec![]) } _ => (base.clone(), vec![("KESTREL_PASSWORD", junk.clone())]) };
                let obs = run_kestrel_raw(&w, &args, &envr);
                o.impl_obs = format!("exit={:?} signal={} stderr={:?}", obs.exit, obs.signal, obs.stderr.chars().take(100).collect::<String>()); o.model_obs = "exit 1 with an Error: line".into();
                o.nontrivial = Some(format!("osargs/{}/{}", pos, get(c, "bad"))); o.tags.push(format!("non-UTF-8 {} -> exit {:?}", if pos == 5 { "KESTREL_PASSWORD" } else { "argument" }, obs.exit));
                let what = format!("kestrel started with the bytes {} {}", get(c, "bad"), if pos == 5 { "inside KESTREL_PASSWORD (--env-pass)".to_string() } else { format!("inside argument {}", [0usize, 1, 3, 7, 11][pos]) });
                if obs.signal || obs.timed_out || !matches!(obs.exit, Some(0) | Some(1)) { o.oracle_fail = Some(("exit-0-or-1".into(), format!("{}: exit {:?}, signal = {}, timed out = {}, stderr {:?}", what, obs.exit, obs.signal, obs.timed_out, obs.stderr))); }
                else if (obs.exit == Some(1)) != obs.error_line() { o.oracle_fail = Some(("error-line-iff-exit-1".into(), format!("{}: exit {:?}, stderr {:?}", what, obs.exit, obs.stderr))); }
                else if obs.exit == Some(0) { o.oracle_fail = Some(("undecodable-input-is-an-error".into(), format!("{}: exit 0", what))); }
                else if obs.file("c").is_some() { o.oracle_fail = Some(("no-output-on-usage-error".into(), format!("{}: an output file was written", what))); }
            }
            "keyring-bulk" => {
                use crate::cli::*;
                let fx = fixtures(); let shape = get(c, "shape");
                let filler: String = match shape { "comment-run" => "# a comment line\n".repeat(150_000), "crlf-run" => "\r\n".repeat(300_000), "long-line" => format!("# {}\n", "x".repeat(4 << 20)), _ => "\n".repeat(400_000) };
                let good = keyring(&[(&fx.alice, true), (&fx.bob, true)]);
                let text = if shape == "blank-run-invalid" { format!("{}[Key]\nName = broken\n{}", filler, filler) } else { format!("{}{}{}", section(&fx.carol, false), filler, good) };
                let w = World { files: vec![("kr".into(), text.into_bytes()), ("p".into(), b"payload".to_vec())], env: vec![("KESTREL_PASSWORD".into(), fx.alice.pw.into())], stdin: vec![] };
                let obs = run_kestrel(&w, &sv(&["encrypt", "p", "-t", "bob", "-f", "alice", "-o", "c", "-k", "kr", "--env-pass"])); o.validated += 1;
                o.nontrivial = Some(format!("keyring-bulk/{}", shape)); o.tags.push(format!("keyring bulk {} -> exit {:?}", shape, obs.exit));
                o.impl_obs = format!("exit={:?} signal={} timed_out={} {}", obs.exit, obs.signal, obs.timed_out, obs.stderr.trim().chars().take(100).collect::<String>()); o.model_obs = "exit 0 or 1, with an Error: line when 1".into();
                let what = format!("kestrel encrypt with a keyring of {} ({})", match shape { "comment-run" => "150 000 consecutive comment lines", "crlf-run" => "300 000 consecutive CR LF", "long-line" => "one 4 MiB comment line", _ => "400 000 consecutive blank lines" }, if shape == "blank-run-invalid" { "and an incomplete section" } else { "between valid sections" });
                if obs.timed_out { o.oracle_fail = Some(("no-hang".into(), format!("{}: still running after 30 s", what))); }
                else if obs.signal || !matches!(obs.exit, Some(0) | Some(1)) { o.oracle_fail = Some(("exit-0-or-1".into(), format!("{}: exit {:?}, killed by a signal = {}, stderr {:?}", what, obs.exit, obs.signal, obs.stderr.trim().chars().take(160).collect::<String>()))); }
                else if obs.exit == Some(1) && !obs.error_line() { o.oracle_fail = Some(("error-line-on-failure".into(), format!("{}: exit 1 without an Error: line", what))); }
                else if shape != "blank-run-invalid" && obs.exit != Some(0) { o.oracle_fail = Some(("valid-keyring-accepted".into(), format!("{}: exit {:?} {}", what, obs.exit, obs.stderr.trim().chars().take(120).collect::<String>()))); }
            }
            "keyring" => {
                // one or two well-formed sections and a stray line of `len` bytes (after trimming) somewhere among them
                let len = getn(c, "len");
                let atoms: [&str; 14] = ["a", "Z", "9", " ", "=", "-", ":", "\u{e9}", "\u{fc}", "\u{20ac}", "\u{4e2d}", "\u{1f600}", "\u{1f511}", "x"];
                let mut junk = String::new();
                while junk.len() < len { let a = atoms[rng.below(atoms.len())]; if junk.len() + a.len() <= len { junk.push_str(a); } else { junk.push('y'); } }
                if rng.chance(1, 3) && !junk.is_empty() { junk = format!("{}{}", *rng.pick(&["Note", "name", "Key", "Bob: ", "Public Key", "[key]", "PrivateKey", "Name"]), junk); }
                let sec = |n: &str, k: u8| format!("[Key]\nName = {}\nPublicKey = {}\n", n, crate::props::c17::enc_pk(&[k; 32]));
                let text = match rng.below(4) { 0 => format!("{}\n{}\n{}", sec("alice", 1), junk, sec("bob", 2)), 1 => format!("{}\n{}", junk, sec("alice", 1)), 2 => format!("{}{}\n", sec("alice", 1), junk), _ => format!("[Key]\nName = alice\n{}\nPublicKey = {}\n", junk, crate::props::c17::enc_pk(&[1; 32])) };
                let r = crate::props::c17::rust_parse(&text);
                let mr = m.ask(&format!("parse_keyring {}", hexd(text.as_bytes()))); o.validated += 1;
                o.impl_obs = r.chars().take(60).collect(); o.model_obs = mr.chars().take(60).collect();
                o.nontrivial = Some(format!("keyring/{}/{}", junk.len(), get(c, "seed"))); o.tags.push(format!("keyring stray line -> {}", r.split(' ').next().unwrap_or("")));
                if r == "crash" { fail_crash(&mut o, &format!("Keyring::new (a keyring with the stray line {:?}, {} bytes)", junk, junk.len())); }
                else if r != mr { o.disagreement = Some(format!("Keyring::new and the model differ on {:?}", text)); }
            }
            "keyfile" | "passfile" => {
                let keym = surface == "keyfile";
                let pw = b"hunter2".to_vec();
                let fseed = if get(c, "how") == "prefix" { 7 } else { rng.below(3) as u64 };
                let plen = *[40usize, 0, 70000].get(fseed as usize % 3).unwrap();
                let plen = if get(c, "how") == "prefix" { 40 } else if keym { plen } else { plen.min(40) };
                let (file, rk, rpk) = if keym { let (f, a, b, _) = sample_key_file(fseed.max(7), plen); (f, a, b) } else { (sample_pass_file(fseed.max(7), plen, &pw).0, vec![], vec![]) };
                let hdr = if keym { 132 } else { 36 };
                let (input, label) = if get(c, "how") == "prefix" { let cut = getn(c, "cut").min(file.len()); (file[..cut].to_vec(), format!("prefix{}", cut)) }
                    else { let how = getn(c, "m"); (mutate_file(&mut rng, &file, how, hdr), format!("mut{}", how)) };
                let base = kalloc::alloc::reset();
                let r = if keym { imp::key_decrypt(&rk, &rpk, &input, &NOSCRIPT) } else { imp::pass_decrypt(&pw, &input, &NOSCRIPT) };
                let peak = kalloc::alloc::peak_since(base);
                let mr = parse_stream(&if keym { m.ask(&format!("key_decrypt {} {} {} - - -", hex(&rk), hex(&rpk), hexd(&input))) } else { m.ask(&format!("pass_decrypt {} {} - - -", hex(&pw), hexd(&input))) });
                o.impl_obs = format!("{} out={}B", r.res, r.out.len()); o.model_obs = format!("{} out={}B", imp::canon(&mr.res), mr.out.len()); o.validated += 1;
                o.nontrivial = Some(format!("{}/{}/{}/{}", surface, label, input.len(), r.res));
                o.tags.push(format!("{} -> {}", surface, r.res));
                let bound = if keym { 1 << 20 } else { 48 << 20 };
                if r.res == "crash" { fail_crash(&mut o, &format!("{} ({} bytes, {})", if keym { "key_decrypt" } else { "pass_decrypt" }, input.len(), label)); }
                else if peak > bound { o.oracle_fail = Some(("bounded-memory".into(), format!("peak heap {} bytes while processing a {}-byte input ({}) exceeds the fixed bound {}", peak, input.len(), label, bound))); }
                else if r.res != imp::canon(&mr.res) || r.out != mr.out { o.disagreement = Some(format!("impl {} {}B vs model {} {}B", r.res, r.out.len(), mr.res, mr.out.len())); }
            }
            "pkstr" => {
                let s = key_string(&mut rng, 36);
                let r = guard(|| match EncodedPk::try_from(s.as_str()) { Err(_) => "err pkformat".to_string(),
                    Ok(e) => match Keyring::decode_public_key(&e) { Ok(k) => format!("ok {}", hex(k.as_bytes())), Err(e) => format!("err {}", kr_class(&e)) } });
                let mr = m.ask(&format!("decode_pk {}", hexd(s.as_bytes())));
                o.impl_obs = r.clone().unwrap_or("crash".into()); o.model_obs = mr.clone(); o.validated += 1;
                o.nontrivial = Some(format!("pk/{}/{}", s.len(), o.impl_obs.split(' ').take(2).collect::<Vec<_>>().join(" ").chars().take(14).collect::<String>()));
                o.tags.push(format!("pkstr -> {}", o.impl_obs.split(' ').take(if o.impl_obs.starts_with("ok") { 1 } else { 2 }).collect::<Vec<_>>().join(" ")));
                if r.is_none() { fail_crash(&mut o, "EncodedPk::try_from / decode_public_key"); }
                else if canon_kr(&o.impl_obs) != canon_kr(&mr) { o.disagreement = Some(format!("impl '{}' model '{}' on {:?}", o.impl_obs, mr, s)); }
            }
            "skstr" => {
                let s = key_string(&mut rng, 84);
                let pw = b"pw".to_vec();
                let r = guard(|| match EncodedSk::try_from(s.as_str()) { Err(_) => "err sklength".to_string(),
                    Ok(e) => match Keyring::unlock_private_key(&e, &pw) { Ok(k) => format!("ok {}", hex(k.as_bytes())), Err(e) => format!("err {}", kr_class(&e)) } });
                let mr = m.ask(&format!("unlock {} {}", hexd(s.as_bytes()), hex(&pw)));
                o.impl_obs = r.clone().unwrap_or("crash".into()); o.model_obs = mr.clone(); o.validated += 1;
                o.nontrivial = Some(format!("sk/{}/{}", s.len(), o.impl_obs));
                o.tags.push(format!("skstr -> {}", o.impl_obs));
                if r.is_none() { fail_crash(&mut o, "EncodedSk::try_from / unlock_private_key"); }
                else if o.impl_obs != mr { o.disagreement = Some(format!("impl '{}' model '{}' on {:?}", o.impl_obs, mr, s)); }
            }
            "tty" => {
                use crate::cli::*;
                let fx = fixtures();
                let p = crate::gen::payload(3, 30);
                let ct = imp::key_encrypt(&fx.alice.sk, &fx.alice.pk, &fx.bob.pk, None, None, &p, &NOSCRIPT).out;
                let pct = imp::pass_encrypt(b"right", &rng.bytes(32), &p, &NOSCRIPT).out;
                let env: Vec<(String, String)> = if get(c, "pw") == "wrong" { vec![("KESTREL_PASSWORD".into(), "not the password".into()), ("KESTREL_NEW_PASSWORD".into(), "n".into())] } else { vec![] };
                let world = World { files: vec![("in.bin".into(), ct), ("pin.bin".into(), pct), ("p.txt".into(), p.clone()), ("kr.txt".into(), keyring(&[(&fx.alice, true), (&fx.bob, true)]).into_bytes())], env, stdin: vec![] };
                let args: Vec<String> = match get(c, "cmd") { "decrypt" => sv(&["decrypt", "in.bin", "-t", "bob", "-o", "out.bin", "-k", "kr.txt", "--env-pass"]), "encrypt" => sv(&["encrypt", "p.txt", "-t", "bob", "-f", "alice", "-o", "out.bin", "-k", "kr.txt", "--env-pass"]),
                    "pass-decrypt" => sv(&["password", "decrypt", "pin.bin", "-o", "out.bin", "--env-pass"]), "extract-pub" => sv(&["key", "extract-pub", &fx.bob.enc_sk, "--env-pass"]), _ => sv(&["key", "change-pass", &fx.bob.enc_sk, "--env-pass"]) };
                let obs = run_kestrel_tty(&world, &args, 8);
                o.impl_obs = format!("exit={:?} timeout={} 'Key unlock failed' lines={}", obs.exit, obs.timed_out, obs.stderr.matches("Key unlock failed").count());
                o.model_obs = "terminates with exit 1".into();
                o.nontrivial = Some(format!("tty/{}/{}", get(c, "cmd"), get(c, "pw"))); o.tags.push(format!("tty {} -> exit {:?}", get(c, "cmd"), obs.exit));
                let label = format!("kestrel {} with a terminal on stdin and KESTREL_PASSWORD {}", args.join(" ").chars().take(70).collect::<String>(), get(c, "pw"));
                if obs.timed_out { o.oracle_fail = Some(("no-hang".into(), format!("{}: still running after 8 s ({} unlock attempts so far) — it never terminates", label, obs.stderr.matches("Key unlock failed").count()))); }
                else if obs.exit != Some(1) || !obs.error_line() { o.oracle_fail = Some(("exit-1-with-error-line".into(), format!("{}: exit {:?} stderr {:?}", label, obs.exit, obs.stderr.chars().take(160).collect::<String>()))); }
            }
            "argv" => {
                use crate::cli::*;
                let fx = fixtures();
                let words: Vec<String> = if get(c, "words") == "-" { vec![] } else { get(c, "words").split(',').map(|i| { let w = VOCAB[i.parse::<usize>().unwrap_or(0) % VOCAB.len()]; if w == "<SK>" { fx.bob.enc_sk.clone() } else { w.to_string() } }).collect() };
                let (ct, _, _, _) = { let p = crate::gen::payload(9, 25); (imp::key_encrypt(&fx.alice.sk, &fx.alice.pk, &fx.bob.pk, None, None, &p, &NOSCRIPT).out, 0, 0, 0) };
                let mut env: Vec<(String, String)> = vec![];
                if rng.chance(2, 3) { env.push(("KESTREL_PASSWORD".into(), fx.bob.pw.into())); }
                if rng.chance(1, 2) { env.push(("KESTREL_KEYRING".into(), "kr.txt".into())); }
                if rng.chance(1, 3) { env.push(("KESTREL_NEW_PASSWORD".into(), "new".into())); }
                let world = World { files: vec![("in.bin".into(), ct), ("kr.txt".into(), keyring(&[(&fx.alice, true), (&fx.bob, true)]).into_bytes()), ("old.bin".into(), b"old".to_vec())], env, stdin: b"argv-name\n".to_vec() };
                let obs = run_kestrel(&world, &words);
                let mo = model_cli(m, &world, &words, &rng.bytes(32), &rng.bytes(32)); o.validated += 1;
                o.impl_obs = format!("exit={:?} signal={} timeout={} stderr={:?}", obs.exit, obs.signal, obs.timed_out, obs.stderr.lines().next().unwrap_or("").chars().take(50).collect::<String>());
                o.model_obs = format!("exit={} err={}", mo.exit, mo.err);
                o.nontrivial = Some(format!("argv/{}/{}", get(c, "words"), world.env.len()));
                o.tags.push(format!("argv len={} -> exit {:?}", words.len().min(4), obs.exit));
                let label = format!("kestrel {:?}", words);
                if obs.timed_out { o.oracle_fail = Some(("no-hang".into(), format!("{}: still running after 30 s", label))); }
                else if obs.signal || !matches!(obs.exit, Some(0) | Some(1)) { o.oracle_fail = Some(("exit-0-or-1".into(), format!("{}: exit {:?} (signal: {}) stderr {:?}", label, obs.exit, obs.signal, obs.stderr.chars().take(200).collect::<String>()))); }
                else if (obs.exit == Some(1)) != obs.error_line() { o.oracle_fail = Some(("error-line-iff-exit-1".into(), format!("{}: exit {:?} stderr {:?}", label, obs.exit, obs.stderr.chars().take(200).collect::<String>()))); }
                else if Some(mo.exit) != obs.exit { o.disagreement = Some(format!("{}: exit impl {:?} model {} ({})", label, obs.exit, mo.exit, mo.err)); }
                else { let a: Vec<_> = obs.files.iter().map(|(n, b)| (n.clone(), b.len())).collect(); let b: Vec<_> = mo.files.iter().map(|(n, b)| (n.clone(), b.len())).collect(); if a != b { o.disagreement = Some(format!("{}: files after impl {:?} model {:?}", label, a, b)); } }
            }
            _ => {
                // heap: a header that claims the largest chunk, then nothing; the rejection must not allocate proportionally to any field
                let keym = get(c, "mode") == "key";
                let pw = b"hunter2".to_vec();
                let (file, rk, rpk) = if keym { let (f, a, b, _) = sample_key_file(7, 10); (f, a, b) } else { (sample_pass_file(7, 10, &pw).0, vec![], vec![]) };
                let hdr = if keym { 132 } else { 36 };
                let mut input = file[..hdr + 16].to_vec();
                let l: u32 = *rng.pick(&[65536u32, 65537, 0xffff_ffff, 0x7fff_ffff, 1 << 30]);
                input[hdr + 12..hdr + 16].copy_from_slice(&l.to_be_bytes());
                let base = kalloc::alloc::reset();
                let r = if keym { imp::key_decrypt(&rk, &rpk, &input, &NOSCRIPT) } else { imp::pass_decrypt(&pw, &input, &NOSCRIPT) };
                let peak = kalloc::alloc::peak_since(base); let one = kalloc::alloc::max_single();
                o.impl_obs = format!("{} peak_heap={} largest_alloc={} claimed_len={}", r.res, peak, one, l);
                o.nontrivial = Some(format!("heap/{}/{}", keym, l));
                let bound = if keym { 1 << 20 } else { 48 << 20 };
                if r.res == "crash" { fail_crash(&mut o, "decrypt with hostile length field"); }
                else if r.res == "ok" { o.oracle_fail = Some(("hostile-length-rejected".into(), "accepted".into())); }
                else if peak > bound { o.oracle_fail = Some(("bounded-memory".into(), format!("peak heap {} for claimed chunk length {} exceeds {}", peak, l, bound))); }
                o.tags.push(format!("heap {} -> {}", if keym { "key" } else { "pass" }, r.res));
            }
        }
        o
    }
}

pub fn kr_class(e: &crate::errors::KeyringError) -> &'static str {
    use crate::errors::KeyringError::*;
    match e { ParseConfig(_) => "parse", PublicKeyChecksum => "pkchecksum", PublicKeyLength => "pklength", PrivateKeyDecrypt => "skdecrypt", PrivateKeyLength => "sklength", PrivateKeyFormat => "skformat" }
}
/// `EncodedPk::try_from` reports bad base64 and a wrong decoded length with two messages; the model has pkformat / pklength
fn canon_kr(s: &str) -> String { s.replace("pklength", "pkformat") }
