//! C10 — partial reads/writes are harmless; every I/O failure surfaces as an error.
use crate::imp::{self, Scripts};
use crate::model::{parse_stream, Model, StreamResp};
use crate::props::stream::*;
use crate::report::*;
use crate::sio::*;
use crate::util::*;

pub struct C10;

fn fault_of(side: &str, kind: &str) -> (Option<RdEv>, Option<WrEv>, Option<FlEv>) {
    match (side, kind) {
        ("read", "eo") => (Some(RdEv::ErrOther), None, None), ("read", "ei") => (Some(RdEv::ErrInterrupted), None, None),
        ("write", "eo") => (None, Some(WrEv::ErrOther), None), ("write", "ei") => (None, Some(WrEv::ErrInterrupted), None), ("write", "zero") => (None, Some(WrEv::Accept(0)), None),
        ("flush", "eo") => (None, None, Some(FlEv::ErrOther)), (_, _) => (None, None, Some(FlEv::ErrInterrupted)),
    }
}

impl Prop for C10 {
    fn id(&self) -> &'static str { "C10" }
    fn rule(&self) -> String {
        "for encrypt_chunks / decrypt_chunks on hook-sized streams (cs in {1,2,3}, 0..3 chunks, several read partitions and write-accept schedules) and for the four public entry points on 0..2-chunk inputs: \
         the fault-free run is recorded first, then for every k from 0 to (number of read / write / flush calls of that run) the k-th call of that kind fails with Err(Other), Err(Interrupted) or (writes) Ok(0); \
         plus seeded multi-fault scripts; and the real binary writing with -o /dev/full (every write fails with ENOSPC) for all five output-producing commands: exit 1 with an Error: line. compared with the model: result class; oracle on the implementation: no panic, error names the failing side, success only if the fault was a retried interruption and then output = fault-free output, \
         output always a prefix of the fault-free output. non-trivial = distinct (operation, shape, schedule, fault side, kind, k)".into()
    }
    fn cases(&self, tier: &str, seed: u64) -> Vec<Case> {
        let th = tier == "thorough";
        let mut rng = Rng::new(seed ^ 0xC10);
        let mut v = vec![];
        let shapes: Vec<(usize, Vec<usize>)> = vec![(1, vec![]), (1, vec![1]), (1, vec![1, 1]), (2, vec![2]), (2, vec![1, 2]), (2, vec![2, 2, 1]), (3, vec![3, 3]), (3, vec![1, 3, 2])];
        for op in ["enc", "dec"] {
            for (cs, lens) in &shapes {
                for sched in 0..(if th { 4 } else { 2 }) {
                    for side in ["read", "write", "flush"] {
                        let kinds: &[&str] = if side == "write" { &["eo", "ei", "zero"] } else { &["eo", "ei"] };
                        for kind in kinds {
                            v.push(case(&[("op", op.into()), ("cs", cs.to_string()), ("lens", crate::gen::parts_str(lens)), ("sched", sched.to_string()), ("side", side.into()), ("kind", kind.to_string()), ("k", "all".into()), ("seed", rng.next().to_string())]));
                        }
                    }
                }
            }
        }
        for op in ["key_encrypt", "key_decrypt", "pass_encrypt", "pass_decrypt"] {
            for &plen in &[0usize, 20, 65536, 65537 + 70] {
                if op.starts_with("pass") && plen > 20 && !th { continue; }
                for side in ["read", "write", "flush"] {
                    let kinds: &[&str] = if side == "write" { &["eo", "ei", "zero"] } else { &["eo", "ei"] };
                    for kind in kinds { v.push(case(&[("op", op.into()), ("plen", plen.to_string()), ("side", side.into()), ("kind", kind.to_string()), ("k", "all".into()), ("seed", rng.next().to_string())])); }
                }
            }
        }
        // an authentic file with one byte appended, and an interruption (or a hard error) on each read call in turn: never a success
        for op in ["key_decrypt", "pass_decrypt", "dec"] { for kind in ["ei", "eo"] { v.push(case(&[("op", op.into()), ("plen", "70000".into()), ("cs", "2".into()), ("lens", "2,1".into()), ("ext", "1".into()), ("side", "read".into()), ("kind", kind.into()), ("k", "all".into()), ("seed", rng.next().to_string())])); } }
        for cmd in ["encrypt", "decrypt", "pass-encrypt", "pass-decrypt", "key-generate"] { for plen in [100usize, 70000] { if cmd == "key-generate" && plen > 100 { continue; }
            v.push(case(&[("op", "cli-devfull".into()), ("cmd", cmd.into()), ("plen", plen.to_string()), ("seed", rng.next().to_string())]));
            // the same failure through the other wiring: no -o, standard output on the full device / on a pipe whose reader goes away after 10 bytes
            // (the second only for outputs larger than a pipe buffer, so that a write really happens after the reader left)
            v.push(case(&[("op", "cli-devfull".into()), ("cmd", cmd.into()), ("plen", plen.to_string()), ("sink", "stdout-devfull".into()), ("seed", rng.next().to_string())]));
            if cmd != "key-generate" { v.push(case(&[("op", "cli-devfull".into()), ("cmd", cmd.into()), ("plen", (1usize << 20).to_string()), ("sink", "stdout-closed".into()), ("seed", rng.next().to_string())])); }
        } }
        for _ in 0..(if th { 3000 } else { 300 }) {
            v.push(case(&[("op", (*rng.pick(&["enc", "dec"])).into()), ("cs", rng.range(1, 3).to_string()), ("lens", "rand".into()), ("multi", "1".into()), ("seed", rng.next().to_string())]));
        }
        v
    }
    fn run(&self, c: &Case, m: &mut Model) -> Outcome {
        let mut o = Outcome::default();
        let mut rng = Rng::new(get(c, "seed").parse().unwrap_or(0));
        let op = get(c, "op");
        if op == "cli-devfull" {
            // the real binary writing to a device that fails every write: the failure must surface (exit 1, Error: line)
            use crate::cli::*;
            let fx = fixtures(); let cmd = get(c, "cmd"); let plen = getn(c, "plen");
            let plain = crate::gen::payload(rng.next(), plen); let pw = "pass123";
            let input: Vec<u8> = match cmd { "decrypt" => imp::key_encrypt(&fx.alice.sk, &fx.alice.pk, &fx.bob.pk, None, None, &plain, &imp::NOSCRIPT).out, "pass-decrypt" => imp::pass_encrypt(pw.as_bytes(), &rng.bytes(32), &plain, &imp::NOSCRIPT).out, _ => plain.clone() };
            let world = World { files: vec![("in.bin".into(), input), ("kr.txt".into(), keyring(&[(&fx.alice, true), (&fx.bob, true)]).into_bytes())],
                env: vec![("KESTREL_PASSWORD".into(), match cmd { "decrypt" => fx.bob.pw.into(), "encrypt" => fx.alice.pw.into(), _ => pw.into() })], stdin: b"devfull\n".to_vec() };
            let args: Vec<String> = match cmd { "encrypt" => sv(&["encrypt", "in.bin", "-t", "bob", "-f", "alice", "-o", "/dev/full", "-k", "kr.txt", "--env-pass"]), "decrypt" => sv(&["decrypt", "in.bin", "-t", "bob", "-o", "/dev/full", "-k", "kr.txt", "--env-pass"]),
                "pass-encrypt" => sv(&["password", "encrypt", "in.bin", "-o", "/dev/full", "--env-pass"]), "pass-decrypt" => sv(&["password", "decrypt", "in.bin", "-o", "/dev/full", "--env-pass"]), _ => sv(&["key", "generate", "-o", "/dev/full", "--env-pass"]) };
            let sink = get(c, "sink");
            let args: Vec<String> = if sink.is_empty() { args } else { let mut a = vec![]; let mut skip = false; for x in args { if skip { skip = false; continue; } if x == "-o" { skip = true; continue; } a.push(x); } a };
            let obs = match sink { "stdout-devfull" => run_kestrel_wired(&world, &args, &Wiring { stdout: StdoutMode::DevFull, links: vec![], fifos: vec![] }),
                "stdout-closed" => run_kestrel_wired(&world, &args, &Wiring { stdout: StdoutMode::CloseAfter(10), links: vec![], fifos: vec![] }), _ => run_kestrel(&world, &args) };
            o.impl_obs = format!("exit={:?} signal={} stderr={:?}", obs.exit, obs.signal, obs.stderr.lines().last().unwrap_or("").chars().take(80).collect::<String>()); o.model_obs = "a failing write is an error".into();
            o.tags.push(format!("cli {} {} -> exit {:?}", if sink.is_empty() { "-o /dev/full" } else { sink }, cmd, obs.exit)); o.nontrivial = Some(format!("devfull/{}/{}/{}", cmd, plen, sink));
            // a reader that went away may also end the tool by SIGPIPE; what must not happen is a report of success
            if sink == "stdout-closed" { if obs.exit == Some(0) || obs.timed_out { o.oracle_fail = Some(("write-failure-surfaces".into(), format!("kestrel {} with standard output on a pipe whose reader left after 10 bytes ({} bytes to deliver): exit {:?} ({:?})", args.join(" "), plen, obs.exit, obs.stderr.trim().chars().take(120).collect::<String>()))); } return o; }
            if obs.exit != Some(1) || !obs.error_line() { o.oracle_fail = Some(("write-failure-surfaces".into(), format!("kestrel {}: every write to the output fails (ENOSPC) but the tool exited {:?} ({:?})", args.join(" "), obs.exit, obs.stderr.trim().chars().take(120).collect::<String>()))); }
            return o;
        }
        // ---- set up the operation as closures over scripts ----
        let hook = op == "enc" || op == "dec";
        let cs = getn(c, "cs").max(1);
        let lens: Vec<usize> = if get(c, "lens") == "rand" { let n = rng.below(4); (0..n).map(|_| rng.range(1, cs)).collect() } else { crate::gen::parse_parts(get(c, "lens")) };
        let a = if hook { Some(authentic(rng.next(), cs, &lens, &[])) } else { None };
        let pw = b"pw".to_vec();
        let plen = getn(c, "plen");
        let (kf, rk, rpk, kp) = if op == "key_decrypt" { crate::props::c09::sample_key_file(3, plen) } else { (vec![], vec![], vec![], vec![]) };
        let (pf, pp) = if op == "pass_decrypt" { crate::props::c09::sample_pass_file(3, plen, &pw) } else { (vec![], vec![]) };
        let keys = { let mut r = Rng::new(77); (r.bytes(32), r.bytes(32), r.bytes(32), r.bytes(32), r.bytes(32)) };
        let (spk, rpk2, epk) = (crate::props::c01::pub_of(&keys.0), crate::props::c01::pub_of(&keys.1), crate::props::c01::pub_of(&keys.2));
        let plain = crate::gen::payload(5, plen);
        let ext = get(c, "ext") == "1";
        let input: Vec<u8> = { let mut i: Vec<u8> = match op { "enc" => a.as_ref().unwrap().plain.clone(), "dec" => a.as_ref().unwrap().file.clone(), "key_decrypt" => kf.clone(), "pass_decrypt" => pf.clone(), _ => plain.clone() }; if ext { i.push(0x5a); } i };
        let run_impl = |sc: &Scripts| -> StreamResp { match op {
            "enc" => { let a = a.as_ref().unwrap(); imp::enc_chunks(&a.key, &a.aad, cs as u32, &input, sc) }
            "dec" => { let a = a.as_ref().unwrap(); imp::dec_chunks(&a.key, &a.aad, cs as u32, &input, sc) }
            "key_encrypt" => imp::key_encrypt(&keys.0, &spk, &rpk2, Some((&keys.2, &epk)), Some(&keys.3), &input, sc),
            "key_decrypt" => imp::key_decrypt(&rk, &rpk, &input, sc),
            "pass_encrypt" => imp::pass_encrypt(&pw, &keys.4, &input, sc),
            _ => imp::pass_decrypt(&pw, &input, sc) } };
        let model_line = |sc: &Scripts| -> String { let s = imp::m_scripts(sc); match op {
            "enc" => { let a = a.as_ref().unwrap(); format!("enc_chunks {} - {} {} {}", hex(&a.key), cs, hexd(&input), s) }
            "dec" => { let a = a.as_ref().unwrap(); format!("dec_chunks {} - {} {} {}", hex(&a.key), cs, hexd(&input), s) }
            "key_encrypt" => format!("key_encrypt {} {} {} {} {} {} {} {}", hex(&keys.0), hex(&spk), hex(&rpk2), hex(&keys.2), hex(&epk), hex(&keys.3), hexd(&input), s),
            "key_decrypt" => format!("key_decrypt {} {} {} {}", hex(&rk), hex(&rpk), hexd(&input), s),
            "pass_encrypt" => format!("pass_encrypt {} {} {} {}", hex(&pw), hex(&keys.4), hexd(&input), s),
            _ => format!("pass_decrypt {} {} {}", hex(&pw), hexd(&input), s) } };
        let _ = (&kp, &pp);
        // ---- base (benign) schedule ----
        let sched = getn(c, "sched");
        let base_rs: Vec<RdEv> = if op == "enc" { reads_of(&lens) } else if hook { match sched { 0 => vec![], 1 => (0..input.len() + 2).map(|_| RdEv::Data(1)).collect(), 2 => (0..input.len()).map(|i| RdEv::Data(1 + i % 5)).collect(), _ => (0..input.len()).map(|_| RdEv::Data(rng.range(1, 40))).collect() } }
            else if op.ends_with("decrypt") { (0..40).map(|i| RdEv::Data(if i % 2 == 0 { 3 } else { 70000 })).collect() } else { vec![] };
        let base_ws: Vec<WrEv> = match sched { 0 => vec![], 1 => (0..400).map(|_| WrEv::Accept(1)).collect(), 2 => (0..200).map(|i| WrEv::Accept(1 + i % 7)).collect(), _ => (0..200).map(|_| WrEv::Accept(rng.range(1, 50))).collect() };
        if ext {
            // an authentic file with one byte appended: the fault-free run must report the trailing data, and no single read fault — an interruption
            // least of all — may turn that into a success
            let free = run_impl(&Scripts { rs: &base_rs, ws: &[], fs: &[] });
            o.tags.push(format!("op={} extended", op)); o.nontrivial = Some(format!("ext/{}/{}", op, get(c, "kind")));
            if free.res != "unexpected" { o.impl_obs = free.res.clone(); o.oracle_fail = Some(("trailing-data-reported".into(), format!("{} on an authentic file with one byte appended returned {}", op, free.res))); return o; }
            let (frd, _, _) = fault_of("read", get(c, "kind"));
            let mut classes = std::collections::BTreeMap::new();
            for k in 0..=free.reads {
                let mut rs: Vec<RdEv> = base_rs.iter().take(k).cloned().collect(); while rs.len() < k { rs.push(RdEv::Data(70000)); }
                rs.push(frd.clone().unwrap()); rs.extend(base_rs.iter().skip(k).cloned());
                let sc = Scripts { rs: &rs, ws: &[], fs: &[] };
                let r = run_impl(&sc); let mr = parse_stream(&m.ask(&model_line(&sc))); o.validated += 1;
                *classes.entry(r.res.clone()).or_insert(0u32) += 1;
                let label = format!("{} on an extended file, read {} at call {} of {}", op, get(c, "kind"), k, free.reads);
                if r.res == "ok" { o.impl_obs = format!("{} -> ok", label); o.model_obs = mr.res.clone(); o.oracle_fail = Some(("success-only-at-end-of-stream".into(), format!("{}: reported success although a byte follows the final chunk (the read that should have found it was {})", label, if get(c, "kind") == "ei" { "interrupted" } else { "failed" }))); return o; }
                if r.res == "crash" { o.oracle_fail = Some(("no-panic".into(), format!("{}: panicked", label))); return o; }
                if r.res != imp::canon(&mr.res) && o.disagreement.is_none() { o.disagreement = Some(format!("{}: impl {} model {}", label, r.res, mr.res)); }
            }
            o.impl_obs = format!("{} read calls, fault at each: {:?}", free.reads + 1, classes); o.model_obs = "never ok".into();
            return o;
        }
        let free = run_impl(&Scripts { rs: &base_rs, ws: &base_ws, fs: &[] });
        if free.res != "ok" { o.impl_obs = format!("fault-free run: {}", free.res); o.oracle_fail = Some(("fault-free-run-succeeds".into(), format!("{} with a conforming source and sink returned {}", op, free.res))); return o; }
        let want = free.out.clone();
        o.tags.push(format!("op={}", op));
        // ---- multi-fault scripts ----
        if get(c, "multi") == "1" {
            let rs: Vec<RdEv> = (0..input.len() + 6).map(|_| match rng.below(10) { 0 => RdEv::ErrInterrupted, 1 if rng.chance(1, 3) => RdEv::ErrOther, _ => RdEv::Data(rng.range(1, 9)) }).collect();
            let ws: Vec<WrEv> = (0..want.len() + 6).map(|_| match rng.below(12) { 0 => WrEv::ErrInterrupted, 1 if rng.chance(1, 3) => WrEv::ErrOther, 2 if rng.chance(1, 4) => WrEv::Accept(0), _ => WrEv::Accept(rng.range(1, 9)) }).collect();
            let fs: Vec<FlEv> = (0..6).map(|_| if rng.chance(1, 12) { FlEv::ErrOther } else { FlEv::Ok }).collect();
            let rs = if op == "enc" { rs.into_iter().map(|e| if let RdEv::Data(n) = e { RdEv::Data(n.min(cs)) } else { e }).collect() } else { rs };
            let sc = Scripts { rs: &rs, ws: &ws, fs: &fs };
            let r = run_impl(&sc); let mr = parse_stream(&m.ask(&model_line(&sc))); o.validated += 1;
            o.impl_obs = format!("{} out={}B", r.res, r.out.len()); o.model_obs = format!("{} out={}B", mr.res, mr.out.len());
            // the Lean definitions GENERATED from encrypt.rs / decrypt.rs (tools/rs2lean_stream.py), run on the same scripts: this ties the translator to the code
            if hook { let line = model_line(&sc); let src_line = line.replacen("_chunks ", "_chunks_src ", 1); let sr = parse_stream(&m.ask(&src_line)); o.validated += 1; o.tags.push("translated chunk loop run".into());
                if (sr.res != r.res || sr.out != r.out) && r.res != "crash" { o.disagreement = Some(format!("the Lean definitions translated from the chunk loop of {}crypt.rs give {} with {} bytes written, the real code {} with {} bytes", if op == "enc" { "en" } else { "de" }, sr.res, sr.out.len(), r.res, r.out.len())); } }
            o.nontrivial = Some(format!("multi/{}/{}", op, get(c, "seed"))); o.tags.push(format!("multi -> {}", r.res));
            // encryption: the chunking depends on the read sizes, so the reference output is the model's (same schedule, faults removed) — only class and the prefix of the *model* output are compared here
            if r.res == "crash" { o.oracle_fail = Some(("no-panic".into(), "panicked under an I/O fault script".into())); }
            else if op == "dec" && !want.starts_with(&r.out) { o.oracle_fail = Some(("prefix-of-fault-free-output".into(), format!("wrote {} bytes that are not a prefix of the fault-free output", r.out.len()))); }
            else if op == "dec" && r.res == "ok" && r.out != want { o.oracle_fail = Some(("success=>everything-written".into(), "ok with incomplete output".into())); }
            else if r.res != mr.res && o.disagreement.is_none() { o.disagreement = Some(format!("result class: impl {} model {}", r.res, mr.res)); }
            return o;
        }
        // ---- single fault at every position k ----
        let side = get(c, "side"); let kind = get(c, "kind");
        let (frd, fwr, ffl) = fault_of(side, kind);
        let ncalls = match side { "read" => free.reads, "write" => free.log.len(), _ => free.flushes };
        let mut first_fail: Option<(String, String)> = None; let mut dis: Option<String> = None; let mut classes = std::collections::BTreeMap::new();
        for k in 0..=ncalls {
            let mut rs = base_rs.clone(); let mut ws = base_ws.clone(); let mut fs: Vec<FlEv> = vec![];
            if let Some(f) = frd { while rs.len() < k { rs.push(RdEv::Data(if op == "enc" { cs } else { 70000 })); } rs.truncate(k.max(0)); let tail: Vec<RdEv> = base_rs.iter().skip(k).cloned().collect(); rs.push(f); rs.extend(tail); }
            if let Some(f) = fwr { while ws.len() < k { ws.push(WrEv::Accept(1 << 30)); } let tail: Vec<WrEv> = ws.split_off(k); ws.push(f); ws.extend(tail); }
            if let Some(f) = ffl { fs = (0..k).map(|_| FlEv::Ok).collect(); fs.push(f); }
            let sc = Scripts { rs: &rs, ws: &ws, fs: &fs };
            let r = run_impl(&sc);
            let mr = parse_stream(&m.ask(&model_line(&sc))); o.validated += 1;
            *classes.entry(r.res.clone()).or_insert(0u32) += 1;
            let label = format!("{} {} {} at call {} of {}", op, side, kind, k, ncalls);
            let failing_side_err = if side == "read" { "ioread" } else { "iowrite" };
            if r.res == "crash" { first_fail = Some(("no-panic".into(), format!("{}: panicked", label))); }
            else if !want.starts_with(&r.out) && !(op == "enc" && side == "read") { first_fail = Some(("prefix-of-fault-free-output".into(), format!("{}: {} bytes written are not a prefix of the fault-free output", label, r.out.len()))); }
            else if r.res == "ok" && r.out != want { first_fail = Some(("success=>everything-written".into(), format!("{}: returned ok with {} of {} bytes written", label, r.out.len(), want.len()))); }
            else if r.res == "ok" && kind != "ei" && k < ncalls { first_fail = Some(("hard-fault-surfaces".into(), format!("{}: a hard I/O failure was swallowed (returned ok)", label))); }
            else if r.res != "ok" && r.res != failing_side_err { first_fail = Some(("error-names-failing-side".into(), format!("{}: returned {} (expected {} or ok)", label, r.res, failing_side_err))); }
            else if r.res != imp::canon(&mr.res) && dis.is_none() { dis = Some(format!("{}: impl {} model {}", label, r.res, mr.res)); }
            if first_fail.is_some() { o.impl_obs = format!("{} -> {} out={}B", label, r.res, r.out.len()); o.model_obs = format!("{} out={}B", mr.res, mr.out.len()); break; }
        }
        if o.impl_obs.is_empty() { o.impl_obs = format!("{} calls, fault at each: {:?}", ncalls + 1, classes); o.model_obs = "same classes".into(); }
        o.tags.push(format!("{} {} -> {}", side, kind, classes.keys().cloned().collect::<Vec<_>>().join("/")));
        o.nontrivial = Some(format!("{}/{}/{}/{}/{}/{}/{}", op, cs, get(c, "lens"), get(c, "plen"), sched, side, kind));
        o.oracle_fail = first_fail; o.disagreement = dis;
        o
    }
}
