//! C15 — locked private keys: lossless, tamper-evident, documented format.
use crate::keyring::{EncodedSk, Keyring};
use crate::model::Model;
use crate::props::c09::kr_class;
use crate::report::*;
use crate::util::*;
use ct_codecs::{Base64, Decoder, Encoder};
use std::panic::{catch_unwind, AssertUnwindSafe};

pub struct C15;

pub fn passwords(rng: &mut Rng) -> Vec<Vec<u8>> {
    vec![vec![], b"alice".to_vec(), "pässwörd–\u{1F511}".as_bytes().to_vec(), rng.bytes(64), rng.bytes(65), rng.bytes(200), b"a\0".to_vec(), b"a".to_vec(), vec![0x80], b"trailing space ".to_vec(), b"line\n".to_vec(), b" \t".to_vec(), "correct horse battery staple ".repeat(3).into_bytes()]
}

/// HMAC's view of a key (RFC 2104): longer than a block => hashed; then zero-padded to the block
pub fn hmac_norm(pw: &[u8]) -> Vec<u8> {
    let mut k = if pw.len() > 64 { kestrel_crypto::sha256(pw) } else { pw.to_vec() };
    k.resize(64, 0);
    k
}

/// a password different from `pw` in the given relation; for every relation except `nulpad` / `longhash`
/// the result is also different *as an HMAC key*
pub fn other_password(pw: &[u8], rel: &str, rng: &mut Rng) -> Vec<u8> {
    let mut w = pw.to_vec();
    match rel {
        "nulpad" => { w.push(0); return w; }
        "longhash" => { return kestrel_crypto::sha256(pw); }
        "bitflip" => { if w.is_empty() { w.push(1) } else { let i = rng.below(w.len() * 8); w[i / 8] ^= 1 << (i % 8); } }
        "append" => { w.push(1 + rng.below(255) as u8); }
        "drop" => { if w.is_empty() { w.push(2) } else { w.pop(); } }
        _ => { w = b"other".to_vec(); }
    }
    let mut guard = 0;
    while (w == pw || hmac_norm(&w) == hmac_norm(pw)) && guard < 8 { w.push(0x41 + guard); guard += 1; }
    w
}

pub fn rust_unlock(s: &str, pw: &[u8]) -> String {
    let r = catch_unwind(AssertUnwindSafe(|| match EncodedSk::try_from(s) { Err(_) => "err sklength".to_string(),
        Ok(e) => match Keyring::unlock_private_key(&e, pw) { Ok(k) => format!("ok {}", hex(k.as_bytes())), Err(e) => format!("err {}", kr_class(&e)) } }));
    r.unwrap_or("crash".into())
}

impl Prop for C15 {
    fn id(&self) -> &'static str { "C15" }
    fn rule(&self) -> String {
        "lock: seeded (private key, password in {empty, ASCII, UTF-8, 64/65/200 bytes, NUL, 0x80, trailing space / newline / tab, 87-byte passphrase}, salt): Rust string == model string, unlocks on both sides to the key, and is base64 of \
         65676b30 || salt || ChaCha20-Poly1305(scrypt(pw, salt, 32768, 8, 1), nonce 0, ad = version) recomputed from the exported primitives; wrong passwords (one-bit neighbours, prefix, empty) rejected; \
         every single-bit flip of the 84-byte blob (all 672 in thorough, all of version/ciphertext/tag plus a salt sample in quick) must fail on both sides; a valid blob with 1..1000 bytes appended or 1..84 removed (re-encoded) must fail. non-trivial = distinct (case kind, password kind or flipped bit)".into()
    }
    fn cases(&self, tier: &str, seed: u64) -> Vec<Case> {
        let th = tier == "thorough";
        let mut rng = Rng::new(seed ^ 0xC15);
        let mut v = vec![];
        let npw = passwords(&mut Rng::new(1)).len();
        for rep in 0..(if th { 6 } else { 2 }) { for i in 0..npw { v.push(case(&[("kind", "lock".into()), ("pwi", i.to_string()), ("rep", rep.to_string()), ("seed", rng.next().to_string())])); } }
        for i in 0..(if th { 30 } else { 8 }) { v.push(case(&[("kind", "wrongpw".into()), ("pwi", (i % npw).to_string()), ("rel", (*rng.pick(&["bitflip", "append", "drop", "other"])).into()), ("seed", rng.next().to_string())])); }
        // the TEXT of a locked key: only the 112 characters the lock produced are that key — the same base64 with blanks, line breaks, another
        // alphabet or without padding is a different string and must be refused (also through the binary)
        for i in 0..(if th { 4 } else { 1 }) { v.push(case(&[("kind", "text".into()), ("seed", (rng.next() ^ i).to_string())])); }
        // passwords are byte strings: through --env-pass the variable's bytes are the password, or the run is an error — never a look-alike
        v.push(case(&[("kind", "env-bytes".into()), ("seed", rng.next().to_string())]));
        // every command of the tool that takes a locked key refuses an altered one — also `change-pass` to the password just typed
        for _ in 0..(if th { 6 } else { 2 }) { v.push(case(&[("kind", "cli-tamper".into()), ("seed", rng.next().to_string())])); }
        // the two HMAC key-normalisation collisions (RFC 2104): a known finding, reproduced on every run
        v.push(case(&[("kind", "wrongpw".into()), ("pwi", "1".into()), ("rel", "nulpad".into()), ("seed", "11".into())]));
        v.push(case(&[("kind", "wrongpw".into()), ("pwi", "5".into()), ("rel", "longhash".into()), ("seed", "12".into())]));
        // the string is exactly 84 bytes: a valid blob with bytes appended or removed (re-encoded, so the base64 itself is fine) is not a locked key
        for d in [-84i64, -17, -16, -1, 1, 2, 3, 16, 32, 84, 1000] { if th || [-16, -1, 1, 2, 3, 16].contains(&d) { v.push(case(&[("kind", "resize".into()), ("delta", d.to_string()), ("seed", rng.next().to_string())])); } }
        let blobs = if th { 3 } else { 1 };
        for b in 0..blobs {
            for bit in 0..672usize {
                let in_salt = (32..288).contains(&bit);
                if th || !in_salt || bit % 16 == 0 { v.push(case(&[("kind", "flip".into()), ("blob", b.to_string()), ("bit", bit.to_string())])); }
            }
        }
        v
    }
    fn run(&self, c: &Case, m: &mut Model) -> Outcome {
        let mut o = Outcome::default();
        let kind = get(c, "kind");
        o.tags.push(kind.to_string());
        match kind {
            "lock" | "wrongpw" => {
                let mut rng = Rng::new(get(c, "seed").parse().unwrap_or(0));
                let pws = passwords(&mut rng);
                let pw = pws[getn(c, "pwi") % pws.len()].clone();
                let sk = rng.bytes(32); let salt: [u8; 32] = rng.bytes(32).try_into().unwrap();
                let locked = Keyring::lock_private_key(&crate::imp::sk(&sk), &pw, salt);
                let s = locked.as_str().to_string();
                o.nontrivial = Some(format!("{}/{}/{}", kind, getn(c, "pwi"), get(c, "rep")));
                if kind == "lock" {
                    let ml = m.ask(&format!("lock {} {} {}", hex(&sk), hexd(&pw), hex(&salt)));
                    o.impl_obs = s.clone(); o.model_obs = ml.clone(); o.validated += 1;
                    if ml != format!("ok {}", hex(s.as_bytes())) { o.disagreement = Some("locked string differs from the model".into()); }
                    // documented format, recomputed from exported primitives
                    let key = kestrel_crypto::scrypt(&pw, &salt, 32768, 8, 1, 32);
                    let mut blob = vec![0x65u8, 0x67, 0x6b, 0x30]; blob.extend_from_slice(&salt);
                    blob.extend_from_slice(&kestrel_crypto::chapoly_encrypt_ietf(&key, &[0u8; 12], &sk, &[0x65, 0x67, 0x6b, 0x30]));
                    if Base64::encode_to_string(&blob).unwrap() != s || blob.len() != 84 || s.len() != 112 {
                        o.oracle_fail = Some(("documented-format".into(), "locked string is not base64(65676b30 || salt || ChaCha20-Poly1305(scrypt(pw,salt,32768,8,1), 0^12, ad=version, sk))".into())); return o;
                    }
                    let back = rust_unlock(&s, &pw);
                    if back != format!("ok {}", hex(&sk)) { o.oracle_fail = Some(("unlock(lock)=id".into(), format!("unlock gave {}", back))); return o; }
                    let mback = m.ask(&format!("unlock {} {}", hex(s.as_bytes()), hexd(&pw))); o.validated += 1;
                    if mback != back && o.disagreement.is_none() { o.disagreement = Some(format!("unlock: impl {} model {}", back, mback)); }
                } else {
                    let rel = get(c, "rel");
                    let wrong = other_password(&pw, rel, &mut rng);
                    let r = rust_unlock(&s, &wrong);
                    let mr = m.ask(&format!("unlock {} {}", hex(s.as_bytes()), hexd(&wrong)));
                    o.impl_obs = r.clone(); o.model_obs = mr.clone(); o.validated += 1;
                    o.tags.push(format!("wrongpw {}", rel));
                    if r != "err skdecrypt" { o.oracle_fail = Some(("other-password-rejected".into(), format!("unlock with a different password ({}: {} vs {}) gave {}", rel, hexd(&pw), hexd(&wrong), r))); }
                    else if mr != r { o.disagreement = Some(format!("impl {} model {}", r, mr)); }
                }
            }
            "text" => {
                let mut rng = Rng::new(get(c, "seed").parse().unwrap_or(0));
                let key = rng.bytes(32); let salt: [u8; 32] = rng.bytes(32).try_into().unwrap(); let pw = b"text form".to_vec();
                let sk = kestrel_crypto::PrivateKey::try_from(key.as_slice()).unwrap();
                let good = Keyring::lock_private_key(&sk, &pw, salt).as_str().to_string();
                o.nontrivial = Some(format!("text/{}", get(c, "seed")));
                if rust_unlock(&good, &pw) != format!("ok {}", hex(&key)) { o.oracle_fail = Some(("unlock(lock)=id".into(), "the locked string does not unlock to its key".into())); return o; }
                let ins = |at: usize, what: &str| { let mut t = good.clone(); t.insert_str(at.min(t.len()), what); t };
                let mut variants: Vec<(String, String)> = vec![
                    ("a blank inserted".into(), ins(40, " ")), ("a line break inserted".into(), ins(64, "\n")), ("CR LF inserted".into(), ins(76, "\r\n")), ("wrapped at 64 columns".into(), ins(64, "\n")),
                    ("a trailing blank".into(), format!("{} ", good)), ("a leading blank".into(), format!(" {}", good)), ("a trailing newline".into(), format!("{}\n", good)), ("a tab inserted".into(), ins(10, "\t")),
                    ("URL-safe alphabet".into(), good.replace('+', "-").replace('/', "_")), ("padding removed".into(), good.trim_end_matches('=').to_string()), ("one more '='".into(), format!("{}=", good)),
                    ("doubled".into(), format!("{}{}", good, good)), ("lower-cased".into(), good.to_lowercase())];
                variants.retain(|(_, t)| *t != good);
                for (what, t) in &variants {
                    let r = rust_unlock(t, &pw); let mr = m.ask(&format!("unlock {} {}", hexd(t.as_bytes()), hexd(&pw))); o.validated += 1;
                    if r.starts_with("ok") { o.oracle_fail = Some(("only-the-locked-string-unlocks".into(), format!("the locked key string with {} ({} characters instead of 112) unlocks with the password", what, t.chars().count()))); o.impl_obs = r; o.model_obs = mr; return o; }
                    if r.split(' ').next() != mr.split(' ').next() && o.disagreement.is_none() { o.disagreement = Some(format!("{}: impl {} model {}", what, r, mr)); }
                }
                // the same through the binary: extract-pub must refuse every variant that can be passed as one argument
                use crate::cli::*;
                for (what, t) in variants.iter().filter(|(_, t)| !t.starts_with('-')) {
                    let w = World { files: vec![], env: vec![("KESTREL_PASSWORD".into(), "text form".into())], stdin: vec![] };
                    let obs = run_kestrel(&w, &sv(&["key", "extract-pub", t, "--env-pass"])); o.validated += 1;
                    if obs.exit == Some(0) { o.oracle_fail = Some(("only-the-locked-string-unlocks".into(), format!("`kestrel key extract-pub` accepts the locked key string with {} and prints a public key", what))); o.impl_obs = format!("exit 0: {}", String::from_utf8_lossy(&obs.stdout).trim()); return o; }
                }
                o.impl_obs = format!("{} textual variants of a locked key refused by the library function and by the binary", variants.len()); o.model_obs = "same".into();
            }
            "cli-tamper" => {
                use crate::cli::*;
                let fx = fixtures(); let mut rng = Rng::new(get(c, "seed").parse().unwrap_or(0));
                let good = fx.alice.enc_sk.clone(); let pw = fx.alice.pw.to_string();
                o.nontrivial = Some(format!("cli-tamper/{}", get(c, "seed")));
                let blob = Base64::decode_to_vec(&good, None).unwrap();
                let mut variants: Vec<(String, String, String)> = vec![];      // (what, key string, password)
                for pos in [0usize, 3, 4 + rng.below(32), 4 + rng.below(32), 36 + rng.below(32), 36 + rng.below(32), 68 + rng.below(16), 83] { let mut b = blob.clone(); b[pos] ^= 1 << rng.below(8); variants.push((format!("bit flipped in byte {}", pos), Base64::encode_to_string(&b).unwrap(), pw.clone())); }
                variants.push(("a different password".into(), good.clone(), format!("{}x", pw)));
                variants.push(("the empty password".into(), good.clone(), String::new()));
                for (what, key, p) in &variants {
                    let x = run_kestrel(&World { files: vec![], env: vec![("KESTREL_PASSWORD".into(), p.clone())], stdin: vec![] }, &sv(&["key", "extract-pub", key, "--env-pass"])); o.validated += 1;
                    if x.exit != Some(1) || !x.stdout.is_empty() { o.oracle_fail = Some(("tamper-evident".into(), format!("`kestrel key extract-pub` on a locked key with {}: exit {:?}, printed {:?}", what, x.exit, String::from_utf8_lossy(&x.stdout).trim()))); return o; }
                    for newpw in [p.clone(), "another".to_string()] {
                        let y = run_kestrel(&World { files: vec![], env: vec![("KESTREL_PASSWORD".into(), p.clone()), ("KESTREL_NEW_PASSWORD".into(), newpw.clone())], stdin: vec![] }, &sv(&["key", "change-pass", key, "--env-pass"])); o.validated += 1;
                        if y.exit != Some(1) || !y.stdout.is_empty() { o.oracle_fail = Some(("tamper-evident".into(), format!("`kestrel key change-pass` on a locked key with {} (new password {}): exit {:?}, printed {:?} — a string that does not unlock was accepted and handed back as a good key", what, if newpw == *p { "the same as the old one" } else { "different" }, y.exit, String::from_utf8_lossy(&y.stdout).trim().chars().take(40).collect::<String>()))); return o; }
                    }
                }
                // control in the other direction: the EMPTY password is a password — a key locked under it unlocks with it, through every command
                let carol = &fx.carol; let want = format!("PublicKey = {}", carol.enc_pk);
                let x = run_kestrel(&World { files: vec![], env: vec![("KESTREL_PASSWORD".into(), "".into())], stdin: vec![] }, &sv(&["key", "extract-pub", &carol.enc_sk, "--env-pass"])); o.validated += 1;
                if x.exit != Some(0) || String::from_utf8_lossy(&x.stdout).trim() != want { o.oracle_fail = Some(("right-password-unlocks".into(), format!("a key locked under the empty password: `kestrel key extract-pub --env-pass` with KESTREL_PASSWORD set to the empty string: exit {:?} ({}), printed {:?}", x.exit, x.stderr.trim(), String::from_utf8_lossy(&x.stdout).trim()))); return o; }
                let y = run_kestrel(&World { files: vec![], env: vec![("KESTREL_PASSWORD".into(), "".into()), ("KESTREL_NEW_PASSWORD".into(), "next".into())], stdin: vec![] }, &sv(&["key", "change-pass", &carol.enc_sk, "--env-pass"])); o.validated += 1;
                if y.exit != Some(0) { o.oracle_fail = Some(("right-password-unlocks".into(), format!("a key locked under the empty password: `kestrel key change-pass --env-pass` with the empty old password: exit {:?} ({})", y.exit, y.stderr.trim()))); return o; }
                o.impl_obs = format!("{} altered keys / wrong passwords refused by extract-pub and change-pass", variants.len()); o.model_obs = "unlock fails".into();
            }
            "env-bytes" => {
                use crate::cli::*;
                let mut rng = Rng::new(get(c, "seed").parse().unwrap_or(0));
                let key = rng.bytes(32); let sk = kestrel_crypto::PrivateKey::try_from(key.as_slice()).unwrap();
                let pk = sk.to_public().unwrap(); let want = Keyring::encode_public_key(&pk).as_str().to_string();
                o.nontrivial = Some("env-bytes".into());
                // keys locked under passwords that LOOK like what a lossy conversion makes of invalid UTF-8
                for (locked_pw, tries) in [("\u{FFFD}".as_bytes().to_vec(), vec![vec![0xFFu8], vec![0xFE], vec![0xC3], vec![0xFF, 0xFF], vec![0xE2, 0x82]]), ("p\u{FFFD}".as_bytes().to_vec(), vec![vec![b'p', 0xFF], vec![b'p', 0x80]]), ("?".as_bytes().to_vec(), vec![vec![0xFF]])] {
                    let salt: [u8; 32] = rng.bytes(32).try_into().unwrap();
                    let locked = Keyring::lock_private_key(&sk, &locked_pw, salt).as_str().to_string();
                    // control: the real password, given as the variable's bytes, unlocks
                    let ok = run_kestrel_raw(&World::default(), &[b"key".to_vec(), b"extract-pub".to_vec(), locked.clone().into_bytes(), b"--env-pass".to_vec()], &[("KESTREL_PASSWORD", locked_pw.clone())]); o.validated += 1;
                    if ok.exit != Some(0) || String::from_utf8_lossy(&ok.stdout).trim().trim_start_matches("PublicKey = ") != want { o.oracle_fail = Some(("right-password-unlocks".into(), format!("extract-pub with the right password ({}) in KESTREL_PASSWORD: exit {:?} {}", hex(&locked_pw), ok.exit, ok.stderr.trim()))); return o; }
                    for t in tries {
                        let obs = run_kestrel_raw(&World::default(), &[b"key".to_vec(), b"extract-pub".to_vec(), locked.clone().into_bytes(), b"--env-pass".to_vec()], &[("KESTREL_PASSWORD", t.clone())]); o.validated += 1;
                        if obs.exit == Some(0) { o.oracle_fail = Some(("other-password-rejected".into(), format!("a key locked under the password bytes {} is unlocked by `kestrel key extract-pub --env-pass` with KESTREL_PASSWORD = bytes {} (a different byte string)", hex(&locked_pw), hex(&t)))); o.impl_obs = "exit 0".into(); return o; }
                    }
                }
                o.impl_obs = "non-UTF-8 environment passwords never unlock keys locked under their look-alikes".into(); o.model_obs = "a password is its bytes".into();
            }
            "resize" => {
                let mut rng = Rng::new(get(c, "seed").parse().unwrap_or(0));
                let d: i64 = get(c, "delta").parse().unwrap_or(1);
                let sk = rng.bytes(32); let salt: [u8; 32] = rng.bytes(32).try_into().unwrap(); let pw = b"resize-me".to_vec();
                let s = Keyring::lock_private_key(&crate::imp::sk(&sk), &pw, salt);
                let mut blob = Base64::decode_to_vec(s.as_str(), None).unwrap();
                if d > 0 { let extra = if rng.chance(1, 2) { vec![0u8; d as usize] } else { rng.bytes(d as usize) }; blob.extend_from_slice(&extra); } else { blob.truncate((84 + d) as usize); }
                let s2 = Base64::encode_to_string(&blob).unwrap();
                let r = rust_unlock(&s2, &pw);
                let mr = m.ask(&format!("unlock {} {}", if s2.is_empty() { "-".to_string() } else { hex(s2.as_bytes()) }, hex(&pw)));
                o.tags.push(format!("resize {}", if d > 0 { "longer" } else { "shorter" })); o.nontrivial = Some(format!("resize/{}", d));
                o.impl_obs = r.clone(); o.model_obs = mr.clone(); o.validated += 1;
                if r.starts_with("ok") { o.oracle_fail = Some(("exactly-84-bytes".into(), format!("a locked key of {} bytes (a valid 84-byte key {}) unlocks with the password: {}", blob.len(), if d > 0 { format!("followed by {} more bytes", d) } else { format!("cut by {} bytes", -d) }, r))); }
                else if r == "crash" { o.oracle_fail = Some(("no-panic".into(), "unlock panicked".into())); }
                else if s2.is_empty() {}
                else if r != mr { o.disagreement = Some(format!("impl {} model {}", r, mr)); }
            }
            _ => {
                let b = getn(c, "blob") as u64; let bit = getn(c, "bit");
                let mut rng = Rng::new(0xB10B + b);
                let sk = rng.bytes(32); let salt: [u8; 32] = rng.bytes(32).try_into().unwrap(); let pw = b"flip-me".to_vec();
                let s = Keyring::lock_private_key(&crate::imp::sk(&sk), &pw, salt);
                let mut blob = Base64::decode_to_vec(s.as_str(), None).unwrap();
                blob[bit / 8] ^= 1 << (bit % 8);
                let s2 = Base64::encode_to_string(&blob).unwrap();
                let r = rust_unlock(&s2, &pw);
                let mr = m.ask(&format!("unlock {} {}", hex(s2.as_bytes()), hex(&pw)));
                let region = if bit < 32 { "version" } else if bit < 288 { "salt" } else if bit < 544 { "ciphertext" } else { "tag" };
                o.tags.push(format!("flip {}", region));
                o.nontrivial = Some(format!("flip/{}/{}", b, bit));
                o.impl_obs = r.clone(); o.model_obs = mr.clone(); o.validated += 1;
                if r.starts_with("ok") { o.oracle_fail = Some(("tamper-evident".into(), format!("blob with bit {} ({}) flipped still unlocks: {}", bit, region, r))); }
                else if r == "crash" { o.oracle_fail = Some(("no-panic".into(), "unlock panicked".into())); }
                else if r != mr { o.disagreement = Some(format!("impl {} model {}", r, mr)); }
            }
        }
        o
    }
}
