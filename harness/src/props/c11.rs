//! C11 — any file size is streamed: constant memory, incremental output.
use crate::model::Model;
use crate::props::c01::pub_of;
use crate::report::*;
use crate::util::*;
use kestrel_crypto::{decrypt, encrypt, AsymFileFormat, PassFileFormat, PayloadKey};
use std::cell::Cell;
use std::io::{Read, Write};
use std::rc::Rc;

pub struct C11;

/// generates `len` pseudo-random bytes on the fly; counts read calls
struct GenSource { left: usize, state: u64, reads: Rc<Cell<usize>>, pos: Rc<Cell<usize>>, maxread: usize }
impl Read for GenSource {
    fn read(&mut self, buf: &mut [u8]) -> std::io::Result<usize> {
        self.reads.set(self.reads.get() + 1);
        // maxread == 1 is the schedule "one byte less than asked" (reads that never line up with the chunk grid)
        let k = if self.maxread == 1 { buf.len().saturating_sub(1).max(1).min(buf.len()).min(self.left) } else { buf.len().min(self.left).min(self.maxread) };
        for b in buf[..k].iter_mut() { self.state = self.state.wrapping_mul(6364136223846793005).wrapping_add(1442695040888963407); *b = (self.state >> 33) as u8; }
        self.left -= k; self.pos.set(self.pos.get() + k);
        Ok(k)
    }
}
struct SliceSource<'a> { data: &'a [u8], off: usize, pos: Rc<Cell<usize>>, reads: Rc<Cell<usize>> }
impl<'a> Read for SliceSource<'a> {
    fn read(&mut self, buf: &mut [u8]) -> std::io::Result<usize> {
        self.reads.set(self.reads.get() + 1);
        let k = buf.len().min(self.data.len() - self.off);
        buf[..k].copy_from_slice(&self.data[self.off..self.off + k]); self.off += k; self.pos.set(self.pos.get() + k); Ok(k)
    }
}
/// discards (or keeps) what is written; checks an interleaving bound at every write call
struct CheckSink<'a> { written: usize, keep: Option<&'a mut Vec<u8>>, pos: Rc<Cell<usize>>, reads: Rc<Cell<usize>>, worst: Option<String>, check: Box<dyn Fn(usize, usize, usize) -> Option<String> + 'a> }
impl<'a> Write for CheckSink<'a> {
    fn write(&mut self, buf: &[u8]) -> std::io::Result<usize> {
        if self.worst.is_none() { self.worst = (self.check)(self.written, self.pos.get(), self.reads.get()); }
        self.written += buf.len();
        if let Some(k) = self.keep.as_mut() { k.extend_from_slice(buf); }
        Ok(buf.len())
    }
    fn flush(&mut self) -> std::io::Result<()> { Ok(()) }
}

impl Prop for C11 {
    fn id(&self) -> &'static str { "C11" }
    fn rule(&self) -> String {
        "sizes {0, 1 MiB, 16 MiB, 64 MiB} quick / up to 1 GiB thorough, both modes, both directions, full and short (40000-byte) reads: plaintext comes from a generator source, output goes to a discarding sink; \
         measured with a counting allocator on the calling thread: peak live heap during the call must stay below one fixed constant (1 MiB key mode, 40 MiB password mode = scrypt arena) whatever the size; \
         at every write call: encryption — when the write that starts record i begins at most i+2 read calls have completed; decryption — the source position is at most the end of record i (+1). \
         the real binary (both modes, both directions, output to a file and to stdout): peak resident memory (measured by /usr/bin/time) for a 96 MiB (thorough 256 MiB) input may exceed that for 8 MiB by at most 16 MiB. the same binary as a pipeline stage (data on standard input, a consumer that reads nothing for 1.5 s): same bound. library: a valid message followed by 1 B .. 32 MiB (thorough 512 MiB) of further input is rejected within the same heap bound. non-trivial = distinct (mode, direction, size, read size)".into()
    }
    fn cases(&self, tier: &str, seed: u64) -> Vec<Case> {
        let th = tier == "thorough";
        let mut rng = Rng::new(seed ^ 0xC11);
        let mut v = vec![];
        let sizes: Vec<usize> = if th { vec![0, 1 << 20, 16 << 20, 64 << 20, 256 << 20, 1 << 30] } else { vec![0, 1 << 20, 16 << 20, 64 << 20] };
        for mode in ["key", "pass"] { for &sz in &sizes { for mr in [usize::MAX, 40000] {
            if mode == "pass" && sz > (64 << 20) { continue; }
            v.push(case(&[("mode", mode.into()), ("size", sz.to_string()), ("maxread", (if mr == usize::MAX { 0 } else { mr }).to_string()), ("seed", rng.next().to_string())]));
        } } }
        for &sz in &[16usize << 20, 64 << 20] { v.push(case(&[("mode", "key".into()), ("size", sz.to_string()), ("maxread", "1".into()), ("seed", rng.next().to_string())])); }
        for dir in ["decrypt", "encrypt"] { for mode in ["key", "pass"] { for out in ["stdout", "file"] { v.push(case(&[("mode", format!("cli-{}", mode)), ("dir", dir.into()), ("out", out.into()), ("size", (if th { 256usize << 20 } else { 96 << 20 }).to_string()), ("seed", rng.next().to_string())])); } } }
        // the binary in a pipeline whose consumer stalls (input on standard input, output on standard output)
        for dir in ["encrypt", "decrypt"] { for mode in ["key", "pass"] { if th || (dir == "encrypt") == (mode == "key") { v.push(case(&[("mode", format!("pipe-{}", mode)), ("dir", dir.into()), ("size", (if th { 256usize << 20 } else { 96 << 20 }).to_string()), ("seed", rng.next().to_string())])); } } }
        // the tool reading its FILE argument from a named pipe (an input whose length cannot be asked for): resident memory must not grow with what flows through
        for (dir, mode) in [("encrypt", "pass"), ("decrypt", "key")] { v.push(case(&[("mode", format!("fifo-{}", mode)), ("dir", dir.into()), ("size", (if th { 128usize << 20 } else { 64 << 20 }).to_string()), ("seed", rng.next().to_string())])); }
        // the destination stops taking data in the middle of the stream (every write from some call on fails: would-block, timed out, no space …):
        // the operation ends with the write error — it must not go on consuming input, nor keep what it cannot deliver
        for dir in ["encrypt", "decrypt"] { for mode in ["key", "pass"] { for (i, kind) in ["wouldblock", "timedout", "nospace", "brokenpipe"].iter().enumerate() { if th || (i + (dir == "encrypt") as usize + (mode == "key") as usize) % 2 == 0 {
            v.push(case(&[("mode", format!("stuck-{}", mode)), ("dir", dir.into()), ("kind", kind.to_string()), ("okcalls", (3 + 7 * i).to_string()), ("size", (16usize << 20).to_string()), ("seed", rng.next().to_string())])); } } } }
        // a complete valid message followed by a long tail: rejecting it must not cost memory in proportion to the tail
        for mode in ["key", "pass"] { for tail in (if th { vec![1usize, 1 << 20, 64 << 20, 512 << 20] } else { vec![1usize, 32 << 20] }) { v.push(case(&[("mode", format!("tail-{}", mode)), ("size", tail.to_string()), ("seed", rng.next().to_string())])); } }
        v
    }
    fn run(&self, c: &Case, _m: &mut Model) -> Outcome {
        let mut o = Outcome::default();
        if get(c, "mode").starts_with("fifo-") {
            use crate::cli::*;
            let fx = fixtures(); let keym = get(c, "mode") == "fifo-key"; let dec = get(c, "dir") == "decrypt"; let big = getn(c, "size"); let pw = "pass123";
            let mut rss = vec![];
            for size in [4usize << 20, big] {
                let plain: Vec<u8> = (0..size).map(|i| (i as u8).wrapping_mul(29).wrapping_add((i >> 13) as u8)).collect();
                let input = if !dec { plain } else if keym { crate::imp::key_encrypt(&fx.alice.sk, &fx.alice.pk, &fx.bob.pk, None, None, &plain, &crate::imp::NOSCRIPT).out } else { crate::imp::pass_encrypt(pw.as_bytes(), &[7u8; 32], &plain, &crate::imp::NOSCRIPT).out };
                let world = World { files: vec![("kr.txt".into(), keyring(&[(&fx.alice, true), (&fx.bob, true)]).into_bytes())], env: vec![("KESTREL_PASSWORD".into(), if keym { if dec { fx.bob.pw.into() } else { fx.alice.pw.into() } } else { pw.into() })], stdin: vec![] };
                let args: Vec<String> = match (keym, dec) { (true, true) => sv(&["decrypt", "in.pipe", "-t", "bob", "-k", "kr.txt", "-o", "out.bin", "--env-pass"]), (true, false) => sv(&["encrypt", "in.pipe", "-t", "bob", "-f", "alice", "-k", "kr.txt", "-o", "out.bin", "--env-pass"]),
                    (false, true) => sv(&["password", "decrypt", "in.pipe", "-o", "out.bin", "--env-pass"]), (false, false) => sv(&["password", "encrypt", "in.pipe", "-o", "out.bin", "--env-pass"]) };
                let obs = run_kestrel_wired(&world, &args, &Wiring { stdout: StdoutMode::Pipe, links: vec![], fifos: vec![("in.pipe".into(), input)] });
                if obs.exit != Some(0) { o.oracle_fail = Some(("command-succeeds".into(), format!("{:?} with the input on a named pipe ({} bytes): exit {:?} timed out = {} {}", args, size, obs.exit, obs.timed_out, obs.stderr.trim().chars().take(120).collect::<String>()))); return o; }
                rss.push(obs.peak_rss_kb);
            }
            o.validated += 2; o.nontrivial = Some(format!("{}/{}", get(c, "mode"), get(c, "dir"))); o.tags.push(format!("named-pipe input {} {}", get(c, "mode"), get(c, "dir")));
            o.impl_obs = format!("input on a named pipe: peak RSS {} KiB at 4 MiB, {} KiB at {} MiB", rss[0], rss[1], big >> 20); o.model_obs = "may differ by at most 16 MiB".into();
            if rss[0] > 0 && rss[1] > rss[0] + (16 << 10) { o.oracle_fail = Some(("constant-memory".into(), format!("kestrel {} ({} mode) reading its FILE argument from a named pipe: peak resident memory grows with the input: {} KiB for 4 MiB, {} KiB for {} MiB", get(c, "dir"), if keym { "key" } else { "password" }, rss[0], rss[1], big >> 20))); }
            return o;
        }
        if get(c, "mode").starts_with("stuck-") {
            let mut rng = Rng::new(get(c, "seed").parse().unwrap_or(0));
            let keym = get(c, "mode") == "stuck-key"; let dec = get(c, "dir") == "decrypt"; let size = getn(c, "size"); let okcalls = getn(c, "okcalls");
            let kind = match get(c, "kind") { "wouldblock" => std::io::ErrorKind::WouldBlock, "timedout" => std::io::ErrorKind::TimedOut, "nospace" => std::io::ErrorKind::StorageFull, _ => std::io::ErrorKind::BrokenPipe };
            let (s, r) = (rng.bytes(32), rng.bytes(32)); let (spk, rpk) = (pub_of(&s), pub_of(&r)); let pw = b"streaming".to_vec(); let salt: [u8; 32] = rng.bytes(32).try_into().unwrap();
            struct StuckSink { ok_calls: usize, kind: std::io::ErrorKind, pos: Rc<Cell<usize>>, pos_at_fail: Option<usize>, failed_calls: usize }
            impl Write for StuckSink {
                fn write(&mut self, buf: &[u8]) -> std::io::Result<usize> { if self.ok_calls > 0 { self.ok_calls -= 1; Ok(buf.len()) } else { if self.pos_at_fail.is_none() { self.pos_at_fail = Some(self.pos.get()); } self.failed_calls += 1; if self.failed_calls > 2_000 { panic!("the destination was offered data 2000 times after it had stopped taking any"); } Err(self.kind.into()) } }
                fn flush(&mut self) -> std::io::Result<()> { Ok(()) }
            }
            let (pos, reads) = (Rc::new(Cell::new(0usize)), Rc::new(Cell::new(0usize)));
            // the input: plaintext from a generator, or (decrypting) a ciphertext made beforehand and handed over as a slice
            let file: Vec<u8> = if dec { let plain = crate::gen::payload(rng.next(), size); if keym { crate::imp::key_encrypt(&s, &spk, &rpk, None, None, &plain, &crate::imp::NOSCRIPT).out } else { crate::imp::pass_encrypt(&pw, &salt, &plain, &crate::imp::NOSCRIPT).out } } else { vec![] };
            let mut sink = StuckSink { ok_calls: okcalls, kind, pos: pos.clone(), pos_at_fail: None, failed_calls: 0 };
            let base = kalloc::alloc::reset();
            let res: String = std::panic::catch_unwind(std::panic::AssertUnwindSafe(|| if dec {
                let mut src = SliceSource { data: &file, off: 0, pos: pos.clone(), reads: reads.clone() };
                if keym { format!("{:?}", decrypt::key_decrypt(&mut src, &mut sink, &crate::imp::sk(&r), &crate::imp::pk(&rpk), AsymFileFormat::V1).map(|_| ())) } else { format!("{:?}", decrypt::pass_decrypt(&mut src, &mut sink, &pw, PassFileFormat::V1)) }
            } else {
                let mut src = GenSource { left: size, state: rng.next(), reads: reads.clone(), pos: pos.clone(), maxread: usize::MAX };
                if keym { format!("{:?}", encrypt::key_encrypt(&mut src, &mut sink, &crate::imp::sk(&s), &crate::imp::pk(&spk), &crate::imp::pk(&rpk), None, None, None, AsymFileFormat::V1)) } else { format!("{:?}", encrypt::pass_encrypt(&mut src, &mut sink, &pw, salt, PassFileFormat::V1)) }
            })).unwrap_or_else(|_| "SPIN".to_string());
            let peak = kalloc::alloc::peak_since(base);
            o.validated += 1; o.nontrivial = Some(format!("{}/{}/{}", get(c, "mode"), get(c, "dir"), get(c, "kind"))); o.tags.push(format!("stuck sink {} {}", get(c, "dir"), get(c, "kind")));
            let at = sink.pos_at_fail.unwrap_or(0); let consumed = pos.get();
            let bound = if keym { 1 << 20 } else { 40 << 20 };
            o.impl_obs = format!("{} | input consumed {} bytes (at the first failing write: {}), {} failing write calls, peak heap {} bytes", res.chars().take(60).collect::<String>(), consumed, at, sink.failed_calls, peak);
            o.model_obs = "write error as soon as the write fails; at most three more chunks of input consumed; heap below the constant".into();
            let label = format!("{} ({} mode) of {} bytes into a sink whose writes fail with {} from call {} on", get(c, "dir"), if keym { "key" } else { "password" }, size, get(c, "kind"), okcalls + 1);
            if res == "SPIN" { o.oracle_fail = Some(("incremental-output".into(), format!("{}: the operation does not end — it offered data to the dead destination 2000 times ({} bytes of input consumed, {} at the first failing write, peak heap {} bytes)", label, consumed, at, peak))); }
            else if res.starts_with("Ok") { o.oracle_fail = Some(("write-failure-surfaces".into(), format!("{}: reported success", label))); }
            else if consumed > at + 3 * 65536 + 1024 { o.oracle_fail = Some(("incremental-output".into(), format!("{}: {} more bytes of input were consumed after the destination had stopped taking data (peak heap {} bytes)", label, consumed - at, peak))); }
            else if peak > bound { o.oracle_fail = Some(("constant-memory".into(), format!("{}: {} bytes of heap at peak (bound {})", label, peak, bound))); }
            return o;
        }
        if get(c, "mode").starts_with("tail-") {
            let mut rng = Rng::new(get(c, "seed").parse().unwrap_or(0));
            let keym = get(c, "mode") == "tail-key"; let tail = getn(c, "size");
            let (s, r) = (rng.bytes(32), rng.bytes(32)); let (spk, rpk) = (pub_of(&s), pub_of(&r)); let pw = b"streaming".to_vec();
            let plain = rng.bytes(70000);
            let file = if keym { crate::imp::key_encrypt(&s, &spk, &rpk, None, None, &plain, &crate::imp::NOSCRIPT).out } else { crate::imp::pass_encrypt(&pw, &rng.bytes(32), &plain, &crate::imp::NOSCRIPT).out };
            let (pos, reads) = (Rc::new(Cell::new(0usize)), Rc::new(Cell::new(0usize)));
            let head = SliceSource { data: &file, off: 0, pos: pos.clone(), reads: reads.clone() };
            let rest = GenSource { left: tail, state: rng.next(), reads: reads.clone(), pos: pos.clone(), maxread: usize::MAX };
            let mut src = head.chain(rest);
            let mut sink = CheckSink { written: 0, keep: None, pos: pos.clone(), reads: reads.clone(), worst: None, check: Box::new(|_, _, _| None) };
            let base = kalloc::alloc::reset();
            let ok = if keym { decrypt::key_decrypt(&mut src, &mut sink, &crate::imp::sk(&r), &crate::imp::pk(&rpk), AsymFileFormat::V1).is_ok() } else { decrypt::pass_decrypt(&mut src, &mut sink, &pw, PassFileFormat::V1).is_ok() };
            let peak = kalloc::alloc::peak_since(base);
            let bound = if keym { 1 << 20 } else { 40 << 20 };
            o.impl_obs = format!("ok={} peak_heap={} consumed={} of {}", ok, peak, pos.get(), file.len() + tail);
            o.nontrivial = Some(format!("{}/{}", get(c, "mode"), tail)); o.tags.push(format!("tail {} {}MiB", get(c, "mode"), tail >> 20));
            if ok { o.oracle_fail = Some(("trailing-data-rejected".into(), format!("a valid message followed by {} more bytes was accepted", tail))); }
            else if peak > bound { o.oracle_fail = Some(("constant-memory".into(), format!("rejecting a valid {}-byte message followed by {} more bytes used {} bytes of heap at peak (bound {}), {} bytes of input consumed", file.len(), tail, peak, bound, pos.get()))); }
            return o;
        }
        if get(c, "mode").starts_with("pipe-") {
            use crate::cli::*;
            let fx = fixtures(); let keym = get(c, "mode") == "pipe-key"; let dec = get(c, "dir") == "decrypt"; let pw = "pass123"; let big = getn(c, "size");
            let mut rss = vec![];
            for size in [8usize << 20, big] {
                let plain: Vec<u8> = (0..size).map(|i| (i as u8).wrapping_mul(31).wrapping_add((i >> 11) as u8)).collect();
                let input = if !dec { plain } else if keym { crate::imp::key_encrypt(&fx.alice.sk, &fx.alice.pk, &fx.bob.pk, None, None, &plain, &crate::imp::NOSCRIPT).out } else { crate::imp::pass_encrypt(pw.as_bytes(), &[7u8; 32], &plain, &crate::imp::NOSCRIPT).out };
                let expect_out = if dec { size } else { (if keym { 132 } else { 36 }) + 32 * size.div_ceil(65536).max(1) + size };
                let world = World { files: vec![("kr.txt".into(), keyring(&[(&fx.alice, true), (&fx.bob, true)]).into_bytes())], env: vec![("KESTREL_PASSWORD".into(), if keym { if dec { fx.bob.pw.into() } else { fx.alice.pw.into() } } else { pw.into() })], stdin: input };
                let args: Vec<String> = match (keym, dec) { (true, true) => sv(&["decrypt", "-t", "bob", "-k", "kr.txt", "--env-pass"]), (true, false) => sv(&["encrypt", "-t", "bob", "-f", "alice", "-k", "kr.txt", "--env-pass"]),
                    (false, true) => sv(&["password", "decrypt", "--env-pass"]), (false, false) => sv(&["password", "encrypt", "--env-pass"]) };
                let (obs, kb, nout) = run_kestrel_stalled_rss(&world, &args, 1500, 180);
                if !obs.stderr.contains("done") || nout != expect_out { o.oracle_fail = Some(("command-succeeds".into(), format!("{:?} in a pipeline: {} bytes out (expected {}), {}", args, nout, expect_out, obs.stderr.trim()))); return o; }
                rss.push(kb);
            }
            o.impl_obs = format!("stalled consumer: peak RSS {} KiB at 8 MiB, {} KiB at {} MiB", rss[0], rss[1], big >> 20);
            o.nontrivial = Some(format!("{}/{}", get(c, "mode"), get(c, "dir"))); o.tags.push(format!("pipeline {} {}", get(c, "mode"), get(c, "dir")));
            if rss[1] > rss[0] + (16 << 10) { o.oracle_fail = Some(("constant-memory".into(), format!("kestrel {} ({}) reading standard input while its consumer stalls for 1.5 s: peak resident memory grows with the input: {} KiB for 8 MiB, {} KiB for {} MiB", get(c, "dir"), get(c, "mode"), rss[0], rss[1], big >> 20))); }
            return o;
        }
        if get(c, "mode").starts_with("cli-") {
            // the real binary: peak resident memory must not grow with the input (8 MiB vs the big size), whether output goes to a file or to stdout
            use crate::cli::*;
            let fx = fixtures(); let keym = get(c, "mode") == "cli-key"; let dec = get(c, "dir") == "decrypt"; let to_file = get(c, "out") == "file";
            let pw = "pass123"; let big = getn(c, "size");
            let mut rss = vec![];
            for size in [8usize << 20, big] {
                let plain: Vec<u8> = (0..size).map(|i| (i as u8).wrapping_mul(31).wrapping_add((i >> 11) as u8)).collect();
                let input = if !dec { plain } else if keym { crate::imp::key_encrypt(&fx.alice.sk, &fx.alice.pk, &fx.bob.pk, None, None, &plain, &crate::imp::NOSCRIPT).out } else { crate::imp::pass_encrypt(pw.as_bytes(), &[7u8; 32], &plain, &crate::imp::NOSCRIPT).out };
                let world = World { files: vec![("in.bin".into(), input), ("kr.txt".into(), keyring(&[(&fx.alice, true), (&fx.bob, true)]).into_bytes())], env: vec![("KESTREL_PASSWORD".into(), if keym { if dec { fx.bob.pw.into() } else { fx.alice.pw.into() } } else { pw.into() })], stdin: vec![] };
                let mut args: Vec<String> = match (keym, dec) { (true, true) => sv(&["decrypt", "in.bin", "-t", "bob", "-k", "kr.txt", "--env-pass"]), (true, false) => sv(&["encrypt", "in.bin", "-t", "bob", "-f", "alice", "-k", "kr.txt", "--env-pass"]),
                    (false, true) => sv(&["password", "decrypt", "in.bin", "--env-pass"]), (false, false) => sv(&["password", "encrypt", "in.bin", "--env-pass"]) };
                if to_file { args.push("-o".into()); args.push("out.bin".into()); }
                let (obs, kb) = run_kestrel_rss(&world, &args, 120);
                if !obs.stderr.contains("done") { o.oracle_fail = Some(("command-succeeds".into(), format!("{:?}: {}", args, obs.stderr.trim()))); return o; }
                rss.push(kb);
            }
            o.impl_obs = format!("peak RSS {} KiB at 8 MiB, {} KiB at {} MiB", rss[0], rss[1], big >> 20);
            o.nontrivial = Some(format!("{}/{}/{}", get(c, "mode"), get(c, "dir"), get(c, "out"))); o.tags.push(format!("cli {} {}", get(c, "dir"), get(c, "out")));
            if rss[1] > rss[0] + (16 << 10) { o.oracle_fail = Some(("constant-memory".into(), format!("kestrel {} ({} mode, output to {}): peak resident memory grows with the input: {} KiB for 8 MiB, {} KiB for {} MiB", get(c, "dir"), get(c, "mode"), get(c, "out"), rss[0], rss[1], big >> 20))); }
            return o;
        }
        let mut rng = Rng::new(get(c, "seed").parse().unwrap_or(0));
        let size = getn(c, "size"); let maxread = if getn(c, "maxread") == 0 { usize::MAX } else { getn(c, "maxread") };
        let keym = get(c, "mode") == "key";
        let (s, r) = (rng.bytes(32), rng.bytes(32)); let (spk, rpk) = (pub_of(&s), pub_of(&r));
        let pw = b"streaming".to_vec(); let salt: [u8; 32] = rng.bytes(32).try_into().unwrap();
        let hdr = if keym { 132 } else { 36 };
        let bound = if keym { 1 << 20 } else { 40 << 20 };
        o.nontrivial = Some(format!("{}/{}/{}", get(c, "mode"), size, maxread)); o.tags.push(format!("{} {}MiB", get(c, "mode"), size >> 20));
        // ---- encrypt: generator -> kept ciphertext (allocated by the harness before the measurement; pre-sized) ----
        let csz = if maxread == 1 { 65535 } else { maxread.min(65536) };
        let expect_len = hdr + size + 32 * (if size == 0 { 1 } else { size.div_ceil(csz) });
        let mut ct: Vec<u8> = Vec::with_capacity(expect_len + 64);
        let (pos, reads) = (Rc::new(Cell::new(0usize)), Rc::new(Cell::new(0usize)));
        let rec = csz + 32;
        let peak_enc; let worst_enc;
        {
            let mut src = GenSource { left: size, state: rng.next(), reads: reads.clone(), pos: pos.clone(), maxread };
            let check = move |written: usize, _pos: usize, nreads: usize| -> Option<String> {
                if written < hdr { return if nreads > 0 { Some(format!("{} read calls before the header was written", nreads)) } else { None }; }
                let i = (written - hdr) / rec;
                if nreads > i + 2 { Some(format!("when record {} was written {} read calls had completed (more than {} chunks buffered ahead)", i, nreads, nreads - i - 1)) } else { None }
            };
            let mut sink = CheckSink { written: 0, keep: Some(&mut ct), pos: pos.clone(), reads: reads.clone(), worst: None, check: Box::new(check) };
            let base = kalloc::alloc::reset();
            let res = if keym { encrypt::key_encrypt(&mut src, &mut sink, &crate::imp::sk(&s), &crate::imp::pk(&spk), &crate::imp::pk(&rpk), None, None, None::<&PayloadKey>, AsymFileFormat::V1).is_ok() }
                      else { encrypt::pass_encrypt(&mut src, &mut sink, &pw, salt, PassFileFormat::V1).is_ok() };
            peak_enc = kalloc::alloc::peak_since(base);
            worst_enc = sink.worst.take();
            if !res { o.oracle_fail = Some(("encrypt-succeeds".into(), "error".into())); return o; }
        }
        if ct.len() != expect_len { o.oracle_fail = Some(("length-formula".into(), format!("{} bytes, expected {}", ct.len(), expect_len))); return o; }
        // ---- decrypt: slice -> discarding sink ----
        let (pos2, reads2) = (Rc::new(Cell::new(0usize)), Rc::new(Cell::new(0usize)));
        let peak_dec; let worst_dec; let total;
        {
            let mut src = SliceSource { data: &ct, off: 0, pos: pos2.clone(), reads: reads2.clone() };
            let check = move |written: usize, p: usize, _n: usize| -> Option<String> {
                let i = written / csz.max(1);
                let end = hdr + (i + 1) * rec;
                if p > end + 1 { Some(format!("when plaintext chunk {} was written the source had been read up to offset {}, past the end of its record ({})", i, p, end)) } else { None }
            };
            let mut sink = CheckSink { written: 0, keep: None, pos: pos2.clone(), reads: reads2.clone(), worst: None, check: Box::new(check) };
            let base = kalloc::alloc::reset();
            let ok = if keym { decrypt::key_decrypt(&mut src, &mut sink, &crate::imp::sk(&r), &crate::imp::pk(&rpk), AsymFileFormat::V1).is_ok() } else { decrypt::pass_decrypt(&mut src, &mut sink, &pw, PassFileFormat::V1).is_ok() };
            peak_dec = kalloc::alloc::peak_since(base);
            worst_dec = sink.worst.take(); total = sink.written;
            if !ok || total != size { o.oracle_fail = Some(("decrypt-succeeds".into(), format!("ok={} bytes={}", ok, total))); return o; }
        }
        o.impl_obs = format!("size={} enc_peak_heap={} dec_peak_heap={} reads={}", size, peak_enc, peak_dec, reads.get());
        o.tags.push(format!("enc peak {}KiB", peak_enc >> 10 >> 6 << 6)); 
        if peak_enc > bound { o.oracle_fail = Some(("constant-memory".into(), format!("encrypting {} bytes used {} bytes of heap at peak (bound {})", size, peak_enc, bound))); }
        else if peak_dec > bound { o.oracle_fail = Some(("constant-memory".into(), format!("decrypting {} bytes used {} bytes of heap at peak (bound {})", size, peak_dec, bound))); }
        else if let Some(w) = worst_enc { o.oracle_fail = Some(("incremental-output".into(), format!("encrypt: {}", w))); }
        else if let Some(w) = worst_dec { o.oracle_fail = Some(("incremental-output".into(), format!("decrypt: {}", w))); }
        o
    }
}
