//! An independent Noise_X_25519_ChaChaPoly_SHA256 *writer* (initiator side), built from the crate's public primitives and the
//! `verif` hooks, for the files no honest `key_encrypt` call can produce: handshakes with a payload that is not 32 bytes,
//! a claimed static key whose private key the writer does not have, `ss` skipped or replaced.  The honest setting is a control:
//! implementation and model must both accept it, which validates the writer itself on every run.
use crate::imp::{self, NOSCRIPT};

#[derive(Clone, Copy, PartialEq, Debug)]
pub enum Ss { Honest, Skip, Zero, SameAsEs }

pub struct Forge<'a> { pub e: &'a [u8], pub s_priv: &'a [u8], pub claimed_s: &'a [u8], pub ss: Ss, pub payload: &'a [u8] }

const NAME: &[u8] = b"Noise_X_25519_ChaChaPoly_SHA256";
pub const PROLOGUE: [u8; 4] = [0x65, 0x67, 0x6b, 0x10];

fn mix_hash(h: &mut Vec<u8>, d: &[u8]) { let mut t = h.clone(); t.extend_from_slice(d); *h = kestrel_crypto::sha256(&t); }
/// raw X25519: an all-zero result is what the function computes for a low-order point, the crate turns it into an error
fn dh(k: &[u8], u: &[u8]) -> Vec<u8> { kestrel_crypto::x25519(k, u).unwrap_or_else(|_| vec![0u8; 32]) }

/// returns (handshake message, handshake hash)
pub fn write_message(prologue: &[u8], rpk: &[u8], f: &Forge) -> (Vec<u8>, Vec<u8>) {
    let mut h = vec![0u8; 32]; h[..NAME.len()].copy_from_slice(NAME);
    let mut ck = h.clone();
    mix_hash(&mut h, prologue);
    mix_hash(&mut h, rpk);
    let epk = kestrel_crypto::x25519_derive_public(f.e).expect("ephemeral public");
    let mut msg = epk.clone(); mix_hash(&mut h, &epk);
    let es = dh(f.e, rpk);
    let (ck1, mut k) = kestrel_crypto::verif_hkdf_noise(&ck, &es); ck = ck1; let mut n = 0u64;
    let c = kestrel_crypto::verif_chapoly_noise_encrypt(&k, n, &h, f.claimed_s); n += 1;
    msg.extend_from_slice(&c); mix_hash(&mut h, &c);
    let mixed: Option<Vec<u8>> = match f.ss { Ss::Honest => Some(dh(f.s_priv, rpk)), Ss::Skip => None, Ss::Zero => Some(vec![0u8; 32]), Ss::SameAsEs => Some(es.clone()) };
    if let Some(ss) = mixed { let (ck2, k2) = kestrel_crypto::verif_hkdf_noise(&ck, &ss); ck = ck2; k = k2; n = 0; }
    let _ = ck;
    let c = kestrel_crypto::verif_chapoly_noise_encrypt(&k, n, &h, f.payload);
    msg.extend_from_slice(&c); mix_hash(&mut h, &c);
    (msg, h)
}

/// a complete key-mode file around such a handshake (the chunk stream is sealed under the file key the handshake defines)
pub fn key_file(rpk: &[u8], f: &Forge, plaintext: &[u8]) -> Vec<u8> {
    let (msg, hh) = write_message(&PROLOGUE, rpk, f);
    let fk = kestrel_crypto::hkdf_sha256(&[], f.payload, &hh, 32);
    let body = imp::enc_chunks(&fk, &[], 65536, plaintext, &NOSCRIPT).out;
    [&PROLOGUE[..], &msg, &body].concat()
}
