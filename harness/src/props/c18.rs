//! C18 — scrypt equals RFC 7914 for all parameters, in the library and across the C ABI.
use crate::model::Model;
use crate::report::*;
use crate::util::*;
use std::panic::{catch_unwind, AssertUnwindSafe};

#[allow(dead_code, clippy::missing_safety_doc)]
#[path = "/repo/src/ffi/src/lib.rs"]
mod ffi;

pub struct C18;

const GUARD: usize = 64;

/// call the exported C function in-process with guard bytes around every buffer;
/// returns (derived key, guards intact, inputs unchanged)
fn call_ffi(pw: &[u8], salt: &[u8], n: u32, r: u32, p: u32, dk_len: usize) -> (Vec<u8>, bool, bool) {
    let mut arena = vec![0xA5u8; GUARD * 4 + pw.len() + salt.len() + dk_len];
    let pw_off = GUARD; let salt_off = pw_off + pw.len() + GUARD; let dk_off = salt_off + salt.len() + GUARD;
    arena[pw_off..pw_off + pw.len()].copy_from_slice(pw);
    arena[salt_off..salt_off + salt.len()].copy_from_slice(salt);
    for b in &mut arena[dk_off..dk_off + dk_len] { *b = 0x3C; }
    let before = arena.clone();
    unsafe {
        let base = arena.as_mut_ptr();
        ffi::scrypt(base.add(pw_off), pw.len(), base.add(salt_off), salt.len(), n, r, p, base.add(dk_off), dk_len);
    }
    let dk = arena[dk_off..dk_off + dk_len].to_vec();
    let mut guards_ok = true; let mut inputs_ok = true;
    for i in 0..arena.len() {
        if i >= dk_off && i < dk_off + dk_len { continue; }
        if arena[i] != before[i] { if (i >= pw_off && i < pw_off + pw.len()) || (i >= salt_off && i < salt_off + salt.len()) { inputs_ok = false; } else { guards_ok = false; } }
    }
    (dk, guards_ok, inputs_ok)
}

/// the C-ABI function called IN PLACE: the output region overlaps the password buffer (and, when long enough, the salt) — legal for a C caller, the header
/// declares no `restrict`. Returns the memory afterwards; the inputs must have been read before anything was written.
fn call_ffi_in_place(pw: &[u8], salt: &[u8], n: u32, r: u32, p: u32, dk_len: usize) -> Vec<u8> {
    let mut arena = vec![0xA5u8; GUARD]; arena.extend_from_slice(pw); arena.extend_from_slice(salt); let need = GUARD + dk_len; if arena.len() < need { arena.resize(need, 0xA5); } arena.extend_from_slice(&[0xA5u8; GUARD]);
    unsafe { let base = arena.as_mut_ptr(); ffi::scrypt(base.add(GUARD), pw.len(), base.add(GUARD + pw.len()), salt.len(), n, r, p, base.add(GUARD), dk_len); }
    arena
}

impl Prop for C18 {
    fn id(&self) -> &'static str { "C18" }
    fn rule(&self) -> String {
        "seeded (password, salt) of lengths 0..100, N = 2^k (k in 1..12 quick / 1..15 thorough), r in 1..16, p in 1..8, dkLen in 1..200 (odd and > 32 included), \
         memory capped at 64 MiB; argument-order canaries (r != p, password != salt, all lengths different); each case: library scrypt vs Lean RFC 7914 model \
         (and vs the scrypt.rs-shaped Lean model for N <= 256), C-ABI function in-process with 64 guard bytes on each side; outputs are also handed to OpenSSL (hashlib.scrypt) by the check script. \
         non-trivial = distinct (N, r, p, dkLen, |pw|, |salt|)".into()
    }
    fn cases(&self, tier: &str, seed: u64) -> Vec<Case> {
        let thorough = tier == "thorough";
        let mut rng = Rng::new(seed ^ 0xC18);
        let mut v = vec![];
        let kmax = if thorough { 15 } else { 12 };
        let n = if thorough { 700 } else { 160 };
        for i in 0..n {
            let k = if i < kmax { i + 1 } else { rng.range(1, kmax) };
            let mut r = rng.range(1, 16); let p = rng.range(1, 8);
            while (128usize << k) * r > (64 << 20) { r = (r / 2).max(1); }
            let dk = *rng.pick(&[1usize, 2, 16, 31, 32, 33, 63, 64, 65, 100, 127, 199, 200]);
            let dk = if rng.chance(1, 3) { rng.range(1, 200) } else { dk };
            v.push(case(&[("k", k.to_string()), ("r", r.to_string()), ("p", p.to_string()), ("dk", dk.to_string()),
                ("pwlen", (*rng.pick(&[0usize, 1, 5, 63, 64, 65, 66, 100, 129])).to_string()), ("saltlen", rng.range(0, 100).to_string()),
                ("pwtail", (*rng.pick(&["", "", "nul", "nul-both"])).into()), ("seed", rng.next().to_string())]));
        }
        // the production parameters and the RFC 7914 vectors' shapes
        v.push(case(&[("k", "15".into()), ("r", "8".into()), ("p", "1".into()), ("dk", "32".into()), ("pwlen", "6".into()), ("saltlen", "16".into()), ("seed", "1".into())]));
        v.push(case(&[("k", "10".into()), ("r", "8".into()), ("p", "16".into()), ("dk", "64".into()), ("pwlen", "8".into()), ("saltlen", "4".into()), ("seed", "2".into())]));
        v
    }
    fn run(&self, c: &Case, m: &mut Model) -> Outcome {
        let mut o = Outcome::default();
        let (k, r, p, dk) = (getn(c, "k"), getn(c, "r"), getn(c, "p"), getn(c, "dk"));
        let n: u32 = 1 << k;
        let mut rng = Rng::new(get(c, "seed").parse().unwrap_or(0));
        let mut pw = rng.bytes(getn(c, "pwlen")); let salt = rng.bytes(getn(c, "saltlen"));
        // C callers hand over NUL-terminated buffers: the terminator is part of the password when the length says so
        if !pw.is_empty() && get(c, "pwtail").starts_with("nul") { let l = pw.len(); pw[l - 1] = 0; if get(c, "pwtail") == "nul-both" { pw[0] = 0; } }
        o.nontrivial = Some(format!("{}/{}/{}/{}/{}/{}", n, r, p, dk, pw.len(), salt.len()));
        o.tags.push(format!("N=2^{}", k)); o.tags.push(format!("r={}", r.min(9))); o.tags.push(format!("dk{}", if dk < 32 { "<32" } else if dk == 32 { "=32" } else { ">32" }));
        // history: right before the call under test the same thread derives a key for the NEIGHBOURING split of the same bytes
        // (password one byte shorter, that byte in front of the salt — or the other way round) and for neighbouring cost parameters;
        // the results are thrown away: scrypt is a function of (password, salt, N, r, p, dkLen), each taken on its own
        if !pw.is_empty() || !salt.is_empty() {
            let (pw2, salt2) = if !pw.is_empty() && (salt.is_empty() || rng.chance(1, 2)) { (pw[..pw.len() - 1].to_vec(), [&pw[pw.len() - 1..], &salt[..]].concat()) } else { ([&pw[..], &salt[..1]].concat(), salt[1..].to_vec()) };
            let _ = catch_unwind(AssertUnwindSafe(|| { if k >= 2 { let _ = kestrel_crypto::scrypt(&pw, &salt, n / 2, r as u32, p as u32, dk + 5); } kestrel_crypto::scrypt(&pw2, &salt2, n, r as u32, p as u32, dk + 3) }));
            o.tags.push("primed with the neighbouring (password, salt) split".into());
        }
        let lib = catch_unwind(AssertUnwindSafe(|| kestrel_crypto::scrypt(&pw, &salt, n, r as u32, p as u32, dk)));
        let lib = match lib { Ok(v) => v, Err(_) => { o.impl_obs = "crash".into(); o.oracle_fail = Some(("no-panic".into(), "library scrypt panicked on valid parameters".into())); return o; } };
        let spec = m.ask(&format!("scrypt {} {} {} {} {} {}", hexd(&pw), hexd(&salt), n, r, p, dk));
        o.impl_obs = format!("lib={}", hex(&lib));
        o.model_obs = spec.clone();
        o.validated += 1;
        if spec != format!("ok {}", hex(&lib)) {
            o.oracle_fail = Some(("scrypt=RFC7914".into(), format!("library scrypt(N={},r={},p={},dkLen={}) = {} but the RFC 7914 model gives {}", n, r, p, dk, hex(&lib), spec)));
            return o;
        }
        if k <= 8 {
            let imp = m.ask(&format!("scrypt_impl {} {} {} {} {} {}", hexd(&pw), hexd(&salt), n, r, p, dk));
            if imp != spec { o.disagreement = Some(format!("scrypt.rs-shaped model differs from the RFC model: {} vs {}", imp, spec)); }
            o.validated += 1;
        }
        if k <= 6 && r <= 4 {
            // the definitions generated from scrypt.rs by tools/rs2lean_scrypt.py, run on the same input: this is what ties the TRANSLATOR to the code
            let src = m.ask(&format!("scrypt_src {} {} {} {} {} {}", hexd(&pw), hexd(&salt), n, r, p, dk));
            if src != format!("ok {}", hex(&lib)) && o.disagreement.is_none() { o.disagreement = Some(format!("the Lean definitions translated from scrypt.rs give {} but the library gives {} (N={}, r={}, p={}, dkLen={})", src, hex(&lib), n, r, p, dk)); }
            o.validated += 1; o.tags.push("translated scrypt.rs run".into());
        }
        let f = catch_unwind(AssertUnwindSafe(|| call_ffi(&pw, &salt, n, r as u32, p as u32, dk)));
        match f {
            Err(_) => { o.oracle_fail = Some(("ffi-no-panic".into(), "C-ABI scrypt panicked".into())); }
            Ok((dkv, guards, inputs)) => {
                o.impl_obs += &format!(" ffi={} guards_intact={} inputs_intact={}", hex(&dkv), guards, inputs);
                if dkv != lib { o.oracle_fail = Some(("ffi-writes-rfc-value".into(), format!("C-ABI wrote {} into the caller's buffer, RFC value is {}", hex(&dkv), hex(&lib)))); }
                else if !guards || !inputs { o.oracle_fail = Some(("ffi-frame".into(), format!("C-ABI call modified memory outside [dk, dk+dk_len): guards intact={} inputs intact={}", guards, inputs))); }
            }
        }
        if k <= 6 && r <= 4 && o.oracle_fail.is_none() {
            // the definitions generated from src/ffi/src/lib.rs by tools/rs2lean_ffi.py, run on a flat memory laid out like the caller's buffers
            // (guard bytes, password, salt, guard bytes, output region, guard bytes): the whole memory afterwards must be what the real call leaves
            let mut mem = vec![0xa5u8; 4]; let pw_off = mem.len(); mem.extend_from_slice(&pw); let salt_off = mem.len(); mem.extend_from_slice(&salt);
            mem.extend_from_slice(&[0xa5; 4]); let dk_off = mem.len(); mem.extend(std::iter::repeat(0x5au8).take(dk)); mem.extend_from_slice(&[0xa5; 4]);
            let mut want = mem.clone(); want[dk_off..dk_off + dk].copy_from_slice(&lib);
            let src = m.ask(&format!("scrypt_ffi_src {} {} {} {} {} {} {} {} {} {}", hexd(&mem), pw_off, pw.len(), salt_off, salt.len(), n, r, p, dk_off, dk));
            if src != format!("ok {}", hex(&want)) && o.disagreement.is_none() { o.disagreement = Some(format!("the Lean definitions translated from src/ffi/src/lib.rs leave a different memory than the real call (N={}, r={}, p={}, dkLen={}): {}", n, r, p, dk, src.chars().take(160).collect::<String>())); }
            o.validated += 1; o.tags.push("translated ffi/lib.rs run".into());
        }
        if o.oracle_fail.is_none() && !pw.is_empty() && k <= 10 {
            // in place: derive into the memory that holds the password
            let got = catch_unwind(AssertUnwindSafe(|| call_ffi_in_place(&pw, &salt, n, r as u32, p as u32, dk)));
            let mut want = vec![0xA5u8; GUARD]; want.extend_from_slice(&pw); want.extend_from_slice(&salt); if want.len() < GUARD + dk { want.resize(GUARD + dk, 0xA5); } want.extend_from_slice(&[0xA5u8; GUARD]);
            want[GUARD..GUARD + dk].copy_from_slice(&lib);
            o.validated += 1; o.tags.push("C-ABI call in place (output over the password buffer)".into());
            match got { Err(_) => { o.oracle_fail = Some(("ffi-no-panic".into(), "C-ABI scrypt panicked when the output region overlaps the password".into())); }
                Ok(mem) => { if mem != want { let region = &mem[GUARD..GUARD + dk]; o.oracle_fail = Some(("ffi-writes-rfc-value".into(), format!("C-ABI call with the output region over the password buffer (N={}, r={}, p={}, dkLen={}, |pw|={}, |salt|={}): {} — the value written is {}, RFC 7914 gives {}", n, r, p, dk, pw.len(), salt.len(),
                    if region != &lib[..] { "the derived key is wrong (the inputs were overwritten before they were read)" } else { "memory outside the output region changed" }, hex(region), hex(&lib)))); } } }
        }
        // line for the OpenSSL cross-check
        o.tags.push(format!("@openssl {} {} {} {} {} {} {}", hexd(&pw), hexd(&salt), n, r, p, dk, hex(&lib)));
        o
    }
}
