//! Client for the Lean model driver (`kmodel`), one child process per worker.
use std::io::{BufRead, BufReader, Write};
use std::process::{Child, ChildStdin, ChildStdout, Command, Stdio};

pub struct Model { child: Child, inp: ChildStdin, out: BufReader<ChildStdout>, pub asked: u64 }

pub fn kmodel_path() -> String {
    std::env::var("KMODEL").unwrap_or_else(|_| "/verif/lean/.lake/build/bin/kmodel".into())
}

impl Model {
    pub fn spawn() -> Model {
        let mut child = Command::new(kmodel_path()).stdin(Stdio::piped()).stdout(Stdio::piped()).stderr(Stdio::inherit())
            .spawn().expect("cannot start kmodel");
        let inp = child.stdin.take().unwrap();
        let out = BufReader::with_capacity(1 << 20, child.stdout.take().unwrap());
        Model { child, inp, out, asked: 0 }
    }
    pub fn ask(&mut self, line: &str) -> String {
        self.asked += 1;
        self.inp.write_all(line.as_bytes()).unwrap();
        self.inp.write_all(b"\n").unwrap();
        self.inp.flush().unwrap();
        let mut s = String::new();
        self.out.read_line(&mut s).expect("kmodel died");
        if s.is_empty() { panic!("kmodel closed its output on request: {}", &line[..line.len().min(200)]); }
        s.trim_end().to_string()
    }
}
impl Drop for Model { fn drop(&mut self) { let _ = self.child.kill(); let _ = self.child.wait(); } }

/// parsed response of a stream op: `<res> out=<hex> pos=<n> reads=<n> flushes=<n> log=<..> [sender=<hex>]`
#[derive(Debug, Clone, PartialEq)]
pub struct StreamResp { pub res: String, pub out: Vec<u8>, pub pos: usize, pub reads: usize, pub flushes: usize,
    pub log: Vec<(usize, usize, usize)>, pub sender: Option<Vec<u8>> }

pub fn parse_stream(s: &str) -> StreamResp {
    let mut it = s.split(' ');
    let res = it.next().unwrap_or("").to_string();
    let mut r = StreamResp { res, out: vec![], pos: 0, reads: 0, flushes: 0, log: vec![], sender: None };
    for f in it {
        if let Some(v) = f.strip_prefix("out=") { r.out = crate::util::unhex(v); }
        else if let Some(v) = f.strip_prefix("pos=") { r.pos = v.parse().unwrap_or(0); }
        else if let Some(v) = f.strip_prefix("reads=") { r.reads = v.parse().unwrap_or(0); }
        else if let Some(v) = f.strip_prefix("flushes=") { r.flushes = v.parse().unwrap_or(0); }
        else if let Some(v) = f.strip_prefix("log=") {
            if v != "-" { for e in v.split(',') { let p: Vec<usize> = e.split(':').map(|x| x.parse().unwrap_or(0)).collect(); if p.len() == 3 { r.log.push((p[0], p[1], p[2])); } } }
        } else if let Some(v) = f.strip_prefix("sender=") { if v != "-" { r.sender = Some(crate::util::unhex(v)); } }
    }
    r
}
