//! Case runner and report (one JSON file per run, consumed by /verif/check).
use crate::model::Model;
use crate::util::*;
use std::collections::{BTreeMap, BTreeSet};
use std::sync::atomic::{AtomicUsize, Ordering};
use std::sync::Mutex;

pub type Case = BTreeMap<String, String>;

pub fn case(kv: &[(&str, String)]) -> Case { kv.iter().map(|(k, v)| (k.to_string(), v.clone())).collect() }
pub fn case_json(c: &Case) -> String { JObj(c.iter().map(|(k, v)| (k.clone(), jstr(&shorten(v)))).collect()).render() }
pub fn case_json_full(c: &Case) -> String { JObj(c.iter().map(|(k, v)| (k.clone(), jstr(v))).collect()).render() }
fn shorten(v: &str) -> String { if v.len() > 96 { format!("{}..({} chars)", &v[..48], v.len()) } else { v.to_string() } }
pub fn get<'a>(c: &'a Case, k: &str) -> &'a str { c.get(k).map(|s| s.as_str()).unwrap_or("") }
pub fn getn(c: &Case, k: &str) -> usize { get(c, k).parse().unwrap_or(0) }

#[derive(Default, Clone)]
pub struct Outcome {
    /// key identifying this case among the non-trivial ones (None = trivial by the property's rule)
    pub nontrivial: Option<String>,
    /// distribution tags (branches / error kinds / sizes hit)
    pub tags: Vec<String>,
    /// the property's own oracle failed on the implementation: (oracle name, detail)
    pub oracle_fail: Option<(String, String)>,
    /// model and implementation differ on the compared observable
    pub disagreement: Option<String>,
    pub impl_obs: String,
    pub model_obs: String,
    pub validated: u64,
}

pub trait Prop: Sync {
    fn id(&self) -> &'static str;
    fn rule(&self) -> String;
    fn cases(&self, tier: &str, seed: u64) -> Vec<Case>;
    fn run(&self, c: &Case, m: &mut Model) -> Outcome;
    /// smaller variants of a failing case to try (first that still fails wins), optional
    fn shrink(&self, _c: &Case) -> Vec<Case> { vec![] }
}

pub struct Failure { pub kind: &'static str, pub case: Case, pub name: String, pub detail: String, pub impl_obs: String, pub model_obs: String, pub shrunk_from: Option<Case> }

#[derive(Default)]
pub struct Agg {
    pub evaluations: u64,
    pub nontrivial: BTreeSet<String>,
    pub dist: BTreeMap<String, u64>,
    pub samples: Vec<String>,
    pub failures: Vec<Failure>,
    pub validated: u64,
    pub model_queries: u64,
    pub aux: Vec<String>,
}

fn fails(o: &Outcome) -> bool { o.oracle_fail.is_some() || o.disagreement.is_some() }

pub fn run_prop(p: &dyn Prop, cases: Vec<Case>, threads: usize) -> Agg {
    let agg = Mutex::new(Agg::default());
    let next = AtomicUsize::new(0);
    let n = cases.len();
    let sample_every = (n / 6).max(1);
    std::thread::scope(|sc| {
        for _ in 0..threads.min(n.max(1)) {
            sc.spawn(|| {
                let mut m = Model::spawn();
                loop {
                    let i = next.fetch_add(1, Ordering::SeqCst);
                    if i >= n { break; }
                    let c = &cases[i];
                    let o = run_case(p, c, &mut m);
                    let mut fl: Option<Failure> = None;
                    if fails(&o) {
                        let is_oracle = o.oracle_fail.is_some();
                        let do_shrink = agg.lock().unwrap().failures.iter().filter(|g| (g.kind == "oracle") == is_oracle).count() < 4;
                        // shrink: greedily accept smaller failing variants
                        let mut cur = c.clone();
                        let mut cur_o = o.clone();
                        let mut rounds = 0;
                        'outer: while do_shrink && rounds < 40 {
                            rounds += 1;
                            for cand in p.shrink(&cur) {
                                let oc = run_case(p, &cand, &mut m);
                                if fails(&oc) && oc.oracle_fail.is_some() == cur_o.oracle_fail.is_some() { cur = cand; cur_o = oc; continue 'outer; }
                            }
                            break;
                        }
                        let (kind, name, detail) = match (&cur_o.oracle_fail, &cur_o.disagreement) {
                            (Some((n, d)), _) => ("oracle", n.clone(), d.clone()),
                            (None, Some(d)) => ("correspondence", "model-vs-implementation".to_string(), d.clone()),
                            _ => unreachable!(),
                        };
                        fl = Some(Failure { kind, name, detail, impl_obs: cur_o.impl_obs.clone(), model_obs: cur_o.model_obs.clone(),
                            shrunk_from: if &cur != c { Some(c.clone()) } else { None }, case: cur });
                    }
                    let mut a = agg.lock().unwrap();
                    a.evaluations += 1;
                    a.validated += o.validated;
                    if let Some(k) = &o.nontrivial { a.nontrivial.insert(k.clone()); }
                    for t in &o.tags { if let Some(x) = t.strip_prefix('@') { a.aux.push(x.to_string()); } else { *a.dist.entry(t.clone()).or_insert(0) += 1; } }
                    if i % sample_every == 0 && a.samples.len() < 8 {
                        a.samples.push(JObj::new().raw("case", case_json(c)).s("impl", &shorten(&o.impl_obs)).s("model", &shorten(&o.model_obs)).render());
                    }
                    // keep up to 25 failures of each kind: a flood of model disagreements must not crowd out the failing inputs of the property's own oracle
                    if let Some(f) = fl { if a.failures.iter().filter(|g| g.kind == f.kind).count() < 25 { a.failures.push(f); } }
                }
                agg.lock().unwrap().model_queries += m.asked;
            });
        }
    });
    agg.into_inner().unwrap()
}

pub fn render(p: &dyn Prop, tier: &str, seed: u64, a: &Agg, wall: f64) -> String {
    let fails: Vec<String> = a.failures.iter().map(|f| {
        let mut o = JObj::new().s("kind", f.kind).s("name", &f.name).s("detail", &f.detail).raw("case", case_json_full(&f.case))
            .s("impl_observed", &f.impl_obs).s("model_observed", &f.model_obs);
        if let Some(s) = &f.shrunk_from { o = o.raw("shrunk_from", case_json_full(s)); }
        o.render()
    }).collect();
    JObj::new().s("property", p.id()).s("tier", tier).n("seed", seed).n("evaluations", a.evaluations)
        .n("distinct_nontrivial", a.nontrivial.len() as u64).s("rule", &p.rule()).raw("distribution", jmap(&a.dist))
        .raw("samples", jarr(&a.samples)).n("traces_validated_against_impl", a.validated).n("model_queries", a.model_queries)
        .raw("aux", jarr(&a.aux.iter().map(|x| jstr(x)).collect::<Vec<_>>())).raw("failures", jarr(&fails)).raw("wall_s", format!("{:.2}", wall)).render()
}

/// one case, plus the check every property shares: the implementation is a function of its inputs — the same call, made twice on the
/// same thread after different related calls, gives the same result (see `imp`: history priming)
pub fn run_case(p: &dyn Prop, c: &Case, m: &mut crate::model::Model) -> Outcome {
    let _ = crate::imp::take_instability();
    let _ = crate::cli::take_src_diff();
    let _ = crate::imp::take_setup_failure();
    let mut o = p.run(c, m);
    if let Some(d) = crate::imp::take_instability() {
        if o.oracle_fail.is_none() { o.oracle_fail = Some(("same-call-same-result".into(), d)); }
    }
    if let Some((name, d)) = crate::imp::take_setup_failure() {
        // (part of C19 — public-key derivation equals multiplication of the base point, for all scalars; elsewhere the case goes on with scalar * base point)
        if p.id() == "C19" && o.oracle_fail.is_none() { o.oracle_fail = Some((name, d)); }
    }
    if let Some(d) = crate::cli::take_src_diff() {
        if o.disagreement.is_none() { o.disagreement = Some(d); }
    }
    o
}
