//! kharness: correspondence / oracle driver.  `kharness <Cxx> <quick|thorough> <seed> <out.json>`
//! or `kharness replay <Cxx> <case.json-as-k=v-lines-file>`.
mod cli;
#[allow(dead_code)]
#[path = "/repo/src/cli/src/errors.rs"]
mod errors;
mod gen;
mod imp;
#[allow(dead_code)]
#[path = "/repo/src/cli/src/keyring.rs"]
mod keyring;
mod model;
mod props;
mod report;
mod sio;
mod util;

use report::*;

#[global_allocator]
static GLOBAL: kalloc::alloc::Counting = kalloc::alloc::Counting;

fn prop_by_id(id: &str) -> Option<Box<dyn Prop>> {
    match id {
        "C01" => Some(Box::new(props::c01::C01)),
        "C19" => Some(Box::new(props::c19::C19)),
        "C02" => Some(Box::new(props::c02::C02)),
        "C05" => Some(Box::new(props::c05::C05)),
        "C03" => Some(Box::new(props::c03::C03)),
        "C04" => Some(Box::new(props::c03::C04)),
        "C06" => Some(Box::new(props::c06::C06)),
        "C07" => Some(Box::new(props::c07::C07)),
        "C08" => Some(Box::new(props::c08::C08)),
        "C11" => Some(Box::new(props::c11::C11)),
        "C20" => Some(Box::new(props::c20::C20)),
        "C09" => Some(Box::new(props::c09::C09)),
        "C10" => Some(Box::new(props::c10::C10)),
        "C12" => Some(Box::new(props::c12::C12)),
        "C13" => Some(Box::new(props::c13::C13)),
        "C14" => Some(Box::new(props::c14::C14)),
        "C16" => Some(Box::new(props::c16::C16)),
        "C15" => Some(Box::new(props::c15::C15)),
        "C17" => Some(Box::new(props::c17::C17)),
        "C18" => Some(Box::new(props::c18::C18)),
        _ => None,
    }
}

fn main() {
    // panics inside the implementation are caught and classified; keep stderr quiet
    std::panic::set_hook(Box::new(|_| {}));
    let args: Vec<String> = std::env::args().collect();
    if args.len() >= 4 && args[1] == "replay" {
        let p = prop_by_id(&args[2]).expect("unknown property");
        let text = std::fs::read_to_string(&args[3]).expect("replay case file");
        let c: Case = text.lines().filter_map(|l| l.split_once('=')).map(|(k, v)| (k.to_string(), v.to_string())).collect();
        let mut m = model::Model::spawn();
        let o = report::run_case(p.as_ref(), &c, &mut m);
        println!("case: {}", case_json_full(&c));
        println!("impl:  {}", o.impl_obs);
        println!("model: {}", o.model_obs);
        match (&o.oracle_fail, &o.disagreement) {
            (Some((n, d)), _) => { println!("verdict: ORACLE FAILURE {}: {}", n, d); std::process::exit(1); }
            (None, Some(d)) => { println!("verdict: MODEL/IMPLEMENTATION DISAGREE: {}", d); std::process::exit(1); }
            _ => println!("verdict: holds on this case"),
        }
        return;
    }
    if args.len() < 5 { eprintln!("usage: kharness <Cxx> <quick|thorough> <seed> <out.json>"); std::process::exit(2); }
    let p = prop_by_id(&args[1]).unwrap_or_else(|| { eprintln!("unknown property {}", args[1]); std::process::exit(2) });
    let tier = args[2].as_str();
    let seed: u64 = args[3].parse().unwrap_or(1);
    let t0 = std::time::Instant::now();
    let cases = p.cases(tier, seed);
    let threads = std::env::var("VERIF_THREADS").ok().and_then(|x| x.parse().ok()).unwrap_or(16);
    let agg = run_prop(p.as_ref(), cases, threads);
    let js = render(p.as_ref(), tier, seed, &agg, t0.elapsed().as_secs_f64());
    std::fs::write(&args[4], js).expect("write report");
    println!("{} {}: {} cases, {} non-trivial, {} failures, {:.1}s", args[1], tier, agg.evaluations, agg.nontrivial.len(), agg.failures.len(), t0.elapsed().as_secs_f64());
}
