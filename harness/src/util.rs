//! Small shared helpers: SplitMix64, hex, JSON string building.
use std::collections::BTreeMap;

#[derive(Clone)]
pub struct Rng(pub u64);
impl Rng {
    pub fn new(seed: u64) -> Self { Rng(seed ^ 0x9E3779B97F4A7C15) }
    pub fn next(&mut self) -> u64 {
        self.0 = self.0.wrapping_add(0x9E3779B97F4A7C15);
        let mut z = self.0;
        z = (z ^ (z >> 30)).wrapping_mul(0xBF58476D1CE4E5B9);
        z = (z ^ (z >> 27)).wrapping_mul(0x94D049BB133111EB);
        z ^ (z >> 31)
    }
    pub fn below(&mut self, n: usize) -> usize { if n == 0 { 0 } else { (self.next() % n as u64) as usize } }
    pub fn range(&mut self, lo: usize, hi: usize) -> usize { lo + self.below(hi - lo + 1) }
    pub fn bytes(&mut self, n: usize) -> Vec<u8> {
        let mut v = Vec::with_capacity(n);
        while v.len() < n { let x = self.next().to_le_bytes(); let k = (n - v.len()).min(8); v.extend_from_slice(&x[..k]); }
        v
    }
    pub fn chance(&mut self, num: usize, den: usize) -> bool { self.below(den) < num }
    pub fn pick<'a, T>(&mut self, xs: &'a [T]) -> &'a T { &xs[self.below(xs.len())] }
    /// derive an independent stream
    pub fn fork(&mut self, tag: u64) -> Rng { Rng::new(self.next() ^ tag.wrapping_mul(0xD6E8FEB86659FD93)) }
}

pub fn hex(b: &[u8]) -> String {
    const T: &[u8; 16] = b"0123456789abcdef";
    let mut s = String::with_capacity(b.len() * 2);
    for &x in b { s.push(T[(x >> 4) as usize] as char); s.push(T[(x & 15) as usize] as char); }
    s
}
pub fn hexd(b: &[u8]) -> String { if b.is_empty() { "-".into() } else { hex(b) } }
pub fn unhex(s: &str) -> Vec<u8> {
    if s == "-" { return vec![]; }
    let b = s.as_bytes();
    let v = |c: u8| -> u8 { match c { b'0'..=b'9' => c - 48, b'a'..=b'f' => c - 87, b'A'..=b'F' => c - 55, _ => 0 } };
    (0..b.len() / 2).map(|i| v(b[2 * i]) * 16 + v(b[2 * i + 1])).collect()
}

pub fn jstr(s: &str) -> String {
    let mut o = String::with_capacity(s.len() + 2);
    o.push('"');
    for c in s.chars() {
        match c {
            '"' => o.push_str("\\\""), '\\' => o.push_str("\\\\"), '\n' => o.push_str("\\n"), '\r' => o.push_str("\\r"),
            '\t' => o.push_str("\\t"), c if (c as u32) < 0x20 => o.push_str(&format!("\\u{:04x}", c as u32)), c => o.push(c),
        }
    }
    o.push('"');
    o
}

/// A tiny JSON object builder (values are already-rendered JSON).
#[derive(Default, Clone)]
pub struct JObj(pub Vec<(String, String)>);
impl JObj {
    pub fn new() -> Self { JObj(vec![]) }
    pub fn s(mut self, k: &str, v: &str) -> Self { self.0.push((k.into(), jstr(v))); self }
    pub fn n(mut self, k: &str, v: u64) -> Self { self.0.push((k.into(), v.to_string())); self }
    pub fn raw(mut self, k: &str, v: String) -> Self { self.0.push((k.into(), v)); self }
    pub fn b(mut self, k: &str, v: bool) -> Self { self.0.push((k.into(), v.to_string())); self }
    pub fn render(&self) -> String {
        let parts: Vec<String> = self.0.iter().map(|(k, v)| format!("{}:{}", jstr(k), v)).collect();
        format!("{{{}}}", parts.join(","))
    }
}
pub fn jarr(items: &[String]) -> String { format!("[{}]", items.join(",")) }
pub fn jmap(m: &BTreeMap<String, u64>) -> String {
    let parts: Vec<String> = m.iter().map(|(k, v)| format!("{}:{}", jstr(k), v)).collect();
    format!("{{{}}}", parts.join(","))
}

/// short printable preview of a byte string for samples
pub fn preview(b: &[u8]) -> String {
    if b.len() <= 24 { hexd(b) } else { format!("{}..({} bytes)", hex(&b[..12]), b.len()) }
}
