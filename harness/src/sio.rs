//! Scripted `Read`/`Write` objects with exactly the semantics of `Src`/`Snk` in the Lean model (IO.lean).
use std::cell::{Cell, RefCell};
use std::collections::VecDeque;
use std::io::{self, ErrorKind, Read, Write};
use std::rc::Rc;

#[derive(Clone, Copy, Debug, PartialEq)]
pub enum RdEv { Data(usize), ErrOther, ErrInterrupted }
#[derive(Clone, Copy, Debug, PartialEq)]
pub enum WrEv { Accept(usize), ErrOther, ErrInterrupted }
#[derive(Clone, Copy, Debug, PartialEq)]
pub enum FlEv { Ok, ErrOther, ErrInterrupted }

pub fn rd_script(s: &[RdEv]) -> String {
    if s.is_empty() { return "-".into(); }
    s.iter().map(|e| match e { RdEv::Data(n) => format!("d{}", n), RdEv::ErrOther => "eo".into(), RdEv::ErrInterrupted => "ei".into() }).collect::<Vec<_>>().join(",")
}
pub fn wr_script(s: &[WrEv]) -> String {
    if s.is_empty() { return "-".into(); }
    s.iter().map(|e| match e { WrEv::Accept(n) => format!("a{}", n), WrEv::ErrOther => "eo".into(), WrEv::ErrInterrupted => "ei".into() }).collect::<Vec<_>>().join(",")
}
pub fn fl_script(s: &[FlEv]) -> String {
    if s.is_empty() { return "-".into(); }
    s.iter().map(|e| match e { FlEv::Ok => "ok".to_string(), FlEv::ErrOther => "eo".into(), FlEv::ErrInterrupted => "ei".into() }).collect::<Vec<_>>().join(",")
}

#[derive(Default)]
pub struct Shared { pub pos: Cell<usize>, pub nreads: Cell<usize> }

pub struct SReader { pub data: Vec<u8>, pub off: usize, pub script: VecDeque<RdEv>, pub sh: Rc<Shared> }
impl SReader {
    pub fn new(data: &[u8], script: &[RdEv], sh: Rc<Shared>) -> Self { SReader { data: data.to_vec(), off: 0, script: script.iter().cloned().collect(), sh } }
}
impl Read for SReader {
    fn read(&mut self, buf: &mut [u8]) -> io::Result<usize> {
        self.sh.nreads.set(self.sh.nreads.get() + 1);
        let rem = self.data.len() - self.off;
        let k = match self.script.pop_front() {
            None => buf.len().min(rem),
            Some(RdEv::Data(n)) => n.min(buf.len()).min(rem),
            Some(RdEv::ErrOther) => return Err(io::Error::new(other_kind(self.sh.nreads.get() + self.data.len()), "scripted read error")),
            Some(RdEv::ErrInterrupted) => return Err(io::Error::new(ErrorKind::Interrupted, "scripted interruption")),
        };
        buf[..k].copy_from_slice(&self.data[self.off..self.off + k]);
        self.off += k;
        self.sh.pos.set(self.sh.pos.get() + k);
        Ok(k)
    }
}

#[derive(Default)]
pub struct SinkState { pub out: Vec<u8>, pub log: Vec<(usize, usize, usize)>, pub flushes: usize, pub write_calls: usize }

pub struct SWriter { pub ws: VecDeque<WrEv>, pub fs: VecDeque<FlEv>, pub st: Rc<RefCell<SinkState>>, pub sh: Rc<Shared> }
impl SWriter {
    pub fn new(ws: &[WrEv], fs: &[FlEv], sh: Rc<Shared>) -> (Self, Rc<RefCell<SinkState>>) {
        let st = Rc::new(RefCell::new(SinkState::default()));
        (SWriter { ws: ws.iter().cloned().collect(), fs: fs.iter().cloned().collect(), st: st.clone(), sh }, st)
    }
}
impl Write for SWriter {
    fn write(&mut self, buf: &[u8]) -> io::Result<usize> {
        let mut st = self.st.borrow_mut();
        st.write_calls += 1;
        let m = match self.ws.pop_front() {
            None => buf.len(),
            Some(WrEv::Accept(n)) => n.min(buf.len()),
            Some(WrEv::ErrOther) => return Err(io::Error::new(other_kind(st.write_calls + st.out.len()), "scripted write error")),
            Some(WrEv::ErrInterrupted) => return Err(io::Error::new(ErrorKind::Interrupted, "scripted interruption")),
        };
        st.out.extend_from_slice(&buf[..m]);
        st.log.push((self.sh.pos.get(), self.sh.nreads.get(), m));
        Ok(m)
    }
    fn flush(&mut self) -> io::Result<()> {
        match self.fs.pop_front() {
            None | Some(FlEv::Ok) => { self.st.borrow_mut().flushes += 1; Ok(()) }
            Some(FlEv::ErrOther) => Err(io::Error::new(other_kind(self.st.borrow().flushes + self.fs.len()), "scripted flush error")),
            Some(FlEv::ErrInterrupted) => Err(io::Error::new(ErrorKind::Interrupted, "scripted interruption")),
        }
    }
}

/// a read script that partitions `len` bytes into the given piece sizes (then EOF behaviour is the default)
pub fn reads_of(parts: &[usize]) -> Vec<RdEv> { parts.iter().map(|&n| RdEv::Data(n)).collect() }

/// "an error other than Interrupted": std's read_exact / write_all retry on Interrupted only, so every other kind is the same
/// event for the model (`eo`).  The kind is a fixed function of where in the run the fault happens, so that no single kind
/// (WouldBlock, BrokenPipe, TimedOut, …) gets special treatment unnoticed and a failing case replays exactly.
fn other_kind(n: usize) -> ErrorKind {
    const KINDS: [ErrorKind; 8] = [ErrorKind::Other, ErrorKind::WouldBlock, ErrorKind::BrokenPipe, ErrorKind::TimedOut, ErrorKind::ConnectionReset,
        ErrorKind::PermissionDenied, ErrorKind::UnexpectedEof, ErrorKind::WriteZero];
    KINDS[n % KINDS.len()]
}
