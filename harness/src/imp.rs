//! The implementation under test, wrapped so that its observables have the same shape as the model's.
use crate::model::StreamResp;
use crate::sio::*;
use kestrel_crypto::errors::{DecryptError, EncryptError};
use kestrel_crypto::{decrypt, encrypt, AsymFileFormat, PassFileFormat, PayloadKey, PrivateKey, PublicKey};
use std::panic::{catch_unwind, AssertUnwindSafe};
use std::rc::Rc;

pub fn enc_class(e: &EncryptError) -> &'static str {
    match e { EncryptError::UnexpectedData => "unexpected", EncryptError::IORead(_) => "ioread", EncryptError::IOWrite(_) => "iowrite", EncryptError::Other(_) => "other" }
}
pub fn dec_class(e: &DecryptError) -> &'static str {
    match e { DecryptError::ChunkLen => "chunklen", DecryptError::ChaPolyDecrypt => "auth", DecryptError::UnexpectedData => "unexpected",
        DecryptError::IORead(_) => "ioread", DecryptError::IOWrite(_) => "iowrite", DecryptError::Other(_) => "other" }
}
/// the model distinguishes a bad magic (`format`) from other header errors; the code reports both as `Other`
pub fn canon(res: &str) -> &str { if res == "format" { "other" } else { res } }

pub struct Scripts<'a> { pub rs: &'a [RdEv], pub ws: &'a [WrEv], pub fs: &'a [FlEv] }
pub const NOSCRIPT: Scripts<'static> = Scripts { rs: &[], ws: &[], fs: &[] };

fn finish(res: String, sh: &Rc<Shared>, st: &Rc<std::cell::RefCell<SinkState>>, sender: Option<Vec<u8>>) -> StreamResp {
    let s = st.borrow();
    StreamResp { res, out: s.out.clone(), pos: sh.pos.get(), reads: sh.nreads.get(), flushes: s.flushes, log: s.log.clone(), sender }
}

fn guarded<F: FnOnce() -> String>(f: F) -> String {
    match catch_unwind(AssertUnwindSafe(f)) { Ok(s) => s, Err(_) => "crash".to_string() }
}

pub fn enc_chunks(key: &[u8], aad: &[u8], cs: u32, data: &[u8], sc: &Scripts) -> StreamResp {
    let sh = Rc::new(Shared::default());
    let mut r = SReader::new(data, sc.rs, sh.clone());
    let (mut w, st) = SWriter::new(sc.ws, sc.fs, sh.clone());
    let res = guarded(|| match encrypt::verif_encrypt_chunks(&mut r, &mut w, key, aad, cs) { Ok(()) => "ok".into(), Err(e) => enc_class(&e).into() });
    finish(res, &sh, &st, None)
}

pub fn dec_chunks(key: &[u8], aad: &[u8], cs: u32, data: &[u8], sc: &Scripts) -> StreamResp {
    let sh = Rc::new(Shared::default());
    let mut r = SReader::new(data, sc.rs, sh.clone());
    let (mut w, st) = SWriter::new(sc.ws, sc.fs, sh.clone());
    let res = guarded(|| match decrypt::verif_decrypt_chunks(&mut r, &mut w, key, aad, cs) { Ok(()) => "ok".into(), Err(e) => dec_class(&e).into() });
    finish(res, &sh, &st, None)
}

pub fn sk(b: &[u8]) -> PrivateKey { PrivateKey::try_from(b).expect("32-byte private key") }
pub fn pk(b: &[u8]) -> PublicKey { PublicKey::try_from(b).expect("32-byte public key") }

#[allow(clippy::too_many_arguments)]
pub fn key_encrypt(s: &[u8], spk: &[u8], rs: &[u8], e: Option<(&[u8], &[u8])>, payload: Option<&[u8]>, data: &[u8], sc: &Scripts) -> StreamResp {
    if priming_on() && s.len() == 32 && rs.len() == 32 {
        let turn = PRIMED.with(|p| { p.set(p.get() + 1); p.get() });
        // three related operations precede the call under test, in rotating order so that each of them is the LAST one before it in a
        // third of the calls (state left behind by a failure, or by a success for another peer, must not be consumed by the next priming call):
        //  - an attempt that FAILS (a low-order recipient key: the handshake is refused half-way),
        //  - this sender writing to another recipient,
        //  - another sender writing to the same recipient.
        let (os, op) = outsider();
        for k in 0..3u64 {
            match (turn + k) % 3 {
                0 => { let _ = guarded(|| { let a = sk(s); let ap = pk(spk); let r = pk(&[0u8; 32]); let mut src: &[u8] = b"priming"; let mut sink = std::io::sink();
                    let _ = encrypt::key_encrypt(&mut src, &mut sink, &a, &ap, &r, None, None, None, AsymFileFormat::V1); "".into() }); }
                1 => { if os != s { let _ = guarded(|| { let a = sk(s); let ap = pk(spk); let r = pk(&op); let mut src: &[u8] = b"priming"; let mut sink = std::io::sink();
                    let _ = encrypt::key_encrypt(&mut src, &mut sink, &a, &ap, &r, None, None, None, AsymFileFormat::V1); "".into() }); } }
                _ => { if os != s { let _ = guarded(|| { let a = sk(&os); let ap = pk(&op); let r = pk(rs); let mut src: &[u8] = b"priming"; let mut sink = std::io::sink();
                    let _ = encrypt::key_encrypt(&mut src, &mut sink, &a, &ap, &r, None, None, None, AsymFileFormat::V1); "".into() }); } }
            }
        }
    }
    let sh = Rc::new(Shared::default());
    let mut r = SReader::new(data, sc.rs, sh.clone());
    let (mut w, st) = SWriter::new(sc.ws, sc.fs, sh.clone());
    let res = guarded(|| {
        let s = sk(s); let spk = pk(spk); let rs = pk(rs);
        let ep = e.map(|(a, b)| (sk(a), pk(b)));
        let pl = payload.map(PayloadKey::new);
        match encrypt::key_encrypt(&mut r, &mut w, &s, &spk, &rs, ep.as_ref().map(|x| &x.0), ep.as_ref().map(|x| &x.1), pl.as_ref(), AsymFileFormat::V1) {
            Ok(()) => "ok".into(), Err(e) => enc_class(&e).into() }
    });
    let resp = finish(res, &sh, &st, None);
    if resp.res == "ok" && resp.out.len() <= (1 << 20) { RECENT_ENC.with(|l| *l.borrow_mut() = Some((rs.to_vec(), resp.out.clone()))); }
    resp
}

// ---- history priming -----------------------------------------------------------------------------------------
// The properties quantify over single operations, but an implementation may carry hidden state from one call to the
// next (a memo of the last derived key, a pool of random bytes, a cache keyed by part of its inputs).  Every public
// entry point is therefore exercised *in a context*: right before the call under test the same thread performs related
// operations whose results are thrown away — the same input under another key / password, and the last input this
// thread saw accepted, under its own key / password.  For a stateless implementation (which is what the Lean model
// says the code is) this changes nothing.
thread_local! {
    static LG_KEY: std::cell::RefCell<Option<(Vec<u8>, Vec<u8>, Vec<u8>)>> = const { std::cell::RefCell::new(None) };
    static LG_PASS: std::cell::RefCell<Option<(Vec<u8>, Vec<u8>)>> = const { std::cell::RefCell::new(None) };
    static PRIMED: std::cell::Cell<u64> = const { std::cell::Cell::new(0) };
}
thread_local! {
    static KNOWN: std::cell::RefCell<Vec<(Vec<u8>, Vec<u8>)>> = const { std::cell::RefCell::new(Vec::new()) };        // (public, private) pairs the harness derived
    static RECENT_ENC: std::cell::RefCell<Option<(Vec<u8>, Vec<u8>)>> = const { std::cell::RefCell::new(None) };     // (recipient public key, file) of the last successful key_encrypt
}
// the harness derived `pk` from `sk`: remembered so that a file can be opened by its rightful recipient before somebody else tries
thread_local! { static INSTABILITY: std::cell::RefCell<Option<String>> = const { std::cell::RefCell::new(None) }; }
pub fn take_instability() -> Option<String> { INSTABILITY.with(|i| i.borrow_mut().take()) }
// something every property relies on failed while a case was being set up (e.g. deriving the public key of a random private key): (oracle, detail)
thread_local! { static SETUP_FAIL: std::cell::RefCell<Option<(String, String)>> = const { std::cell::RefCell::new(None) }; }
pub fn take_setup_failure() -> Option<(String, String)> { SETUP_FAIL.with(|i| i.borrow_mut().take()) }
pub fn note_setup_failure(oracle: &str, detail: String) { SETUP_FAIL.with(|i| { let mut i = i.borrow_mut(); if i.is_none() { *i = Some((oracle.to_string(), detail)); } }); }
fn note_instability(what: &str, a: &StreamResp, b: &StreamResp) {
    if a.res != b.res || a.out != b.out || a.sender != b.sender {
        INSTABILITY.with(|i| { let mut i = i.borrow_mut(); if i.is_none() { *i = Some(format!("{}: the same call on the same thread gave `{}` ({} bytes out) after one sequence of related calls and `{}` ({} bytes out) after another — the result depends on what the thread did before", what, a.res, a.out.len(), b.res, b.out.len())); } });
    }
}
pub fn learn_keypair(sk_: &[u8], pk_: &[u8]) { KNOWN.with(|k| { let mut k = k.borrow_mut(); if !k.iter().any(|(p, _)| p == pk_) { if k.len() >= 64 { k.remove(0); } k.push((pk_.to_vec(), sk_.to_vec())); } }); }
fn private_of(pk_: &[u8]) -> Option<Vec<u8>> { KNOWN.with(|k| k.borrow().iter().find(|(p, _)| p == pk_).map(|(_, s)| s.clone())) }
fn priming_on() -> bool { std::env::var("VERIF_NO_PRIMING").is_err() }

fn raw_key_decrypt(r_: &[u8], rpk: &[u8], data: &[u8]) -> bool {
    guarded(|| {
        let rk = sk(r_); let rp = pk(rpk);
        let mut src = data; let mut sink = std::io::sink();
        match decrypt::key_decrypt(&mut src, &mut sink, &rk, &rp, AsymFileFormat::V1) { Ok(_) => "ok".into(), Err(_) => "err".into() }
    }) == "ok"
}
fn raw_pass_decrypt(pw: &[u8], data: &[u8]) -> bool {
    guarded(|| { let mut src = data; let mut sink = std::io::sink();
        match decrypt::pass_decrypt(&mut src, &mut sink, pw, PassFileFormat::V1) { Ok(()) => "ok".into(), Err(_) => "err".into() } }) == "ok"
}
/// a fixed key pair nobody else uses (private key bytes 0x42.., clamped by X25519 itself)
fn outsider() -> (Vec<u8>, Vec<u8>) {
    let s = vec![0x42u8; 32];
    let p = sk(&s).to_public().map(|p| p.as_bytes().to_vec()).unwrap_or_else(|_| vec![9u8; 32]);
    (s, p)
}

fn prime_key_decrypt(r_: &[u8], rpk: &[u8], data: &[u8], order: u64) {
    let (os, op) = outsider();
    let lg = LG_KEY.with(|l| l.borrow().clone());
    // a failing attempt on the same input (an outsider's key) and the last file this thread saw accepted, in the given order
    for k in 0..2u64 {
        if (order + k) % 2 == 0 { if os != r_ { let _ = raw_key_decrypt(&os, &op, data); } }
        else if let Some((r0, p0, f0)) = &lg { if !(r0 == r_ && f0 == data) && f0.len() <= (1 << 20) { let _ = raw_key_decrypt(r0, p0, f0); } }
    }
    // if this very file was just produced for a recipient whose private key the harness holds, and somebody else is about to try it:
    // the rightful recipient opens it first
    let rec = RECENT_ENC.with(|l| l.borrow().clone());
    if let Some((rpub, f)) = rec { if f == data && rpub != rpk { if let Some(rsk) = private_of(&rpub) { if rsk != r_ { let _ = raw_key_decrypt(&rsk, &rpub, data); } } } }
}

pub fn key_decrypt(r_: &[u8], rpk: &[u8], data: &[u8], sc: &Scripts) -> StreamResp {
    let plain = sc.rs.is_empty() && sc.ws.is_empty() && sc.fs.is_empty();
    let on = priming_on() && r_.len() == 32 && rpk.len() == 32;
    let turn = PRIMED.with(|p| { p.set(p.get() + 1); p.get() });
    if on { prime_key_decrypt(r_, rpk, data, turn); }
    let mut resp = key_decrypt_inner(r_, rpk, data, sc);
    if on && plain && data.len() <= (1 << 20) {
        // once more after the related calls in the other order: the answer must be the same
        prime_key_decrypt(r_, rpk, data, turn + 1);
        let again = key_decrypt_inner(r_, rpk, data, sc);
        note_instability("key_decrypt", &resp, &again);
        resp = again;
    }
    if resp.res == "ok" && data.len() <= (1 << 20) { LG_KEY.with(|l| *l.borrow_mut() = Some((r_.to_vec(), rpk.to_vec(), data.to_vec()))); }
    resp
}

fn key_decrypt_inner(r_: &[u8], rpk: &[u8], data: &[u8], sc: &Scripts) -> StreamResp {
    let sh = Rc::new(Shared::default());
    let mut r = SReader::new(data, sc.rs, sh.clone());
    let (mut w, st) = SWriter::new(sc.ws, sc.fs, sh.clone());
    let mut sender = None;
    let res = guarded(|| {
        let rk = sk(r_); let rp = pk(rpk);
        match decrypt::key_decrypt(&mut r, &mut w, &rk, &rp, AsymFileFormat::V1) {
            Ok(p) => { sender = Some(p.as_bytes().to_vec()); "ok".into() } Err(e) => dec_class(&e).into() }
    });
    finish(res, &sh, &st, sender)
}

pub fn pass_encrypt(pw: &[u8], salt: &[u8], data: &[u8], sc: &Scripts) -> StreamResp {
    let sh = Rc::new(Shared::default());
    let mut r = SReader::new(data, sc.rs, sh.clone());
    let (mut w, st) = SWriter::new(sc.ws, sc.fs, sh.clone());
    let res = guarded(|| {
        let salt: [u8; 32] = salt.try_into().expect("32-byte salt");
        match encrypt::pass_encrypt(&mut r, &mut w, pw, salt, PassFileFormat::V1) { Ok(()) => "ok".into(), Err(e) => enc_class(&e).into() }
    });
    let resp = finish(res, &sh, &st, None);
    if resp.res == "ok" && resp.out.len() <= (1 << 20) { LG_PASS.with(|l| *l.borrow_mut() = Some((pw.to_vec(), resp.out.clone()))); }
    resp
}

thread_local! { static CANNED_PASS: std::cell::RefCell<Option<Vec<u8>>> = const { std::cell::RefCell::new(None) }; }
/// a small password file of this thread's own (another salt, another password): "something else the process handled in between"
fn canned_pass_file() -> Vec<u8> {
    CANNED_PASS.with(|c| { let mut c = c.borrow_mut(); if c.is_none() {
        let mut out = Vec::new(); let mut src: &[u8] = b"canned";
        let _ = guarded(|| { let _ = encrypt::pass_encrypt(&mut src, &mut out, b"canned password", [7u8; 32], PassFileFormat::V1); "".into() });
        *c = Some(out); } c.clone().unwrap_or_default() })
}
fn prime_pass_decrypt(pw: &[u8], data: &[u8], order: u64) {
    let mut other = pw.to_vec(); other.push(b'~');
    if order % 2 == 0 {
        // an unrelated file, then the same input under another password (a user who mistyped) right before the call
        let cf = canned_pass_file(); if cf != data { let _ = raw_pass_decrypt(b"canned password", &cf); }
        let _ = raw_pass_decrypt(&other, data);
    } else {
        // the mistyped attempt, then the last file this thread saw accepted right before the call
        let _ = raw_pass_decrypt(&other, data);
        let lg = LG_PASS.with(|l| l.borrow().clone());
        if let Some((pw0, f0)) = &lg { if !(pw0 == pw && f0 == data) { let _ = raw_pass_decrypt(pw0, f0); } }
    }
}

pub fn pass_decrypt(pw: &[u8], data: &[u8], sc: &Scripts) -> StreamResp {
    let plain = sc.rs.is_empty() && sc.ws.is_empty() && sc.fs.is_empty();
    let turn = PRIMED.with(|p| { p.set(p.get() + 1); p.get() });
    // every plain call is primed (and made twice, after the related calls in either order); of the fault-injection runs
    // (one scrypt each, hundreds per file) every fourth is primed, once
    let on = priming_on() && data.len() <= (1 << 20) && (plain || turn % 4 == 0);
    if on { prime_pass_decrypt(pw, data, turn); }
    let mut resp = pass_decrypt_inner(pw, data, sc);
    if on && plain {
        prime_pass_decrypt(pw, data, turn + 1);
        let again = pass_decrypt_inner(pw, data, sc);
        note_instability("pass_decrypt", &resp, &again);
        resp = again;
    }
    if resp.res == "ok" && data.len() <= (1 << 20) { LG_PASS.with(|l| *l.borrow_mut() = Some((pw.to_vec(), data.to_vec()))); }
    resp
}

fn pass_decrypt_inner(pw: &[u8], data: &[u8], sc: &Scripts) -> StreamResp {
    let sh = Rc::new(Shared::default());
    let mut r = SReader::new(data, sc.rs, sh.clone());
    let (mut w, st) = SWriter::new(sc.ws, sc.fs, sh.clone());
    let res = guarded(|| match decrypt::pass_decrypt(&mut r, &mut w, pw, PassFileFormat::V1) { Ok(()) => "ok".into(), Err(e) => dec_class(&e).into() });
    finish(res, &sh, &st, None)
}

/// model request lines for the same operations
pub fn m_scripts(sc: &Scripts) -> String { format!("{} {} {}", rd_script(sc.rs), wr_script(sc.ws), fl_script(sc.fs)) }
