//! The implementation under test, wrapped so that its observables have the same shape as the model's.
use crate::model::StreamResp;
use crate::sio::*;
use kestrel_crypto::errors::{DecryptError, EncryptError};
use kestrel_crypto::{decrypt, encrypt, AsymFileFormat, PassFileFormat, PayloadKey, PrivateKey, PublicKey};
use std::panic::{catch_unwind, AssertUnwindSafe};
use std::rc::Rc;

pub fn enc_class(e: &EncryptError) -> &'static str {
    match e { EncryptError::UnexpectedData => "unexpected", EncryptError::IORead(_) => "ioread", EncryptError::IOWrite(_) => "iowrite", EncryptError::Other(_) => "other" }
}
pub fn dec_class(e: &DecryptError) -> &'static str {
    match e { DecryptError::ChunkLen => "chunklen", DecryptError::ChaPolyDecrypt => "auth", DecryptError::UnexpectedData => "unexpected",
        DecryptError::IORead(_) => "ioread", DecryptError::IOWrite(_) => "iowrite", DecryptError::Other(_) => "other" }
}
/// the model distinguishes a bad magic (`format`) from other header errors; the code reports both as `Other`
pub fn canon(res: &str) -> &str { if res == "format" { "other" } else { res } }

pub struct Scripts<'a> { pub rs: &'a [RdEv], pub ws: &'a [WrEv], pub fs: &'a [FlEv] }
pub const NOSCRIPT: Scripts<'static> = Scripts { rs: &[], ws: &[], fs: &[] };

fn finish(res: String, sh: &Rc<Shared>, st: &Rc<std::cell::RefCell<SinkState>>, sender: Option<Vec<u8>>) -> StreamResp {
    let s = st.borrow();
    StreamResp { res, out: s.out.clone(), pos: sh.pos.get(), reads: sh.nreads.get(), flushes: s.flushes, log: s.log.clone(), sender }
}

fn guarded<F: FnOnce() -> String>(f: F) -> String {
    match catch_unwind(AssertUnwindSafe(f)) { Ok(s) => s, Err(_) => "crash".to_string() }
}

pub fn enc_chunks(key: &[u8], aad: &[u8], cs: u32, data: &[u8], sc: &Scripts) -> StreamResp {
    let sh = Rc::new(Shared::default());
    let mut r = SReader::new(data, sc.rs, sh.clone());
    let (mut w, st) = SWriter::new(sc.ws, sc.fs, sh.clone());
    let res = guarded(|| match encrypt::verif_encrypt_chunks(&mut r, &mut w, key, aad, cs) { Ok(()) => "ok".into(), Err(e) => enc_class(&e).into() });
    finish(res, &sh, &st, None)
}

pub fn dec_chunks(key: &[u8], aad: &[u8], cs: u32, data: &[u8], sc: &Scripts) -> StreamResp {
    let sh = Rc::new(Shared::default());
    let mut r = SReader::new(data, sc.rs, sh.clone());
    let (mut w, st) = SWriter::new(sc.ws, sc.fs, sh.clone());
    let res = guarded(|| match decrypt::verif_decrypt_chunks(&mut r, &mut w, key, aad, cs) { Ok(()) => "ok".into(), Err(e) => dec_class(&e).into() });
    finish(res, &sh, &st, None)
}

pub fn sk(b: &[u8]) -> PrivateKey { PrivateKey::try_from(b).expect("32-byte private key") }
pub fn pk(b: &[u8]) -> PublicKey { PublicKey::try_from(b).expect("32-byte public key") }

#[allow(clippy::too_many_arguments)]
pub fn key_encrypt(s: &[u8], spk: &[u8], rs: &[u8], e: Option<(&[u8], &[u8])>, payload: Option<&[u8]>, data: &[u8], sc: &Scripts) -> StreamResp {
    let sh = Rc::new(Shared::default());
    let mut r = SReader::new(data, sc.rs, sh.clone());
    let (mut w, st) = SWriter::new(sc.ws, sc.fs, sh.clone());
    let res = guarded(|| {
        let s = sk(s); let spk = pk(spk); let rs = pk(rs);
        let ep = e.map(|(a, b)| (sk(a), pk(b)));
        let pl = payload.map(PayloadKey::new);
        match encrypt::key_encrypt(&mut r, &mut w, &s, &spk, &rs, ep.as_ref().map(|x| &x.0), ep.as_ref().map(|x| &x.1), pl.as_ref(), AsymFileFormat::V1) {
            Ok(()) => "ok".into(), Err(e) => enc_class(&e).into() }
    });
    finish(res, &sh, &st, None)
}

pub fn key_decrypt(r_: &[u8], rpk: &[u8], data: &[u8], sc: &Scripts) -> StreamResp {
    let sh = Rc::new(Shared::default());
    let mut r = SReader::new(data, sc.rs, sh.clone());
    let (mut w, st) = SWriter::new(sc.ws, sc.fs, sh.clone());
    let mut sender = None;
    let res = guarded(|| {
        let rk = sk(r_); let rp = pk(rpk);
        match decrypt::key_decrypt(&mut r, &mut w, &rk, &rp, AsymFileFormat::V1) {
            Ok(p) => { sender = Some(p.as_bytes().to_vec()); "ok".into() } Err(e) => dec_class(&e).into() }
    });
    finish(res, &sh, &st, sender)
}

pub fn pass_encrypt(pw: &[u8], salt: &[u8], data: &[u8], sc: &Scripts) -> StreamResp {
    let sh = Rc::new(Shared::default());
    let mut r = SReader::new(data, sc.rs, sh.clone());
    let (mut w, st) = SWriter::new(sc.ws, sc.fs, sh.clone());
    let res = guarded(|| {
        let salt: [u8; 32] = salt.try_into().expect("32-byte salt");
        match encrypt::pass_encrypt(&mut r, &mut w, pw, salt, PassFileFormat::V1) { Ok(()) => "ok".into(), Err(e) => enc_class(&e).into() }
    });
    finish(res, &sh, &st, None)
}

pub fn pass_decrypt(pw: &[u8], data: &[u8], sc: &Scripts) -> StreamResp {
    let sh = Rc::new(Shared::default());
    let mut r = SReader::new(data, sc.rs, sh.clone());
    let (mut w, st) = SWriter::new(sc.ws, sc.fs, sh.clone());
    let res = guarded(|| match decrypt::pass_decrypt(&mut r, &mut w, pw, PassFileFormat::V1) { Ok(()) => "ok".into(), Err(e) => dec_class(&e).into() });
    finish(res, &sh, &st, None)
}

/// model request lines for the same operations
pub fn m_scripts(sc: &Scripts) -> String { format!("{} {} {}", rd_script(sc.rs), wr_script(sc.ws), fl_script(sc.fs)) }
