//! Shared generators: partitions, schedules, deterministic payloads.
use crate::sio::*;
use crate::util::Rng;

/// all compositions of `n` into parts of size 1..=maxp
pub fn compositions(n: usize, maxp: usize) -> Vec<Vec<usize>> {
    if n == 0 { return vec![vec![]]; }
    let mut out = vec![];
    for first in 1..=maxp.min(n) {
        for mut rest in compositions(n - first, maxp) { let mut v = vec![first]; v.append(&mut rest); out.push(v); }
    }
    out
}
pub fn count_compositions(n: usize, maxp: usize) -> u64 {
    let mut c = vec![0u64; n + 1];
    c[0] = 1;
    for i in 1..=n { for f in 1..=maxp.min(i) { c[i] = c[i].saturating_add(c[i - f]); } }
    c[n]
}
pub fn random_composition(rng: &mut Rng, n: usize, maxp: usize) -> Vec<usize> {
    let mut v = vec![]; let mut left = n;
    while left > 0 { let k = rng.range(1, maxp.min(left)); v.push(k); left -= k; }
    v
}
pub fn parts_str(p: &[usize]) -> String { if p.is_empty() { "-".into() } else { p.iter().map(|x| x.to_string()).collect::<Vec<_>>().join(",") } }
pub fn parse_parts(s: &str) -> Vec<usize> { if s == "-" || s.is_empty() { vec![] } else { s.split(',').filter_map(|x| x.parse().ok()).collect() } }

/// deterministic pseudo-random payload (cheap to regenerate from (seed, len))
pub fn payload(seed: u64, len: usize) -> Vec<u8> { Rng::new(seed ^ 0xA5A5_0000).bytes(len) }

/// named read schedules for a stream of `len` bytes read through a buffer of `cap`
pub fn read_schedule(kind: &str, len: usize, cap: usize, rng: &mut Rng) -> Vec<RdEv> {
    match kind {
        "full" => vec![],
        "oneshort" => { let k = cap.saturating_sub(1).max(1); (0..len / k + 2).map(|_| RdEv::Data(k)).collect() }
        "boundary" => { let mut v = vec![]; let mut left = len; while left > 0 { let a = cap.saturating_sub(1).max(1).min(left); v.push(RdEv::Data(a)); left -= a; if left > 0 { v.push(RdEv::Data(1)); left -= 1; } } v }
        "random" => reads_of(&random_composition(rng, len, cap)),
        "trickle" => (0..len + 1).map(|_| RdEv::Data(1)).collect(),
        "halves" => { let k = (cap / 2).max(1); (0..len / k + 2).map(|_| RdEv::Data(k)).collect() }
        _ => vec![],
    }
}
/// named write-accept schedules
pub fn write_schedule(kind: &str, total: usize, rng: &mut Rng) -> Vec<WrEv> {
    match kind {
        "all" => vec![],
        "one" => (0..total.min(4096) + 4).map(|_| WrEv::Accept(1)).collect(),
        "allbutone" => (0..64).map(|_| WrEv::Accept(usize::MAX / 2)).enumerate().map(|(i, e)| if i % 2 == 0 { WrEv::Accept(7) } else { e }).collect(),
        "random" => (0..200).map(|_| WrEv::Accept(rng.range(1, 70000))).collect(),
        "small" => (0..400).map(|_| WrEv::Accept(rng.range(1, 9))).collect(),
        _ => vec![],
    }
}
