import KestrelProps.C01
import KestrelProps.C18
import KestrelProps.C19
import KestrelProps.C15
import KestrelProps.C17pk
import KestrelProps.C09
import KestrelProps.C10enc
