import KestrelProps.C01
import KestrelProps.C18
