import KestrelProps.C01
import KestrelProps.C18
import KestrelProps.C19
