import KestrelProps.C01
