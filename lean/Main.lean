/-
  kmodel: line-protocol driver for the executable model.
  One request per line (`op arg arg …`, byte strings in hex, `-` = empty), one response per line.
-/
import KestrelModel
open Kestrel

def parseRd (s : String) : List RdEv :=
  if s == "-" then [] else
  (s.splitOn ",").filterMap fun t =>
    if t == "eo" then some .errOther
    else if t == "ei" then some .errInterrupted
    else if t.startsWith "d" then (t.drop 1).toNat?.map .data
    else none

def parseWr (s : String) : List WrEv :=
  if s == "-" then [] else
  (s.splitOn ",").filterMap fun t =>
    if t == "eo" then some .errOther
    else if t == "ei" then some .errInterrupted
    else if t.startsWith "a" then (t.drop 1).toNat?.map .accept
    else none

def parseFl (s : String) : List FlEv :=
  if s == "-" then [] else
  (s.splitOn ",").filterMap fun t =>
    if t == "ok" then some .ok
    else if t == "eo" then some .errOther
    else if t == "ei" then some .errInterrupted
    else none

def fmtLog (l : List WLog) : String :=
  if l.isEmpty then "-" else ",".intercalate (l.reverse.map fun w => s!"{w.srcPos}:{w.srcReads}:{w.n}")

def fmtStream (res : Res) (s : Src) (k : Snk) : String :=
  s!"{res.str} out={hexOrDash k.out} pos={s.pos} reads={s.nreads} flushes={k.flushes} log={fmtLog k.log}"

def fmtOpt (o : Option Bytes) : String :=
  match o with
  | some b => "ok " ++ hexOrDash b
  | none => "err"

def noiseErr : Noise.Err → String
  | .dh => "dh" | .decrypt => "decrypt" | .other => "other"

def krErr : Keyring.KrErr → String
  | .pkChecksum => "pkchecksum" | .pkLength => "pklength" | .skDecrypt => "skdecrypt"
  | .skLength => "sklength" | .skFormat => "skformat" | .pkFormat => "pkformat"

def strOfHex (h : String) : Option (List Char) :=
  (String.fromUTF8? (ByteArray.mk (unhex h).toArray)).map String.toList

def hexOfStr (s : List Char) : String := hexOrDash (Keyring.utf8 s)

def renderKeys (ks : List Keyring.Key) : String :=
  "ok " ++ ";".intercalate (ks.map fun k =>
    hexOfStr k.name ++ "|" ++ hexOfStr k.pk ++ "|" ++ (match k.sk with | some s => hexOfStr s | none => "none"))

/-- the keys of a keyring built by the GENERATED `Keyring::new` (KestrelModel/GeneratedKeyring.lean), in `renderKeys` format -/
def renderKeysSrc (kr : KeyringSrc.Keyring) : String :=
  "ok " ++ ";".intercalate (kr.keys.map fun k =>
    hexOfStr k.name ++ "|" ++ hexOfStr k.public_key._0 ++ "|" ++ (match k.private_key with | some s => hexOfStr s._0 | none => "none"))

def bytesOfStr (s : List Char) : Bytes := Keyring.utf8 s

def parsePairs (s : String) : List (List Char × Bytes) :=
  if s == "-" then [] else
  (s.splitOn ",").filterMap fun kv =>
    match kv.splitOn ":" with
    | [k, v] => (strOfHex k).map fun ks => (ks, unhex v)
    | _ => none

def cliErr : Cli.Err → String
  | .usage => "usage" | .sameFile => "samefile" | .noInput => "noinput" | .noKeyring => "nokeyring" | .keyringRead => "keyringread"
  | .keyringUtf8 => "keyringutf8" | .keyringParse => "keyringparse" | .keyNotFound => "keynotfound" | .pkDecode => "pkdecode"
  | .noPrivateKey => "noprivatekey" | .noPassword => "nopassword" | .unlockFailed => "unlockfailed" | .crypto r => "crypto-" ++ r.str
  | .badKeyArg => "badkeyarg" | .badName => "badname"

def fmtCli (o : Cli.Outcome) : String :=
  let files := if o.world.files.isEmpty then "-" else ",".intercalate (o.world.files.map fun (p, b) => hexOfStr p ++ ":" ++ hexOrDash b)
  let sender := match o.sender with
    | some (.inl n) => "name:" ++ hexOfStr n
    | some (.inr e) => "unknown:" ++ hexOfStr e
    | none => "-"
  s!"exit={o.exit} err={(o.err.map cliErr).getD "-"} stdout={hexOrDash o.stdout} sender={sender} files={files}"

/-- stand-ins for the functions of commands.rs that main.rs calls: each hands the request it was called with back to the
    caller through its error value (`try_main` propagates it with `?`) -/
def recReq (r : Cli.Request) (sys : RsCli.Sys) : RsCli.Sys × Except RsCli.AnyErr Unit :=
  (sys, .error (.msg "REQ".toList ((repr r).pretty 100000).toList))

def recApi : CliSrc.commands.Api where
  encrypt := fun sys o => recReq (.encrypt o.infile o.to o.from o.outfile o.keyring o.env_pass) sys
  decrypt := fun sys o => recReq (.decrypt o.infile o.to o.outfile o.keyring o.env_pass) sys
  gen_key := fun sys o e => recReq (.keyGen o e) sys
  change_pass := fun sys k e => recReq (.changePass k e) sys
  extract_pub := fun sys k e => recReq (.extractPub k e) sys
  pass_encrypt := fun sys o => recReq (.passEncrypt o.infile o.outfile o.env_pass) sys
  pass_decrypt := fun sys o => recReq (.passDecrypt o.infile o.outfile o.env_pass) sys

/-- run the generated `try_main` on an argument vector and name the request it acted on -/
def cliParseSrc (args : List (List Char)) : String :=
  let sys : RsCli.Sys := { args := args.map .unicode, world := { files := [], env := [], stdin := [] }, prims := concretePrims, rnd := ⟨[], []⟩ }
  let (sys', r) := CliSrc.try_main recApi sys
  match r with
  | .error (.msg fmt text) =>
    if fmt == "REQ".toList && sys'.stdout.isEmpty then String.ofList text
    else if fmt == "{}\n{}".toList && sys'.stdout.isEmpty then (repr Cli.Request.usageError).pretty
    else "unexpected error " ++ String.ofList fmt
  | .error _ => "unexpected error"
  | .ok () =>
    if sys'.stdout == (CliSrc.print_help sys).stdout then (repr Cli.Request.help).pretty
    else if sys'.stdout == (CliSrc.print_version sys).stdout then (repr Cli.Request.version).pretty
    else "unexpected output"

/-- run the generated program — `CliSrc.main` over the translated commands of commands.rs over the TRANSLATED streaming
    functions of encrypt.rs / decrypt.rs (`CliSrc.streamLib`, KestrelModel/RsCliStream.lean) — and print exit code, standard
    output and the final files exactly as `fmtCli` does for the model (`err` / `sender` are not produced by the translated
    code: the classes of errors are not part of its result, the sender line goes to standard error).
    `libcall=1` when a streaming library function was reached (the progress message "Encrypting..." / "Decrypting..." is on
    standard error); `outoffuel=1` if a `loop` ran out of its budget (never expected). -/
def cliRunSrc (P : Prims) (rnd : Cli.Rand) (w : Cli.World) (args : List (List Char)) : String :=
  let sys : RsCli.Sys := { args := args.map .unicode, world := w, prims := P, rnd := rnd }
  let s := CliSrc.main (CliSrc.commands.api CliSrc.streamLib) sys
  let files := if s.world.files.isEmpty then "-" else ",".intercalate (s.world.files.map fun (p, b) => hexOfStr p ++ ":" ++ hexOrDash b)
  let reached := s.stderr != [] && (String.fromUTF8? (ByteArray.mk s.stderr.toArray)).any fun t => (t.splitOn "crypting...").length > 1
  s!"exit={s.exit.getD 0} stdout={hexOrDash s.stdout} files={files} libcall={if reached then 1 else 0} outoffuel={if s.outOfFuel then 1 else 0}"

/-- scrypt results for (password, salt) pairs seen so far -/
abbrev KdfCache := IO.Ref (List ((Bytes × Bytes) × Bytes))

def cachedKdf (c : KdfCache) (pw salt : Bytes) : IO Bytes := do
  let l ← c.get
  match l.lookup (pw, salt) with
  | some k => pure k
  | none =>
    let k := concretePrims.kdf pw salt
    c.set (((pw, salt), k) :: l.take 63)
    pure k

/-- the keyring of the unit tests of keyring.rs (`KEYRING_INI`) -/
def keyringIni : List Char := "
[Key]
# comment lines are fine.
Name = alice
PublicKey = D7ZZstGYF6okKKEV2rwoUza/tK3iUa8IMY+l5tuirmzzkEog
PrivateKey = ZWdrMPEp09tKN3rAutCDQTshrNqoh0MLPnEERRCm5KFxvXcTo+s/Sf2ze0fKebVsQilImvLzfIHRcJuX8kGetyAQL1VchvzHR28vFhdKeq+NY2KT

[Key]
Name = Bobby Bobertson
PublicKey = CT/e0R9tbBjTYUhDNnNxltT3LLWZLHwW4DCY/WHxBA8am9vP
".toList

def selftestCases : List (String × String × String) := [
  ("keyring src (translated keyring.rs) on KEYRING_INI = model",
    (match KeyringSrc.Keyring.new keyringIni with | .ok kr => renderKeysSrc kr | .error _ => "err"),
    (match Keyring.parse keyringIni with | some ks => renderKeys ks | none => "err model")),
  ("keyring src (translated keyring.rs) KEYRING_INI has 2 keys",
    (match KeyringSrc.Keyring.new keyringIni with | .ok kr => toString kr.keys.length | .error _ => "err"), "2"),
  ("sha256 abc", hex (sha256 (ofStr "abc")), "ba7816bf8f01cfea414140de5dae2223b00361a396177a9cb410ff61f20015ad"),
  ("sha256 empty", hex (sha256 []), "e3b0c44298fc1c149afbf4c8996fb92427ae41e4649b934ca495991b7852b855"),
  ("sha256 448 bits", hex (sha256 (ofStr "abcdbcdecdefdefgefghfghighijhijkijkljklmklmnlmnomnopnopq")),
    "248d6a61d20638b8e5c026930c3e6039a33ce45964ff2167f6ecedd419db06c1"),
  ("hmac rfc4231 1", hex (hmacSha256 (List.replicate 20 0x0b) (ofStr "Hi There")),
    "b0344c61d8db38535ca8afceaf0bf12b881dc200c9833da726e9376c2e32cff7"),
  ("hmac rfc4231 2", hex (hmacSha256 (ofStr "Jefe") (ofStr "what do ya want for nothing?")),
    "5bdcc146bf60754e6a042426089575c75a003f089d2739839dec58b964ec3843"),
  ("hmac rfc4231 6 (131-byte key)", hex (hmacSha256 (List.replicate 131 0xaa) (ofStr "Test Using Larger Than Block-Size Key - Hash Key First")),
    "60e431591ee0b67f0d8a26aacbf5b77f8e0bc6213728c5140546040f0ee37f54"),
  ("hkdf rfc5869 1", hex (hkdfSha256 (unhex "000102030405060708090a0b0c") (unhex "0b0b0b0b0b0b0b0b0b0b0b0b0b0b0b0b0b0b0b0b0b0b") (unhex "f0f1f2f3f4f5f6f7f8f9") 42),
    "3cb25f25faacd57a90434f64d0362f2a2d2d0a90cf1a5a4c5db02d56ecc4c5bf34007208d5b887185865"),
  ("hkdf rfc5869 2", hex (hkdfSha256 (unhex "606162636465666768696a6b6c6d6e6f707172737475767778797a7b7c7d7e7f808182838485868788898a8b8c8d8e8f909192939495969798999a9b9c9d9e9fa0a1a2a3a4a5a6a7a8a9aaabacadaeaf")
      (unhex "000102030405060708090a0b0c0d0e0f101112131415161718191a1b1c1d1e1f202122232425262728292a2b2c2d2e2f303132333435363738393a3b3c3d3e3f404142434445464748494a4b4c4d4e4f")
      (unhex "b0b1b2b3b4b5b6b7b8b9babbbcbdbebfc0c1c2c3c4c5c6c7c8c9cacbcccdcecfd0d1d2d3d4d5d6d7d8d9dadbdcdddedfe0e1e2e3e4e5e6e7e8e9eaebecedeeeff0f1f2f3f4f5f6f7f8f9fafbfcfdfeff") 82),
    "b11e398dc80327a1c8e7f78c596a49344f012eda2d4efad8a050cc4c19afa97c59045a99cac7827271cb41c65e590e09da3275600c2f09b8367793a9aca3db71cc30c58179ec3e87c14c01d5c1f3434f1d87"),
  ("hkdf rfc5869 3", hex (hkdfSha256 [] (unhex "0b0b0b0b0b0b0b0b0b0b0b0b0b0b0b0b0b0b0b0b0b0b") [] 42),
    "8da4e775a563c18f715f802a063c5a31b8a11f5c5ee1879ec3454e5f3c738d2d9d201395faa4b61a96c8"),
  ("pbkdf2 rfc7914 1", hex (pbkdf2Sha256 (ofStr "passwd") (ofStr "salt") 1 64),
    "55ac046e56e3089fec1691c22544b605f94185216dde0465e68b9d57c20dacbc49ca9cccf179b645991664b39d77ef317c71b845b1e30bd509112041d3a19783"),
  ("scrypt rfc7914 1", hex (Scrypt.Spec.scrypt [] [] 16 1 1 64),
    "77d6576238657b203b19ca42c18a0497f16b4844e3074ae8dfdffa3fede21442fcd0069ded0948f8326a753a0fc81f17e8d3e0fb2e0d3628cf35e20c38d18906"),
  ("scrypt rfc7914 2", hex (Scrypt.Spec.scrypt (ofStr "password") (ofStr "NaCl") 1024 8 16 64),
    "fdbabe1c9d3472007856e7190d01e9fe7c6ad7cbc8237830e77376634b3731622eaf30d92e22a3886ff109279d9830dac727afb94a83ee6d8360cbdfa2cc0640"),
  ("scrypt rfc7914 3", hex (Scrypt.Spec.scrypt (ofStr "pleaseletmein") (ofStr "SodiumChloride") 16384 8 1 64),
    "7023bdcb3afd7348461c06cd81fd38ebfda8fbba904f8e3ea9b543f6545da1f2d5432955613f0fcf62d49705242a9af9e61e85dc0d651e40dfcf017b45575887"),
  ("scrypt impl rfc7914 1", hex (Scrypt.Impl.scrypt [] [] 16 1 1 64),
    "77d6576238657b203b19ca42c18a0497f16b4844e3074ae8dfdffa3fede21442fcd0069ded0948f8326a753a0fc81f17e8d3e0fb2e0d3628cf35e20c38d18906"),
  ("scrypt impl rfc7914 2", hex (Scrypt.Impl.scrypt (ofStr "password") (ofStr "NaCl") 1024 8 16 64),
    "fdbabe1c9d3472007856e7190d01e9fe7c6ad7cbc8237830e77376634b3731622eaf30d92e22a3886ff109279d9830dac727afb94a83ee6d8360cbdfa2cc0640"),
  ("scrypt src (translated scrypt.rs) rfc7914 1", hex (ScryptSrc.scrypt [] [] 16 1 1 64),
    "77d6576238657b203b19ca42c18a0497f16b4844e3074ae8dfdffa3fede21442fcd0069ded0948f8326a753a0fc81f17e8d3e0fb2e0d3628cf35e20c38d18906"),
  ("scrypt src (translated scrypt.rs) scrypt.rs vector 1", hex (ScryptSrc.scrypt (ofStr "password") (ofStr "salt") 2 10 10 32),
    "482c858e229055e62f41e0ec819a5ee18bdb87251a534f75acd95ac5e50aa15f"),
  ("scrypt ffi src (translated src/ffi/src/lib.rs) scrypt.rs vector 1 in a 50-byte memory with guard bytes",
    hex (FfiSrc.scrypt (unhex "a5a570617373776f7264a573616c74a50000000000000000000000000000000000000000000000000000000000000000a5a5") 2 8 11 4 2 10 10 16 32),
    "a5a570617373776f7264a573616c74a5482c858e229055e62f41e0ec819a5ee18bdb87251a534f75acd95ac5e50aa15fa5a5"),
  ("chacha20 block rfc8439 2.3.2", hex (chachaBlock (words32le ((List.range 32).map UInt8.ofNat)) 1 (words32le (unhex "000000090000004a00000000"))),
    "10f1e7e4d13b5915500fdd1fa32071c4c7d1f4c733c068030422aa9ac3d46c4ed2826446079faa0914c2d705d98b02a2b5129cd1de164eb9cbd083e8a2503c4e"),
  ("poly1305 rfc8439 2.5.2", hex (poly1305 (unhex "85d6be7857556d337f4452fe42d506a80103808afb0db2fd4abff6af4149f51b") (ofStr "Cryptographic Forum Research Group")),
    "a8061dc1305136c6c22b8baf0c0127a9"),
  ("aead rfc8439 2.8.2", hex (aeadSeal ((List.range 32).map fun i => UInt8.ofNat (0x80 + i)) (unhex "070000004041424344454647") (unhex "50515253c0c1c2c3c4c5c6c7")
      (ofStr "Ladies and Gentlemen of the class of '99: If I could offer you only one tip for the future, sunscreen would be it.")),
    "d31a8d34648e60db7b86afbc53ef7ec2a4aded51296e08fea9e2b5a736ee62d63dbea45e8ca9671282fafb69da92728b1a71de0a9e060b2905d6a5b67ecd3b3692ddbd7f2d778b8c9803aee328091b58fab324e4fad675945585808b4831d7bc3ff4def08e4b7a9de576d26586cec64b61161ae10b594f09e26a7e902ecbd0600691"),
  ("aead rfc8439 A.5 open", (match aeadOpen (unhex "1c9240a5eb55d38af333888604f6b5f0473917c1402b80099dca5cbc207075c0") (unhex "000000000102030405060708") (unhex "f33388860000000000004e91")
      (unhex "64a0861575861af460f062c79be643bd5e805cfd345cf389f108670ac76c8cb24c6cfc18755d43eea09ee94e382d26b0bdb7b73c321b0100d4f03b7f355894cf332f830e710b97ce98c8a84abd0b948114ad176e008d33bd60f982b1ff37c8559797a06ef4f0ef61c186324e2b3506383606907b6a7c02b0f9f6157b53c867e4b9166c767b804d46a59b5216cde7a4e99040c5a40433225ee282a1b0a06c523eaf4534d7f83fa1155b0047718cbc546a0d072b04b3564eea1b422273f548271a0bb2316053fa76991955ebd63159434ecebb4e466dae5a1073a6727627097a1049e617d91d361094fa68f0ff77987130305beaba2eda04df997b714d6c6f2c29a6ad5cb4022b02709beead9d67890cbb22392336fea1851f38") with
      | some p => hex (p.take 16) | none => "none"),
    "496e7465726e65742d44726166747320"),
  ("x25519 rfc7748 5.2 v1", fmtOpt (X25519.x25519 (unhex "a546e36bf0527c9d3b16154b82465edd62144c0ac1fc5a18506a2244ba449ac4") (unhex "e6db6867583030db3594c1a424b15f7c726624ec26b3353b10a903a6d0ab1c4c")),
    "ok c3da55379de9c6908e94ea4df28d084f32eccf03491c71f754b4075577a28552"),
  ("x25519 rfc7748 5.2 v2", fmtOpt (X25519.x25519 (unhex "4b66e9d4d1b4673c5ad22691957d6af5c11b6421e0ea01d42ca4169e7918ba0d") (unhex "e5210f12786811d3f4b7959d0538ae2c31dbe7106fc03c3efc4cd549c715a493")),
    "ok 95cbde9476e8907d7aade45cb4b873f88b595a68799fa152e6f8f7647aac7957"),
  ("x25519 rfc7748 5.2 iter 1", fmtOpt (X25519.x25519 X25519.basePoint X25519.basePoint),
    "ok 422c8e7a6227d7bca1350b3e2bb7279f7897b87bb6854b783c60e80311ae3079"),
  ("x25519 rfc7748 6.1 alice pub", fmtOpt (X25519.pubOf (unhex "77076d0a7318a57d3c16c17251b26645df4c2f87ebc0992ab177fba51db92c2a")),
    "ok 8520f0098930a754748b7ddcb43ef75a0dbf3a0d26381af4eba4a98eaa9b4e6a"),
  ("x25519 rfc7748 6.1 shared", fmtOpt (X25519.x25519 (unhex "77076d0a7318a57d3c16c17251b26645df4c2f87ebc0992ab177fba51db92c2a") (unhex "de9edb7d7b7dc1b4d35b61c2ece435373f8343c85b78674dadfc7e146f882b4f")),
    "ok 4a5d9d5ba4ce2de1728e3bf480350f25e07e21c947d19e3376f09b3c1e161742"),
  ("x25519 low order 0", fmtOpt (X25519.x25519 (unhex "77076d0a7318a57d3c16c17251b26645df4c2f87ebc0992ab177fba51db92c2a") (zeros 32)), "err"),
  ("x25519 low order 1", fmtOpt (X25519.x25519 (unhex "77076d0a7318a57d3c16c17251b26645df4c2f87ebc0992ab177fba51db92c2a") (1 :: zeros 31)), "err"),
  ("x25519 low order 8a", fmtOpt (X25519.x25519 (unhex "77076d0a7318a57d3c16c17251b26645df4c2f87ebc0992ab177fba51db92c2a") (unhex "e0eb7a7c3b41b8ae1656e3faf19fc46ada098deb9c32b1fd866205165f49b800")), "err"),
  ("x25519 low order 8b", fmtOpt (X25519.x25519 (unhex "77076d0a7318a57d3c16c17251b26645df4c2f87ebc0992ab177fba51db92c2a") (unhex "5f9c95bca3508c24b1d0b1559c83ef5b04445cc4581c8e86d8224eddd09f1157")), "err"),
  ("x25519 low order p-1", fmtOpt (X25519.x25519 (unhex "77076d0a7318a57d3c16c17251b26645df4c2f87ebc0992ab177fba51db92c2a") (unhex "ecffffffffffffffffffffffffffffffffffffffffffffffffffffffffffff7f")), "err"),
  ("x25519 low order p", fmtOpt (X25519.x25519 (unhex "77076d0a7318a57d3c16c17251b26645df4c2f87ebc0992ab177fba51db92c2a") (unhex "edffffffffffffffffffffffffffffffffffffffffffffffffffffffffffff7f")), "err"),
  ("x25519 low order p+1", fmtOpt (X25519.x25519 (unhex "77076d0a7318a57d3c16c17251b26645df4c2f87ebc0992ab177fba51db92c2a") (unhex "eeffffffffffffffffffffffffffffffffffffffffffffffffffffffffffff7f")), "err"),
  ("noise X cacophony (noise.rs test vector)",
    (match Noise.writeMessage concretePrims (unhex "50726f6c6f677565313233")
        (unhex "e61ef9919cde45dd5f82166404bd08e38bceb5dfdfded0a34c8df7ed542214d1")
        ((X25519.pubOf (unhex "e61ef9919cde45dd5f82166404bd08e38bceb5dfdfded0a34c8df7ed542214d1")).getD [])
        (unhex "31e0303fd6418d2f8c0e78b91f22e8caed0fbe48656dcf4767e4834f701b8f62")
        (unhex "893e28b9dc6ca8d611ab664754b8ceb7bac5117349a4439a6b0569da977c464a")
        ((X25519.pubOf (unhex "893e28b9dc6ca8d611ab664754b8ceb7bac5117349a4439a6b0569da977c464a")).getD [])
        (unhex "4c756477696720766f6e204d69736573") with
      | .ok (m, _) => hex m | .error _ => "err"),
    "ca35def5ae56cec33dc2036731ab14896bc4c75dbb07a61f879f8e3afa4c79446c15957a594079a5bdeae05d01e089fbb7cc6ea2ecfd209b941f73c9235213bc14ed87a1a4a0b164c11a5999be0f7bf1fdc3aaa6de60cb3c98302f370fdb03ea6fe2cf18324b0812663aed65fc9eafdf"),
  ("base64 rfc4648 foobar", String.ofList (Keyring.asciiStr (B64.encode (ofStr "foobar"))), "Zm9vYmFy"),
  ("base64 rfc4648 fooba", String.ofList (Keyring.asciiStr (B64.encode (ofStr "fooba"))), "Zm9vYmE="),
  ("base64 rfc4648 foob", String.ofList (Keyring.asciiStr (B64.encode (ofStr "foob"))), "Zm9vYg=="),
  ("base64 decode Zm9vYg==", fmtOpt (B64.decode (ofStr "Zm9vYg==")), "ok 666f6f62"),
  ("base64 decode non-canonical Zm9vYh==", fmtOpt (B64.decode (ofStr "Zm9vYh==")), "err"),
  ("encode_pk (keyring.rs test vector)", String.ofList (Keyring.encodePk (unhex "3ad53dc25581b18af543a1e8cf4edc2b4e4e483df5a7e0d5ada53e7e4bb86374")),
    "OtU9wlWBsYr1Q6Hoz07cK05OSD31p+DVraU+fku4Y3R62CZl"),
  ("lock_private_key (keyring.rs test vector)",
    String.ofList (Keyring.lockPrivateKey (unhex "42d010ed1797fb3187351423f164caee1ce15eb5a462cf6194457b7a736938f5") (ofStr "alice")
      (unhex "7329ff6c9e9d5eb8ace7c02663065915466c9b9401587339e45847034faa776e")),
    "ZWdrMHMp/2yenV64rOfAJmMGWRVGbJuUAVhzOeRYRwNPqndu4Pfkg4YXzIna9Eg58JwreHA37o49xCS0x8CWd3yRe+D2ytRXFLb67WNIwxqHJ9Fw")
]

def runSelftest : IO Bool := do
  let mut ok := true
  for (name, got, want) in selftestCases do
    if got != want then
      ok := false
      IO.println s!"selftest FAIL {name}: got {got} want {want}"
  return ok

def mkSrc (inp script : String) : Src := { inp := unhex inp, script := parseRd script }
def mkSnk (ws fs : String) : Snk := { ws := parseWr ws, fs := parseFl fs }

def handle (kc : KdfCache) (line : String) : IO String := do
  let P := concretePrims
  match line.trimAscii.toString.splitOn " " with
  | ["selftest"] => do
    let ok ← runSelftest
    pure (if ok then s!"ok {selftestCases.length}" else "err selftest")
  | ["sha256", d] => pure ("ok " ++ hex (sha256 (unhex d)))
  | ["hmac", k, d] => pure ("ok " ++ hex (hmacSha256 (unhex k) (unhex d)))
  | ["hkdf", salt, ikm, info, len] => pure ("ok " ++ hexOrDash (hkdfSha256 (unhex salt) (unhex ikm) (unhex info) len.toNat!))
  | ["hkdf_noise", ck, ikm] => let (a, b) := hkdfNoise (unhex ck) (unhex ikm); pure s!"ok {hex a} {hex b}"
  | ["pbkdf2", p, s, c, len] => pure ("ok " ++ hexOrDash (pbkdf2Sha256 (unhex p) (unhex s) c.toNat! len.toNat!))
  | ["scrypt", p, s, n, r, pp, len] =>
    pure ("ok " ++ hexOrDash (Scrypt.Spec.scrypt (unhex p) (unhex s) n.toNat! r.toNat! pp.toNat! len.toNat!))
  | ["scrypt_impl", p, s, n, r, pp, len] =>
    pure ("ok " ++ hexOrDash (Scrypt.Impl.scrypt (unhex p) (unhex s) n.toNat! r.toNat! pp.toNat! len.toNat!))
  | ["scrypt_src", p, s, n, r, pp, len] =>
    pure ("ok " ++ hexOrDash (ScryptSrc.scrypt (unhex p) (unhex s) n.toNat! r.toNat! pp.toNat! len.toNat!))
  | ["scrypt_ffi_src", m, pwOff, pwLen, saltOff, saltLen, n, r, pp, dkOff, dkLen] =>
    pure ("ok " ++ hexOrDash (FfiSrc.scrypt (unhex m) pwOff.toNat! pwLen.toNat! saltOff.toNat! saltLen.toNat!
      n.toNat! r.toNat! pp.toNat! dkOff.toNat! dkLen.toNat!))
  | ["x25519", k, u] => pure (fmtOpt (X25519.x25519 (unhex k) (unhex u)))
  | ["x25519_pub", k] => pure (fmtOpt (X25519.pubOf (unhex k)))
  | ["aead_seal", k, n, ad, p] => pure ("ok " ++ hex (aeadSeal (unhex k) (unhex n) (unhex ad) (unhex p)))
  | ["aead_open", k, n, ad, c] => pure (fmtOpt (aeadOpen (unhex k) (unhex n) (unhex ad) (unhex c)))
  | ["noise_seal", k, ctr, ad, p] => pure ("ok " ++ hex (chapolyNoise.enc (unhex k) ctr.toNat! (unhex ad) (unhex p)))
  | ["noise_open", k, ctr, ad, c] => pure (fmtOpt (chapolyNoise.dec (unhex k) ctr.toNat! (unhex ad) (unhex c)))
  | ["noise_write", prologue, s, spk, rs, e, epk, payload] =>
    match Noise.writeMessage P (unhex prologue) (unhex s) (unhex spk) (unhex rs) (unhex e) (unhex epk) (unhex payload) with
    | .ok (m, h) => pure s!"ok {hex m} {hex h}"
    | .error e => pure s!"err {noiseErr e}"
  | ["noise_read", prologue, r, rpk, msg] =>
    match Noise.readMessage P (unhex prologue) (unhex r) (unhex rpk) (unhex msg) with
    | .ok (pl, spk, h) => pure s!"ok {hexOrDash pl} {hex spk} {hex h}"
    | .error e => pure s!"err {noiseErr e}"
  | ["noise_seal_src", k, ctr, ad, p] =>
    pure ("ok " ++ hex (NoiseSrc.chapoly_encrypt_noise RsNoise.concreteOrion (unhex k) ctr.toNat! (unhex ad) (unhex p)))
  | ["noise_open_src", k, ctr, ad, c] =>
    pure (match NoiseSrc.chapoly_decrypt_noise RsNoise.concreteOrion (unhex k) ctr.toNat! (unhex ad) (unhex c) with
      | .ok b => "ok " ++ hexOrDash b
      | .error _ => "err")
  | ["hkdf_noise_src", ck, ikm] =>
    let (a, b) := NoiseSrc.hkdf_noise RsNoise.concreteOrion (unhex ck) (unhex ikm); pure s!"ok {hex a} {hex b}"
  | ["hkdf_src", salt, ikm, info, len] =>
    pure ("ok " ++ hexOrDash (NoiseSrc.hkdf_sha256 RsNoise.concreteOrion (unhex salt) (unhex ikm) (unhex info) len.toNat!))
  | ["noise_write_src", prologue, s, spk, rs, e, epk, payload] =>
    let O := RsNoise.concreteOrion
    let hs := NoiseSrc.HandshakeState.init_x O true (unhex prologue) (unhex s) (unhex spk) (some (unhex e)) (some (unhex epk)) (some (unhex rs))
    match (NoiseSrc.HandshakeState.write_message O (fun n => zeros n) hs (unhex payload)).1 with
    | .ok nh => pure s!"ok {hex nh.message} {hex nh.handshake_hash}"
    | .error e => pure s!"err {noiseErr e}"
  | ["noise_read_src", prologue, r, rpk, msg] =>
    let O := RsNoise.concreteOrion
    let hs := NoiseSrc.HandshakeState.init_x O false (unhex prologue) (unhex r) (unhex rpk) none none none
    match NoiseSrc.HandshakeState.read_message O hs (unhex msg) with
    | (.ok nh, hs') => pure s!"ok {hexOrDash nh.message} {hex ((NoiseSrc.HandshakeState.get_pubkey hs').getD [])} {hex nh.handshake_hash}"
    | (.error e, _) => pure s!"err {noiseErr e}"
  | ["noise_encrypt_src", s, spk, rs, e, epk, prologue, pk] =>
    match NoiseSrc.noise_encrypt RsNoise.concreteOrion (fun n => zeros n) (unhex s) (unhex spk) (unhex rs) (some (unhex e)) (some (unhex epk)) (unhex prologue) (unhex pk) with
    | .ok m => pure s!"ok {hex m.ciphertext} {hex m.handshake_hash}"
    | .error e => pure s!"err {noiseErr e}"
  | ["noise_encrypt", s, spk, rs, e, epk, prologue, pk] =>
    match RsIO.noiseEncrypt P (fun n => zeros n) (unhex s) (unhex spk) (unhex rs) (some (unhex e)) (some (unhex epk)) (unhex prologue) (unhex pk) with
    | .ok m => pure s!"ok {hex m.ciphertext} {hex m.handshake_hash}"
    | .error e => pure s!"err {noiseErr e}"
  | ["noise_decrypt_src", r, rpk, prologue, msg] =>
    match NoiseSrc.noise_decrypt RsNoise.concreteOrion (unhex r) (unhex rpk) (unhex prologue) (unhex msg) with
    | .ok m => pure s!"ok {hex m.payload_key} {hex m.public_key} {hex m.handshake_hash}"
    | .error e => pure s!"err {noiseErr e}"
  | ["noise_decrypt", r, rpk, prologue, msg] =>
    match RsIO.noiseDecrypt P (unhex r) (unhex rpk) (unhex prologue) (unhex msg) with
    | .ok m => pure s!"ok {hex m.payload_key} {hex m.public_key} {hex m.handshake_hash}"
    | .error e => pure s!"err {noiseErr e}"
  | ["enc_chunks", key, aad, cs, inp, rs, ws, fs] =>
    let (res, s, k) := encryptChunksIO P.aead (unhex key) (unhex aad) cs.toNat! (mkSrc inp rs) (mkSnk ws fs)
    pure (fmtStream res s k)
  | ["dec_chunks", key, aad, cs, inp, rs, ws, fs] =>
    let (res, s, k) := decryptChunksIO P.aead (unhex key) (unhex aad) cs.toNat! (mkSrc inp rs) (mkSnk ws fs)
    pure (fmtStream res s k)
  | ["enc_chunks_src", key, aad, cs, inp, rs, ws, fs] =>
    -- the definitions generated from encrypt.rs by tools/rs2lean_stream.py (fuel: the bound of `stream_source_encrypt_chunks`)
    let src := mkSrc inp rs
    match StreamSrc.encrypt.encrypt_chunks P.aead src (mkSnk ws fs) (unhex key) (unhex aad) cs.toNat!
        (src.inp.length + src.script.length + 2) with
    | some (res, s, k) => pure (fmtStream res s k)
    | none => pure "err out of fuel"
  | ["dec_chunks_src", key, aad, cs, inp, rs, ws, fs] =>
    let src := mkSrc inp rs
    match StreamSrc.decrypt.decrypt_chunks P.aead src (mkSnk ws fs) (unhex key) (unhex aad) cs.toNat!
        (src.inp.length + 1) with
    | some (res, s, k) => pure (fmtStream res s k)
    | none => pure "err out of fuel"
  | ["key_encrypt_src", s, spk, rs, e, epk, pk, inp, rsc, ws, fs] =>
    -- file-level functions as generated from encrypt.rs / decrypt.rs (tools/rs2lean_stream.py); same output format
    let src := mkSrc inp rsc
    match StreamSrc.encrypt.key_encrypt P.aead P (fun n => zeros n) src (mkSnk ws fs) (unhex s) (unhex spk) (unhex rs)
        (some (unhex e)) (some (unhex epk)) (some (unhex pk)) .V1 (src.inp.length + src.script.length + 2) with
    | some (res, s, k) => pure (fmtStream res s k)
    | none => pure "err out of fuel"
  | ["key_decrypt_src", r, rpk, inp, rsc, ws, fs] =>
    let src := mkSrc inp rsc
    match StreamSrc.decrypt.key_decrypt P.aead P src (mkSnk ws fs) (unhex r) (unhex rpk) .V1 (src.inp.length + 1) with
    | some (.ok sender, s, k) => pure (fmtStream .ok s k ++ " sender=" ++ hex sender)
    | some (.error res, s, k) => pure (fmtStream res s k ++ " sender=-")
    | none => pure "err out of fuel"
  | ["pass_encrypt_src", pw, salt, inp, rsc, ws, fs] => do
    let key ← cachedKdf kc (unhex pw) (unhex salt)
    let P' := { P with kdf := fun _ _ => key }
    let src := mkSrc inp rsc
    match StreamSrc.encrypt.pass_encrypt P'.aead P' src (mkSnk ws fs) (unhex pw) (unhex salt) .V1
        (src.inp.length + src.script.length + 2) with
    | some (res, s, k) => pure (fmtStream res s k)
    | none => pure "err out of fuel"
  | ["pass_decrypt_src", pw, inp, rsc, ws, fs] => do
    let b := unhex inp
    let salt := (b.drop 4).take 32
    let P' ← if b.length ≥ 36 then do
        let key ← cachedKdf kc (unhex pw) salt
        pure { P with kdf := fun _ s => if s = salt then key else P.kdf (unhex pw) s }
      else pure P
    let src : Src := { inp := b, script := parseRd rsc }
    match StreamSrc.decrypt.pass_decrypt P'.aead P' src (mkSnk ws fs) (unhex pw) .V1 (src.inp.length + 1) with
    | some (res, s, k) => pure (fmtStream res s k)
    | none => pure "err out of fuel"
  | ["key_encrypt", s, spk, rs, e, epk, pk, inp, rsc, ws, fs] =>
    let (res, src, k) := keyEncryptIO P (unhex s) (unhex spk) (unhex rs) (unhex e) (unhex epk) (unhex pk) (mkSrc inp rsc) (mkSnk ws fs)
    pure (fmtStream res src k)
  | ["key_decrypt", r, rpk, inp, rsc, ws, fs] =>
    let (res, src, k, sender) := keyDecryptIO P (unhex r) (unhex rpk) (mkSrc inp rsc) (mkSnk ws fs)
    pure (fmtStream res src k ++ " sender=" ++ (match sender with | some b => hex b | none => "-"))
  | ["pass_encrypt", pw, salt, inp, rsc, ws, fs] => do
    let key ← cachedKdf kc (unhex pw) (unhex salt)
    let P' := { P with kdf := fun _ _ => key }
    let (res, src, k) := passEncryptIO P' (unhex pw) (unhex salt) (mkSrc inp rsc) (mkSnk ws fs)
    pure (fmtStream res src k)
  | ["pass_decrypt", pw, inp, rsc, ws, fs] => do
    let b := unhex inp
    let salt := (b.drop 4).take 32
    let P' ← if b.length ≥ 36 then do
        let key ← cachedKdf kc (unhex pw) salt
        pure { P with kdf := fun _ s => if s = salt then key else P.kdf (unhex pw) s }
      else pure P
    let (res, src, k) := passDecryptIO P' (unhex pw) { inp := b, script := parseRd rsc } (mkSnk ws fs)
    pure (fmtStream res src k)
  | ["serialize", key, aad, ctrmode, chunks] =>
    let cl := if chunks == "-" then [[]] else (chunks.splitOn ",").map unhex
    let cf : Nat → Bytes := if ctrmode == "zero" then (fun _ => zeros 8) else if ctrmode == "junk" then (fun i => be64 (i * 7919 + 13)) else be64
    pure ("ok " ++ hex (serialize P.aead (unhex key) (unhex aad) cf 0 cl))
  | ["key_file", s, spk, rs, e, epk, pk, ctrmode, chunks] =>
    let cl := if chunks == "-" then [[]] else (chunks.splitOn ",").map unhex
    let cf : Nat → Bytes := if ctrmode == "zero" then (fun _ => zeros 8) else if ctrmode == "junk" then (fun i => be64 (i * 7919 + 13)) else be64
    match Noise.writeMessage P Generated.encPrologue (unhex s) (unhex spk) (unhex rs) (unhex e) (unhex epk) (unhex pk) with
    | .error e => pure s!"err {noiseErr e}"
    | .ok (msg, h) => pure ("ok " ++ hex (Generated.encPrologue ++ msg ++ serialize P.aead (P.hkdfFile (unhex pk) h) [] cf 0 cl))
  | ["pass_file", pw, salt, ctrmode, chunks] => do
    let cl := if chunks == "-" then [[]] else (chunks.splitOn ",").map unhex
    let cf : Nat → Bytes := if ctrmode == "zero" then (fun _ => zeros 8) else if ctrmode == "junk" then (fun i => be64 (i * 7919 + 13)) else be64
    let key ← cachedKdf kc (unhex pw) (unhex salt)
    pure ("ok " ++ hex (Generated.encPassMagic ++ unhex salt ++ serialize P.aead key Generated.encPassMagic cf 0 cl))
  | ["key_open", r, rpk, hdr] =>
    let h := unhex hdr
    match Noise.readMessage P (h.take 4) (unhex r) (unhex rpk) ((h.drop 4).take 128) with
    | .error e => pure s!"err {noiseErr e}"
    | .ok (pl, spk, hh) => pure s!"ok {hexOrDash pl} {hex spk} {hex hh} {hex (P.hkdfFile pl hh)}"
  | ["cli_run", files, env, stdin, ra, rb, argv] =>
    let w : Cli.World := { files := parsePairs files,
                           env := (parsePairs env).filterMap fun (k, v) => (String.fromUTF8? (ByteArray.mk v.toArray)).map fun s => (k, s.toList),
                           stdin := unhex stdin }
    let args := if argv == "-" then [] else (argv.splitOn ",").filterMap fun a => if a == "" then some [] else strOfHex a
    pure (fmtCli (Cli.main P { a := unhex ra, b := unhex rb } w args))
  | ["cli_tty", files, env, typed, ra, rb, argv] =>
    let w : Cli.World := { files := parsePairs files,
                           env := (parsePairs env).filterMap fun (k, v) => (String.fromUTF8? (ByteArray.mk v.toArray)).map fun s => (k, s.toList),
                           stdin := [] }
    let args := if argv == "-" then [] else (argv.splitOn ",").filterMap fun a => if a == "" then some [] else strOfHex a
    let lines := if typed == "-" then [] else (typed.splitOn ",").filterMap fun a => if a == "" then some [] else strOfHex a
    let r := Cli.mainTty P { a := unhex ra, b := unhex rb } w lines args
    pure (fmtCli r.out ++ s!" retries={r.retries}")
  | ["cli_parse", argv] =>
    let args := if argv == "-" then [] else (argv.splitOn ",").filterMap fun a => if a == "" then some [] else strOfHex a
    pure ("ok " ++ (repr (Cli.parseArgv args)).pretty 100000)
  | ["cli_run_src", files, env, stdin, ra, rb, argv] =>
    -- the GENERATED program (`CliSrc.main` over the translated commands of commands.rs) on this world and argument vector,
    -- printed like `cli_run` (the error class and the sender line are not produced by the translated code: `-`).
    -- The streaming library functions are the ones translated from encrypt.rs / decrypt.rs (`CliSrc.streamLib`), so ALL
    -- commands can be compared with `cli_run` (exit / stdout / files).
    let w : Cli.World := { files := parsePairs files,
                           env := (parsePairs env).filterMap fun (k, v) => (String.fromUTF8? (ByteArray.mk v.toArray)).map fun s => (k, s.toList),
                           stdin := unhex stdin }
    let args := if argv == "-" then [] else (argv.splitOn ",").filterMap fun a => if a == "" then some [] else strOfHex a
    pure (cliRunSrc P { a := unhex ra, b := unhex rb } w args)
  | ["cli_parse_src", argv] =>
    -- the GENERATED `try_main` (KestrelModel/GeneratedCli.lean) on this argument vector, with recording stand-ins for the
    -- functions of commands.rs; printed like `cli_parse`
    let args := if argv == "-" then [] else (argv.splitOn ",").filterMap fun a => if a == "" then some [] else strOfHex a
    pure ("ok " ++ cliParseSrc args)
  | ["hkdf_file", pk, h] => pure ("ok " ++ hex (P.hkdfFile (unhex pk) (unhex h)))
  | ["b64enc", d] => pure ("ok " ++ hexOrDash (B64.encode (unhex d)))
  | ["b64dec", s] => pure (fmtOpt (B64.decode (unhex s)))
  | ["encode_pk", k] => pure ("ok " ++ hexOfStr (Keyring.encodePk (unhex k)))
  | ["decode_pk", s] =>
    match strOfHex s with
    | none => pure "err badutf8"
    | some str => match Keyring.decodePk str with
      | .ok k => pure ("ok " ++ hex k)
      | .error e => pure ("err " ++ krErr e)
  | ["lock", sk, pw, salt] => pure ("ok " ++ hexOfStr (Keyring.lockPrivateKey (unhex sk) (unhex pw) (unhex salt)))
  | ["unlock", s, pw] =>
    match strOfHex s with
    | none => pure "err badutf8"
    | some str => match Keyring.unlockPrivateKey str (unhex pw) with
      | .ok k => pure ("ok " ++ hex k)
      | .error e => pure ("err " ++ krErr e)
  | ["valid_name", s] =>
    match strOfHex s with
    | none => pure "err badutf8"
    | some str => pure (if Keyring.validKeyName str then "ok true" else "ok false")
  | ["parse_keyring", t] =>
    match strOfHex t with
    | none => pure "err badutf8"
    | some str => match Keyring.parse str with
      | some ks => pure (renderKeys ks)
      | none => pure "err parse"
  | ["parse_keyring_src", t] =>
    match strOfHex t with
    | none => pure "err badutf8"
    | some str => match KeyringSrc.Keyring.new str with
      | .ok kr => pure (renderKeysSrc kr)
      | .error .ParseConfig => pure "err parse"
      | .error e => pure ("err " ++ (repr e).pretty)
  | ["serialize_key", n, p, s] =>
    match strOfHex n, strOfHex p, strOfHex s with
    | some n, some p, some s => pure ("ok " ++ hexOfStr (Keyring.serializeKey n p s))
    | _, _, _ => pure "err badutf8"
  | _ => pure "err badop"

partial def loop (kc : KdfCache) (h : IO.FS.Stream) (out : IO.FS.Stream) : IO Unit := do
  let line ← h.getLine
  if line.isEmpty then return ()
  let r ← handle kc line
  out.putStrLn r
  out.flush
  loop kc h out

def main (args : List String) : IO UInt32 := do
  let kc ← IO.mkRef []
  if args == ["selftest"] then
    let ok ← runSelftest
    IO.println (if ok then s!"selftest ok {selftestCases.length} vectors" else "selftest FAILED")
    return (if ok then 0 else 1)
  loop kc (← IO.getStdin) (← IO.getStdout)
  return 0
