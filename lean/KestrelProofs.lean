import KestrelProofs.Aead
import KestrelProofs.Chunks
import KestrelProofs.Noise
import KestrelProofs.File
import KestrelProofs.Prims
import KestrelProofs.Scrypt
import KestrelProofs.Base64
import KestrelProofs.LockedKey
