import KestrelProofs.Aead
import KestrelProofs.Chunks
import KestrelProofs.Noise
import KestrelProofs.File
import KestrelProofs.Prims
import KestrelProofs.Scrypt
