/-
  RsMem — hand-written glue for `KestrelModel/GeneratedFfi.lean` (the translation of `src/ffi/src/lib.rs` by
  tools/rs2lean_ffi.py).  Memory is one flat byte list, a raw pointer is a `Nat` offset into it.

  Trusted reading (not proved): `std::slice::from_raw_parts(p, n)` denotes the bytes `(mem.drop p).take n` (emitted literally
  by the translator), `from_raw_parts_mut(p, n)` the writable range `[p, p+n)`; both are only meaningful where the `# Safety`
  contract of the Rust function holds (the range lies inside `mem`: conjuncts of the generated `<fn>_pre`).
-/
import KestrelModel.Prim.Scrypt
namespace Kestrel.RsMem

/-- a writable slice made by `std::slice::from_raw_parts_mut(p, n)`: the range `[off, off + len)` of memory -/
structure Region where
  /-- the pointer, as an offset into memory -/
  off : Nat
  /-- the number of bytes; `x.len()` of the Rust slice -/
  len : Nat
deriving Repr, DecidableEq

/-- `region.copy_from_slice(v)`: memory with `v` spliced in at the region.  Rust panics when `v.len() != region.len()`;
    totalised here as "memory unchanged" (the generated `<fn>_pre` records `v.length = region.len`). -/
def copyFromSlice (mem : List UInt8) (reg : Region) (v : List UInt8) : List UInt8 :=
  if v.length = reg.len then mem.take reg.off ++ v ++ mem.drop (reg.off + reg.len) else mem

/-- `kestrel_crypto::scrypt(password, salt, n, r, p, dk_len)` (src/crypto/src/lib.rs; the `u32` parameters, here `Nat`, are
    widened with `as usize`): RFC 7914 scrypt.  Same reading as `RsStr.kc_scrypt`; that the code of scrypt.rs computes this
    value where its own `assert!`s hold is `C18_source_eq_spec`. -/
def kc_scrypt (pw salt : List UInt8) (n r p dkLen : Nat) : List UInt8 :=
  Kestrel.Scrypt.Spec.scrypt pw salt n r p dkLen

/-- the C types that occur in the exported prototypes; a Rust parameter type and a C parameter type are compatible when the
    translator maps both to the same constructor -/
inductive CType where
  /-- `const unsigned char*` / `*const c_uchar` -/
  | constUCharPtr
  /-- `unsigned char*` / `*mut c_uchar` -/
  | ucharPtr
  /-- `size_t` / `size_t` (`usize`) -/
  | sizeT
  /-- `unsigned int` / `c_uint` -/
  | uint
deriving Repr, DecidableEq

end Kestrel.RsMem
