/-
  Noise_X_25519_ChaChaPoly_SHA256 as hand-written in src/crypto/src/noise.rs, over an abstract record of
  primitives so that theorems can be stated for any lawful instance and executed with the concrete one.
-/
import KestrelModel.Aead
import KestrelModel.Prim.Sha256
import KestrelModel.Prim.X25519
import KestrelModel.Prim.Scrypt
import KestrelModel.Generated
namespace Kestrel

structure Prims where
  aead : Aead
  hash : Bytes → Bytes                       -- SHA-256
  hkdf2 : Bytes → Bytes → Bytes × Bytes      -- `hkdf_noise chaining_key ikm`
  hkdfFile : Bytes → Bytes → Bytes           -- `hkdf_sha256(&[], payload_key, handshake_hash, 32)`
  dh : Bytes → Bytes → Option Bytes          -- `x25519 private public`; none = all-zero shared secret
  pub : Bytes → Option Bytes                 -- `x25519_derive_public`
  kdf : Bytes → Bytes → Bytes                -- `scrypt(password, salt, 32768, 8, 1, 32)`

def concretePrims : Prims where
  aead := chapolyNoise
  hash := sha256
  hkdf2 := hkdfNoise
  hkdfFile pk h := hkdfSha256 [] pk h 32
  dh := X25519.x25519
  pub := X25519.pubOf
  kdf pw salt := Scrypt.Spec.scrypt pw salt Generated.scryptN Generated.scryptR Generated.scryptP 32

namespace Noise

/-- the protocol name passed to `SymmetricState::new`, taken from the source by the translator -/
def protocolName : Bytes := Generated.protocolNameBytes

/-- SymmetricState: chaining key, handshake hash, cipher key (nonce is always 0 when used in X) -/
structure Sym where
  ck : Bytes
  h : Bytes
  k : Option Bytes
  n : Nat := 0

/-- `SymmetricState::new`: a name of at most 32 bytes is zero-padded, a longer one hashed -/
def Sym.init (P : Prims) (name : Bytes) : Sym :=
  let h0 := if name.length ≤ 32 then name ++ zeros (32 - name.length) else P.hash name
  { ck := h0, h := h0, k := none }

def Sym.mixHash (P : Prims) (s : Sym) (d : Bytes) : Sym := { s with h := P.hash (s.h ++ d) }

def Sym.mixKey (P : Prims) (s : Sym) (ikm : Bytes) : Sym :=
  let (ck, tk) := P.hkdf2 s.ck ikm
  { s with ck := ck, k := some tk, n := 0 }

/-- `encrypt_and_hash` (X always has a key when it is called) -/
def Sym.encryptAndHash (P : Prims) (s : Sym) (pt : Bytes) : Bytes × Sym :=
  let ct := P.aead.enc (s.k.getD []) s.n s.h pt
  (ct, { (s.mixHash P ct) with n := s.n + 1 })

def Sym.decryptAndHash (P : Prims) (s : Sym) (ct : Bytes) : Option (Bytes × Sym) :=
  match P.aead.dec (s.k.getD []) s.n s.h ct with
  | none => none
  | some pt => some (pt, { (s.mixHash P ct) with n := s.n + 1 })

inductive Err | dh | decrypt | other
deriving DecidableEq, Repr

/-- `init_x` for the initiator: prologue and the recipient's static key are mixed into `h` -/
def initI (P : Prims) (prologue rs : Bytes) : Sym :=
  ((Sym.init P protocolName).mixHash P prologue).mixHash P rs

/-- `init_x` for the responder: prologue and the local static public key -/
def initR (P : Prims) (prologue spk : Bytes) : Sym :=
  ((Sym.init P protocolName).mixHash P prologue).mixHash P spk

/-- `HandshakeState::write_message` for the X pattern `e, es, s, ss`:
    `s`/`spk` = sender private key and the public key it *claims*, `rs` = recipient public key,
    `e`/`epk` = ephemeral pair. Returns the message and the handshake hash. -/
def writeMessage (P : Prims) (prologue s spk rs e epk payload : Bytes) : Except Err (Bytes × Bytes) :=
  let st := initI P prologue rs
  -- e
  let st := st.mixHash P epk
  -- es
  match P.dh e rs with
  | none => .error .dh
  | some dh1 =>
    let st := st.mixKey P dh1
    -- s
    let (encS, st) := st.encryptAndHash P spk
    -- ss
    match P.dh s rs with
    | none => .error .dh
    | some dh2 =>
      let st := st.mixKey P dh2
      let (encP, st) := st.encryptAndHash P payload
      .ok (epk ++ encS ++ encP, st.h)

/-- `HandshakeState::read_message` (after the D3 repair: a message shorter than 96 bytes or longer than
    65535 is an error, not a panic). Returns payload, sender static public key, handshake hash. -/
def readMessage (P : Prims) (prologue r rpk msg : Bytes) : Except Err (Bytes × Bytes × Bytes) :=
  if msg.length < 96 ∨ msg.length > 65535 then .error .other else
  let st := initR P prologue rpk
  let re := msg.take 32
  let st := st.mixHash P re
  match P.dh r re with
  | none => .error .dh
  | some dh1 =>
    let st := st.mixKey P dh1
    match st.decryptAndHash P ((msg.drop 32).take 48) with
    | none => .error .decrypt
    | some (rs, st) =>
      if rs.length ≠ 32 then .error .other else
      match P.dh r rs with
      | none => .error .dh
      | some dh2 =>
        let st := st.mixKey P dh2
        match st.decryptAndHash P (msg.drop 80) with
        | none => .error .decrypt
        | some (payload, st) => .ok (payload, rs, st.h)

end Noise
end Kestrel
