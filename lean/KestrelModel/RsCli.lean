/-
  Support definitions for Lean code generated from `src/cli/src/main.rs` / `commands.rs` by `tools/rs2lean_cli.py`
  (namespace `Kestrel.CliSrc`, KestrelModel/GeneratedCli.lean), in addition to RsStr.lean (strings, `Flow`, `unwrap`) and
  RsPrelude.lean (indexing), which are used unchanged.
  HAND-WRITTEN AND TRUSTED: each definition is the meaning the translator gives to one library call; the Rust API it
  stands for is named at each definition.

  * The process state `Sys`: what the program can observe or change outside its own variables — the command line, the
    file system / environment / standard input (the `World` of the hand-written model KestrelModel/Cli.lean), how much of
    standard input was consumed, the bytes written to standard output and standard error, the exit code, the randomness it
    will draw (the model's `Rand`: two values, in order), the primitives of the library model (`Prims`; only `pub` is used).
    As in the model, NO TERMINAL is attached: `isatty` is constantly false and a terminal prompt fails.
  * getopts 0.2.21 is NOT re-modelled here: `Options::parse`, `Matches::opt_str`, `opt_present`, `free` are mapped onto the
    model of getopts in KestrelModel/Cli.lean (`OptSpec`, `getopts`, `findOpt`, `optStr`, `optPresent`), so that the
    hand-written `Cli.parseEncrypt` … and the translated `parse_encrypt` … share ONE reading of the getopts crate.  That
    model describes `long_only(true)` parsers only; which `Fail` a failing parse reports is not modelled (`failOf`).
  * keyring.rs is not re-modelled either: the commands call the definitions generated from it (KeyringSrc, rs2lean_keyring.py).
  * Files: a path is a string; `File` is a handle given by its path (sequential writing at the end); reading a file is left to
    the library.  The four streaming functions of the library are NOT given a meaning (`StreamLib`: a parameter of the
    translated commands).
  * Texts that depend on the operating system or on other crates (`Display` of `std::io::Error`, `PromptError`, of errors
    wrapped into `anyhow::Error`; which `getopts::Fail`) are `opaque` functions: unspecified, and no statement depends on them.
  * `loop` gets an iteration budget from the process state (`fuel`); running out of it is recorded (`outOfFuel`) — never a
    Rust outcome; the statements about commands assume one round, which is what the code needs without a terminal.
-/
import KestrelModel.RsStr
import KestrelModel.GeneratedKeyring
import KestrelModel.Cli
namespace Kestrel.RsCli
open Kestrel.RsStr (Str)

/-! ### `std::ffi::OsString` / `OsStr` -/

/-- an operating-system string: valid Unicode (then given by its characters) or not (then opaque bytes) -/
inductive OsString where
  | unicode (s : Str)
  | other (raw : Bytes)
deriving Repr, DecidableEq, Inhabited

/-- `OsStr::to_str`: `Some` exactly for valid Unicode -/
def OsString.to_str : OsString → Option Str
  | .unicode s => some s
  | .other _ => none

/-! ### error values of other crates (their TEXT is not modelled) -/

/-- `std::env::VarError` -/
inductive VarError where
  | NotPresent
  | NotUnicode (s : OsString)
deriving Repr, DecidableEq, Inhabited

/-- `std::io::Error`: only whether the file was missing -/
inductive IoError where
  | notFound
  | other
deriving Repr, DecidableEq, Inhabited

/-- the `Display` text of an I/O error depends on the operating system: an unspecified function of the error -/
opaque IoError.to_string (e : IoError) : Str

/-- `passterm::PromptError` -/
inductive PromptError where
  | EnableFailed
  | IOError
  | InvalidArgument
deriving Repr, DecidableEq, Inhabited

/-- `Display` for `PromptError`: wraps operating-system texts, unspecified -/
opaque PromptError.to_string (e : PromptError) : Str

/-- `std::string::FromUtf8Error` -/
structure FromUtf8Error where
deriving Repr, DecidableEq, Inhabited

/-- `kestrel_crypto::errors::DhError` (a unit struct) -/
structure DhError where
deriving Repr, DecidableEq, Inhabited

/-- `kestrel_crypto::errors::EncryptError` -/
inductive EncryptError where
  | UnexpectedData
  | IORead (e : IoError)
  | IOWrite (e : IoError)
  | Other (msg : Str)
deriving Repr, DecidableEq, Inhabited

/-- `kestrel_crypto::errors::DecryptError` -/
inductive DecryptError where
  | ChunkLen
  | ChaPolyDecrypt
  | UnexpectedData
  | IORead (e : IoError)
  | IOWrite (e : IoError)
  | Other (msg : Str)
deriving Repr, DecidableEq, Inhabited

/-- `kestrel_crypto::AsymFileFormat` -/
inductive AsymFileFormat where
  | V1
deriving Repr, DecidableEq, Inhabited

/-- `kestrel_crypto::PassFileFormat` -/
inductive PassFileFormat where
  | V1
deriving Repr, DecidableEq, Inhabited

/-- `kestrel_crypto::PayloadKey` (32 bytes) -/
abbrev PayloadKey := Bytes

/-- `passterm::Stream` -/
inductive Stream where
  | Stdin
  | Stdout
  | Stderr
deriving Repr, DecidableEq, Inhabited

/-! ### `anyhow::Error` -/

/-- `anyhow::Error`.  `msg fmt text`: created by `anyhow!(fmt, args…)` — `fmt` is the literal format string (it identifies
    the place in the source), `text` the formatted message.  The other constructors: an error value of another type turned
    into `anyhow::Error` by `?` or `anyhow!(e)`. -/
inductive AnyErr where
  | msg (fmt : Str) (text : Str)
  | prompt (e : PromptError)
  | io (e : IoError)
  | keyring (e : KeyringSrc.KeyringError)
  | dh (e : DhError)
  | encrypt (e : EncryptError)
  | decrypt (e : DecryptError)
deriving Repr, DecidableEq, Inhabited

/-- `Display` for `anyhow::Error` (`{}` and `{:#}`; there is no chain of causes).  The texts of wrapped errors of other
    crates are not modelled (`wrappedText`, unspecified). -/
opaque AnyErr.wrappedText (e : AnyErr) : Str

def AnyErr.to_string : AnyErr → Str
  | .msg _ t => t
  | e => AnyErr.wrappedText e

/-- `Option::ok_or_else` -/
def ok_or_else (o : Option α) (f : Unit → ε) : Except ε α :=
  match o with
  | some a => .ok a
  | none => .error (f ())

/-- `iter.collect::<Result<Vec<_>, _>>()`: the first error (the results after it are not looked at), or all the values -/
def collect_results : List (Except ε α) → Except ε (List α)
  | [] => .ok []
  | .error e :: _ => .error e
  | .ok a :: rest =>
    match collect_results rest with
    | .ok as => .ok (a :: as)
    | .error e => .error e

/-- `str::as_bytes` -/
def str_as_bytes (s : Str) : Bytes := Kestrel.Keyring.utf8 s

/-- `Vec<T>::try_into::<[T; n]>()`: arrays are lists here and the length check is NOT modelled (the translation is faithful
    where the length is `n`; the call sites are listed in the header of the generated file) -/
def vec_try_into_array (v : List α) : Except (List α) (List α) := .ok v

/-- `String::from_utf8` -/
def string_from_utf8 (b : Bytes) : Except FromUtf8Error Str :=
  match Cli.utf8Decode b with
  | some s => .ok s
  | none => .error {}

/-- `Path::file_name()` of a path (a string here: the model's file system is keyed by strings): what follows the last `/`,
    `None` if that is empty (only used in a message) -/
def Path.file_name (p : Str) : Option OsString :=
  let last := ((p.reverse.takeWhile (· != '/')).reverse)
  if last.isEmpty then none else some (.unicode last)

/-- `std::fs::File`: an open file, given by its path.  The translated code writes through such a handle only
    sequentially from a handle made by `File::create` (at the end of what it wrote so far); a handle from `File::open` is only
    handed to the library for reading. -/
structure File where
  path : Str
deriving Repr, DecidableEq, Inhabited

/-- `std::io::Stdin` / `Stdout` (the handles; the streams themselves are in the process state) -/
structure Stdin where
deriving Repr, DecidableEq, Inhabited

structure Stdout where
deriving Repr, DecidableEq, Inhabited

structure Stderr where
deriving Repr, DecidableEq, Inhabited

/-- `std::fs::OpenOptions`: the two options the translated code sets -/
structure OpenOptions where
  create : Bool := false
  append : Bool := false
deriving Repr, DecidableEq, Inhabited

/-- `OpenOptions::new()`, `.create(b)`, `.append(b)` -/
def OpenOptions.new : OpenOptions := {}
def OpenOptions.create' (o : OpenOptions) (b : Bool) : OpenOptions := { o with create := b }
def OpenOptions.append' (o : OpenOptions) (b : Bool) : OpenOptions := { o with append := b }

/-- `Box<dyn Read>` as the translated code builds it: an opened file or standard input -/
inductive DynRead where
  | File (f : File)
  | Stdin (s : Stdin)
deriving Repr, DecidableEq, Inhabited

/-! ### the process state -/

structure Sys where
  /-- `std::env::args_os()` -/
  args : List OsString
  /-- files, environment variables, the content of standard input (no terminal is attached) -/
  world : Cli.World
  /-- the primitives the model of the library is parametrised by (only `pub`, X25519 public-key derivation, is used here) -/
  prims : Prims
  /-- the fresh randomness the process will draw, in the order of the model: first `a`, then `b` -/
  rnd : Cli.Rand
  /-- how many times randomness was drawn so far -/
  draws : Nat := 0
  /-- how many bytes of standard input were consumed by the program itself (`read_line`) -/
  stdinPos : Nat := 0
  /-- bytes written to standard output so far -/
  stdout : Bytes := []
  /-- bytes written to standard error so far -/
  stderr : Bytes := []
  /-- set by `std::process::exit` -/
  exit : Option Int := none
  /-- iteration budget for each `loop` (a device of the embedding, not of the program) and whether a `loop` used it up -/
  fuel : Nat := 1
  outOfFuel : Bool := false

/-- `std::env::args_os()` (collected) -/
def args_os (sys : Sys) : Sys × List OsString := (sys, sys.args)

/-- `print!` / `println!` of a formatted text (UTF-8) -/
def print_stdout (sys : Sys) (text : Str) : Sys := { sys with stdout := sys.stdout ++ Kestrel.Keyring.utf8 text }

/-- `eprint!` / `eprintln!` -/
def print_stderr (sys : Sys) (text : Str) : Sys := { sys with stderr := sys.stderr ++ Kestrel.Keyring.utf8 text }

/-- `std::process::exit(code)` as the last action of `fn main` -/
def process_exit (sys : Sys) (code : Int) : Sys := { sys with exit := some code }

/-- `std::env::var(name)`: the model's environment holds strings, so `NotUnicode` does not occur -/
def env_var (sys : Sys) (name : Str) : Sys × Except VarError Str :=
  (sys, match sys.world.getenv name with
        | some v => .ok v
        | none => .error .NotPresent)

/-- `std::fs::read(path)`: the whole content, or an error when there is no such file -/
def fs_read (sys : Sys) (p : Str) : Sys × Except IoError Bytes :=
  (sys, match sys.world.file p with
        | some b => .ok b
        | none => .error .notFound)

/-- `passterm::isatty(stream)`: no terminal is attached to any standard stream (the setting of the model Cli.lean) -/
def isatty (_s : Stream) : Bool := false

/-- `Path::exists()` -/
def Path.exists (sys : Sys) (p : Str) : Sys × Bool := (sys, (sys.world.file p).isSome)

/-- `File::open(path)`: fails when there is no such file -/
def File.open (sys : Sys) (p : Str) : Sys × Except IoError File :=
  (sys, if (sys.world.file p).isSome then .ok ⟨p⟩ else .error .notFound)

/-- `File::create(path)`: creates the file or truncates it (in the model's world any path can be created) -/
def File.create (sys : Sys) (p : Str) : Sys × Except IoError File :=
  ({ sys with world := sys.world.setFile p [] }, .ok ⟨p⟩)

/-- `File::write(buf)` through a handle made by `File::create`: the bytes go to the end of the file; all are accepted -/
def File.write (sys : Sys) (f : File) (buf : Bytes) : Sys × Except IoError Nat :=
  ({ sys with world := sys.world.setFile f.path (((sys.world.file f.path).getD []) ++ buf) }, .ok buf.length)

/-- `File::flush()`: nothing to do -/
def File.flush (sys : Sys) (_f : File) : Sys × Except IoError Unit := (sys, .ok ())

/-- `OpenOptions::open(path)` with `create(true).append(true)` (the only combination the translated code uses; anything
    else is not modelled: an error): the file is created empty if it does not exist; writes go to its end -/
def OpenOptions.open (sys : Sys) (o : OpenOptions) (p : Str) : Sys × Except IoError File :=
  if o.create && o.append then
    (if (sys.world.file p).isSome then sys else { sys with world := sys.world.setFile p [] }, .ok ⟨p⟩)
  else (sys, .error .other)

/-- `Stdout::write(buf)` / `flush()`: everything is accepted -/
def Stdout.write (sys : Sys) (_o : Stdout) (buf : Bytes) : Sys × Except IoError Nat :=
  ({ sys with stdout := sys.stdout ++ buf }, .ok buf.length)

def Stdout.flush (sys : Sys) (_o : Stdout) : Sys × Except IoError Unit := (sys, .ok ())

/-- `Stderr::flush()` -/
def Stderr.flush (sys : Sys) (_o : Stderr) : Sys × Except IoError Unit := (sys, .ok ())

/-- the bytes up to and including the first newline (all of them if there is none) -/
def lineBytes : Bytes → Bytes
  | [] => []
  | b :: r => if b = 10 then [b] else b :: lineBytes r

/-- `Stdin::read_line(&mut buf)`: the bytes of standard input not yet consumed, up to and including the first newline,
    are appended to `buf` if they are valid UTF-8 (`Ok(number of bytes)`); otherwise an error, `buf` unchanged (in both
    cases the bytes are consumed) -/
def Stdin.read_line (sys : Sys) (_i : Stdin) (buf : Str) : Sys × Str × Except IoError Nat :=
  let line := lineBytes (sys.world.stdin.drop sys.stdinPos)
  let sys' := { sys with stdinPos := sys.stdinPos + line.length }
  match Cli.utf8Decode line with
  | some s => (sys', buf ++ s, .ok line.length)
  | none => (sys', buf, .error .other)

/-- `Write::write_all(buf)` in terms of the writer's `write`: call `write` until everything is written; `Ok(0)` is an error
    (`WriteZero`); no call for an empty buffer.  (`ErrorKind::Interrupted`, which `write_all` retries, does not occur: the
    writers of this model never report it.) -/
def write_all_loop (write : Sys → W → Bytes → Sys × W × Except IoError Nat) : Nat → Sys → W → Bytes → Sys × W × Except IoError Unit
  | 0, sys, w, _ => (sys, w, .error .other)
  | fuel+1, sys, w, buf =>
    if buf.isEmpty then (sys, w, .ok ()) else
    match write sys w buf with
    | (sys, w, .error e) => (sys, w, .error e)
    | (sys, w, .ok n) => if n = 0 then (sys, w, .error .other) else write_all_loop write fuel sys w (buf.drop n)

def write_all (write : Sys → W → Bytes → Sys × W × Except IoError Nat) (sys : Sys) (w : W) (buf : Bytes) : Sys × W × Except IoError Unit :=
  write_all_loop write (buf.length + 1) sys w buf

/-- The four streaming functions of the library (`kestrel_crypto::encrypt::{key_encrypt, pass_encrypt}`,
    `decrypt::{key_decrypt, pass_decrypt}`) over readers `R` and writers `W`; every function returns the process state and
    its `&mut` arguments.  They are NOT given a meaning here: a translated command takes this record as a parameter
    (`lib`), and what is proved about it holds for any behaviour of these four functions. -/
structure StreamLib (R W : Type) where
  key_encrypt : Sys → R → W → RsStr.PrivateKey → RsStr.PublicKey → RsStr.PublicKey → Option RsStr.PrivateKey →
    Option RsStr.PublicKey → Option PayloadKey → AsymFileFormat → Sys × R × W × Except EncryptError Unit
  pass_encrypt : Sys → R → W → Bytes → Bytes → PassFileFormat → Sys × R × W × Except EncryptError Unit
  key_decrypt : Sys → R → W → RsStr.PrivateKey → RsStr.PublicKey → AsymFileFormat → Sys × R × W × Except DecryptError RsStr.PublicKey
  pass_decrypt : Sys → R → W → Bytes → PassFileFormat → Sys × R × W × Except DecryptError Unit

/-- `passterm::prompt_password_tty(prompt)`: opens the controlling terminal, which does not exist: fails, prints nothing -/
def prompt_password_tty (sys : Sys) (_prompt : Option Str) : Sys × Except PromptError Str := (sys, .error .IOError)

/-- `passterm::prompt_password_stdin(prompt, stream)`: only called when standard input is a terminal, which it never is
    here; totalised: fails -/
def prompt_password_stdin (sys : Sys) (_prompt : Option Str) (_s : Stream) : Sys × Except PromptError Str :=
  (sys, .error .IOError)

/-- `kestrel_crypto::secure_random(n)`: the next value of the randomness the model provides (`a` first, then `b`; they
    are assumed to have the requested length) -/
def secure_random (sys : Sys) (_n : Nat) : Sys × Bytes :=
  ({ sys with draws := sys.draws + 1 }, if sys.draws = 0 then sys.rnd.a else sys.rnd.b)

/-- `PrivateKey::generate()`: 32 bytes of `secure_random` -/
def PrivateKey.generate (sys : Sys) : Sys × RsStr.PrivateKey :=
  let (sys, b) := secure_random sys 32
  (sys, ⟨b⟩)

/-- `PrivateKey::to_public()`: X25519 public-key derivation (`Prims.pub`; `None` = `DhError`) -/
def PrivateKey.to_public (sys : Sys) (sk : RsStr.PrivateKey) : Sys × Except DhError RsStr.PublicKey :=
  (sys, match sys.prims.pub sk.key with
        | some pk => .ok ⟨pk⟩
        | none => .error {})

/-- the iteration budget of a `loop` -/
def fuel (sys : Sys) : Nat := sys.fuel

/-- a `loop` used up its budget: recorded in the process state (never a Rust outcome) -/
def out_of_fuel (sys : Sys) : Sys := { sys with outOfFuel := true }

/-- `loop { body }` over the tuple `s` of outer variables the body assigns.  One run of the body ends with `next s'`
    (reached the end: go round again), `cont (inl s')` (`continue`), `cont (inr b)` (`break`: `b` = the variables and the
    value of the `break`) or `ret r` (`return`).  After `fuel` rounds the function returns `r0`. -/
def loop : Nat → (σ → RsStr.Flow ρ (σ ⊕ β) σ) → σ → ρ → RsStr.Flow ρ κ β
  | 0, _, _, r0 => .ret r0
  | n+1, body, s, r0 =>
    match body s with
    | .next s' => loop n body s' r0
    | .cont (.inl s') => loop n body s' r0
    | .cont (.inr b) => .next b
    | .ret r => .ret r

/-! ### getopts 0.2.21, mapped onto the model in KestrelModel/Cli.lean -/

/-- `getopts::Fail` -/
inductive Fail where
  | ArgumentMissing (name : Str)
  | UnrecognizedOption (name : Str)
  | OptionMissing (name : Str)
  | OptionDuplicated (name : Str)
  | UnexpectedArgument (name : Str)
deriving Repr, DecidableEq, Inhabited

/-- `impl Display for Fail` (getopts 0.2.21 lib.rs) -/
def Fail.to_string : Fail → Str
  | .ArgumentMissing nm => "Argument to option '".toList ++ nm ++ "' missing".toList
  | .UnrecognizedOption nm => "Unrecognized option: '".toList ++ nm ++ "'".toList
  | .OptionMissing nm => "Required option '".toList ++ nm ++ "' missing".toList
  | .OptionDuplicated nm => "Option '".toList ++ nm ++ "' given more than once".toList
  | .UnexpectedArgument nm => "Option '".toList ++ nm ++ "' does not take an argument".toList

/-- `getopts::Options`: the option declarations in order, and whether `long_only(true)` was called -/
structure Options where
  specs : List Cli.OptSpec := []
  longOnly : Bool := false
deriving Repr

/-- `Options::new()` -/
def Options.new : Options := {}

/-- `Options::long_only` -/
def Options.long_only (o : Options) (b : Bool) : Options := { o with longOnly := b }

/-- the short name of a declaration: `""` = none, otherwise its first character (getopts asserts it is at most one) -/
def shortOf (s : Str) : Option Char := s.head?

/-- `Options::reqopt(short, long, desc, hint)`: takes an argument, must occur (description and hint only affect the usage text) -/
def Options.reqopt (o : Options) (short long _desc _hint : Str) : Options :=
  { o with specs := o.specs ++ [⟨shortOf short, long, true, true⟩] }

/-- `Options::optopt(short, long, desc, hint)`: takes an argument, may be absent -/
def Options.optopt (o : Options) (short long _desc _hint : Str) : Options :=
  { o with specs := o.specs ++ [⟨shortOf short, long, true, false⟩] }

/-- `Options::optflag(short, long, desc)`: no argument, may be absent -/
def Options.optflag (o : Options) (short long _desc : Str) : Options :=
  { o with specs := o.specs ++ [⟨shortOf short, long, false, false⟩] }

/-- `getopts::Matches`: the declarations (for the lookup by name) and what the model's scanner found -/
structure Matches where
  opts : List Cli.OptSpec
  m : Cli.Matches
deriving Repr

instance : Inhabited Matches := ⟨⟨[], {}⟩⟩

/-- WHICH `Fail` a failing parse reports is not modelled (the model in Cli.lean only says THAT the parse fails):
    an unspecified function of the declarations and the arguments.  No statement depends on its value. -/
opaque failOf (specs : List Cli.OptSpec) (args : List Str) : Fail

/-- the result of a parser for which `long_only(true)` was NOT called: not modelled (Cli.lean models long_only parsers) -/
opaque parseNotLongOnly (specs : List Cli.OptSpec) (args : List Str) : Except Fail Matches

/-- `Options::parse(args)` -/
def Options.parse (o : Options) (args : List Str) : Except Fail Matches :=
  if o.longOnly then
    match Cli.getopts o.specs args with
    | some m => .ok ⟨o.specs, m⟩
    | none => .error (failOf o.specs args)
  else parseNotLongOnly o.specs args

/-- the field `Matches::free` -/
def Matches.free (m : Matches) : List Str := m.m.free

/-- `Matches::opt_str(name)`: `find_opt` as in the model (a one-character name is a short name); getopts panics when no
    such option was declared (totalised: `None`) -/
def Matches.opt_str (m : Matches) (name : Str) : Option Str :=
  match Cli.findOpt m.opts name with
  | some id => Cli.optStr m.m id
  | none => none

/-- `Matches::opt_present(name)` (panics when no such option was declared; totalised: `false`) -/
def Matches.opt_present (m : Matches) (name : Str) : Bool :=
  match Cli.findOpt m.opts name with
  | some id => Cli.optPresent m.m id
  | none => false

end Kestrel.RsCli
