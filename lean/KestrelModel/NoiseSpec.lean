/-
  A declarative reading of Noise_X (Noise Protocol Framework rev. 34, §5 and §7.4: `X: ← s … → e, es, s, ss`):
  a generic token interpreter driven by the token list the translator extracts from noise.rs.
  `KestrelProps/C06.lean` proves that the hard-coded flow in `Noise.lean` (the shape of the Rust code) equals it.
-/
import KestrelModel.Noise
namespace Kestrel.Noise.Spec
open Kestrel.Generated (Token)

structure HS where
  sym : Sym
  s : Bytes      -- local static private key
  spk : Bytes    -- local static public key
  e : Bytes      -- local ephemeral private key
  epk : Bytes    -- local ephemeral public key
  rs : Bytes     -- remote static public key (initiator: known in advance; responder: learnt from the message)
  re : Bytes     -- remote ephemeral public key
  msg : Bytes    -- initiator: message built so far; responder: unread remainder

/-- initiator side of one token (§5.3 WriteMessage) -/
def writeToken (P : Prims) (hs : HS) : Token → Except Err HS
  | .E => .ok { hs with msg := hs.msg ++ hs.epk, sym := hs.sym.mixHash P hs.epk }
  | .S => let (c, sym) := hs.sym.encryptAndHash P hs.spk; .ok { hs with msg := hs.msg ++ c, sym := sym }
  | .ES => match P.dh hs.e hs.rs with
    | none => .error .dh
    | some d => .ok { hs with sym := hs.sym.mixKey P d }
  | .SS => match P.dh hs.s hs.rs with
    | none => .error .dh
    | some d => .ok { hs with sym := hs.sym.mixKey P d }
  | .EE => .error .other
  | .SE => .error .other

def writeTokens (P : Prims) : HS → List Token → Except Err HS
  | hs, [] => .ok hs
  | hs, t :: ts => match writeToken P hs t with
    | .error e => .error e
    | .ok hs' => writeTokens P hs' ts

/-- Initialize(X, initiator, prologue, s, e, rs) then WriteMessage(payload): pre-message `← s` mixes rs into h -/
def writeMessage (P : Prims) (prologue s spk rs e epk payload : Bytes) : Except Err (Bytes × Bytes) :=
  let sym := ((Sym.init P protocolName).mixHash P prologue).mixHash P rs
  match writeTokens P { sym := sym, s := s, spk := spk, e := e, epk := epk, rs := rs, re := [], msg := [] } Generated.tokenPattern with
  | .error e => .error e
  | .ok hs =>
    let (c, sym) := hs.sym.encryptAndHash P payload
    .ok (hs.msg ++ c, sym.h)

/-- responder side of one token (§5.3 ReadMessage); DHLEN = 32, an encrypted key is DHLEN + 16 bytes -/
def readToken (P : Prims) (hs : HS) : Token → Except Err HS
  | .E => let re := hs.msg.take 32; .ok { hs with re := re, msg := hs.msg.drop 32, sym := hs.sym.mixHash P re }
  | .S => match hs.sym.decryptAndHash P (hs.msg.take 48) with
    | none => .error .decrypt
    | some (rs, sym) => if rs.length ≠ 32 then .error .other else .ok { hs with rs := rs, msg := hs.msg.drop 48, sym := sym }
  | .ES => match P.dh hs.s hs.re with       -- responder: DH(s, re)
    | none => .error .dh
    | some d => .ok { hs with sym := hs.sym.mixKey P d }
  | .SS => match P.dh hs.s hs.rs with
    | none => .error .dh
    | some d => .ok { hs with sym := hs.sym.mixKey P d }
  | .EE => .error .other
  | .SE => .error .other

def readTokens (P : Prims) : HS → List Token → Except Err HS
  | hs, [] => .ok hs
  | hs, t :: ts => match readToken P hs t with
    | .error e => .error e
    | .ok hs' => readTokens P hs' ts

def readMessage (P : Prims) (prologue r rpk msg : Bytes) : Except Err (Bytes × Bytes × Bytes) :=
  if msg.length < 96 ∨ msg.length > 65535 then .error .other else
  let sym := ((Sym.init P protocolName).mixHash P prologue).mixHash P rpk
  match readTokens P { sym := sym, s := r, spk := rpk, e := [], epk := [], rs := [], re := [], msg := msg } Generated.tokenPattern with
  | .error e => .error e
  | .ok hs =>
    match hs.sym.decryptAndHash P hs.msg with
    | none => .error .decrypt
    | some (payload, sym) => .ok (payload, hs.rs, sym.h)

end Kestrel.Noise.Spec
