/-
  Support definitions for Lean code generated from `encrypt.rs` / `decrypt.rs` by `tools/rs2lean_stream.py`
  (namespace `Kestrel.StreamSrc`, KestrelModel/GeneratedStream.lean).
  HAND-WRITTEN AND TRUSTED, like RsPrelude.lean: each definition is the meaning the translator gives to one Rust
  construct or to one method of `std::io::Read` / `std::io::Write`.

  Control flow.  A Rust block is translated in continuation-passing form: the statements after a `?`, after an `if`
  that may leave the block, or after a `loop` are the continuation of a `match`.  Three small types say how a block ended:
    * `Rs.Step α τ`   — an `if` statement that is not last in its block: `.cont a` = fell through with the variables it
                         assigned, `.exit t` = left the enclosing block with that block's value `t` (`return`, `break`, `?`);
    * `Rs.Flow σ ρ`   — one run of a `loop` body: `.next s` = reached the end (or `continue`), `.brk s` = `break`,
                         `.ret r` = `return` from the function, `s` being the tuple of outer variables the body assigns;
    * `Rs.LoopOut σ ρ`— a whole `loop`: `.brk s`, `.ret r`, or `.outOfFuel` when the explicit iteration budget is used up.
  A function containing a `loop` gets one extra `fuel : Nat` parameter per loop and returns `Option _`: `none` is the
  distinguished "ran out of fuel" outcome (never a Rust outcome).

  I/O.  `T: Read` is a scripted `Kestrel.Src`, `U: Write` a scripted `Kestrel.Snk` (KestrelModel/IO.lean, which models
  `read`, `read_exact`, `write_all`, `flush` with short reads, partial writes, `Interrupted` retries and `Ok(0)`).
  `std::io::Error` is `RsIO.IoError` (only its `kind()` is modelled).  Every method returns the Rust result first, then
  the new receiver, then the new contents of a `&mut` buffer argument.
-/
import KestrelModel.RsPrelude
import KestrelModel.IO
import KestrelModel.Aead
import KestrelModel.Noise
namespace Kestrel.Rs

/-- how a non-final `if` statement ended -/
inductive Step (α τ : Type) where
  | cont (a : α)
  | exit (t : τ)

/-- sequencing: run the rest of the block after an `if` statement that fell through -/
def Step.andThen (x : Step α τ) (k : α → τ) : τ :=
  match x with
  | .cont a => k a
  | .exit t => t

/-- how one run of a `loop` body ended -/
inductive Flow (σ ρ : Type) where
  | next (s : σ)
  | brk (s : σ)
  | ret (r : ρ)

/-- how a `loop` ended -/
inductive LoopOut (σ ρ : Type) where
  | brk (s : σ)
  | ret (r : ρ)
  | outOfFuel

/-- `loop { body }` with an explicit iteration budget -/
def loop (body : σ → Flow σ ρ) : Nat → σ → LoopOut σ ρ
  | 0, _ => .outOfFuel
  | fuel+1, s =>
    match body s with
    | .next s' => loop body fuel s'
    | .brk s' => .brk s'
    | .ret r => .ret r

/-- `x as u32` for a `usize`/`u64` value `x` -/
def truncU32 (x : Nat) : Nat := x % 2^32

/-- a Rust function returning `Result<T, E>` where the Lean side returns `Option T` (`None` = `Err(E)`, `E` a unit struct) -/
def okOr (o : Option α) : Except Unit α :=
  match o with
  | some a => .ok a
  | none => .error ()

@[simp] theorem Step.andThen_cont (a : α) (k : α → τ) : (Step.cont a).andThen k = k a := rfl
@[simp] theorem Step.andThen_exit (t : τ) (k : α → τ) : (Step.exit t : Step α τ).andThen k = t := rfl
theorem Step.andThen_ite (c : Prop) [Decidable c] (x y : Step α τ) (k : α → τ) :
    (if c then x else y).andThen k = if c then x.andThen k else y.andThen k := by
  split <;> rfl
@[simp] theorem loop_zero (body : σ → Flow σ ρ) (s : σ) : loop body 0 s = .outOfFuel := rfl
theorem loop_succ (body : σ → Flow σ ρ) (fuel : Nat) (s : σ) :
    loop body (fuel + 1) s = match body s with
      | .next s' => loop body fuel s'
      | .brk s' => .brk s'
      | .ret r => .ret r := rfl

end Kestrel.Rs

namespace Kestrel.RsIO

/-- the `std::io::ErrorKind`s the scripted source and sink can produce (constructor names as in Rust) -/
inductive ErrorKind where
  | Other | Interrupted | UnexpectedEof | WriteZero
deriving DecidableEq, Repr

/-- `std::io::Error`: only the kind is modelled -/
structure IoError where
  kind : ErrorKind
deriving DecidableEq, Repr

/-- `src.read(&mut buf)`: `Ok(n)` with the first `n` bytes of `buf` replaced, or an error (buffer unchanged).
    Capacity = `buf.len()`. -/
def read (s : Src) (buf : Bytes) : Except IoError Nat × Src × Bytes :=
  match s.read buf.length with
  | (.got b, s') => (.ok b.length, s', b ++ buf.drop b.length)
  | (.err, s') => (.error ⟨.Other⟩, s', buf)
  | (.interrupted, s') => (.error ⟨.Interrupted⟩, s', buf)

/-- which error a failing `read_exact` reports (replays `Src.readExact`): `Ok(0)` ⇒ UnexpectedEof, a hard error ⇒ Other -/
def readExactErrKind : Nat → Src → Nat → ErrorKind
  | 0, _, _ => .Other
  | fuel+1, s, need =>
    if need = 0 then .Other else
    match s.read need with
    | (.err, _) => .Other
    | (.interrupted, s') => readExactErrKind fuel s' need
    | (.got b, s') => if b.length = 0 then .UnexpectedEof else readExactErrKind fuel s' (need - b.length)

/-- `src.read_exact(&mut buf)`: `Ok(())` with `buf` filled completely, or an error (Rust leaves the buffer contents
    unspecified then; totalised: unchanged). -/
def readExact (s : Src) (buf : Bytes) : Except IoError Unit × Src × Bytes :=
  match Src.readExact (s.fuel buf.length) s buf.length with
  | (some b, s') => (.ok (), s', b)
  | (none, s') => (.error ⟨readExactErrKind (s.fuel buf.length) s buf.length⟩, s', buf)

/-- which error a failing `write_all` reports (replays `Snk.writeAll`): `Ok(0)` ⇒ WriteZero, a hard error ⇒ Other -/
def writeAllErrKind (at_ : Nat × Nat) : Nat → Snk → Bytes → ErrorKind
  | 0, _, _ => .Other
  | fuel+1, k, b =>
    if b.isEmpty then .Other else
    match k.write at_ b with
    | (.err, _) => .Other
    | (.interrupted, k') => writeAllErrKind at_ fuel k' b
    | (.wrote n, k') => if n = 0 then .WriteZero else writeAllErrKind at_ fuel k' (b.drop n)

/-- `snk.write_all(x)`.  `at_` is the reader that is in scope at the call: the sink's write log (ghost state) records
    where that reader stood (`pos`, `nreads`). -/
def writeAll (k : Snk) (at_ : Src) (x : Bytes) : Except IoError Unit × Snk :=
  match Snk.writeAll (at_.pos, at_.nreads) (k.wfuel x) k x with
  | (true, k') => (.ok (), k')
  | (false, k') => (.error ⟨writeAllErrKind (at_.pos, at_.nreads) (k.wfuel x) k x⟩, k')

/-- `snk.flush()` -/
def flush (k : Snk) : Except IoError Unit × Snk :=
  match k.flush with
  | (true, k') => (.ok (), k')
  | (false, k') => (.error ⟨match k.fs with | .errInterrupted :: _ => .Interrupted | _ => .Other⟩, k')

/-! ### crate functions that stay external in the file-level functions: fields of `Kestrel.Prims` -/

/-- `crate::scrypt(password, salt, n, r, p, dk_len)`.  `Prims.kdf` is scrypt at kestrel's parameters (N, r, p as in lib.rs,
    32 bytes of output); any other parameters are RFC 7914 scrypt itself. -/
def scrypt (P : Prims) (pw salt : Bytes) (n r p dkLen : Nat) : Bytes :=
  if n = Generated.scryptN ∧ r = Generated.scryptR ∧ p = Generated.scryptP ∧ dkLen = 32 then P.kdf pw salt
  else Scrypt.Spec.scrypt pw salt n r p dkLen

/-- `crate::hkdf_sha256(salt, ikm, info, len)`.  `Prims.hkdfFile ikm info` is HKDF-SHA-256 with an empty salt and 32 bytes
    of output (the file-key derivation); anything else is HKDF-SHA-256 itself. -/
def hkdfSha256 (P : Prims) (salt ikm info : Bytes) (len : Nat) : Bytes :=
  if salt = [] ∧ len = 32 then P.hkdfFile ikm info else Kestrel.hkdfSha256 salt ikm info len

/-- `crate::NoiseEncryptMsg` (field names as in lib.rs) -/
structure NoiseEncryptMsg where
  ciphertext : Bytes
  handshake_hash : Bytes
deriving Repr

/-- `crate::NoiseDecryptMsg` (field names as in lib.rs); `PayloadKey` / `PublicKey` are their bytes -/
structure NoiseDecryptMsg where
  payload_key : Bytes
  public_key : Bytes
  handshake_hash : Bytes
deriving Repr

/-- `crate::noise_encrypt(sender, sender_public, recipient, ephemeral, ephemeral_public, prologue, payload_key)`:
    `Noise.writeMessage` with the ephemeral pair when both halves are supplied (`HandshakeState::init_x` keeps the pair only
    then); otherwise `write_message` generates one: `PrivateKey::generate()` = 32 bytes of `secure_random` (`rand 32`) and its
    public key (`P.pub`, a failure being `NoiseError::DhError`). -/
def noiseEncrypt (P : Prims) (rand : Nat → Bytes) (s spk rs : Bytes) (e epk : Option Bytes) (prologue pk : Bytes) :
    Except Noise.Err NoiseEncryptMsg :=
  let pair : Except Noise.Err (Bytes × Bytes) :=
    match e, epk with
    | some e, some epk => .ok (e, epk)
    | _, _ => match P.pub (rand 32) with
      | some epk => .ok (rand 32, epk)
      | none => .error .dh
  match pair with
  | .error err => .error err
  | .ok (e, epk) =>
    match Noise.writeMessage P prologue s spk rs e epk pk with
    | .error err => .error err
    | .ok (msg, h) => .ok ⟨msg, h⟩

/-- `crate::noise_decrypt(recipient, recipient_public, prologue, handshake_message)`: `Noise.readMessage`, then the check
    that the payload is 32 bytes (`NoiseError::Other` otherwise) -/
def noiseDecrypt (P : Prims) (r rpk prologue msg : Bytes) : Except Noise.Err NoiseDecryptMsg :=
  match Noise.readMessage P prologue r rpk msg with
  | .error err => .error err
  | .ok (pk, spk, h) => if pk.length ≠ 32 then .error .other else .ok ⟨pk, spk, h⟩

end Kestrel.RsIO
