/-
  Hand-written glue for `GeneratedContainers.lean` (tools/rs2lean_containers.py): what the `zeroize` crate (1.8.1, vendored under
  ~/.cargo/registry/src/*/zeroize-1.8.1/src/lib.rs) does to the field types the secret containers are made of, seen at the
  level of the SOURCE: a field that can hold bytes is modelled by the contents of the memory block it owns.

    `<[u8]>::zeroize`            lib.rs 482-497  `volatile_set(ptr, 0, len)` + fence: every byte of the slice becomes 0, the slice
                                 keeps its length                                                    -> `bytes`
    `<[u8; N]>::zeroize`         lib.rs 369-376  `self.iter_mut().zeroize()`: the same                -> `bytes`
    `Vec<u8>::zeroize`           lib.rs 543-561  zeroizes the `len` initialised elements, `clear()`s, then zeroizes the spare
                                 capacity.  The block keeps its size and is all zero; the *logical* length becomes 0.  We model
                                 the block (`[0, len)` of it: the capacity beyond `len` is not in the model)  -> `bytes`
    `String::zeroize`            lib.rs 589-593  `self.as_mut_vec().zeroize()`: as `Vec<u8>`           -> `bytes`
    `Box<[u8]>`, `Zeroizing<T>`  lib.rs 567-576, 702-709  the payload's zeroize                         -> the payload's
    `Option<Z>::zeroize`         lib.rs 392-430  `if let Some(v) = self { v.zeroize(); self.take(); }`, then the `Option` itself is
                                 overwritten with the `None` pattern.  The payload's block is zero when `take()` releases it.
                                 We keep showing that block with its final contents (`Option.map`): the structure after
                                 `zeroize` / `drop` is a picture of what every block the value owned holds when it is handed
                                 back, not of the (by then `None`) Rust value                           -> `opt`
    integers                     lib.rs 297-305  `volatile_write(self, 0)`                               -> `nat`
    `OnceLock`, `OnceCell`, `RefCell`   have NO `Zeroize` impl: `self.f.zeroize()` on such a field does not compile; the
                                 translator refuses it.  Their payload is reached by `get_mut()` / `borrow_mut()`.
  Not modelled: volatility and fences (that the compiler keeps the stores), spare capacity, reallocation, copies outside the
  struct.
-/
import KestrelModel.Bytes
namespace Kestrel.RsZeroize

/-- zeroize of a block of bytes: zeros, same size -/
def bytes (b : List UInt8) : List UInt8 := zeros b.length

/-- `b[lo..hi].zeroize()`; Rust panics when `lo > hi` or `hi > len` (here: nothing is written) -/
def bytesRange (lo hi : Nat) (b : List UInt8) : List UInt8 :=
  if lo ≤ hi ∧ hi ≤ b.length then b.take lo ++ zeros (hi - lo) ++ b.drop hi else b

/-- zeroize of an integer -/
def nat (_ : Nat) : Nat := 0

/-- zeroize of an `Option` / `OnceLock` payload, when there is one -/
def opt {α : Type} (f : α → α) (o : Option α) : Option α := o.map f

/-- the block holds zeros only -/
def wiped (b : List UInt8) : Prop := ∀ x ∈ b, x = 0

/-- the block of an optional payload, if there is one, holds zeros only -/
def wipedOpt (o : Option (List UInt8)) : Prop := ∀ b, o = some b → wiped b

/-- the block has kept its size -/
def sameLen (a b : List UInt8) : Prop := a.length = b.length

def sameLenOpt (a b : Option (List UInt8)) : Prop := a.map List.length = b.map List.length

/-- the memory blocks a field owns -/
def blocks (b : List UInt8) : List (List UInt8) := [b]

def blocksOpt (o : Option (List UInt8)) : List (List UInt8) := o.toList

end Kestrel.RsZeroize
