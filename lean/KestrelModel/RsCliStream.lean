/-
  `CliSrc.streamLib`: the four streaming functions of the library (`kestrel_crypto::encrypt::{key_encrypt, pass_encrypt}`,
  `decrypt::{key_decrypt, pass_decrypt}`) for the translated commands of commands.rs (KestrelModel/GeneratedCli.lean), given
  the meaning of the code GENERATED from encrypt.rs / decrypt.rs (KestrelModel/GeneratedStream.lean, namespace `StreamSrc`).
  HAND-WRITTEN AND TRUSTED glue between two generated files; it contains no cryptography and no file format.

  The generated stream functions are written over the scripted source / sink of KestrelModel/IO.lean (`Src`, `Snk`), the
  translated commands hand over a `Box<dyn Read>` (`RsCli.DynRead`: an opened file or standard input) and a `Box<dyn Write>`
  (`CliSrc.DynWrite`: the translated `OnDemandFile`, a file, standard output).  Every modelling decision made to connect the two:

  1. READER.  The model world has no I/O faults: a `DynRead` is run as the UNSCRIPTED source `{ inp := bytes }` (every `read`
     fills the buffer as far as data remains), `bytes` = the content of the file in the world at the time of the call
     (`readerBytes`; a missing file reads as empty — `File::open` already refused it), or what is left of standard input
     (`world.stdin` from `stdinPos` on).  Afterwards the bytes the source delivered (`Src.pos`) count as consumed from standard
     input (`consume`); the position inside an input FILE is not part of the process state (the handle is dropped by the
     command).  The content is a snapshot: this is faithful when the writer does not write to the file being read, which the
     commands ensure (the "Input and output files must be different" check; in the model world a file is its path).
  2. WRITER.  The generated function writes into the fresh unscripted sink `{}` (every `write` accepts the whole buffer, every
     `flush` succeeds — which is also how the translated writers behave: `RsCli.File.write`, `Stdout.write`).  The sink records
     one log entry per `write()` call (with the number of bytes accepted), all bytes in order (`out`), and the number of `flush()`
     calls.  These calls are then made on the TRANSLATED writer (`replay` = `runEvents … (eventsOf k)`): one `DynWrite.write`
     (generated code: `OnDemandFile::write` with `ensure_created`, or `Stdout::write`) per log entry, oldest first, with the
     bytes that entry accounts for, followed by the recorded number of `DynWrite.flush` calls.  So whether / when the output file
     is created is decided by the translated `OnDemandFile`, not here.
     The sink does not record how the `flush` calls were interleaved with the `write` calls; `replay` makes them last.  That the
     interleaving is immaterial for the writers the commands build is PROVED, not assumed (KestrelProofs/CliFullSrc.lean:
     `runEvents_writer_file`, `runEvents_writer_stdout` — for EVERY sequence of write / flush calls the effect on the world depends
     only on the concatenated bytes and on whether the sequence is empty — and `runEvents_interleaving`), as are the facts that the
     translated writers accept every buffer whole and never fail (`write_accepts_all`, `flush_succeeds`), that the log entries of
     the final sink account for exactly the bytes in `out` (`Acct`, `acct_keyDecryptIO` …), and hence that `replay` on the writer
     of an output argument is the model's `Cli.deliver` (`replay_deliver`).
     Replaying AFTER the run instead of during it is sound for the same reason as in 1 (reads do not see the writes).
  3. LOOP FUEL.  `input.length + 2` for the encrypting functions, `input.length + 1` for the decrypting ones: the bounds of
     `stream_source_*` (KestrelProps/StreamSrcEnc.lean / StreamSrcDec.lean) for an unscripted source, so "out of fuel" (`none`)
     does not occur (proved); should it, it is recorded like any other exhausted `loop` budget (`RsCli.out_of_fuel`) and reported
     as an error.
  4. EXTERNALS of the generated functions: the AEAD is `sys.prims.aead` and the primitives `sys.prims`, exactly as in
     `stream_source_key_encrypt` … (KestrelProps/StreamSrc*.lean).
  5. RANDOMNESS (`key_encrypt` only).  The generated `key_encrypt` takes `secure_random` as a pure function `rand`, which cannot
     give two different values for its two `secure_random(32)` calls (the payload key, encrypt.rs line 43; the ephemeral private
     key, `PrivateKey::generate()` inside `noise_encrypt` → `write_message`).  So the `None` arguments are resolved HERE, drawing
     from the process's randomness (`RsCli.secure_random`, `RsCli.PrivateKey.generate` / `to_public`) in the order the library
     draws: payload key first, then the ephemeral key pair (only when not both halves are supplied, as `HandshakeState::init_x`
     / `RsIO.noiseEncrypt` have it); a failing public-key derivation is the `EncryptError::Other("Key exchange failed")` of
     encrypt.rs line 54, before anything is written.  The generated function is then called with all three `Some`, where it
     does not use `rand` (passed as a dummy).
  6. RESULTS.  The generated functions return the result CLASS `Kestrel.Res` (payloads of the error values — an `io::Error`, a
     message — are not modelled there); `encResult` / `decError` map the class back to the constructor of `EncryptError` /
     `DecryptError` with an unspecified (`IoError.other`, empty message) payload.  No statement depends on the payloads.
     `AsymFileFormat` / `PassFileFormat` (one variant each) are mapped to the enums of GeneratedStream.lean.
-/
import KestrelModel.GeneratedCli
import KestrelModel.GeneratedStream
namespace Kestrel.CliSrc
open Kestrel Kestrel.RsCli

/-- the bytes a `Box<dyn Read>` will deliver (decision 1) -/
def readerBytes (sys : Sys) : DynRead → Bytes
  | .File f => (sys.world.file f.path).getD []
  | .Stdin _ => sys.world.stdin.drop sys.stdinPos

/-- `n` bytes were read through the reader (decision 1) -/
def consume (sys : Sys) (r : DynRead) (n : Nat) : Sys :=
  match r with
  | .File _ => sys
  | .Stdin _ => { sys with stdinPos := sys.stdinPos + n }

/-- a call made on a writer -/
inductive WEv where
  | write (b : Bytes)
  | flush
deriving Repr, DecidableEq

/-- make a sequence of calls on the translated `Box<dyn Write>`, stopping at the first error -/
def runEvents : Sys → DynWrite → List WEv → Sys × DynWrite × Except IoError Unit
  | sys, w, [] => (sys, w, .ok ())
  | sys, w, .write b :: evs =>
    match DynWrite.write sys w b with
    | (sys, w, .ok _) => runEvents sys w evs
    | (sys, w, .error e) => (sys, w, .error e)
  | sys, w, .flush :: evs =>
    match DynWrite.flush sys w with
    | (sys, w, .ok _) => runEvents sys w evs
    | (sys, w, .error e) => (sys, w, .error e)

/-- one `write` call per log entry (sizes oldest first), each with the bytes it accounts for -/
def writeCalls : List Nat → Bytes → List WEv
  | [], _ => []
  | n :: ns, b => .write (b.take n) :: writeCalls ns (b.drop n)

/-- the calls an unscripted sink recorded (decision 2): its `write` calls in order, then its `flush` calls -/
def eventsOf (k : Snk) : List WEv :=
  writeCalls (k.log.reverse.map (·.n)) k.out ++ List.replicate k.flushes .flush

/-- the recorded calls, made on the translated writer -/
def replay (sys : Sys) (w : DynWrite) (k : Snk) : Sys × DynWrite × Except IoError Unit :=
  runEvents sys w (eventsOf k)

/-- decision 6 -/
def encError : Res → EncryptError
  | .unexpectedData => .UnexpectedData
  | .ioRead => .IORead .other
  | .ioWrite => .IOWrite .other
  | _ => .Other []

def encResult : Res → Except EncryptError Unit
  | .ok => .ok ()
  | r => .error (encError r)

def decError : Res → DecryptError
  | .chunkLen => .ChunkLen
  | .auth => .ChaPolyDecrypt
  | .unexpectedData => .UnexpectedData
  | .ioRead => .IORead .other
  | .ioWrite => .IOWrite .other
  | _ => .Other []

def decResult : Res → Except DecryptError Unit
  | .ok => .ok ()
  | r => .error (decError r)

def asymFmt : AsymFileFormat → StreamSrc.AsymFileFormat
  | .V1 => .V1

def passFmt : PassFileFormat → StreamSrc.PassFileFormat
  | .V1 => .V1

/-- after the generated function returned with final source `s'` and final sink `k'`: account for what was read, make the
    recorded calls on the translated writer, hand back the result (`wrErr`: how the function reports a failing write) -/
def finish (sys : Sys) (r : DynRead) (w : DynWrite) (s' : Src) (k' : Snk) (res : Except ε α) (wrErr : IoError → ε) :
    Sys × DynRead × DynWrite × Except ε α :=
  match replay (consume sys r s'.pos) w k' with
  | (sys, w, .ok ()) => (sys, r, w, res)
  | (sys, w, .error e) => (sys, r, w, .error (wrErr e))

/-- decision 5: the payload key -/
def drawPayload (sys : Sys) : Option PayloadKey → Sys × Bytes
  | some pk => (sys, pk)
  | none => secure_random sys 32

/-- decision 5: the ephemeral key pair (`None` = the public key could not be derived) -/
def drawEphemeral (sys : Sys) : Option RsStr.PrivateKey → Option RsStr.PublicKey → Sys × Option (Bytes × Bytes)
  | some e, some epk => (sys, some (e.key, epk.key))
  | _, _ =>
    let (sys, e) := PrivateKey.generate sys
    match PrivateKey.to_public sys e with
    | (sys, .ok epk) => (sys, some (e.key, epk.key))
    | (sys, .error _) => (sys, none)

/-- the library's streaming functions, as translated from encrypt.rs / decrypt.rs -/
def streamLib : StreamLib DynRead DynWrite where
  key_encrypt := fun sys r w sender sender_public recipient ephemeral ephemeral_public payload_key ff =>
    let (sys, pk) := drawPayload sys payload_key
    match drawEphemeral sys ephemeral ephemeral_public with
    | (sys, none) => (sys, r, w, .error (.Other "Key exchange failed".toList))
    | (sys, some (e, epk)) =>
      let input := readerBytes sys r
      match StreamSrc.encrypt.key_encrypt sys.prims.aead sys.prims (fun _ => []) { inp := input } {} sender.key sender_public.key
          recipient.key (some e) (some epk) (some pk) (asymFmt ff) (input.length + 2) with
      | none => (out_of_fuel sys, r, w, .error (.Other []))
      | some (res, s', k') => finish sys r w s' k' (encResult res) .IOWrite
  pass_encrypt := fun sys r w password salt ff =>
    let input := readerBytes sys r
    match StreamSrc.encrypt.pass_encrypt sys.prims.aead sys.prims { inp := input } {} password salt (passFmt ff)
        (input.length + 2) with
    | none => (out_of_fuel sys, r, w, .error (.Other []))
    | some (res, s', k') => finish sys r w s' k' (encResult res) .IOWrite
  key_decrypt := fun sys r w recipient recipient_public ff =>
    let input := readerBytes sys r
    match StreamSrc.decrypt.key_decrypt sys.prims.aead sys.prims { inp := input } {} recipient.key recipient_public.key
        (asymFmt ff) (input.length + 1) with
    | none => (out_of_fuel sys, r, w, .error (.Other []))
    | some (res, s', k') =>
      finish sys r w s' k' (match res with | .ok spk => .ok ⟨spk⟩ | .error c => .error (decError c)) .IOWrite
  pass_decrypt := fun sys r w password ff =>
    let input := readerBytes sys r
    match StreamSrc.decrypt.pass_decrypt sys.prims.aead sys.prims { inp := input } {} password (passFmt ff)
        (input.length + 1) with
    | none => (out_of_fuel sys, r, w, .error (.Other []))
    | some (res, s', k') => finish sys r w s' k' (decResult res) .IOWrite

end Kestrel.CliSrc
