/-
  The command-line tool driven from a terminal (src/cli/src/commands.rs with `isatty(stdin)` true and no
  `--env-pass`): passwords and the key name are typed, one line per prompt, and the two loops of the tool
  become visible — `unlock` retries after "Key unlock failed." until a typed password unlocks the key, and
  `confirm_loop` asks again until a password and its confirmation agree.

  `typed` is the sequence of lines the user types, in order; every prompt consumes the next one (the name prompt
  of `key gen` reads standard input, the password prompts read /dev/tty — with standard input on the terminal
  both are the same queue).  A run that needs more lines than were typed fails (`noPassword`): the harness never
  drives the implementation there (the terminal would hang up).

  The model is a reduction to the scripted (`--env-pass`) tool of KestrelModel/Cli.lean: the loops *select* the
  password, and everything after that is the same run.  That the implementation really behaves like this — that
  failed attempts leave no trace in the output stream or in any file — is what the correspondence check tests
  (harness `tty` cases); the theorems in KestrelProps/C08tty.lean then carry every C08/C12/C13 statement about the
  scripted tool over to the interactive one.
-/
import KestrelModel.Cli
namespace Kestrel.Cli
open Kestrel.Keyring (Str utf8)

def World.setenv (w : World) (k v : Str) : World := { w with env := (k, v) :: w.env }

/-- the unlock loop: the first typed line that unlocks `locked`, how many attempts failed before it, and what is left -/
def firstUnlocking (locked : Str) : List Str → Option (Str × Nat × List Str)
  | [] => none
  | l :: rest =>
    match Keyring.unlockPrivateKey locked (utf8 l) with
    | .ok _ => some (l, 0, rest)
    | .error _ => (firstUnlocking locked rest).map fun (p, n, r) => (p, n + 1, r)

/-- `confirm_loop`: the first (password, confirmation) pair that agrees, the number of mismatches before it, the rest -/
def confirmLoop : List Str → Option (Str × Nat × List Str)
  | a :: b :: rest => if a = b then some (a, 0, rest) else (confirmLoop rest).map fun (p, n, r) => (p, n + 1, r)
  | _ => none

/-- the locked private key a key-mode command will ask the password for — `none` when the command fails before it
    asks (missing input, unreadable keyring, unknown names, undecodable public keys, no private key) -/
def lockedFor (w : World) (kr : Option Str) (recipient : Option Str) (who : Str) : Option Str :=
  match openKeyring w kr with
  | .error _ => none
  | .ok ks =>
    let recipientOk := match recipient with
      | none => true
      | some t => match Keyring.getKey ks t with
        | none => false
        | some rk => (Keyring.decodePk rk.pk).toOption.isSome
    if !recipientOk then none else
    match Keyring.getKey ks who with
    | none => none
    | some key => if (Keyring.decodePk key.pk).toOption.isSome then key.sk else none

structure TtyOutcome where
  out : Outcome
  retries : Nat := 0        -- "Key unlock failed." / "Passwords do not match" lines printed before the run went on
deriving Repr

/-- A command on a terminal. With `--env-pass` nothing is typed except the key name; a command that would read its
    data from standard input refuses ("Please specify an input file."). -/
def runTty (P : Prims) (rnd : Rand) (w : World) (typed : List Str) : Request → TtyOutcome
  | .encrypt none _ _ _ _ _ => { out := fail w .noInput }
  | .decrypt none _ _ _ _ => { out := fail w .noInput }
  | .passEncrypt none _ _ => { out := fail w .noInput }
  | .passDecrypt none _ _ => { out := fail w .noInput }
  | .encrypt (some i) t f o k false =>
    if sameFile (some i) o then { out := fail w .sameFile } else
    if (w.file i).isNone then { out := fail w .noInput } else
    match lockedFor w k (some t) f with
    | none => { out := runEncrypt P rnd w (some i) t f o k false }
    | some locked =>
      match firstUnlocking locked typed with
      | none => { out := fail w .noPassword }
      | some (pw, n, _) => { out := runEncrypt P rnd (w.setenv (str "KESTREL_PASSWORD") pw) (some i) t f o k true, retries := n }
  | .decrypt (some i) t o k false =>
    if sameFile (some i) o then { out := fail w .sameFile } else
    if (w.file i).isNone then { out := fail w .noInput } else
    match lockedFor w k none t with
    | none => { out := runDecrypt P w (some i) t o k false }
    | some locked =>
      match firstUnlocking locked typed with
      | none => { out := fail w .noPassword }
      | some (pw, n, _) => { out := runDecrypt P (w.setenv (str "KESTREL_PASSWORD") pw) (some i) t o k true, retries := n }
  | .passEncrypt (some i) o false =>
    if sameFile (some i) o then { out := fail w .sameFile } else
    if (w.file i).isNone then { out := fail w .noInput } else
    match confirmLoop typed with
    | none => { out := fail w .noPassword }
    | some (pw, n, _) => { out := runPassEncrypt P rnd (w.setenv (str "KESTREL_PASSWORD") pw) (some i) o true, retries := n }
  | .passDecrypt (some i) o false =>
    if sameFile (some i) o then { out := fail w .sameFile } else
    if (w.file i).isNone then { out := fail w .noInput } else
    match typed with
    | [] => { out := fail w .noPassword }
    | pw :: _ => { out := runPassDecrypt P (w.setenv (str "KESTREL_PASSWORD") pw) (some i) o true }
  | .keyGen o envPass =>
    match typed with
    | [] => { out := fail w .badName }
    | name :: rest =>
      let w1 := { w with stdin := utf8 (name ++ ['\n']) }
      if envPass then { out := runKeyGen P rnd w1 o true } else
      if !Keyring.validKeyName (Keyring.trim name) then { out := fail w .badName } else
      match confirmLoop rest with
      | none => { out := fail w .noPassword }
      | some (pw, n, _) =>
        { out := runKeyGen P rnd (w1.setenv (str "KESTREL_PASSWORD") pw) o true, retries := n }
  | .changePass s false =>
    match typed with
    | [] => { out := fail w .noPassword }
    | old :: rest =>
      match confirmLoop rest with
      | none => { out := fail w .noPassword }
      | some (new, n, _) =>
        { out := runChangePass rnd ((w.setenv (str "KESTREL_PASSWORD") old).setenv (str "KESTREL_NEW_PASSWORD") new) s true, retries := n }
  | .extractPub s false =>
    match typed with
    | [] => { out := fail w .noPassword }
    | pw :: _ => { out := runExtractPub P (w.setenv (str "KESTREL_PASSWORD") pw) s true }
  | req => { out := run P rnd w req }      -- help, version, usage errors and every `--env-pass` run with a named input

def mainTty (P : Prims) (rnd : Rand) (w : World) (typed : List Str) (argv : List Str) : TtyOutcome :=
  runTty P rnd w typed (parseArgv argv)

end Kestrel.Cli
