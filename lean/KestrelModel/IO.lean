/-
  Scripted byte sources and sinks: the `std::io::Read` / `Write` behaviours the properties quantify
  over (short reads, partial writes, zero-length writes, hard errors, `ErrorKind::Interrupted`), and
  the semantics of `read_exact` / `write_all` from the Rust standard library.
-/
import KestrelModel.Bytes
namespace Kestrel

/-- what the next `read()` call does -/
inductive RdEv
  | data (n : Nat)      -- return up to `n` bytes (fewer if the buffer or the remaining data is smaller)
  | errOther            -- Err(ErrorKind::Other)
  | errInterrupted      -- Err(ErrorKind::Interrupted)
deriving Repr, DecidableEq

/-- what the next `write()` call does -/
inductive WrEv
  | accept (n : Nat)    -- accept up to `n` bytes
  | errOther
  | errInterrupted
deriving Repr, DecidableEq

/-- what the next `flush()` call does -/
inductive FlEv
  | ok
  | errOther
  | errInterrupted
deriving Repr, DecidableEq

/-- A byte source. When the script is exhausted every read fills the buffer as far as data remains. -/
structure Src where
  inp : Bytes
  script : List RdEv := []
  pos : Nat := 0        -- bytes delivered so far
  nreads : Nat := 0     -- read() calls made so far
deriving Repr

inductive RdRes
  | got (b : Bytes)
  | err            -- hard error
  | interrupted
deriving Repr

def Src.read (s : Src) (cap : Nat) : RdRes × Src :=
  match s.script with
  | [] =>
    (.got (s.inp.take cap), { s with inp := s.inp.drop cap, pos := s.pos + min cap s.inp.length, nreads := s.nreads + 1 })
  | .data n :: sc =>
    let k := min n cap
    (.got (s.inp.take k), { inp := s.inp.drop k, script := sc, pos := s.pos + min k s.inp.length, nreads := s.nreads + 1 })
  | .errOther :: sc => (.err, { s with script := sc, nreads := s.nreads + 1 })
  | .errInterrupted :: sc => (.interrupted, { s with script := sc, nreads := s.nreads + 1 })

/-- `Read::read_exact`: loop until `need` bytes are read; `Ok(0)` ⇒ UnexpectedEof; Interrupted ⇒ retry.
    `none` = error (both kinds surface as `DecryptError::IORead`). -/
def Src.readExact : Nat → Src → Nat → Option Bytes × Src
  | 0, s, need => if need = 0 then (some [], s) else (none, s)
  | fuel+1, s, need =>
    if need = 0 then (some [], s) else
    match s.read need with
    | (.err, s') => (none, s')
    | (.interrupted, s') => Src.readExact fuel s' need
    | (.got b, s') =>
      if b.length = 0 then (none, s') else
      match Src.readExact fuel s' (need - b.length) with
      | (some r, s'') => (some (b ++ r), s'')
      | (none, s'') => (none, s'')

/-- enough fuel for `readExact`: every iteration consumes a script entry or at least one byte -/
def Src.fuel (s : Src) (need : Nat) : Nat := s.script.length + need + 1

/-- one entry per successful `write()` call: where the source stood and how much was accepted -/
structure WLog where
  srcPos : Nat
  srcReads : Nat
  n : Nat
deriving Repr, DecidableEq

/-- A byte sink. When the scripts are exhausted every write accepts everything and every flush succeeds. -/
structure Snk where
  out : Bytes := []
  ws : List WrEv := []
  fs : List FlEv := []
  log : List WLog := []      -- newest first
  flushes : Nat := 0
deriving Repr

inductive WrRes
  | wrote (n : Nat)
  | err
  | interrupted
deriving Repr

def Snk.write (k : Snk) (at_ : Nat × Nat) (b : Bytes) : WrRes × Snk :=
  match k.ws with
  | [] => (.wrote b.length, { k with out := k.out ++ b, log := ⟨at_.1, at_.2, b.length⟩ :: k.log })
  | .accept n :: ws =>
    let m := min n b.length
    (.wrote m, { k with out := k.out ++ b.take m, ws := ws, log := ⟨at_.1, at_.2, m⟩ :: k.log })
  | .errOther :: ws => (.err, { k with ws := ws })
  | .errInterrupted :: ws => (.interrupted, { k with ws := ws })

/-- `Write::write_all`: loop; `Ok(0)` ⇒ WriteZero error; Interrupted ⇒ retry; an empty buffer makes no call.
    `false` = error (surfaces as `IOWrite`). -/
def Snk.writeAll (at_ : Nat × Nat) : Nat → Snk → Bytes → Bool × Snk
  | 0, k, b => (b.isEmpty, k)
  | fuel+1, k, b =>
    if b.isEmpty then (true, k) else
    match k.write at_ b with
    | (.err, k') => (false, k')
    | (.interrupted, k') => Snk.writeAll at_ fuel k' b
    | (.wrote n, k') => if n = 0 then (false, k') else Snk.writeAll at_ fuel k' (b.drop n)

def Snk.wfuel (k : Snk) (b : Bytes) : Nat := k.ws.length + b.length + 1

/-- `flush()`; the code does not retry an interrupted flush -/
def Snk.flush (k : Snk) : Bool × Snk :=
  match k.fs with
  | [] => (true, { k with flushes := k.flushes + 1 })
  | .ok :: fs => (true, { k with fs := fs, flushes := k.flushes + 1 })
  | _ :: fs => (false, { k with fs := fs })

/-- conforming (fault-free) scripts: reads deliver ≥ 1 byte, writes accept ≥ 1 byte, flushes succeed -/
def RdEv.conforming : RdEv → Bool
  | .data n => n ≥ 1
  | _ => false

def WrEv.conforming : WrEv → Bool
  | .accept n => n ≥ 1
  | _ => false

def FlEv.conforming : FlEv → Bool
  | .ok => true
  | _ => false

end Kestrel
