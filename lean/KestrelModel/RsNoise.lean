/-
  Support definitions for Lean code generated from `noise.rs` / `lib.rs` by `tools/rs2lean_noise.py`
  (namespace `Kestrel.NoiseSrc`, KestrelModel/GeneratedNoise.lean).
  HAND-WRITTEN AND TRUSTED, like RsPrelude.lean and RsIO.lean: each definition is the meaning the translator gives to one
  Rust construct, to one `std` method, or to one function of the orion crate.

  Control flow.  `for x in v { body }` whose body may leave the function (`?`, `return`) is `Rs.forInStep v body state`:
  `state` is the tuple of outer variables the body assigns; one run of the body ends in `Rs.Step.cont state'` (reached the end)
  or `Rs.Step.exit t` (left the enclosing block with that block's value `t`).  No fuel: the list is finite.

  `a.checked_sub(b)` is `Rs.checkedSub a b`, `o.ok_or(e)` / `o.ok_or_else(|| e)` is `Rs.okOrElse o e`.

  Panics.  `Option::unwrap` / `expect` on `None`, `Result::unwrap` / `expect` on `Err` are Rust panics; they are totalised with
  `default` (like `Rs.idx`).  `assert!`, `debug_assert!`, `assert_eq!`, `unimplemented!` are panics too: the translator drops the
  statement (it lists every such site in the header of the generated file).

  orion.  The functions of the orion crate that lib.rs calls are the fields of the record `RsNoise.Orion`; the glue functions
  below say how a call reads its arguments and writes its output buffer.
-/
import KestrelModel.RsIO
import KestrelModel.Prim.ChaCha
import KestrelModel.Prim.Sha256
import KestrelModel.Prim.X25519
namespace Kestrel.Rs

/-- `for a in l { s = body a s }` where the body may leave the enclosing block -/
def forInStep : List α → (α → σ → Step σ τ) → σ → Step σ τ
  | [], _, s => .cont s
  | a :: as, f, s =>
    match f a s with
    | .cont s' => forInStep as f s'
    | .exit t => .exit t

/-- `o.unwrap()` / `o.expect(..)` on an `Option` (Rust panics on `None`; totalised with `default`) -/
def unwrap [Inhabited α] (o : Option α) : α :=
  match o with
  | some a => a
  | none => default

/-- `r.unwrap()` / `r.expect(..)` on a `Result` (Rust panics on `Err`; totalised with `default`) -/
def unwrapRes [Inhabited α] (r : Except ε α) : α :=
  match r with
  | .ok a => a
  | .error _ => default

/-- `q.pop_front()` on a `VecDeque`: the result and the new queue -/
def popFront (q : List α) : Option α × List α :=
  match q with
  | [] => (none, [])
  | a :: as => (some a, as)

/-- `a.checked_sub(b)` on `usize` / `u64` (both `Nat`): `None` when the difference would be negative -/
def checkedSub (a b : Nat) : Option Nat := if b ≤ a then some (a - b) else none

/-- `o.ok_or(e)` / `o.ok_or_else(|| e)` -/
def okOrElse (o : Option α) (e : ε) : Except ε α :=
  match o with
  | some a => .ok a
  | none => .error e

@[simp] theorem forInStep_nil (f : α → σ → Step σ τ) (s : σ) : forInStep [] f s = .cont s := rfl
theorem forInStep_cons (a : α) (as : List α) (f : α → σ → Step σ τ) (s : σ) :
    forInStep (a :: as) f s = match f a s with
      | .cont s' => forInStep as f s'
      | .exit t => .exit t := rfl
@[simp] theorem unwrap_some [Inhabited α] (a : α) : unwrap (some a) = a := rfl
@[simp] theorem unwrapRes_ok [Inhabited α] (a : α) : unwrapRes (Except.ok a : Except ε α) = a := rfl
@[simp] theorem okOrElse_some (a : α) (e : ε) : okOrElse (some a) e = .ok a := rfl
@[simp] theorem okOrElse_none (e : ε) : okOrElse (none : Option α) e = .error e := rfl
theorem checkedSub_of_le {a b : Nat} (h : b ≤ a) : checkedSub a b = some (a - b) := by simp [checkedSub, h]
theorem checkedSub_of_lt {a b : Nat} (h : a < b) : checkedSub a b = none := by
  simp only [checkedSub, Nat.not_le.mpr h, if_false]
@[simp] theorem popFront_cons (a : α) (as : List α) : popFront (a :: as) = (some a, as) := rfl

end Kestrel.Rs

namespace Kestrel.RsNoise

/-- The functions of the orion crate that `src/crypto/src/lib.rs` calls (paths as in its `use` lines), as functions on bytes.
    orion's newtypes (`SecretKey`, `Nonce`, `PrivateKey`, `PublicKey`, `SharedKey`, `Tag`, `Digest`) are their bytes. -/
structure Orion where
  /-- `chacha20poly1305::seal(key, nonce, plaintext, Some(aad), dst_out)`: what it writes to `dst_out[..plaintext.len() + 16]`
      (ciphertext ‖ tag); arguments in that order -/
  chSeal : Bytes → Bytes → Bytes → Bytes → Bytes
  /-- `chacha20poly1305::open(key, nonce, ciphertext_with_tag, Some(aad), dst_out)`: `none` = `Err`, `some p` = what it writes to
      `dst_out[..ciphertext_with_tag.len() - 16]` -/
  chOpen : Bytes → Bytes → Bytes → Bytes → Option Bytes
  /-- `sha2::sha256::Sha256::digest(data)` -/
  sha256 : Bytes → Bytes
  /-- `hmac::sha256::HmacSha256::hmac(key, data)` -/
  hmac : Bytes → Bytes → Bytes
  /-- `hkdf::sha256::derive_key(salt, ikm, Some(info), dst_out)` as a function of `dst_out.len()` -/
  hkdf : Bytes → Bytes → Bytes → Nat → Bytes
  /-- `x25519::key_agreement(private, public)`; `none` = `Err` (orion refuses an all-zero shared secret) -/
  dh : Bytes → Bytes → Option Bytes
  /-- `x25519::PublicKey::try_from(&private)`; `none` = `Err` -/
  pub : Bytes → Option Bytes

/-- orion as modelled in KestrelModel/Prim: RFC 8439, FIPS 180-4, RFC 2104, RFC 5869, RFC 7748 -/
def concreteOrion : Orion where
  chSeal k n p ad := aeadSeal k n ad p
  chOpen k n c ad := aeadOpen k n ad c
  sha256 := Kestrel.sha256
  hmac := hmacSha256
  hkdf := Kestrel.hkdfSha256
  dh := X25519.x25519
  pub := X25519.pubOf

/-- `chacha20poly1305::seal(&key, &nonce, plaintext, ad, dst_out)`: the `Result` and the new contents of `dst_out`.
    orion writes ciphertext ‖ tag to `dst_out[..plaintext.len() + 16]` and leaves the rest of the buffer alone
    (a buffer that is too short, a key or nonce of the wrong length are `Err`; not modelled: always `Ok`).
    `ad = None` is the empty associated data. -/
def chapolySeal (O : Orion) (key nonce pt : Bytes) (ad : Option Bytes) (out : Bytes) : Except Unit Unit × Bytes :=
  (.ok (), O.chSeal key nonce pt (ad.getD []) ++ out.drop (pt.length + 16))

/-- `chacha20poly1305::open(&key, &nonce, ciphertext_with_tag, ad, dst_out)`: the `Result` and the new contents of `dst_out`
    (unchanged on `Err`; on `Ok` the plaintext is written to `dst_out[..ciphertext_with_tag.len() - 16]`) -/
def chapolyOpen (O : Orion) (key nonce ct : Bytes) (ad : Option Bytes) (out : Bytes) : Except Unit Unit × Bytes :=
  match O.chOpen key nonce ct (ad.getD []) with
  | none => (.error (), out)
  | some p => (.ok (), p ++ out.drop (ct.length - 16))

/-- `hkdf::sha256::derive_key(salt, ikm, info, dst_out)`: fills the whole of `dst_out` (always `Ok` for the lengths used) -/
def hkdfDerive (O : Orion) (salt ikm : Bytes) (info : Option Bytes) (out : Bytes) : Except Unit Unit × Bytes :=
  (.ok (), O.hkdf salt ikm (info.getD []) out.length)

end Kestrel.RsNoise
