/-
  The chunked stream format: `encrypt_chunks` / `decrypt_chunks` of src/crypto/src/{encrypt,decrypt}.rs.

  Two levels:
  * pure level — `encLoop` over the list of `read()` return values, `decLoop` over the whole input;
  * I/O level — the same control flow threaded through a scripted source and sink (`IO.lean`), which is
    what the Rust code actually does and what the fault/partition properties quantify over.
-/
import KestrelModel.Aead
import KestrelModel.IO
namespace Kestrel

/-- result classes of the stream functions (error *kinds*; messages are not modelled) -/
inductive Res
  | ok | unexpectedData | ioRead | ioWrite | chunkLen | auth | format | other
deriving DecidableEq, Repr

def Res.str : Res → String
  | .ok => "ok" | .unexpectedData => "unexpected" | .ioRead => "ioread" | .ioWrite => "iowrite"
  | .chunkLen => "chunklen" | .auth => "auth" | .format => "format" | .other => "other"

/-- one chunk record: counter field ‖ last flag ‖ length ‖ AEAD(key, nonce = ctr, ad = aad ‖ flag ‖ len) -/
def record (A : Aead) (key aad : Bytes) (ctrField : Bytes) (ctr : Nat) (last : Bool) (pt : Bytes) : Bytes :=
  let lastB := be32 (if last then 1 else 0)
  let lenB := be32 pt.length
  ctrField ++ lastB ++ lenB ++ A.enc key ctr (aad ++ lastB ++ lenB) pt

/-! ### pure level -/

/-- `encrypt_chunks` after its first read. `reads` = what the successive `read()` calls return
    (`[]` = the source keeps returning 0). `prev`/`done` are the look-ahead state. -/
def encLoop (A : Aead) (key aad : Bytes) : Nat → Bytes → Bool → List Bytes → Bytes × Res
  | ctr, prev, _, [] => (record A key aad (be64 ctr) ctr true prev, .ok)
  | ctr, prev, done, r :: rs =>
    if r.length ≠ 0 && done then ([], .unexpectedData)
    else
      let done' := done || r.length == 0
      let out := record A key aad (be64 ctr) ctr done' prev
      if done' then (out, .ok)
      else
        let (rest, res) := encLoop A key aad (ctr+1) r false rs
        (out ++ rest, res)

def encryptChunks (A : Aead) (key aad : Bytes) (reads : List Bytes) : Bytes × Res :=
  match reads with
  | [] => encLoop A key aad 0 [] true []
  | r :: rs => encLoop A key aad 0 r (r.length == 0) rs

/-- `decrypt_chunks` on a complete input; returns the plaintext writes (one per chunk) and the result. -/
def decLoop (A : Aead) (key aad : Bytes) (cs : Nat) : Nat → Nat → Bytes → List Bytes × Res
  | 0, _, _ => ([], .ioRead)
  | fuel+1, ctr, inp =>
    if inp.length < 16 then ([], .ioRead) else
    let hdr := inp.take 16
    let lastB := (hdr.drop 8).take 4
    let lenB := hdr.drop 12
    let len := beVal lenB
    if len > cs then ([], .chunkLen) else
    let rest := inp.drop 16
    if rest.length < len + 16 then ([], .ioRead) else
    let body := rest.take (len + 16)
    let rest' := rest.drop (len + 16)
    match A.dec key ctr (aad ++ lastB ++ lenB) body with
    | none => ([], .auth)
    | some pt =>
      if beVal lastB == 1 then
        if rest'.length ≠ 0 then ([], .unexpectedData) else ([pt], .ok)
      else
        let (ws, res) := decLoop A key aad cs fuel (ctr+1) rest'
        (pt :: ws, res)

def decryptChunks (A : Aead) (key aad : Bytes) (cs : Nat) (inp : Bytes) : List Bytes × Res :=
  decLoop A key aad cs inp.length 0 inp

/-- Any stream the format allows: chunk `i` sealed under nonce `ctr+i`, flag 1 exactly on the final chunk,
    the 8-byte counter field arbitrary (`cf i`) — it is advisory. -/
def serialize (A : Aead) (key aad : Bytes) (cf : Nat → Bytes) : Nat → List Bytes → Bytes
  | _, [] => []
  | ctr, [c] => record A key aad (cf ctr) ctr true c
  | ctr, c :: c' :: cs => record A key aad (cf ctr) ctr false c ++ serialize A key aad cf (ctr+1) (c' :: cs)

/-- chunk list produced by a read schedule: the non-empty reads up to the first empty one -/
def chunksOf : List Bytes → List Bytes
  | [] => []
  | r :: rs => if r.length = 0 then [] else r :: chunksOf rs

/-- a source never delivers data after reporting end-of-file -/
def wellFormedReads : List Bytes → Prop
  | [] => True
  | r :: rs => (r.length = 0 → rs = []) ∧ (r.length ≠ 0 → wellFormedReads rs)

/-! ### I/O level -/

/-- write one record the way the code does: header, body, flush -/
def writeRecord (k : Snk) (at_ : Nat × Nat) (hdr body : Bytes) : Bool × Snk :=
  match Snk.writeAll at_ (k.wfuel hdr) k hdr with
  | (false, k1) => (false, k1)
  | (true, k1) =>
    match Snk.writeAll at_ (k1.wfuel body) k1 body with
    | (false, k2) => (false, k2)
    | (true, k2) => k2.flush

def encLoopIO (A : Aead) (key aad : Bytes) (cs : Nat) : Nat → Nat → Bytes → Bool → Src → Snk → Res × Src × Snk
  | 0, _, _, _, s, k => (.ioRead, s, k)
  | fuel+1, ctr, prev, done, s, k =>
    match s.read cs with
    | (.err, s') => (.ioRead, s', k)
    | (.interrupted, s') => (.ioRead, s', k)        -- encrypt_chunks does not retry an interrupted read
    | (.got r, s') =>
      if r.length ≠ 0 && done then (.unexpectedData, s', k) else
      let done' := done || r.length == 0
      let lastB := be32 (if done' then 1 else 0)
      let lenB := be32 prev.length
      let ct := A.enc key ctr (aad ++ lastB ++ lenB) prev
      match writeRecord k (s'.pos, s'.nreads) (be64 ctr ++ lastB ++ lenB) ct with
      | (false, k') => (.ioWrite, s', k')
      | (true, k') =>
        if done' then (.ok, s', k') else encLoopIO A key aad cs fuel (ctr+1) r false s' k'

def encryptChunksIO (A : Aead) (key aad : Bytes) (cs : Nat) (s : Src) (k : Snk) : Res × Src × Snk :=
  match s.read cs with
  | (.err, s') => (.ioRead, s', k)
  | (.interrupted, s') => (.ioRead, s', k)
  | (.got r, s') => encLoopIO A key aad cs (s'.inp.length + s'.script.length + 2) 0 r (r.length == 0) s' k

def decLoopIO (A : Aead) (key aad : Bytes) (cs : Nat) : Nat → Nat → Src → Snk → Res × Src × Snk
  | 0, _, s, k => (.ioRead, s, k)
  | fuel+1, ctr, s, k =>
    match Src.readExact (s.fuel 16) s 16 with
    | (none, s1) => (.ioRead, s1, k)
    | (some hdr, s1) =>
      let lastB := (hdr.drop 8).take 4
      let lenB := hdr.drop 12
      let len := beVal lenB
      if len > cs then (.chunkLen, s1, k) else
      match Src.readExact (s1.fuel (len + 16)) s1 (len + 16) with
      | (none, s2) => (.ioRead, s2, k)
      | (some body, s2) =>
        match A.dec key ctr (aad ++ lastB ++ lenB) body with
        | none => (.auth, s2, k)
        | some pt =>
          let last := beVal lastB == 1
          -- trailing-data probe: a single 1-byte read, before the write
          let probe : Option Res × Src :=
            if last then
              match s2.read 1 with
              | (.err, s3) => (some .ioRead, s3)
              | (.interrupted, s3) => (some .ioRead, s3)
              | (.got b, s3) => if b.length ≠ 0 then (some .unexpectedData, s3) else (none, s3)
            else (none, s2)
          match probe with
          | (some e, s3) => (e, s3, k)
          | (none, s3) =>
            match Snk.writeAll (s3.pos, s3.nreads) (k.wfuel pt) k pt with
            | (false, k1) => (.ioWrite, s3, k1)
            | (true, k1) =>
              match k1.flush with
              | (false, k2) => (.ioWrite, s3, k2)
              | (true, k2) => if last then (.ok, s3, k2) else decLoopIO A key aad cs fuel (ctr+1) s3 k2

def decryptChunksIO (A : Aead) (key aad : Bytes) (cs : Nat) (s : Src) (k : Snk) : Res × Src × Snk :=
  decLoopIO A key aad cs (s.inp.length + 1) 0 s k

end Kestrel
