/-
  The AEAD interface the stream format and the Noise handshake are written against, and its
  concrete instance (RFC 8439 with the Noise nonce layout).
-/
import KestrelModel.Bytes
import KestrelModel.Prim.ChaCha
namespace Kestrel

/-- AEAD with a 64-bit counter nonce: `enc key ctr ad pt`, `dec key ctr ad ct`. -/
structure Aead where
  enc : Bytes → Nat → Bytes → Bytes → Bytes
  dec : Bytes → Nat → Bytes → Bytes → Option Bytes

/-- Functional laws (no security content): round trip, length, and "what opens was sealed". -/
structure Aead.Lawful (A : Aead) : Prop where
  dec_enc : ∀ k n ad p, k.length = 32 → A.dec k n ad (A.enc k n ad p) = some p
  enc_length : ∀ k n ad p, k.length = 32 → (A.enc k n ad p).length = p.length + 16
  dec_sound : ∀ k n ad c p, k.length = 32 → A.dec k n ad c = some p → c = A.enc k n ad p

/-- `chapoly_encrypt_noise` / `chapoly_decrypt_noise` -/
def chapolyNoise : Aead where
  enc k n ad p := aeadSeal k (noiseNonce n) ad p
  dec k n ad c := aeadOpen k (noiseNonce n) ad c

end Kestrel
