/-
  src/cli/src/keyring.rs: the keyring text format (parser, serializer), public-key encoding with checksum,
  locked private keys.  Strings are `List Char`; byte lengths are UTF-8 lengths as in Rust.
-/
import KestrelModel.Prim.Base64
import KestrelModel.Prim.Sha256
import KestrelModel.Prim.ChaCha
import KestrelModel.Prim.Scrypt
import KestrelModel.Generated
namespace Kestrel.Keyring

abbrev Str := List Char

/-- Unicode White_Space, the set Rust's `str::trim` removes -/
def isWS (c : Char) : Bool :=
  let n := c.toNat
  (0x09 ≤ n && n ≤ 0x0D) || n == 0x20 || n == 0x85 || n == 0xA0 || n == 0x1680 ||
  (0x2000 ≤ n && n ≤ 0x200A) || n == 0x2028 || n == 0x2029 || n == 0x202F || n == 0x205F || n == 0x3000

def trimStart : Str → Str
  | c :: cs => if isWS c then trimStart cs else c :: cs
  | [] => []

def trim (s : Str) : Str := (trimStart (trimStart s).reverse).reverse

/-- Rust `str::lines`: split at '\n'; one '\r' immediately before that '\n' is stripped; no trailing empty line.
    `cur` accumulates the current line reversed. -/
def linesGo (cur : Str) : Str → List Str
  | [] => if cur.isEmpty then [] else [cur.reverse]
  | c :: rest =>
    if c = '\n' then
      (match cur with
        | '\r' :: t => t.reverse
        | t => t.reverse) :: linesGo [] rest
    else linesGo (c :: cur) rest

def lines (s : Str) : List Str := linesGo [] s

/-- `str::split_once('=')` -/
def splitOnceEq : Str → Option (Str × Str)
  | [] => none
  | c :: r => if c = '=' then some ([], r) else (splitOnceEq r).map fun (a, b) => (c :: a, b)

/-- UTF-8 encoding of a string (structural, so that it can be reasoned about) -/
def utf8 (s : Str) : Bytes := s.flatMap String.utf8EncodeChar

/-- `str::len()`: length in UTF-8 bytes -/
def utf8Len (s : Str) : Nat := (utf8 s).length

/-- `Keyring::valid_key_name` (after the D4 repair: a TAB cannot be represented in the file) -/
def validKeyName (s : Str) : Bool :=
  !s.isEmpty && utf8Len s ≤ Generated.maxNameSize && !s.contains '\t'

/-- what the *parser* requires of a name (it never sees a TAB: they are deleted from the line first) -/
def validParsedName (s : Str) : Bool := !s.isEmpty && utf8Len s ≤ Generated.maxNameSize

/-- `EncodedPk::try_from` -/
def encodedPkOk (s : Str) : Bool :=
  match B64.decode (utf8 s) with
  | some b => b.length == Generated.encodedPkLen
  | none => false

/-- `EncodedSk::try_from` -/
def encodedSkOk (s : Str) : Bool :=
  match B64.decode (utf8 s) with
  | some b => b.length == Generated.privateKeyCtLen
  | none => false

structure Key where
  name : Str
  pk : Str
  sk : Option Str
deriving DecidableEq, Repr

structure PSt where
  keys : List Key := []       -- in file order
  name : Option Str := none
  pk : Option Str := none
  sk : Option Str := none
  found : Bool := false
deriving Repr

/-- `Keyring::add_key` -/
def addKey (st : PSt) : Option PSt :=
  match st.name, st.pk with
  | some n, some p =>
    if st.keys.any (fun k => k.name == n || k.pk == p) then none
    else some { st with keys := st.keys ++ [⟨n, p, st.sk⟩], name := none, pk := none, sk := none }
  | _, _ => none

def startsWith (p : String) (s : Str) : Bool := p.toList.isPrefixOf s

/-- one iteration of the `for line in config.lines()` loop; `none` = ParseConfig error -/
def stepLine (st : PSt) (line : Str) : Option PSt :=
  let cl := trim (line.filter (· != '\t'))
  if startsWith "[Key]" cl then
    if st.found then addKey st else some { st with found := true }
  else if startsWith "Name" cl then
    if !st.found || st.name.isSome then none else
    match splitOnceEq cl with
    | none => none
    | some (_, v) => let n := trim v; if validParsedName n then some { st with name := some n } else none
  else if startsWith "PublicKey" cl then
    if !st.found || st.pk.isSome then none else
    match splitOnceEq cl with
    | none => none
    | some (_, v) => let p := trim v; if encodedPkOk p then some { st with pk := some p } else none
  else if startsWith "PrivateKey" cl then
    if !st.found || st.sk.isSome then none else
    match splitOnceEq cl with
    | none => none
    | some (_, v) => let p := trim v; if encodedSkOk p then some { st with sk := some p } else none
  else if startsWith "#" cl || cl.isEmpty then some st
  else none

def parseLines : PSt → List Str → Option PSt
  | st, [] => some st
  | st, l :: ls =>
    match stepLine st l with
    | none => none
    | some st' => parseLines st' ls

/-- `Keyring::new` / `parse_config` -/
def parse (text : Str) : Option (List Key) :=
  match parseLines {} (lines text) with
  | none => none
  | some st => if !st.found then none else (addKey st).map (·.keys)

def getKey (ks : List Key) (name : Str) : Option Key := ks.find? (·.name == name)

def getNameFromKey (ks : List Key) (pk : Str) : Option Str := (ks.find? (·.pk == pk)).map (·.name)

/-- `Keyring::serialize_key` -/
def serializeKey (name pk sk : Str) : Str :=
  "[Key]\nName = ".toList ++ name ++ "\nPublicKey = ".toList ++ pk ++ "\nPrivateKey = ".toList ++ sk ++ "\n".toList

def asciiStr (b : Bytes) : Str := b.map fun c => Char.ofNat c.toNat

/-- `Keyring::encode_public_key`: base64(pk ‖ sha256(pk)[..4]) -/
def encodePk (pk : Bytes) : Str := asciiStr (B64.encode (pk ++ (sha256 pk).take 4))

inductive KrErr | pkChecksum | pkLength | skDecrypt | skLength | skFormat | pkFormat
deriving DecidableEq, Repr

/-- `EncodedPk::try_from` followed by `Keyring::decode_public_key` -/
def decodePk (s : Str) : Except KrErr Bytes :=
  match B64.decode (utf8 s) with
  | none => .error .pkFormat
  | some b =>
    if b.length ≠ Generated.encodedPkLen then .error .pkLength else
    let pk := b.take 32
    if b.drop 32 = (sha256 pk).take 4 then .ok pk else .error .pkChecksum

def lockKdf (pw salt : Bytes) : Bytes :=
  Scrypt.Spec.scrypt pw salt Generated.krScryptN Generated.krScryptR Generated.krScryptP 32

/-- `Keyring::lock_private_key` -/
def lockPrivateKey (sk pw salt : Bytes) : Str :=
  let key := lockKdf pw salt
  asciiStr (B64.encode (Generated.privateKeyVersion ++ salt ++ aeadSeal key (zeros 12) Generated.privateKeyVersion sk))

/-- `EncodedSk::try_from` followed by `Keyring::unlock_private_key` -/
def unlockPrivateKey (s : Str) (pw : Bytes) : Except KrErr Bytes :=
  match B64.decode (utf8 s) with
  | none => .error .skLength
  | some b =>
    if b.length ≠ Generated.privateKeyCtLen then .error .skLength else
    let ver := b.take 4
    if ver ≠ Generated.privateKeyVersion then .error .skFormat else
    let salt := (b.drop 4).take 32
    let ct := b.drop 36
    match aeadOpen (lockKdf pw salt) (zeros 12) ver ct with
    | none => .error .skDecrypt
    | some sk => .ok sk

end Kestrel.Keyring
