/-
  The command-line tool (src/cli/src/main.rs, commands.rs): argument parsing (getopts 0.2.21 with
  `long_only(true)`, as used by main.rs), the decision logic of every command, and the file-system effects —
  over an abstract world (files, environment, piped stdin; no terminal attached, which is how the tool is driven
  by scripts and by the harness).  Cryptography is delegated to the library-level model.
-/
import KestrelModel.File
import KestrelModel.Keyring
namespace Kestrel.Cli
open Kestrel.Keyring (Str utf8)

/-! ### getopts (long_only) -/

structure OptSpec where
  short : Option Char
  long : Str
  hasArg : Bool
  required : Bool
deriving Repr

def str (x : String) : Str := x.toList

/-- getopts `is_arg`: starts with '-' and is longer than one byte -/
def isArg (a : Str) : Bool :=
  match a with
  | '-' :: _ :: _ => true
  | _ => false

/-- split at the first '=' -/
def splitEq : Str → Str × Option Str
  | [] => ([], none)
  | c :: r => if c = '=' then ([], some r) else let (a, b) := splitEq r; (c :: a, b)

/-- `find_opt`: a one-character name is a short name, anything else a long name -/
def findOpt (opts : List OptSpec) (name : Str) : Option Nat :=
  opts.findIdx? fun o =>
    match name with
    | [c] => o.short == some c || o.long == [c]
    | _ => o.long == name

structure Matches where
  vals : List (Nat × Option Str) := []     -- (option index, value) in order of appearance
  free : List Str := []
deriving Repr

/-- the scanning loop of `Options::parse` for `long_only` + FloatingFrees; `none` = a `Fail` -/
def scan (opts : List OptSpec) : Nat → List Str → Matches → Option Matches
  | 0, _, m => some m
  | _, [], m => some m
  | fuel+1, cur :: rest, m =>
    if !isArg cur then scan opts fuel rest { m with free := m.free ++ [cur] }
    else if cur = str "--" then some { m with free := m.free ++ rest }
    else
      let tail := match cur with
        | '-' :: '-' :: t => t
        | _ :: t => t
        | [] => []
      let (name, iarg) := splitEq tail
      match findOpt opts name with
      | none => none                                            -- UnrecognizedOption
      | some id =>
        match opts[id]? with
        | none => none
        | some o =>
          if o.hasArg then
            match iarg with
            | some v => scan opts fuel rest { m with vals := m.vals ++ [(id, some v)] }
            | none =>
              match rest with
              | v :: rest' => scan opts fuel rest' { m with vals := m.vals ++ [(id, some v)] }   -- consumed unconditionally
              | [] => none                                      -- ArgumentMissing
          else
            match iarg with
            | some _ => none                                    -- UnexpectedArgument
            | none => scan opts fuel rest { m with vals := m.vals ++ [(id, none)] }

def countOpt (m : Matches) (id : Nat) : Nat := (m.vals.filter (·.1 == id)).length

/-- `Options::parse`: scan, then required options present and no option given twice -/
def getopts (opts : List OptSpec) (args : List Str) : Option Matches :=
  match scan opts (args.length + 1) args {} with
  | none => none
  | some m =>
    if (List.range opts.length).all fun id =>
        (match opts[id]? with
         | some o => (!o.required || countOpt m id ≥ 1) && countOpt m id ≤ 1
         | none => true)
    then some m else none

/-- `opt_str` -/
def optStr (m : Matches) (id : Nat) : Option Str := (m.vals.find? (·.1 == id)).bind (·.2)
def optPresent (m : Matches) (id : Nat) : Bool := countOpt m id ≥ 1

/-! ### main.rs -/

inductive Request
  | help
  | version
  | encrypt (infile : Option Str) (to from_ : Str) (outfile keyring : Option Str) (envPass : Bool)
  | decrypt (infile : Option Str) (to : Str) (outfile keyring : Option Str) (envPass : Bool)
  | keyGen (outfile : Option Str) (envPass : Bool)
  | changePass (sk : Str) (envPass : Bool)
  | extractPub (sk : Str) (envPass : Bool)
  | passEncrypt (infile outfile : Option Str) (envPass : Bool)
  | passDecrypt (infile outfile : Option Str) (envPass : Bool)
  | usageError
deriving Repr, DecidableEq

def optT : OptSpec := ⟨some 't', str "to", true, true⟩
def optF : OptSpec := ⟨some 'f', str "from", true, true⟩
def optO : OptSpec := ⟨some 'o', str "output", true, false⟩
def optK : OptSpec := ⟨some 'k', str "keyring", true, false⟩
def optE : OptSpec := ⟨none, str "env-pass", false, false⟩

def infileOf (m : Matches) : Option (Option Str) :=
  match m.free with
  | [] => some none
  | [f] => some (some f)
  | _ => none

def parseEncrypt (args : List Str) : Request :=
  match getopts [optT, optF, optO, optK, optE] args with
  | none => .usageError
  | some m =>
    match infileOf m, optStr m 0, optStr m 1 with
    | some inf, some to, some fr => .encrypt inf to fr (optStr m 2) (optStr m 3) (optPresent m 4)
    | _, _, _ => .usageError

def parseDecrypt (args : List Str) : Request :=
  match getopts [optT, optO, optK, optE] args with
  | none => .usageError
  | some m =>
    match infileOf m, optStr m 0 with
    | some inf, some to => .decrypt inf to (optStr m 1) (optStr m 2) (optPresent m 3)
    | _, _ => .usageError

def parseKey : List Str → Request
  | [] => .usageError
  | sub :: args =>
    if sub = str "gen" ∨ sub = str "generate" then
      match getopts [optO, optE] args with
      | none => .usageError
      | some m => .keyGen (optStr m 0) (optPresent m 1)           -- free arguments are ignored
    else if sub = str "change-pass" then
      match getopts [optE] args with
      | none => .usageError
      | some m => match m.free with
        | [k] => .changePass k (optPresent m 0)
        | _ => .usageError
    else if sub = str "extract-pub" then
      match getopts [optE] args with
      | none => .usageError
      | some m => match m.free with
        | [k] => .extractPub k (optPresent m 0)
        | _ => .usageError
    else .usageError

def parsePassword : List Str → Request
  | [] => .usageError
  | sub :: args =>
    let enc := sub = str "encrypt" ∨ sub = str "enc"
    let dec := sub = str "decrypt" ∨ sub = str "dec"
    if enc ∨ dec then
      match getopts [optO, optE] args with
      | none => .usageError
      | some m =>
        match infileOf m with
        | none => .usageError
        | some inf => if enc then .passEncrypt inf (optStr m 0) (optPresent m 1) else .passDecrypt inf (optStr m 0) (optPresent m 1)
    else .usageError

/-- `try_main` up to the dispatch; `argv` includes the program name -/
def parseArgv (argv : List Str) : Request :=
  match argv with
  | [] | [_] => .help
  | _ :: cmd :: rest =>
    if argv.contains (str "--help") || argv.contains (str "-h") then .help
    else if cmd = str "-v" ∨ cmd = str "--version" then .version
    else if cmd = str "enc" ∨ cmd = str "encrypt" then parseEncrypt rest
    else if cmd = str "dec" ∨ cmd = str "decrypt" then parseDecrypt rest
    else if cmd = str "key" then parseKey rest
    else if cmd = str "pass" ∨ cmd = str "password" then parsePassword rest
    else .usageError

/-! ### the world and the commands -/

structure World where
  files : List (Str × Bytes)        -- path ↦ content (first match)
  env : List (Str × Str)
  stdin : Bytes
deriving Repr

def World.file (w : World) (p : Str) : Option Bytes := (w.files.find? (·.1 == p)).map (·.2)
def World.getenv (w : World) (k : Str) : Option Str := (w.env.find? (·.1 == k)).map (·.2)
def World.setFile (w : World) (p : Str) (b : Bytes) : World :=
  { w with files := (p, b) :: w.files.filter (·.1 != p) }

/-- why a command failed (classes, not messages) -/
inductive Err
  | usage | sameFile | noInput | noKeyring | keyringRead | keyringUtf8 | keyringParse | keyNotFound | pkDecode
  | noPrivateKey | noPassword | unlockFailed | crypto (r : Res) | badKeyArg | badName
deriving Repr, DecidableEq

structure Outcome where
  exit : Nat
  world : World
  stdout : Bytes := []
  err : Option Err := none
  sender : Option (Sum Str Str) := none     -- inl name = "File from: name"; inr enc = "Unknown key: enc"
deriving Repr

def fail (w : World) (e : Err) : Outcome := { exit := 1, world := w, err := some e }

def utf8Decode (b : Bytes) : Option Str := (String.fromUTF8? ⟨b.toArray⟩).map String.toList

/-- `open_keyring` + `Keyring::new` -/
def openKeyring (w : World) (k : Option Str) : Except Err (List Keyring.Key) :=
  let path := match k with
    | some p => some p
    | none => w.getenv (str "KESTREL_KEYRING")
  match path with
  | none => .error .noKeyring
  | some p =>
    match w.file p with
    | none => .error .keyringRead
    | some data =>
      match utf8Decode data with
      | none => .error .keyringUtf8
      | some text =>
        match Keyring.parse text with
        | none => .error .keyringParse
        | some ks => .ok ks

/-- the password with `--env-pass`; without it there is no terminal to ask, which is an error -/
def askPass (w : World) (envPass : Bool) (var : String := "KESTREL_PASSWORD") : Except Err Bytes :=
  if envPass then
    match w.getenv (str var) with
    | some p => .ok (utf8 p)
    | none => .error .noPassword
  else .error .noPassword

/-- `open_input`: a named file must exist; otherwise piped stdin -/
def openInput (w : World) (inf : Option Str) : Except Err Bytes :=
  match inf with
  | some p => match w.file p with
    | some b => .ok b
    | none => .error .noInput
  | none => .ok w.stdin

/-- `OnDemandFile`: the file is created (truncated) by the first `write` or `flush` call; with no call at all the path
    is left exactly as it was. With an unscripted sink every call succeeds, so "a call was made" is visible in the sink. -/
def deliver (w : World) (outf : Option Str) (k : Snk) : World × Bytes :=
  match outf with
  | some p => if k.log.isEmpty && k.flushes == 0 then (w, []) else (w.setFile p k.out, [])
  | none => (w, k.out)

def sameFile (inf outf : Option Str) : Bool :=
  match inf, outf with
  | some a, some b => a == b
  | _, _ => false

/-- unlock the named key of the keyring with the password from the environment -/
def unlockNamed (w : World) (ks : List Keyring.Key) (name : Str) (envPass : Bool) : Except Err (Bytes × Bytes) :=
  match Keyring.getKey ks name with
  | none => .error .keyNotFound
  | some key =>
    match Keyring.decodePk key.pk with
    | .error _ => .error .pkDecode
    | .ok pk =>
      match key.sk with
      | none => .error .noPrivateKey
      | some locked =>
        match askPass w envPass with
        | .error e => .error e
        | .ok pw =>
          match Keyring.unlockPrivateKey locked pw with
          | .error _ => .error .unlockFailed
          | .ok sk => .ok (sk, pk)

/-- fresh randomness the commands draw, in the order they draw it -/
structure Rand where
  a : Bytes      -- encrypt: payload key;   key generate: private key;  password encrypt / change-pass: salt
  b : Bytes      -- encrypt: ephemeral private key;  key generate: salt

def runDecrypt (P : Prims) (w : World) (inf : Option Str) (to : Str) (outf kr : Option Str) (envPass : Bool) : Outcome :=
  if sameFile inf outf then fail w .sameFile else
  match openInput w inf with
  | .error e => fail w e
  | .ok input =>
    match openKeyring w kr with
    | .error e => fail w e
    | .ok ks =>
      match unlockNamed w ks to envPass with
      | .error e => fail w e
      | .ok (sk, pk) =>
        let (res, _, k, sender) := keyDecryptIO P sk pk { inp := input } {}
        let (w', out) := deliver w outf k
        if res = .ok then
          let who := match sender with
            | some spk => (match Keyring.getNameFromKey ks (Keyring.encodePk spk) with
                | some n => some (Sum.inl n)
                | none => some (Sum.inr (Keyring.encodePk spk)))
            | none => none
          { exit := 0, world := w', stdout := out, sender := who }
        else { exit := 1, world := w', stdout := out, err := some (.crypto res) }

def runEncrypt (P : Prims) (rnd : Rand) (w : World) (inf : Option Str) (to fr : Str) (outf kr : Option Str) (envPass : Bool) : Outcome :=
  if sameFile inf outf then fail w .sameFile else
  match openInput w inf with
  | .error e => fail w e
  | .ok input =>
    match openKeyring w kr with
    | .error e => fail w e
    | .ok ks =>
      match Keyring.getKey ks to with
      | none => fail w .keyNotFound
      | some rkey =>
        match Keyring.decodePk rkey.pk with
        | .error _ => fail w .pkDecode
        | .ok rpk =>
          match unlockNamed w ks fr envPass with
          | .error e => fail w e
          | .ok (sk, spk) =>
            match P.pub rnd.b with
            | none => fail w (.crypto .other)
            | some epk =>
              let (res, _, k) := keyEncryptIO P sk spk rpk rnd.b epk rnd.a { inp := input } {}
              let (w', out) := deliver w outf k
              if res = .ok then { exit := 0, world := w', stdout := out }
              else { exit := 1, world := w', stdout := out, err := some (.crypto res) }

def runPassEncrypt (P : Prims) (rnd : Rand) (w : World) (inf outf : Option Str) (envPass : Bool) : Outcome :=
  if sameFile inf outf then fail w .sameFile else
  match openInput w inf with
  | .error e => fail w e
  | .ok input =>
    match askPass w envPass with
    | .error e => fail w e
    | .ok pw =>
      let (res, _, k) := passEncryptIO P pw rnd.a { inp := input } {}
      let (w', out) := deliver w outf k
      if res = .ok then { exit := 0, world := w', stdout := out }
      else { exit := 1, world := w', stdout := out, err := some (.crypto res) }

def runPassDecrypt (P : Prims) (w : World) (inf outf : Option Str) (envPass : Bool) : Outcome :=
  if sameFile inf outf then fail w .sameFile else
  match openInput w inf with
  | .error e => fail w e
  | .ok input =>
    match askPass w envPass with
    | .error e => fail w e
    | .ok pw =>
      let (res, _, k) := passDecryptIO P pw { inp := input } {}
      let (w', out) := deliver w outf k
      if res = .ok then { exit := 0, world := w', stdout := out }
      else { exit := 1, world := w', stdout := out, err := some (.crypto res) }

/-- what `read_line` takes from its input: the bytes up to and including the first newline (all of them if there is none) -/
def firstLine : Bytes → Bytes
  | [] => []
  | b :: r => if b = 10 then [b] else b :: firstLine r

/-- first line of stdin, trimmed (`ask_user_stderr`: `stdin().read_line(&mut line)?` then `line.trim()`).  Only the first
    line is decoded — `read_line` fails if THAT is not UTF-8; whatever follows it is never looked at.  The terminating
    newline (and a `\r` before it) is white space, which `trim` removes. -/
def readName (w : World) : Option Str :=
  match utf8Decode (firstLine w.stdin) with
  | none => none
  | some t => some (Keyring.trim t)

/-- `gen_key`; after the D1 repair the keyring file is opened for appending, never truncated -/
def runKeyGen (P : Prims) (rnd : Rand) (w : World) (outf : Option Str) (envPass : Bool) : Outcome :=
  match readName w with
  | none => fail w .badName
  | some name =>
    if !Keyring.validKeyName name then fail w .badName else
    match askPass w envPass with
    | .error e => fail w e
    | .ok pw =>
      match P.pub rnd.a with
      | none => fail w (.crypto .other)
      | some pk =>
        let cfg := Keyring.serializeKey name (Keyring.encodePk pk) (Keyring.lockPrivateKey rnd.a pw rnd.b)
        match outf with
        | some p =>
          (match w.file p with
           | some old => { exit := 0, world := w.setFile p (old ++ utf8 ('\n' :: cfg)) }
           | none => { exit := 0, world := w.setFile p (utf8 cfg) })
        | none => { exit := 0, world := w, stdout := utf8 cfg }

def runChangePass (rnd : Rand) (w : World) (locked : Str) (envPass : Bool) : Outcome :=
  match askPass w envPass with
  | .error e => fail w e
  | .ok old =>
    match askPass w envPass "KESTREL_NEW_PASSWORD" with
    | .error e => fail w e
    | .ok new =>
      if !Keyring.encodedSkOk locked then fail w .badKeyArg else
      match Keyring.unlockPrivateKey locked old with
      | .error _ => fail w .unlockFailed
      | .ok sk => { exit := 0, world := w, stdout := utf8 (str "PrivateKey = " ++ Keyring.lockPrivateKey sk new rnd.a ++ ['\n']) }

def runExtractPub (P : Prims) (w : World) (locked : Str) (envPass : Bool) : Outcome :=
  match askPass w envPass with
  | .error e => fail w e
  | .ok pw =>
    if !Keyring.encodedSkOk locked then fail w .badKeyArg else
    match Keyring.unlockPrivateKey locked pw with
    | .error _ => fail w .unlockFailed
    | .ok sk =>
      match P.pub sk with
      | none => fail w (.crypto .other)
      | some pk => { exit := 0, world := w, stdout := utf8 (str "PublicKey = " ++ Keyring.encodePk pk ++ ['\n']) }

def run (P : Prims) (rnd : Rand) (w : World) : Request → Outcome
  | .help => { exit := 0, world := w }
  | .version => { exit := 0, world := w }
  | .usageError => fail w .usage
  | .encrypt i t f o k e => runEncrypt P rnd w i t f o k e
  | .decrypt i t o k e => runDecrypt P w i t o k e
  | .keyGen o e => runKeyGen P rnd w o e
  | .changePass s e => runChangePass rnd w s e
  | .extractPub s e => runExtractPub P w s e
  | .passEncrypt i o e => runPassEncrypt P rnd w i o e
  | .passDecrypt i o e => runPassDecrypt P w i o e

def main (P : Prims) (rnd : Rand) (w : World) (argv : List Str) : Outcome := run P rnd w (parseArgv argv)

end Kestrel.Cli
