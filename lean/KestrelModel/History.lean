/-
  Histories of operations that draw randomness (C07) and of password changes (C16).
  Randomness is an abstract stream `draw : Nat → Bytes` of fresh 32-byte values; every operation consumes the
  draws its role needs at indices no other operation uses.
-/
import KestrelModel.Keyring
import KestrelModel.Noise
namespace Kestrel.History

inductive Op
  | encrypt          -- payload key, ephemeral private key
  | passEncrypt      -- salt
  | keyGenerate      -- private key, salt
  | changePass       -- salt
deriving Repr, DecidableEq

inductive Role | payloadKey | ephemeral | fileSalt | privateKey | lockSalt
deriving Repr, DecidableEq

def roles : Op → List Role
  | .encrypt => [.payloadKey, .ephemeral]
  | .passEncrypt => [.fileSalt]
  | .keyGenerate => [.privateKey, .lockSalt]
  | .changePass => [.lockSalt]

structure Use where
  opIndex : Nat
  role : Role
  drawIndex : Nat
deriving Repr, DecidableEq

def usesOf (opIndex next : Nat) : List Role → List Use
  | [] => []
  | r :: rs => ⟨opIndex, r, next⟩ :: usesOf opIndex (next + 1) rs

/-- which draw every operation of the history uses for which role -/
def uses : Nat → Nat → List Op → List Use
  | _, _, [] => []
  | i, next, op :: ops => usesOf i next (roles op) ++ uses (i + 1) (next + (roles op).length) ops

def history (ops : List Op) : List Use := uses 0 0 ops

/-! password changes -/

/-- `key change-pass` applied repeatedly: `steps` = (old password offered, new password, fresh salt) -/
def changePasses : Keyring.Str → List (Bytes × Bytes × Bytes) → Option Keyring.Str
  | locked, [] => some locked
  | locked, (old, new, salt) :: rest =>
    match Keyring.unlockPrivateKey locked old with
    | .error _ => none
    | .ok sk => changePasses (Keyring.lockPrivateKey sk new salt) rest

/-- `key extract-pub`: the public key line for a locked key -/
def extractPub (P : Prims) (locked : Keyring.Str) (pw : Bytes) : Option Keyring.Str :=
  match Keyring.unlockPrivateKey locked pw with
  | .error _ => none
  | .ok sk => (P.pub sk).map Keyring.encodePk

end Kestrel.History
