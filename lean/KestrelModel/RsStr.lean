/-
  Support definitions for Lean code generated from `src/cli/src/keyring.rs` by `tools/rs2lean_keyring.py`
  (in addition to KestrelModel/RsPrelude.lean, which is used unchanged for slices and `copy_from_slice`).
  HAND-WRITTEN AND TRUSTED: each definition is the meaning the translator gives to one Rust construct or to one
  library call; the Rust API it stands for is named at each definition.

  Strings (`&str`, `String`) are `List Char`; `len()` is the length in UTF-8 bytes.  The string functions are the ones
  of the hand-written model KestrelModel/Keyring.lean (`lines`, `trim`, `utf8Len`, `utf8`, `asciiStr`), so that model and
  translation share ONE reading of the Rust standard library; base64 / SHA-256 / ChaCha20-Poly1305 / scrypt are the
  definitions in KestrelModel/Prim.
-/
import KestrelModel.RsPrelude
import KestrelModel.Keyring
namespace Kestrel.RsStr

/-- `&str` / `String` -/
abbrev Str := List Char

/-! ### control flow: early `return`, `?`, `continue` -/

/-- Outcome of running a piece of a function body:
    `next s` — fell through to the following statement (`s` = value produced / variables assigned);
    `cont k` — hit `continue` (`k` = the loop variables at that point);
    `ret r`  — hit `return r` (or a failing `?`). -/
inductive Flow (ρ κ σ : Type) where
  | next (s : σ)
  | cont (k : κ)
  | ret (r : ρ)

/-- statement sequencing: run `rest` only if the first part fell through -/
def Flow.bind : Flow ρ κ σ → (σ → Flow ρ κ τ) → Flow ρ κ τ
  | .next s, rest => rest s
  | .cont k, _ => .cont k
  | .ret r, _ => .ret r

/-- `e?`: unwrap `Ok`, or return early with the error (`onErr` rebuilds the function's return value: `Err(e)`, preceded
    by the current values of the function's `&mut` parameters if it has any) -/
def Flow.propagate (e : Except ε α) (onErr : ε → ρ) : Flow ρ κ α :=
  match e with
  | .ok a => .next a
  | .error err => .ret (onErr err)

/-- a whole function body: its value is the tail expression (`next`) or the operand of the `return` that was hit;
    `continue` cannot occur outside a loop (`Empty`) -/
def run : Flow ρ Empty ρ → ρ
  | .next r => r
  | .ret r => r

/-- `for a in l { body }` where the body may `continue` or `return`: `s` is the tuple of outer variables the body
    assigns.  Falling off the end of the body and `continue` both go on with the next element. -/
def forIn : List α → (α → σ → Flow ρ σ σ) → σ → Flow ρ κ σ
  | [], _, s => .next s
  | a :: as, f, s =>
    match f a s with
    | .next s' => forIn as f s'
    | .cont s' => forIn as f s'
    | .ret r => .ret r

/-! ### `Option` / `Result` (Rust panics are totalised with `default`) -/

/-- `Option::unwrap` / `Option::expect` (Rust panics on `None`; totalised: `default`) -/
def unwrap_opt [Inhabited α] : Option α → α
  | some a => a
  | none => default

/-- `Result::unwrap` / `Result::expect` (Rust panics on `Err`; totalised: `default`) -/
def unwrap_res [Inhabited α] : Except ε α → α
  | .ok a => a
  | .error _ => default

/-- `Result::map_err` -/
def map_err (r : Except ε α) (f : ε → ε') : Except ε' α :=
  match r with
  | .ok a => .ok a
  | .error e => .error (f e)

/-- `Option::ok_or(e)` / `Option::ok_or_else(|| e)` (the translator accepts only a closure without `return` / `?`; in a
    total language it makes no difference that Rust evaluates its body on `None` only) -/
def ok_or (o : Option α) (e : ε) : Except ε α :=
  match o with
  | some a => .ok a
  | none => .error e

/-! ### `str` / `String` -/

/-- `str::lines` -/
def lines (s : Str) : List Str := Kestrel.Keyring.lines s

/-- `str::trim` -/
def trim (s : Str) : Str := Kestrel.Keyring.trim s

/-- `String::retain(p)`: keep the characters satisfying `p` -/
def retain (s : Str) (p : Char → Bool) : Str := s.filter p

/-- `str::replace(c, "")` for a `char` pattern `c` and the empty replacement: delete every `c` -/
def remove_char (s : Str) (c : Char) : Str := s.filter (· != c)

/-- `str::starts_with(&str)` -/
def starts_with (s pat : Str) : Bool := pat.isPrefixOf s

/-- `str::starts_with(char)` -/
def starts_with_char (s : Str) (c : Char) : Bool :=
  match s with
  | d :: _ => d == c
  | [] => false

/-- `str::split_once(char)`: the parts before and after the first occurrence -/
def split_once_char : Str → Char → Option (Str × Str)
  | [], _ => none
  | d :: r, c => if d = c then some ([], r) else (split_once_char r c).map fun (a, b) => (d :: a, b)

/-- `str::is_empty` -/
def is_empty (s : Str) : Bool := s.isEmpty

/-- `str::len`: length in UTF-8 bytes -/
def len (s : Str) : Nat := Kestrel.Keyring.utf8Len s

/-- `str::contains(char)` -/
def contains_char (s : Str) (c : Char) : Bool := s.contains c

/-! ### ct-codecs 1.1.3 -/

/-- `Base64::decode_to_vec(s, None)` on the UTF-8 bytes of `s` (the error value `ct_codecs::Error` is not modelled) -/
def b64_decode_to_vec (s : Str) : Except Unit Bytes :=
  match Kestrel.B64.decode (Kestrel.Keyring.utf8 s) with
  | some b => .ok b
  | none => .error ()

/-- `Base64::encode_to_string(b)` (never fails for inputs that fit in memory) -/
def b64_encode_to_string (b : Bytes) : Except Unit Str := .ok (Kestrel.Keyring.asciiStr (Kestrel.B64.encode b))

/-! ### kestrel_crypto (src/crypto/src/lib.rs) -/

/-- `kestrel_crypto::sha256` -/
def kc_sha256 (d : Bytes) : Bytes := Kestrel.sha256 d

/-- `kestrel_crypto::scrypt(password, salt, n, r, p, dk_len)` (u32 parameters widened with `as usize`) -/
def kc_scrypt (pw salt : Bytes) (n r p : UInt32) (dkLen : Nat) : Bytes :=
  Kestrel.Scrypt.Spec.scrypt pw salt n.toNat r.toNat p.toNat dkLen

/-- `kestrel_crypto::chapoly_encrypt_ietf(key, nonce, plaintext, aad)` (note the argument order) -/
def kc_chapoly_encrypt_ietf (key nonce pt aad : Bytes) : Bytes := Kestrel.aeadSeal key nonce aad pt

/-- `kestrel_crypto::chapoly_decrypt_ietf(key, nonce, ciphertext, aad)`; the error is the unit struct `ChaPolyDecryptError` -/
def kc_chapoly_decrypt_ietf (key nonce ct aad : Bytes) : Except Unit Bytes :=
  match Kestrel.aeadOpen key nonce aad ct with
  | some p => .ok p
  | none => .error ()

/-- `kestrel_crypto::PublicKey` (`struct PublicKey { key: Vec<u8> }`) -/
structure PublicKey where
  key : Bytes
deriving Inhabited, DecidableEq, Repr

/-- `PublicKey::as_bytes` -/
def PublicKey.as_bytes (k : PublicKey) : Bytes := k.key

/-- `impl TryFrom<&[u8]> for PublicKey` -/
def PublicKey.try_from (raw : Bytes) : Except Str PublicKey :=
  if raw.length != 32 then .error "Public keys must be 32 bytes".toList else .ok ⟨raw⟩

/-- `kestrel_crypto::PrivateKey` (`struct PrivateKey { key: Vec<u8> }`) -/
structure PrivateKey where
  key : Bytes
deriving Inhabited, DecidableEq, Repr

/-- `PrivateKey::as_bytes` -/
def PrivateKey.as_bytes (k : PrivateKey) : Bytes := k.key

/-- `impl TryFrom<&[u8]> for PrivateKey` -/
def PrivateKey.try_from (raw : Bytes) : Except Str PrivateKey :=
  if raw.length != 32 then .error "Private keys must be 32 bytes".toList else .ok ⟨raw⟩

end Kestrel.RsStr
