/-
  Byte strings and integer encodings used throughout the model.
  `Bytes := List UInt8` keeps every model function total, structurally recursive and
  easy to reason about; the driver converts from/to `ByteArray` at the edges.
-/
namespace Kestrel

abbrev Bytes := List UInt8

/-- big-endian 32-bit encoding of `v mod 2^32` (Rust `u32::to_be_bytes`) -/
def be32 (v : Nat) : Bytes :=
  [UInt8.ofNat (v / 2^24 % 256), UInt8.ofNat (v / 2^16 % 256), UInt8.ofNat (v / 2^8 % 256), UInt8.ofNat (v % 256)]

/-- big-endian 64-bit encoding of `v mod 2^64` (Rust `u64::to_be_bytes`) -/
def be64 (v : Nat) : Bytes := be32 (v / 2^32 % 2^32) ++ be32 (v % 2^32)

/-- big-endian value of a byte string (Rust `u32::from_be_bytes` on 4 bytes) -/
def beVal : Bytes → Nat
  | [] => 0
  | b :: bs => b.toNat * 256^bs.length + beVal bs

/-- little-endian value -/
def leNat : Bytes → Nat
  | [] => 0
  | b :: bs => b.toNat + 256 * leNat bs

/-- little-endian encoding of `v mod 256^n` on `n` bytes -/
def natLE : Nat → Nat → Bytes
  | 0, _ => []
  | n+1, v => UInt8.ofNat (v % 256) :: natLE n (v / 256)

/-- big-endian encoding of `v mod 256^n` on `n` bytes -/
def natBE (n v : Nat) : Bytes := (natLE n v).reverse

def xorBytes : Bytes → Bytes → Bytes
  | a :: as, b :: bs => (a ^^^ b) :: xorBytes as bs
  | _, _ => []

def zeros (n : Nat) : Bytes := List.replicate n 0

def le32w (b0 b1 b2 b3 : UInt8) : UInt32 :=
  b0.toUInt32 ||| (b1.toUInt32 <<< 8) ||| (b2.toUInt32 <<< 16) ||| (b3.toUInt32 <<< 24)

def be32w (b0 b1 b2 b3 : UInt8) : UInt32 :=
  b3.toUInt32 ||| (b2.toUInt32 <<< 8) ||| (b1.toUInt32 <<< 16) ||| (b0.toUInt32 <<< 24)

def words32le : Bytes → List UInt32
  | b0 :: b1 :: b2 :: b3 :: rest => le32w b0 b1 b2 b3 :: words32le rest
  | _ => []

def words32be : Bytes → List UInt32
  | b0 :: b1 :: b2 :: b3 :: rest => be32w b0 b1 b2 b3 :: words32be rest
  | _ => []

def u32le (w : UInt32) : Bytes :=
  [w.toUInt8, (w >>> 8).toUInt8, (w >>> 16).toUInt8, (w >>> 24).toUInt8]

def u32be (w : UInt32) : Bytes :=
  [(w >>> 24).toUInt8, (w >>> 16).toUInt8, (w >>> 8).toUInt8, w.toUInt8]

def rotl32 (x : UInt32) (n : UInt32) : UInt32 := (x <<< n) ||| (x >>> (32 - n))
def rotr32 (x : UInt32) (n : UInt32) : UInt32 := (x >>> n) ||| (x <<< (32 - n))

def iter (f : α → α) : Nat → α → α
  | 0, a => a
  | n+1, a => iter f n (f a)

/-! hex (driver edges; tail-recursive so megabyte inputs do not overflow the stack) -/

def hexNib (n : UInt8) : Char := if n < 10 then Char.ofNat (48 + n.toNat) else Char.ofNat (87 + n.toNat)

def hex (b : Bytes) : String :=
  String.ofList (b.flatMap fun (x : UInt8) => [hexNib (x >>> 4), hexNib (x &&& 15)])

def unhexC (c : Char) : UInt8 :=
  if c.isDigit then (c.toNat - 48).toUInt8
  else if 'a' ≤ c && c ≤ 'f' then (c.toNat - 87).toUInt8
  else (c.toNat - 55).toUInt8

def unhexAux : List Char → List UInt8 → List UInt8
  | a :: b :: r, acc => unhexAux r ((unhexC a * 16 + unhexC b) :: acc)
  | _, acc => acc.reverse

def unhex (s : String) : Bytes := if s == "-" then [] else unhexAux s.toList []

def hexOrDash (b : Bytes) : String := if b.isEmpty then "-" else hex b

def ofStr (s : String) : Bytes := s.toUTF8.toList

end Kestrel
