/-
  Life cycle of the secret containers (`PrivateKey`, `PayloadKey` in src/crypto/src/lib.rs): construction,
  cloning (deep), overwriting in place (`a.clone_from(&b)`), dropping (= zeroize, then release).  What `Drop` does is
  read from the table the translator extracts from the source (`Generated.containers`): if a `Drop` impl disappears
  or no longer zeroizes the secret field, `dropContents` returns the secret unchanged and the obligations in
  KestrelProps/C20.lean fail.

  `cloneFrom i j` releases the buffer container `i` held before the assignment.  The default `Clone::clone_from` is
  `*self = source.clone()`, which drops the old value of `self` (zeroize, then release): table field
  `assignDropsOld = true`.  A hand-written `clone_from` that assigns only the secret field hands the old buffer back
  WITHOUT running `Drop` on it: `assignDropsOld = false`, and the old secret is released as it is.
-/
import KestrelModel.Bytes
import KestrelModel.Generated
namespace Kestrel.Lifecycle

inductive Op
  | generate (secret : Bytes)      -- PrivateKey::generate / secure_random: some fresh 32 bytes
  | fromBytes (b : Bytes)          -- try_from(&[u8]) / PayloadKey::new
  | clone (i : Nat)
  | drop (i : Nat)
  | cloneFrom (i j : Nat)          -- live[i].clone_from(&live[j]): the value container i held is replaced by a copy of j's
deriving Repr, DecidableEq

structure Heap where
  live : List (Option Bytes) := []      -- slot i: the secret held by container i, `none` once dropped
  released : List Bytes := []           -- contents of each buffer at the moment it is released (newest first)
deriving Repr

/-- what is in the buffer when it is handed back, according to the source's Drop/Zeroize impls -/
def dropContents (c : Generated.Container) (b : Bytes) : Bytes :=
  if c.dropZeroizes && c.zeroizeCoversSecret then zeros b.length else b

def step (c : Generated.Container) (h : Heap) : Op → Heap
  | .generate s => { h with live := h.live ++ [some s] }
  | .fromBytes b => { h with live := h.live ++ [some b] }
  | .clone i =>
    match h.live[i]? with
    | some (some b) => { h with live := h.live ++ [some b] }      -- derive(Clone) on Vec<u8> / [u8; 32]: a deep copy
    | _ => h
  | .drop i =>
    match h.live[i]? with
    | some (some b) => { live := h.live.set i none, released := dropContents c b :: h.released }
    | _ => h
  | .cloneFrom i j =>
    match h.live[i]?, h.live[j]? with
    | some (some bi), some (some bj) =>
      { live := h.live.set i (some bj),
        released := (if c.assignDropsOld then dropContents c bi else bi) :: h.released }
    | _, _ => h

def run (c : Generated.Container) (ops : List Op) : Heap := ops.foldl (step c) {}

def container (name : String) : Option Generated.Container := Generated.containers.find? (·.name == name)

end Kestrel.Lifecycle
