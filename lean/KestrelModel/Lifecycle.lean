/-
  Life cycle of the secret containers (`PrivateKey`, `PayloadKey` in src/crypto/src/lib.rs): construction,
  cloning (deep), dropping (= zeroize, then release).  What `Drop` does is read from the table the translator
  extracts from the source (`Generated.containers`): if a `Drop` impl disappears or no longer zeroizes the secret
  field, `dropContents` returns the secret unchanged and the obligations in KestrelProps/C20.lean fail.
-/
import KestrelModel.Bytes
import KestrelModel.Generated
namespace Kestrel.Lifecycle

inductive Op
  | generate (secret : Bytes)      -- PrivateKey::generate / secure_random: some fresh 32 bytes
  | fromBytes (b : Bytes)          -- try_from(&[u8]) / PayloadKey::new
  | clone (i : Nat)
  | drop (i : Nat)
deriving Repr, DecidableEq

structure Heap where
  live : List (Option Bytes) := []      -- slot i: the secret held by container i, `none` once dropped
  released : List Bytes := []           -- contents of each buffer at the moment it is released (newest first)
deriving Repr

/-- what is in the buffer when it is handed back, according to the source's Drop/Zeroize impls -/
def dropContents (c : Generated.Container) (b : Bytes) : Bytes :=
  if c.dropZeroizes && c.zeroizeCoversSecret then zeros b.length else b

def step (c : Generated.Container) (h : Heap) : Op → Heap
  | .generate s => { h with live := h.live ++ [some s] }
  | .fromBytes b => { h with live := h.live ++ [some b] }
  | .clone i =>
    match h.live[i]? with
    | some (some b) => { h with live := h.live ++ [some b] }      -- derive(Clone) on Vec<u8> / [u8; 32]: a deep copy
    | _ => h
  | .drop i =>
    match h.live[i]? with
    | some (some b) => { live := h.live.set i none, released := dropContents c b :: h.released }
    | _ => h

def run (c : Generated.Container) (ops : List Op) : Heap := ops.foldl (step c) {}

def container (name : String) : Option Generated.Container := Generated.containers.find? (·.name == name)

end Kestrel.Lifecycle
