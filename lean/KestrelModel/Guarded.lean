/-
  The *guarded* model of the untrusted-input paths (property C09).

  The plain model functions (`aeadOpen`, `decLoop`, `Noise.readMessage`, `keyDecrypt`, `Keyring.parse`, …) are total
  and return `Option`/`Except`; "never panics" is true of them by typing and says nothing.  Here the same paths are
  written again over `Outcome`, in which every Rust operation that *can* panic (slice indexing, `try_into().unwrap()`,
  `copy_from_slice`, `usize` subtraction, `unwrap`/`expect`, `assert!`, `unimplemented!`) is an explicit partial
  operation carrying a site label and yielding `crash site` when its Rust counterpart would panic.  Every Rust
  `if … { return Err }` guard is in its place, in source order.  `KestrelProofs/Guarded.lean` proves that no input
  reaches a crash and that the guarded functions equal the plain ones; `KestrelProps/C09guarded.lean` ties the site
  labels to the translator's inventory `Generated.panicSites`.

  Site labels have the form  fn/kind/distinctive-substring-of-the-statement  (the inventory's own fields).
-/
import KestrelModel.Bytes
import KestrelModel.Aead
import KestrelModel.Chunks
import KestrelModel.Noise
import KestrelModel.File
import KestrelModel.Keyring
namespace Kestrel.Guarded
open Kestrel Kestrel.Generated

/-- result of a computation that may panic -/
inductive Outcome (α : Type) where
  | val (a : α)
  | crash (site : String)
deriving Repr, DecidableEq

def Outcome.andThen : Outcome α → (α → Outcome β) → Outcome β
  | .val a, f => f a
  | .crash s, _ => .crash s

instance : Monad Outcome where
  pure := .val
  bind := Outcome.andThen

def Outcome.isCrash : Outcome α → Bool
  | .val _ => false
  | .crash _ => true

/-! ### partial operations mirroring Rust's panicking operations -/

/-- `b[..n]` -/
def sliceTo (site : String) (b : Bytes) (n : Nat) : Outcome Bytes :=
  if n > b.length then .crash site else .val (b.take n)

/-- `b[n..]` -/
def sliceFrom (site : String) (b : Bytes) (n : Nat) : Outcome Bytes :=
  if n > b.length then .crash site else .val (b.drop n)

/-- `b[i..j]` -/
def slice (site : String) (b : Bytes) (i j : Nat) : Outcome Bytes :=
  if i > j ∨ j > b.length then .crash site else .val ((b.drop i).take (j - i))

/-- `<[u8; n]>::try_from(b).unwrap()` / `.expect(..)` -/
def toArray (site : String) (b : Bytes) (n : Nat) : Outcome Bytes :=
  if b.length ≠ n then .crash site else .val b

/-- `dst.copy_from_slice(src)` with `dst.len() = dstLen` -/
def copyFromSlice (site : String) (dstLen : Nat) (src : Bytes) : Outcome Unit :=
  if dstLen ≠ src.length then .crash site else .val ()

/-- `a - b` on `usize` (overflow checks on) -/
def subUsize (site : String) (a b : Nat) : Outcome Nat :=
  if a < b then .crash site else .val (a - b)

/-- `unwrap()` / `expect()` on an `Option` (or on a `Result` seen as one) -/
def expectSome (site : String) : Option α → Outcome α
  | some a => .val a
  | none => .crash site

/-- `assert!` / `assert_eq!` -/
def assertThat (site : String) (c : Bool) : Outcome Unit :=
  if c then .val () else .crash site

/-- The narrowest `usize` the code base supports (32-bit targets): `u32 → usize` `try_into().unwrap()`. -/
def usizeBound : Nat := 4294967296

/-- `let x: usize = v.try_into().unwrap()` -/
def tryIntoUsize (site : String) (v : Nat) : Outcome Nat :=
  if v < usizeBound then .val v else .crash site

/-- `unimplemented!(..)` -/
def unimplementedArm (site : String) : Outcome α := .crash site

/-! ### AEAD -/

/-- `chapoly_decrypt_ietf` (after the D2 repair).  `chapoly::open` itself is the library primitive (`aeadOpen`). -/
def aeadOpenG (key nonce ad c : Bytes) : Outcome (Option Bytes) := do
  assertThat "chapoly_decrypt_ietf/expect/Nonce::from_slice(nonce)" (nonce.length == 12)
  assertThat "chapoly_decrypt_ietf/expect/SecretKey::from_slice(key)" (key.length == 32)
  if c.length < tagSize then .val none else do
  let _ptSize ← subUsize "chapoly_decrypt_ietf/sub/ciphertext.len() - TAG_SIZE" c.length tagSize
  .val (aeadOpen key nonce ad c)

/-- the shape of `chapoly_decrypt_noise` as its callers see it: key, counter nonce, ad, ciphertext -/
abbrev AeadDecG := Bytes → Nat → Bytes → Bytes → Outcome (Option Bytes)

/-- `chapoly_decrypt_noise` -/
def chapolyNoiseDecG : AeadDecG := fun key n ad c => do
  assertThat "chapoly_decrypt_noise/assert/assert_eq!(key.len(), 32)" (key.length == 32)
  let nonceBytes := natLE 8 n                       -- nonce.to_le_bytes()
  let finalNonce := zeros 12
  let dst ← sliceFrom "chapoly_decrypt_noise/index/final_nonce_bytes[4..]" finalNonce nonceOffset
  copyFromSlice "chapoly_decrypt_noise/copy_from_slice/final_nonce_bytes[4..]" dst.length nonceBytes
  aeadOpenG key (finalNonce.take nonceOffset ++ nonceBytes) ad c

/-! ### chunk stream -/

/-- the loop of `decrypt_chunks`.  `buf` is `buffer` (length `cs + 16`), `adBuf` is `auth_data`
    (length `aad.len() + 8`); both persist across iterations as in the Rust code. -/
def decLoopG (D : AeadDecG) (key aad : Bytes) (cs : Nat) : Nat → Nat → Bytes → Bytes → Bytes → Outcome (List Bytes × Res)
  | 0, _, _, _, _ => .val ([], .ioRead)
  | fuel+1, ctr, buf, adBuf, inp =>
    -- ciphertext.read_exact(&mut chunk_header)
    if inp.length < 16 then .val ([], .ioRead) else do
    let hdr := inp.take 16
    let rest := inp.drop 16
    let s1 ← slice "decrypt_chunks/index/chunk_header[8..12]" hdr decHdrLast.1 decHdrLast.2
    let lastB ← toArray "decrypt_chunks/unwrap/chunk_header[8..12]" s1 4
    let s2 ← sliceFrom "decrypt_chunks/index/chunk_header[12..]" hdr decHdrLen.1
    let lenB ← toArray "decrypt_chunks/unwrap/chunk_header[12..]" s2 4
    let last := beVal lastB
    let len := beVal lenB
    if len > cs then .val ([], .chunkLen) else do
    let ctLen ← tryIntoUsize "decrypt_chunks/unwrap/ciphertext_length.try_into()" len
    -- ciphertext.read_exact(&mut buffer[..ct_len + TAG_SIZE])
    let dst ← sliceTo "decrypt_chunks/index/read_exact(&mut buffer[..ct_len + TAG_SIZE])" buf (ctLen + tagSize)
    if rest.length < dst.length then .val ([], .ioRead) else do
    let buf' := rest.take dst.length ++ buf.drop dst.length
    let rest' := rest.drop dst.length
    let aadLen := aad.length
    let d1 ← sliceTo "decrypt_chunks/index/auth_data[..aad_len]" adBuf aadLen
    copyFromSlice "decrypt_chunks/copy_from_slice/auth_data[..aad_len]" d1.length aad
    let d2 ← slice "decrypt_chunks/index/auth_data[aad_len..aad_len + 4]" adBuf aadLen (aadLen + 4)
    copyFromSlice "decrypt_chunks/copy_from_slice/auth_data[aad_len..aad_len + 4]" d2.length lastB
    let d3 ← sliceFrom "decrypt_chunks/index/auth_data[aad_len + 4..]" adBuf (aadLen + 4)
    copyFromSlice "decrypt_chunks/copy_from_slice/auth_data[aad_len + 4..]" d3.length lenB
    let adBuf' := aad ++ lastB ++ lenB              -- the three copies tile `auth_data` exactly
    let ct ← sliceTo "decrypt_chunks/index/let ct = &buffer[..ct_len + TAG_SIZE]" buf' (ctLen + tagSize)
    let r ← D key ctr adBuf' ct
    match r with
    | none => .val ([], .auth)
    | some pt =>
      if last == lastFlagValue then
        if rest'.length ≠ 0 then .val ([], .unexpectedData) else .val ([pt], .ok)
      else do
        let (ws, res) ← decLoopG D key aad cs fuel (ctr+1) buf' adBuf' rest'
        .val (pt :: ws, res)

/-- `decrypt_chunks` on a complete input (`chunk_size : u32`) -/
def decryptChunksG (D : AeadDecG) (key aad : Bytes) (cs : Nat) (inp : Bytes) : Outcome (List Bytes × Res) := do
  let csU ← tryIntoUsize "decrypt_chunks/unwrap/chunk_size.try_into()" cs
  let buffer := zeros (csU + tagSize)
  let authData := zeros (aad.length + 8)
  decLoopG D key aad cs inp.length 0 buffer authData inp

/-! ### Noise X, responder side -/

open Noise

/-- `PayloadKey::new` (`noise::Key::new`) -/
def payloadKeyNewG (b : Bytes) : Outcome Bytes := toArray "new/expect/Keys must be 32 bytes" b 32

/-- `PublicKey::try_from` / `PrivateKey::try_from`: an error value, not a panic -/
def keyTryFrom (b : Bytes) : Option Bytes := if b.length ≠ 32 then none else some b

/-- `x25519`: the two `expect`s on the argument lengths, then the library primitive -/
def dhG (P : Prims) (k u : Bytes) : Outcome (Option Bytes) := do
  let sk ← toArray "x25519/expect/Private key must be 32 bytes" k 32
  let pk ← toArray "x25519/expect/Public key must be 32 bytes" u 32
  .val (P.dh sk pk)

/-- `SymmetricState::mix_hash` -/
def mixHashG (P : Prims) (s : Sym) (d : Bytes) : Outcome Sym := do
  let h ← toArray "mix_hash/unwrap/sha256(h.as_slice()).try_into()" (P.hash (s.h ++ d)) hashLen
  .val { s with h := h }

/-- `SymmetricState::mix_key` -/
def mixKeyG (P : Prims) (s : Sym) (ikm : Bytes) : Outcome Sym := do
  let (ck, tk) := P.hkdf2 s.ck ikm
  let ck' ← payloadKeyNewG ck
  let tk' ← payloadKeyNewG tk
  .val { s with ck := ck', k := some tk', n := 0 }

/-- `SymmetricState::new` -/
def symNewG (P : Prims) (name : Bytes) : Outcome Sym := do
  let h0 ←
    if name.length ≤ hashLen then do
      let dst ← sliceTo "new/index/hash_output[..protocol_name.len()]" (zeros 32) name.length
      copyFromSlice "new/copy_from_slice/hash_output[..protocol_name.len()]" dst.length name
      pure (name ++ (zeros 32).drop name.length)
    else toArray "new/unwrap/sha256(protocol_name).try_into()" (P.hash name) 32
  let ck ← payloadKeyNewG h0
  .val { ck := ck, h := h0, k := none }

/-- `CipherState::decrypt_with_ad` -/
def decryptWithAdG (D : AeadDecG) (s : Sym) (ad ct : Bytes) : Outcome (Option (Bytes × Sym)) := do
  let key ← expectSome "decrypt_with_ad/expect/X pattern must have a key initialized" s.k
  let nonce := s.n
  let r ← D key nonce ad ct
  match r with
  | none => .val none
  | some pt => do
    assertThat "set_nonce/assert/assert!(nonce < u64::MAX)" (decide (nonce + 1 < 18446744073709551615))
    .val (some (pt, { s with n := nonce + 1 }))

/-- `SymmetricState::decrypt_and_hash` -/
def decryptAndHashG (P : Prims) (D : AeadDecG) (s : Sym) (ct : Bytes) : Outcome (Option (Bytes × Sym)) := do
  let r ← decryptWithAdG D s s.h ct
  match r with
  | none => .val none
  | some (pt, s') => do
    let s'' ← mixHashG P s' ct
    .val (some (pt, s''))

/-- `HandshakeState` -/
structure HS where
  sym : Sym
  s : Option (Bytes × Bytes)      -- local static pair (private, public)
  e : Option (Bytes × Bytes)
  rs : Option Bytes
  re : Option Bytes
  initiator : Bool
  patterns : List (List Token)

/-- `HandshakeState::init_x` -/
def initXG (P : Prims) (initiator : Bool) (prologue s spk : Bytes) (e epk rs : Option Bytes) : Outcome HS := do
  let sym ← symNewG P protocolName
  let sym ← mixHashG P sym prologue
  let ePair ←
    if e.isSome && epk.isSome then do
      let epriv ← expectSome "init_x/unwrap/let epriv = e.unwrap()" e
      let epub ← expectSome "init_x/unwrap/let epub = epk.unwrap()" epk
      pure (some (epriv, epub))
    else pure none
  let sym ←
    if initiator then do
      assertThat "init_x/assert/assert!(rs.is_some())" rs.isSome
      let rsk ← expectSome "init_x/unwrap/rs.as_ref().unwrap()" rs
      mixHashG P sym rsk
    else mixHashG P sym spk
  .val { sym := sym, s := some (s, spk), e := ePair, rs := rs, re := none, initiator := initiator,
         patterns := [tokenPattern] }

/-- `HandshakeState::get_pubkey` -/
def getPubkey (hs : HS) : Option Bytes := if hs.initiator then none else hs.rs

/-- one arm of the `match pattern` in `read_message`; returns the new state and `msgidx` -/
def readTokenG (P : Prims) (D : AeadDecG) (msg : Bytes) (t : Token) (hs : HS) (idx : Nat) :
    Outcome (Except Err (HS × Nat)) :=
  match t with
  | .E => do
    let reB ← slice "read_message/index/&message[msgidx..(msgidx + DH_LEN)]" msg idx (idx + dhLen)
    match keyTryFrom reB with
    | none => .val (.error .other)
    | some re => do
      let sym ← mixHashG P hs.sym re
      .val (.ok ({ hs with re := some re, sym := sym }, idx + dhLen))
  | .S => do
    let indexLen := if hs.sym.k.isSome then dhLen + 16 else dhLen
    let enc ← slice "read_message/index/&message[msgidx..msgidx + index_len]" msg idx (idx + indexLen)
    let r ← decryptAndHashG P D hs.sym enc
    match r with
    | none => .val (.error .decrypt)
    | some (rsB, sym) =>
      match keyTryFrom rsB with
      | none => .val (.error .other)
      | some rs => .val (.ok ({ hs with rs := some rs, sym := sym }, idx + indexLen))
  | .EE => unimplementedArm "read_message/panic/EE not used in the X pattern"
  | .ES => do
    let s ← expectSome "read_message/unwrap/let s = self.s.as_ref().unwrap()" hs.s
    let re ← expectSome "read_message/unwrap/let re = self.re.as_ref().unwrap()" hs.re
    let d ← dhG P s.1 re
    match d with
    | none => .val (.error .dh)
    | some ss => do
      let sym ← mixKeyG P hs.sym ss
      .val (.ok ({ hs with sym := sym }, idx))
  | .SE => unimplementedArm "read_message/panic/SE not used in the X pattern"
  | .SS => do
    let s ← expectSome "read_message/unwrap/let s = self.s.as_ref().unwrap()" hs.s
    let rs ← expectSome "read_message/unwrap/let rs = self.rs.as_ref().unwrap()" hs.rs
    let d ← dhG P s.1 rs
    match d with
    | none => .val (.error .dh)
    | some ss => do
      let sym ← mixKeyG P hs.sym ss
      .val (.ok ({ hs with sym := sym }, idx))

/-- `for pattern in message_pattern { … }` -/
def readTokensG (P : Prims) (D : AeadDecG) (msg : Bytes) : List Token → HS → Nat → Outcome (Except Err (HS × Nat))
  | [], hs, idx => .val (.ok (hs, idx))
  | t :: ts, hs, idx => do
    let r ← readTokenG P D msg t hs idx
    match r with
    | .error e => .val (.error e)
    | .ok (hs', idx') => readTokensG P D msg ts hs' idx'

/-- `HandshakeState::read_message` (after the D3 repair): payload, final state, handshake hash -/
def readMessageG (P : Prims) (D : AeadDecG) (hs : HS) (msg : Bytes) : Outcome (Except Err (Bytes × HS × Bytes)) := do
  let pat ← expectSome "read_message/expect/X pattern consists of a single message" hs.patterns.head?
  let hs := { hs with patterns := hs.patterns.tail }
  if msg.length < 96 ∨ msg.length > 65535 then .val (.error .other) else do
  let r ← readTokensG P D msg pat hs 0
  match r with
  | .error e => .val (.error e)
  | .ok (hs, idx) => do
    let tail ← sliceFrom "read_message/index/decrypt_and_hash(&message[msgidx..])" msg idx
    let r ← decryptAndHashG P D hs.sym tail
    match r with
    | none => .val (.error .decrypt)
    | some (payload, sym) => do
      -- split(): two more `Key::new`
      let (k1, k2) := P.hkdf2 sym.ck []
      let _ ← payloadKeyNewG k1
      let _ ← payloadKeyNewG k2
      .val (.ok (payload, { hs with sym := sym }, sym.h))

/-- `noise_decrypt`: payload key, sender public key, handshake hash -/
def noiseDecryptG (P : Prims) (D : AeadDecG) (prologue r rpk msg : Bytes) : Outcome (Except Err (Bytes × Bytes × Bytes)) := do
  let hs ← initXG P false prologue r rpk none none none
  let res ← readMessageG P D hs msg
  match res with
  | .error e => .val (.error e)
  | .ok (payload, hs, h) =>
    if payload.length ≠ 32 then .val (.error .other) else do
    let pk ← payloadKeyNewG payload
    let spk ← expectSome "noise_decrypt/expect/Expected to get the sender's public key" (getPubkey hs)
    .val (.ok (pk, spk, h))

/-- the plain counterpart of `noise_decrypt` (in the plain model its length check is inlined in `keyDecrypt`) -/
def noiseDecrypt (P : Prims) (prologue r rpk msg : Bytes) : Except Err (Bytes × Bytes × Bytes) :=
  match readMessage P prologue r rpk msg with
  | .error e => .error e
  | .ok (pk, spk, h) => if pk.length ≠ 32 then .error .other else .ok (pk, spk, h)

/-! ### file level (pure: the whole input as a byte string; a failing `read_exact` is `.val (…, .ioRead)`) -/

/-- `key_decrypt` -/
def keyDecryptG (P : Prims) (D : AeadDecG) (r rpk : Bytes) (inp : Bytes) : Outcome (List Bytes × Res × Option Bytes) :=
  if inp.length < 4 then .val ([], .ioRead, none) else
  let magic := inp.take 4
  match validFileFormat magic with
  | none => .val ([], .format, none)
  | some false => .val ([], .other, none)
  | some true =>
    let rest := inp.drop 4
    if rest.length < handshakeLen then .val ([], .ioRead, none) else do
    let nm ← noiseDecryptG P D magic r rpk (rest.take handshakeLen)
    match nm with
    | .error _ => .val ([], .other, none)
    | .ok (pk, spk, h) => do
      let fk := P.hkdfFile pk h
      let (ws, res) ← decryptChunksG D fk [] chunkSize (rest.drop handshakeLen)
      .val (ws, res, if res = .ok then some spk else none)

/-- `pass_decrypt` -/
def passDecryptG (P : Prims) (D : AeadDecG) (pw : Bytes) (inp : Bytes) : Outcome (List Bytes × Res) :=
  if inp.length < 4 then .val ([], .ioRead) else
  let magic := inp.take 4
  match validFileFormat magic with
  | none => .val ([], .format)
  | some true => .val ([], .other)
  | some false =>
    let rest := inp.drop 4
    if rest.length < saltLen then .val ([], .ioRead) else do
    let key := P.kdf pw (rest.take saltLen)
    let aad ← slice "pass_decrypt/index/let aad = &pass_magic_num[..]" magic 0 magic.length
    decryptChunksG D key aad chunkSize (rest.drop saltLen)

/-! ### encoded keys -/

open Keyring

/-- `EncodedPk::try_from`: the validated string (no panic-capable operation inside) -/
def encodedPkTryFromG (s : Str) : Outcome (Except KrErr Str) :=
  match B64.decode (utf8 s) with
  | none => .val (.error .pkFormat)
  | some b => if b.length ≠ encodedPkLen then .val (.error .pkLength) else .val (.ok s)

/-- `Keyring::decode_public_key` on an `EncodedPk` -/
def decodePublicKeyG (enc : Str) : Outcome (Except KrErr Bytes) := do
  let b ← expectSome "decode_public_key/expect/Public key decode failed" (B64.decode (utf8 enc))
  if b.length < publicKeyLen then .val (.error .pkLength) else do
  let pk ← sliceTo "decode_public_key/index/let pk = &enc_pk_bytes[..32]" b 32
  let checksum ← sliceFrom "decode_public_key/index/let checksum = &enc_pk_bytes[32..]" b 32
  let expFull := sha256 pk
  let exp ← sliceTo "decode_public_key/index/&exp_checksum[..4]" expFull 4
  if checksum ≠ exp then .val (.error .pkChecksum) else do
  let key ← expectSome "decode_public_key/expect/Invalid public key length" (keyTryFrom pk)
  .val (.ok key)

/-- `EncodedPk::try_from` followed by `decode_public_key` -/
def decodePkG (s : Str) : Outcome (Except KrErr Bytes) := do
  let r ← encodedPkTryFromG s
  match r with
  | .error e => .val (.error e)
  | .ok enc => decodePublicKeyG enc

/-- `EncodedSk::try_from` -/
def encodedSkTryFromG (s : Str) : Outcome (Except KrErr Str) :=
  match B64.decode (utf8 s) with
  | none => .val (.error .skLength)
  | some b => if b.length ≠ privateKeyCtLen then .val (.error .skLength) else .val (.ok s)

/-- `Keyring::unlock_private_key` on an `EncodedSk` -/
def unlockPrivateKeyG (enc : Str) (pw : Bytes) : Outcome (Except KrErr Bytes) := do
  let b ← expectSome "as_bytes/expect/Invalid format for encoded Private Key" (B64.decode (utf8 enc))
  if b.length ≠ privateKeyCtLen then .val (.error .skLength) else do
  let ver ← sliceTo "unlock_private_key/index/let version_aad = &key_bytes[..4]" b skVersion.2
  if ver ≠ privateKeyVersion then .val (.error .skFormat) else do
  let salt ← slice "unlock_private_key/index/let salt = &key_bytes[4..36]" b skSalt.1 skSalt.2
  let ct ← slice "unlock_private_key/index/let ciphertext = &key_bytes[36..84]" b skCt.1 skCt.2
  let key := lockKdf pw salt
  let nonce := zeros 12
  let r ← aeadOpenG key nonce ver ct
  match r with
  | none => .val (.error .skDecrypt)
  | some pt => do
    let sk ← expectSome "unlock_private_key/expect/Invalid private key length" (keyTryFrom pt)
    .val (.ok sk)

/-- `EncodedSk::try_from` followed by `unlock_private_key` -/
def unlockG (s : Str) (pw : Bytes) : Outcome (Except KrErr Bytes) := do
  let r ← encodedSkTryFromG s
  match r with
  | .error e => .val (.error e)
  | .ok enc => unlockPrivateKeyG enc pw

/-! ### keyring file -/

/-- the `for k in keys.iter()` loop of `add_key`; `true` = a duplicate was found (`return Err`) -/
def addKeyLoopG (name pk : Option Str) : List Key → Outcome Bool
  | [] => .val false
  | k :: ks => do
    let n ← expectSome "add_key/unwrap/if &k.name == key_name.unwrap()" name
    if k.name == n then .val true else do
    let p ← expectSome "add_key/unwrap/if k.public_key.as_str() == key_public.unwrap().as_str()" pk
    if k.pk == p then .val true else addKeyLoopG name pk ks

/-- `Keyring::add_key` followed by the caller's reset of the three pending fields -/
def addKeyG (st : PSt) : Outcome (Option PSt) :=
  if st.name.isNone && st.pk.isSome then .val none
  else if st.name.isSome && st.pk.isNone then .val none
  else if st.name.isNone && st.pk.isNone then .val none
  else do
    let dup ← addKeyLoopG st.name st.pk st.keys
    if dup then .val none else do
    let n ← expectSome "add_key/unwrap/name: key_name.unwrap().clone()" st.name
    let p ← expectSome "add_key/unwrap/public_key: key_public.unwrap().clone()" st.pk
    .val (some { st with keys := st.keys ++ [⟨n, p, st.sk⟩], name := none, pk := none, sk := none })

/-- one iteration of `for line in config.lines()`.  `parse_config` itself has no panic-capable statement
    (inventory: none), so every arm but `[Key]` — which calls `add_key` — is the plain model's arm. -/
def stepLineG (st : PSt) (line : Str) : Outcome (Option PSt) :=
  let cl := trim (line.filter (· != '\t'))
  if startsWith "[Key]" cl then
    if st.found then
      if st.name.isNone then .val none
      else if st.pk.isNone then .val none
      else addKeyG st
    else .val (some { st with found := true })
  else .val (stepLine st line)

def parseLinesG : PSt → List Str → Outcome (Option PSt)
  | st, [] => .val (some st)
  | st, l :: ls => do
    let r ← stepLineG st l
    match r with
    | none => .val none
    | some st' => parseLinesG st' ls

/-- `Keyring::new` / `parse_config` -/
def parseG (text : Str) : Outcome (Option (List Key)) := do
  let r ← parseLinesG {} (lines text)
  match r with
  | none => .val none
  | some st =>
    if !st.found then .val none else do
    let r ← addKeyG st
    .val (r.map (·.keys))

end Kestrel.Guarded
