/-
  The four public entry points: key_encrypt / key_decrypt / pass_encrypt / pass_decrypt.
-/
import KestrelModel.Chunks
import KestrelModel.Noise
import KestrelModel.Generated
namespace Kestrel

open Generated in
/-- `valid_file_format` -/
def validFileFormat (h : Bytes) : Option Bool :=   -- some true = AsymV1, some false = PassV1
  if h = decAsymMagic then some true else if h = decPassMagic then some false else none

/-! ### pure level (complete inputs, fault-free) -/

open Generated in
/-- `key_encrypt` with explicit ephemeral pair and payload key; `reads` = plaintext read schedule -/
def keyEncrypt (P : Prims) (s spk rs e epk pk : Bytes) (reads : List Bytes) : Bytes × Res :=
  match Noise.writeMessage P encPrologue s spk rs e epk pk with
  | .error _ => ([], .other)
  | .ok (msg, h) =>
    let fk := P.hkdfFile pk h
    let (body, res) := encryptChunks P.aead fk [] reads
    (encPrologue ++ msg ++ body, res)

open Generated in
/-- `key_decrypt` on a complete input: plaintext writes, result, sender public key on success -/
def keyDecrypt (P : Prims) (r rpk : Bytes) (inp : Bytes) : List Bytes × Res × Option Bytes :=
  if inp.length < 4 then ([], .ioRead, none) else
  let magic := inp.take 4
  match validFileFormat magic with
  | none => ([], .format, none)
  | some false => ([], .other, none)
  | some true =>
    let rest := inp.drop 4
    if rest.length < handshakeLen then ([], .ioRead, none) else
    match Noise.readMessage P magic r rpk (rest.take handshakeLen) with
    | .error _ => ([], .other, none)
    | .ok (pk, spk, h) =>
      if pk.length ≠ 32 then ([], .other, none) else
      let fk := P.hkdfFile pk h
      let (ws, res) := decryptChunks P.aead fk [] chunkSize (rest.drop handshakeLen)
      (ws, res, if res = .ok then some spk else none)

open Generated in
def passEncrypt (P : Prims) (pw salt : Bytes) (reads : List Bytes) : Bytes × Res :=
  let key := P.kdf pw salt
  let (body, res) := encryptChunks P.aead key encPassMagic reads
  (encPassMagic ++ salt ++ body, res)

open Generated in
def passDecrypt (P : Prims) (pw : Bytes) (inp : Bytes) : List Bytes × Res :=
  if inp.length < 4 then ([], .ioRead) else
  let magic := inp.take 4
  match validFileFormat magic with
  | none => ([], .format)
  | some true => ([], .other)
  | some false =>
    let rest := inp.drop 4
    if rest.length < 32 then ([], .ioRead) else
    let key := P.kdf pw (rest.take 32)
    decryptChunks P.aead key magic chunkSize (rest.drop 32)

/-! ### I/O level -/

open Generated in
def keyEncryptIO (P : Prims) (s spk rs e epk pk : Bytes) (src : Src) (k : Snk) : Res × Src × Snk :=
  match Noise.writeMessage P encPrologue s spk rs e epk pk with
  | .error _ => (.other, src, k)
  | .ok (msg, h) =>
    match writeRecord k (src.pos, src.nreads) encPrologue msg with
    | (false, k') => (.ioWrite, src, k')
    | (true, k') => encryptChunksIO P.aead (P.hkdfFile pk h) [] chunkSize src k'

open Generated in
def passEncryptIO (P : Prims) (pw salt : Bytes) (src : Src) (k : Snk) : Res × Src × Snk :=
  let key := P.kdf pw salt
  match writeRecord k (src.pos, src.nreads) encPassMagic salt with
  | (false, k') => (.ioWrite, src, k')
  | (true, k') => encryptChunksIO P.aead key encPassMagic chunkSize src k'

open Generated in
def keyDecryptIO (P : Prims) (r rpk : Bytes) (src : Src) (k : Snk) : Res × Src × Snk × Option Bytes :=
  match Src.readExact (src.fuel 4) src 4 with
  | (none, s1) => (.ioRead, s1, k, none)
  | (some magic, s1) =>
    match validFileFormat magic with
    | none => (.format, s1, k, none)
    | some false => (.other, s1, k, none)
    | some true =>
      match Src.readExact (s1.fuel handshakeLen) s1 handshakeLen with
      | (none, s2) => (.ioRead, s2, k, none)
      | (some msg, s2) =>
        match Noise.readMessage P magic r rpk msg with
        | .error _ => (.other, s2, k, none)
        | .ok (pk, spk, h) =>
          if pk.length ≠ 32 then (.other, s2, k, none) else
          let (res, s3, k') := decryptChunksIO P.aead (P.hkdfFile pk h) [] chunkSize s2 k
          (res, s3, k', if res = .ok then some spk else none)

open Generated in
def passDecryptIO (P : Prims) (pw : Bytes) (src : Src) (k : Snk) : Res × Src × Snk :=
  match Src.readExact (src.fuel 4) src 4 with
  | (none, s1) => (.ioRead, s1, k)
  | (some magic, s1) =>
    match validFileFormat magic with
    | none => (.format, s1, k)
    | some true => (.other, s1, k)
    | some false =>
      match Src.readExact (s1.fuel 32) s1 32 with
      | (none, s2) => (.ioRead, s2, k)
      | (some salt, s2) => decryptChunksIO P.aead (P.kdf pw salt) magic chunkSize s2 k

end Kestrel
