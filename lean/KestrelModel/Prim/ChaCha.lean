/-
  RFC 8439 ChaCha20, Poly1305 and the AEAD construction, transcribed for `List UInt8`.
  Validated against the RFC vectors in `selftest` (Main.lean) and against orion through the
  correspondence harness (C19).
-/
import KestrelModel.Bytes
namespace Kestrel

structure ChaSt where
  (x0 x1 x2 x3 x4 x5 x6 x7 x8 x9 x10 x11 x12 x13 x14 x15 : UInt32)

@[inline] def qr (a b c d : UInt32) : UInt32 × UInt32 × UInt32 × UInt32 :=
  let a := a + b; let d := rotl32 (d ^^^ a) 16
  let c := c + d; let b := rotl32 (b ^^^ c) 12
  let a := a + b; let d := rotl32 (d ^^^ a) 8
  let c := c + d; let b := rotl32 (b ^^^ c) 7
  (a, b, c, d)

def dround (s : ChaSt) : ChaSt :=
  let (x0, x4, x8, x12) := qr s.x0 s.x4 s.x8 s.x12
  let (x1, x5, x9, x13) := qr s.x1 s.x5 s.x9 s.x13
  let (x2, x6, x10, x14) := qr s.x2 s.x6 s.x10 s.x14
  let (x3, x7, x11, x15) := qr s.x3 s.x7 s.x11 s.x15
  let (x0, x5, x10, x15) := qr x0 x5 x10 x15
  let (x1, x6, x11, x12) := qr x1 x6 x11 x12
  let (x2, x7, x8, x13) := qr x2 x7 x8 x13
  let (x3, x4, x9, x14) := qr x3 x4 x9 x14
  ⟨x0,x1,x2,x3,x4,x5,x6,x7,x8,x9,x10,x11,x12,x13,x14,x15⟩

def ChaSt.add (a b : ChaSt) : ChaSt :=
  ⟨a.x0+b.x0,a.x1+b.x1,a.x2+b.x2,a.x3+b.x3,a.x4+b.x4,a.x5+b.x5,a.x6+b.x6,a.x7+b.x7,
   a.x8+b.x8,a.x9+b.x9,a.x10+b.x10,a.x11+b.x11,a.x12+b.x12,a.x13+b.x13,a.x14+b.x14,a.x15+b.x15⟩

def ChaSt.bytes (s : ChaSt) : Bytes :=
  u32le s.x0 ++ u32le s.x1 ++ u32le s.x2 ++ u32le s.x3 ++ u32le s.x4 ++ u32le s.x5 ++ u32le s.x6 ++ u32le s.x7 ++
  u32le s.x8 ++ u32le s.x9 ++ u32le s.x10 ++ u32le s.x11 ++ u32le s.x12 ++ u32le s.x13 ++ u32le s.x14 ++ u32le s.x15

/-- RFC 8439 §2.3 block function; `k` = 8 key words, `n` = 3 nonce words. -/
def chachaBlock (k : List UInt32) (ctr : UInt32) (n : List UInt32) : Bytes :=
  match k, n with
  | [k0,k1,k2,k3,k4,k5,k6,k7], [n0,n1,n2] =>
    let s : ChaSt := ⟨0x61707865, 0x3320646e, 0x79622d32, 0x6b206574, k0,k1,k2,k3,k4,k5,k6,k7, ctr, n0,n1,n2⟩
    ((iter dround 10 s).add s).bytes
  | _, _ => []

/-- XOR `data` with the ChaCha20 keystream starting at block counter `ctr`; `fuel ≥ data.length`. -/
def chachaXor (k n : List UInt32) : Nat → UInt32 → Bytes → Bytes
  | 0, _, _ => []
  | _, _, [] => []
  | fuel+1, ctr, data =>
    let blk := data.take 64
    xorBytes blk (chachaBlock k ctr n) ++ chachaXor k n fuel (ctr+1) (data.drop 64)

def P1305 : Nat := 2^130 - 5

def polyLoop (r : Nat) : Nat → Nat → Bytes → Nat
  | 0, acc, _ => acc
  | _, acc, [] => acc
  | fuel+1, acc, msg =>
    let blk := msg.take 16
    let n := leNat blk + 2^(8*blk.length)
    polyLoop r fuel (((acc + n) * r) % P1305) (msg.drop 16)

/-- RFC 8439 §2.5 -/
def poly1305 (key : Bytes) (msg : Bytes) : Bytes :=
  let r := leNat (key.take 16) &&& 0x0ffffffc0ffffffc0ffffffc0fffffff
  let s := leNat (key.drop 16)
  natLE 16 ((polyLoop r msg.length 0 msg + s) % 2^128)

def pad16 (n : Nat) : Bytes := List.replicate ((16 - n % 16) % 16) 0

def macData (ad ct : Bytes) : Bytes :=
  ad ++ pad16 ad.length ++ ct ++ pad16 ct.length ++ natLE 8 ad.length ++ natLE 8 ct.length

/-- RFC 8439 §2.8 AEAD_CHACHA20_POLY1305 encryption: ciphertext ‖ tag -/
def aeadSeal (key nonce ad pt : Bytes) : Bytes :=
  let k := words32le key; let n := words32le nonce
  let otk := (chachaBlock k 0 n).take 32
  let ct := chachaXor k n pt.length 1 pt
  ct ++ poly1305 otk (macData ad ct)

/-- RFC 8439 §2.8 decryption; `none` when shorter than a tag or the tag does not verify.
    (This is `chapoly_decrypt_ietf` after the D2 repair: inputs shorter than 16 bytes are an error.) -/
def aeadOpen (key nonce ad c : Bytes) : Option Bytes :=
  if c.length < 16 then none else
  let k := words32le key; let n := words32le nonce
  let ct := c.take (c.length - 16)
  let tag := c.drop (c.length - 16)
  let otk := (chachaBlock k 0 n).take 32
  if poly1305 otk (macData ad ct) == tag then some (chachaXor k n ct.length 1 ct) else none

/-- `chapoly_{en,de}crypt_noise`: 4 zero bytes then the 64-bit counter little-endian. -/
def noiseNonce (n : Nat) : Bytes := [0,0,0,0] ++ natLE 8 n

end Kestrel
