/-
  RFC 7748 X25519 over `Nat` (Montgomery ladder).  `none` on the all-zero output, which is when
  orion's `key_agreement` (and therefore `kestrel_crypto::x25519`) returns an error.
-/
import KestrelModel.Bytes
namespace Kestrel.X25519

def P : Nat := 2^255 - 19

def powModAux (m : Nat) : Nat → Nat → Nat → Nat → Nat
  | 0, r, _, _ => r
  | fuel+1, r, b, e =>
    if e = 0 then r else
    powModAux m fuel (if e % 2 = 1 then r * b % m else r) (b * b % m) (e / 2)

def powMod (b e m : Nat) : Nat := powModAux m 256 1 (b % m) e

/-- RFC 7748 §5 decodeScalar25519 -/
def clamp (k : Nat) : Nat := ((k &&& ((2^256 - 1) - 7)) &&& (2^255 - 1)) ||| 2^254

structure L where (x2 z2 x3 z3 : Nat) (swap : Bool)

def cswap (s : Bool) (a b : Nat) : Nat × Nat := if s then (b, a) else (a, b)

def step (x1 k : Nat) (st : L) (t : Nat) : L :=
  let kt := (k >>> t) % 2 == 1
  let sw := st.swap != kt
  let (x2, x3) := cswap sw st.x2 st.x3
  let (z2, z3) := cswap sw st.z2 st.z3
  let A := (x2 + z2) % P; let AA := A * A % P
  let B := (x2 + P - z2) % P; let BB := B * B % P
  let E := (AA + P - BB) % P
  let C := (x3 + z3) % P; let D := (x3 + P - z3) % P
  let DA := D * A % P; let CB := C * B % P
  let x3 := (DA + CB) % P; let x3 := x3 * x3 % P
  let z3 := (DA + P - CB) % P; let z3 := x1 * (z3 * z3 % P) % P
  let x2 := AA * BB % P
  let z2 := E * ((AA + 121665 * E) % P) % P
  ⟨x2, z2, x3, z3, kt⟩

def ladder (k u : Nat) : Nat :=
  let st := (List.range 255).reverse.foldl (step u k) ⟨1, 0, u, 1, false⟩
  let (x2, _) := cswap st.swap st.x2 st.x3
  let (z2, _) := cswap st.swap st.z2 st.z3
  x2 * powMod z2 (P - 2) P % P

/-- raw scalar multiplication, 32-byte result -/
def scalarMult (k u : Bytes) : Bytes :=
  natLE 32 (ladder (clamp (leNat k)) ((leNat u % 2^255) % P))

def x25519 (k u : Bytes) : Option Bytes :=
  let r := scalarMult k u
  if r.all (· == 0) then none else some r

def basePoint : Bytes := 9 :: zeros 31

def pubOf (k : Bytes) : Option Bytes := x25519 k basePoint

end Kestrel.X25519
