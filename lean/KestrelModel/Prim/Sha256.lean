/-
  FIPS 180-4 SHA-256, HMAC (RFC 2104), HKDF (RFC 5869), PBKDF2 (RFC 8018) over `List UInt8`.
-/
import KestrelModel.Bytes
namespace Kestrel

def sha256K : Array UInt32 := #[
  0x428a2f98, 0x71374491, 0xb5c0fbcf, 0xe9b5dba5, 0x3956c25b, 0x59f111f1, 0x923f82a4, 0xab1c5ed5,
  0xd807aa98, 0x12835b01, 0x243185be, 0x550c7dc3, 0x72be5d74, 0x80deb1fe, 0x9bdc06a7, 0xc19bf174,
  0xe49b69c1, 0xefbe4786, 0x0fc19dc6, 0x240ca1cc, 0x2de92c6f, 0x4a7484aa, 0x5cb0a9dc, 0x76f988da,
  0x983e5152, 0xa831c66d, 0xb00327c8, 0xbf597fc7, 0xc6e00bf3, 0xd5a79147, 0x06ca6351, 0x14292967,
  0x27b70a85, 0x2e1b2138, 0x4d2c6dfc, 0x53380d13, 0x650a7354, 0x766a0abb, 0x81c2c92e, 0x92722c85,
  0xa2bfe8a1, 0xa81a664b, 0xc24b8b70, 0xc76c51a3, 0xd192e819, 0xd6990624, 0xf40e3585, 0x106aa070,
  0x19a4c116, 0x1e376c08, 0x2748774c, 0x34b0bcb5, 0x391c0cb3, 0x4ed8aa4a, 0x5b9cca4f, 0x682e6ff3,
  0x748f82ee, 0x78a5636f, 0x84c87814, 0x8cc70208, 0x90befffa, 0xa4506ceb, 0xbef9a3f7, 0xc67178f2]

structure ShaSt where
  (a b c d e f g h : UInt32)

def sha256Init : ShaSt :=
  ⟨0x6a09e667, 0xbb67ae85, 0x3c6ef372, 0xa54ff53a, 0x510e527f, 0x9b05688c, 0x1f83d9ab, 0x5be0cd19⟩

/-- message schedule: extend 16 words to 64 -/
def shaSchedule (w16 : List UInt32) : Array UInt32 := Id.run do
  let mut w : Array UInt32 := w16.toArray
  for t in [16:64] do
    let w15 := w[t-15]!; let w2 := w[t-2]!
    let s0 := rotr32 w15 7 ^^^ rotr32 w15 18 ^^^ (w15 >>> 3)
    let s1 := rotr32 w2 17 ^^^ rotr32 w2 19 ^^^ (w2 >>> 10)
    w := w.push (w[t-16]! + s0 + w[t-7]! + s1)
  return w

def shaRound (s : ShaSt) (k w : UInt32) : ShaSt :=
  let S1 := rotr32 s.e 6 ^^^ rotr32 s.e 11 ^^^ rotr32 s.e 25
  let ch := (s.e &&& s.f) ^^^ ((~~~ s.e) &&& s.g)
  let t1 := s.h + S1 + ch + k + w
  let S0 := rotr32 s.a 2 ^^^ rotr32 s.a 13 ^^^ rotr32 s.a 22
  let maj := (s.a &&& s.b) ^^^ (s.a &&& s.c) ^^^ (s.b &&& s.c)
  let t2 := S0 + maj
  ⟨t1 + t2, s.a, s.b, s.c, s.d + t1, s.e, s.f, s.g⟩

def shaCompress (s : ShaSt) (block : Bytes) : ShaSt :=
  let w := shaSchedule (words32be block)
  let r := (List.range 64).foldl (fun st t => shaRound st sha256K[t]! w[t]!) s
  ⟨s.a + r.a, s.b + r.b, s.c + r.c, s.d + r.d, s.e + r.e, s.f + r.f, s.g + r.g, s.h + r.h⟩

def shaBlocks : Nat → ShaSt → Bytes → ShaSt
  | 0, s, _ => s
  | _, s, [] => s
  | fuel+1, s, msg => shaBlocks fuel (shaCompress s (msg.take 64)) (msg.drop 64)

def shaPad (len : Nat) : Bytes :=
  0x80 :: zeros ((119 - len % 64) % 64) ++ natBE 8 (8 * len)

def ShaSt.bytes (s : ShaSt) : Bytes :=
  u32be s.a ++ u32be s.b ++ u32be s.c ++ u32be s.d ++ u32be s.e ++ u32be s.f ++ u32be s.g ++ u32be s.h

def sha256 (msg : Bytes) : Bytes :=
  let m := msg ++ shaPad msg.length
  (shaBlocks m.length sha256Init m).bytes

/-- HMAC-SHA-256 (RFC 2104): keys longer than the 64-byte block are hashed first. -/
def hmacSha256 (key msg : Bytes) : Bytes :=
  let k0 := if key.length > 64 then sha256 key else key
  let k := k0 ++ zeros (64 - k0.length)
  let ipad := k.map (· ^^^ 0x36)
  let opad := k.map (· ^^^ 0x5c)
  sha256 (opad ++ sha256 (ipad ++ msg))

/-- HKDF-Expand (RFC 5869 §2.3), `n` blocks -/
def hkdfExpandBlocks (prk info : Bytes) : Nat → Nat → Bytes → Bytes
  | 0, _, _ => []
  | n+1, i, prev =>
    let t := hmacSha256 prk (prev ++ info ++ [UInt8.ofNat i])
    t ++ hkdfExpandBlocks prk info n (i+1) t

/-- HKDF-SHA256 (RFC 5869): extract with `salt` (empty salt = 32 zero bytes, which HMAC's key padding
    makes identical to the empty key), then expand to `len` bytes. -/
def hkdfSha256 (salt ikm info : Bytes) (len : Nat) : Bytes :=
  let prk := hmacSha256 salt ikm
  (hkdfExpandBlocks prk info ((len + 31) / 32) 1 []).take len

/-- The Rust `hkdf_noise`: two HKDF outputs with chaining key as salt and empty info. -/
def hkdfNoise (ck ikm : Bytes) : Bytes × Bytes :=
  let tk := hmacSha256 ck ikm
  let o1 := hmacSha256 tk [0x01]
  let o2 := hmacSha256 tk (o1 ++ [0x02])
  (o1, o2)

/-- PBKDF2-HMAC-SHA256 block `i` with `c` iterations -/
def pbkdf2Block (pw salt : Bytes) (c i : Nat) : Bytes :=
  let u1 := hmacSha256 pw (salt ++ natBE 4 i)
  let rec go : Nat → Bytes → Bytes → Bytes
    | 0, _, acc => acc
    | n+1, u, acc => let u' := hmacSha256 pw u; go n u' (xorBytes acc u')
  go (c - 1) u1 u1

def pbkdf2Blocks (pw salt : Bytes) (c : Nat) : Nat → Nat → Bytes
  | 0, _ => []
  | n+1, i => pbkdf2Block pw salt c i ++ pbkdf2Blocks pw salt c n (i+1)

def pbkdf2Sha256 (pw salt : Bytes) (c len : Nat) : Bytes :=
  (pbkdf2Blocks pw salt c ((len + 31) / 32) 1).take len

end Kestrel
