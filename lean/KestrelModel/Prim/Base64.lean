/-
  Standard base64 with required padding, as implemented by ct-codecs 1.1.3 `Base64::{encode_to_string,
  decode_to_vec(_, None)}`: standard alphabet only, no characters ignored, padding required exactly when the
  length calls for it, unused trailing bits must be zero, nothing may follow the padding.
-/
import KestrelModel.Bytes
namespace Kestrel.B64

def charOf (v : Nat) : UInt8 :=
  if v < 26 then UInt8.ofNat (65 + v)
  else if v < 52 then UInt8.ofNat (97 + (v - 26))
  else if v < 62 then UInt8.ofNat (48 + (v - 52))
  else if v = 62 then 43 else 47

def valOf (c : UInt8) : Option Nat :=
  if 65 ≤ c ∧ c ≤ 90 then some (c.toNat - 65)
  else if 97 ≤ c ∧ c ≤ 122 then some (c.toNat - 97 + 26)
  else if 48 ≤ c ∧ c ≤ 57 then some (c.toNat - 48 + 52)
  else if c = 43 then some 62 else if c = 47 then some 63 else none

def encode : Bytes → Bytes
  | a :: b :: c :: rest =>
    let n := a.toNat * 65536 + b.toNat * 256 + c.toNat
    charOf (n / 262144) :: charOf (n / 4096 % 64) :: charOf (n / 64 % 64) :: charOf (n % 64) :: encode rest
  | [a, b] =>
    let n := a.toNat * 65536 + b.toNat * 256
    [charOf (n / 262144), charOf (n / 4096 % 64), charOf (n / 64 % 64), 61]
  | [a] =>
    let n := a.toNat * 65536
    [charOf (n / 262144), charOf (n / 4096 % 64), 61, 61]
  | [] => []

def decode : Bytes → Option Bytes
  | [] => some []
  | c0 :: c1 :: c2 :: c3 :: rest =>
    match valOf c0, valOf c1 with
    | some v0, some v1 =>
      if c2 = 61 then
        if c3 = 61 ∧ rest = [] ∧ v1 % 16 = 0 then some [UInt8.ofNat (v0 * 4 + v1 / 16)] else none
      else
        match valOf c2 with
        | none => none
        | some v2 =>
          if c3 = 61 then
            if rest = [] ∧ v2 % 4 = 0 then
              some [UInt8.ofNat (v0 * 4 + v1 / 16), UInt8.ofNat (v1 % 16 * 16 + v2 / 4)]
            else none
          else
            match valOf c3 with
            | none => none
            | some v3 =>
              match decode rest with
              | none => none
              | some r =>
                some (UInt8.ofNat (v0 * 4 + v1 / 16) :: UInt8.ofNat (v1 % 16 * 16 + v2 / 4)
                        :: UInt8.ofNat (v2 % 4 * 64 + v3) :: r)
    | _, _ => none
  | _ => none

end Kestrel.B64
