/-
  RFC 7914 scrypt.
  `Scrypt.Spec` is a direct transcription of RFC 7914 §3-§6 (Salsa20/8 core, scryptBlockMix,
  scryptROMix, scrypt).  `Scrypt.Impl` has the *shape of `src/crypto/src/scrypt.rs`*:
  loops unrolled two steps at a time, `& (N-1)` instead of `mod N`, block_mix writing even results
  to the first half and odd results to the second half of the output.  `KestrelProps/C18.lean`
  proves `Impl = Spec` for all inputs whenever N is a power of two ≥ 2.
-/
import KestrelModel.Bytes
import KestrelModel.Prim.Sha256
namespace Kestrel.Scrypt

structure Blk where
  (x0 x1 x2 x3 x4 x5 x6 x7 x8 x9 x10 x11 x12 x13 x14 x15 : UInt32)
deriving Inhabited, BEq, DecidableEq

def Blk.zero : Blk := ⟨0,0,0,0,0,0,0,0,0,0,0,0,0,0,0,0⟩

def Blk.xor (a b : Blk) : Blk :=
  ⟨a.x0^^^b.x0,a.x1^^^b.x1,a.x2^^^b.x2,a.x3^^^b.x3,a.x4^^^b.x4,a.x5^^^b.x5,a.x6^^^b.x6,a.x7^^^b.x7,
   a.x8^^^b.x8,a.x9^^^b.x9,a.x10^^^b.x10,a.x11^^^b.x11,a.x12^^^b.x12,a.x13^^^b.x13,a.x14^^^b.x14,a.x15^^^b.x15⟩

def Blk.add (a b : Blk) : Blk :=
  ⟨a.x0+b.x0,a.x1+b.x1,a.x2+b.x2,a.x3+b.x3,a.x4+b.x4,a.x5+b.x5,a.x6+b.x6,a.x7+b.x7,
   a.x8+b.x8,a.x9+b.x9,a.x10+b.x10,a.x11+b.x11,a.x12+b.x12,a.x13+b.x13,a.x14+b.x14,a.x15+b.x15⟩

def Blk.ofWords : List UInt32 → Blk
  | [a0,a1,a2,a3,a4,a5,a6,a7,a8,a9,a10,a11,a12,a13,a14,a15] => ⟨a0,a1,a2,a3,a4,a5,a6,a7,a8,a9,a10,a11,a12,a13,a14,a15⟩
  | _ => Blk.zero

def Blk.bytes (s : Blk) : Bytes :=
  u32le s.x0 ++ u32le s.x1 ++ u32le s.x2 ++ u32le s.x3 ++ u32le s.x4 ++ u32le s.x5 ++ u32le s.x6 ++ u32le s.x7 ++
  u32le s.x8 ++ u32le s.x9 ++ u32le s.x10 ++ u32le s.x11 ++ u32le s.x12 ++ u32le s.x13 ++ u32le s.x14 ++ u32le s.x15

@[inline] def R (a b : UInt32) (k : UInt32) : UInt32 := rotl32 (a + b) k

/-- one Salsa20 double round (column round then row round), RFC 7914 §3 -/
def salsaDouble (s : Blk) : Blk :=
  let x4 := s.x4 ^^^ R s.x0 s.x12 7;  let x8 := s.x8 ^^^ R x4 s.x0 9
  let x12 := s.x12 ^^^ R x8 x4 13;    let x0 := s.x0 ^^^ R x12 x8 18
  let x9 := s.x9 ^^^ R s.x5 s.x1 7;   let x13 := s.x13 ^^^ R x9 s.x5 9
  let x1 := s.x1 ^^^ R x13 x9 13;     let x5 := s.x5 ^^^ R x1 x13 18
  let x14 := s.x14 ^^^ R s.x10 s.x6 7; let x2 := s.x2 ^^^ R x14 s.x10 9
  let x6 := s.x6 ^^^ R x2 x14 13;     let x10 := s.x10 ^^^ R x6 x2 18
  let x3 := s.x3 ^^^ R s.x15 s.x11 7; let x7 := s.x7 ^^^ R x3 s.x15 9
  let x11 := s.x11 ^^^ R x7 x3 13;    let x15 := s.x15 ^^^ R x11 x7 18
  let x1 := x1 ^^^ R x0 x3 7;   let x2 := x2 ^^^ R x1 x0 9
  let x3 := x3 ^^^ R x2 x1 13;  let x0 := x0 ^^^ R x3 x2 18
  let x6 := x6 ^^^ R x5 x4 7;   let x7 := x7 ^^^ R x6 x5 9
  let x4 := x4 ^^^ R x7 x6 13;  let x5 := x5 ^^^ R x4 x7 18
  let x11 := x11 ^^^ R x10 x9 7;  let x8 := x8 ^^^ R x11 x10 9
  let x9 := x9 ^^^ R x8 x11 13;   let x10 := x10 ^^^ R x9 x8 18
  let x12 := x12 ^^^ R x15 x14 7; let x13 := x13 ^^^ R x12 x15 9
  let x14 := x14 ^^^ R x13 x12 13; let x15 := x15 ^^^ R x14 x13 18
  ⟨x0,x1,x2,x3,x4,x5,x6,x7,x8,x9,x10,x11,x12,x13,x14,x15⟩

/-- Salsa20/8 core -/
def salsa208 (b : Blk) : Blk := (iter salsaDouble 4 b).add b

/-- split a byte string into 64-byte blocks of little-endian words -/
def blocksOfBytes : Nat → Bytes → List Blk
  | 0, _ => []
  | n+1, b => Blk.ofWords (words32le (b.take 64)) :: blocksOfBytes n (b.drop 64)

def bytesOfBlocks (bs : List Blk) : Bytes := bs.flatMap Blk.bytes

def xorBlocks : List Blk → List Blk → List Blk
  | a :: as, b :: bs => a.xor b :: xorBlocks as bs
  | _, _ => []

def evens : List α → List α
  | a :: _ :: r => a :: evens r
  | [a] => [a]
  | [] => []

def odds : List α → List α
  | _ :: b :: r => b :: odds r
  | _ => []

/-- Integerify: the last 64-byte block read as a little-endian integer (its first 8 bytes suffice for N ≤ 2^64) -/
def integerify (X : List Blk) : Nat :=
  let b := X.getLast?.getD Blk.zero
  b.x0.toNat + b.x1.toNat * 2^32

namespace Spec

/-- the chain Y₀ … Y₂ᵣ₋₁ of scryptBlockMix step 2 -/
def mixSeq (X : Blk) : List Blk → List Blk
  | [] => []
  | b :: bs => let X' := salsa208 (X.xor b); X' :: mixSeq X' bs

/-- RFC 7914 §4 scryptBlockMix -/
def blockMix (B : List Blk) : List Blk :=
  let Y := mixSeq (B.getLast?.getD Blk.zero) B
  evens Y ++ odds Y

/-- first loop of scryptROMix: V[i] = X; X = BlockMix(X) -/
def fillV : Nat → List Blk → Array (List Blk) → Array (List Blk) × List Blk
  | 0, X, V => (V, X)
  | n+1, X, V => fillV n (blockMix X) (V.push X)

/-- second loop: j = Integerify(X) mod N; X = BlockMix(X xor V[j]) -/
def mixV (V : Array (List Blk)) (N : Nat) : Nat → List Blk → List Blk
  | 0, X => X
  | n+1, X =>
    let j := integerify X % N
    mixV V N n (blockMix (xorBlocks X (V[j]?.getD [])))

/-- RFC 7914 §5 scryptROMix -/
def roMix (N : Nat) (B : List Blk) : List Blk :=
  let (V, X) := fillV N B #[]
  mixV V N N X

def roMixAll (N r : Nat) : Nat → Bytes → Bytes
  | 0, _ => []
  | p+1, b => bytesOfBlocks (roMix N (blocksOfBytes (2*r) (b.take (128*r)))) ++ roMixAll N r p (b.drop (128*r))

/-- RFC 7914 §6 -/
def scrypt (pw salt : Bytes) (N r p dkLen : Nat) : Bytes :=
  let B := pbkdf2Sha256 pw salt 1 (p * 128 * r)
  pbkdf2Sha256 pw (roMixAll N r p B) 1 dkLen

end Spec

namespace Impl

/-- `block_mix(tmp, inn, out, r)`: tmp seeded from block 2r-1; for i in (0..2r).step_by(2) two salsa_xor calls,
    results going to out[i/2] and out[r + i/2].  Returns (first half, second half). -/
def mixPairs (tmp : Blk) : List Blk → List Blk × List Blk
  | b0 :: b1 :: rest =>
    let t0 := salsa208 (tmp.xor b0)
    let t1 := salsa208 (t0.xor b1)
    let (e, o) := mixPairs t1 rest
    (t0 :: e, t1 :: o)
  | _ => ([], [])

def blockMix (inn : List Blk) : List Blk :=
  let (e, o) := mixPairs (inn.getLast?.getD Blk.zero) inn
  e ++ o

/-- first loop of `smix`, two entries of `v` per iteration; `n` = number of iterations = N/2 -/
def fillV2 : Nat → List Blk → Array (List Blk) → Array (List Blk) × List Blk
  | 0, x, v => (v, x)
  | n+1, x, v =>
    let y := blockMix x
    fillV2 n (blockMix y) ((v.push x).push y)

/-- second loop of `smix` with the mask `& (N-1)` -/
def mixV2 (v : Array (List Blk)) (N : Nat) : Nat → List Blk → List Blk
  | 0, x => x
  | n+1, x =>
    let j := integerify x &&& (N - 1)
    let y := blockMix (xorBlocks x (v[j]?.getD []))
    let j := integerify y &&& (N - 1)
    mixV2 v N n (blockMix (xorBlocks y (v[j]?.getD [])))

def smix (N : Nat) (b : List Blk) : List Blk :=
  let (v, x) := fillV2 (N / 2) b #[]
  mixV2 v N (N / 2) x

def smixAll (N r : Nat) : Nat → Bytes → Bytes
  | 0, _ => []
  | p+1, b => bytesOfBlocks (smix N (blocksOfBytes (2*r) (b.take (128*r)))) ++ smixAll N r p (b.drop (128*r))

def scrypt (pw salt : Bytes) (N r p dkLen : Nat) : Bytes :=
  let b := pbkdf2Sha256 pw salt 1 (p * 128 * r)
  pbkdf2Sha256 pw (smixAll N r p b) 1 dkLen

end Impl
end Kestrel.Scrypt
