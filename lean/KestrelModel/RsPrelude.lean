/-
  Support definitions for Lean code generated from Rust sources by `tools/rs2lean_scrypt.py`
  (a shallow embedding: slices / arrays / `Vec` are `List`, `usize`/`u64` are `Nat`).
  HAND-WRITTEN AND TRUSTED: each definition is the meaning the translator gives to one Rust construct.
  Rust panics (index out of range, length mismatch in `copy_from_slice`, `step_by(0)`) are totalised;
  the totalisation is stated at each definition.
-/
import KestrelModel.Bytes
namespace Kestrel.Rs

/-- `l[i]` as an rvalue (Rust panics when `i ≥ l.len()`; totalised with `default`) -/
def idx [Inhabited α] (l : List α) (i : Nat) : α := l.getD i default

/-- `l[i] = v` (Rust panics when `i ≥ l.len()`; totalised: no change) -/
def set (l : List α) (i : Nat) (v : α) : List α := l.set i v

/-- `n` iterations of `s := f i s; i := i + step`, starting at index `i` -/
def loopFrom (step : Nat) (f : Nat → σ → σ) : Nat → Nat → σ → σ
  | 0, _, s => s
  | n+1, i, s => loopFrom step f n (i + step) (f i s)

/-- `for i in lo..hi { s = f i s }`: `hi - lo` iterations (none when `hi ≤ lo`) -/
def forRange (lo hi : Nat) (f : Nat → σ → σ) (s : σ) : σ := loopFrom 1 f (hi - lo) lo s

/-- `for i in (lo..hi).step_by(step) { s = f i s }`: `⌈(hi - lo) / step⌉` iterations
    (Rust panics when `step = 0`; totalised: no iteration, since `x / 0 = 0`) -/
def forStep (lo hi step : Nat) (f : Nat → σ → σ) (s : σ) : σ :=
  loopFrom step f ((hi - lo + step - 1) / step) lo s

/-- `for a in l.iter() { s = f a s }` -/
def forIn : List α → (α → σ → σ) → σ → σ
  | [], _, s => s
  | a :: as, f, s => forIn as f (f a s)

/-- elements of `l` numbered from `i` -/
def enumFrom : Nat → List α → (Nat → α → σ → σ) → σ → σ
  | _, [], _, s => s
  | i, a :: as, f, s => enumFrom (i + 1) as f (f i a s)

/-- `for (i, a) in l.iter().enumerate() { s = f i a s }` -/
def forEnum (l : List α) (f : Nat → α → σ → σ) (s : σ) : σ := enumFrom 0 l f s

/-- `for (a, b) in xs.iter_mut().zip(ys) { *a = f a b }`: the new contents of `xs`; the loop ends with the shorter of the two,
    the remaining elements of `xs` are unchanged -/
def zipMut : List α → List β → (α → β → α) → List α
  | a :: as, b :: bs, f => f a b :: zipMut as bs f
  | as, [], _ => as
  | [], _ :: _, _ => []

/-- the first `n` chunks of `k` elements of `l` -/
def chunksFrom (k : Nat) : Nat → List α → List (List α)
  | 0, _ => []
  | n+1, l => l.take k :: chunksFrom k n (l.drop k)

/-- `l.chunks_exact(k)`: the `l.len() / k` full chunks of `k` elements, the remainder is left out
    (Rust panics when `k = 0`; totalised: no chunk, since `x / 0 = 0`) -/
def chunksExact (k : Nat) (l : List α) : List (List α) := chunksFrom k (l.length / k) l

/-- `for (c, b) in l.chunks_exact_mut(k).zip(ys) { c := f c b }`: the new contents of `l`: the chunks (those that met an
    element of `ys` updated), then the remainder of fewer than `k` elements -/
def zipChunksMut (k : Nat) (l : List α) (ys : List β) (f : List α → β → List α) : List α :=
  (zipMut (chunksExact k l) ys f).flatten ++ l.drop (k * (l.length / k))

/-- `n` passes of `c := f c s` over consecutive chunks of `k` elements of `l` (state `s` threaded through): the new contents of
    `l` (the updated chunks, then what the `n` chunks did not cover, unchanged) and the final state -/
def chunksMutFrom (k : Nat) (f : List α → σ → List α × σ) : Nat → List α → σ → List α × σ
  | 0, l, s => (l, s)
  | n+1, l, s =>
    let r1 := f (l.take k) s
    let r2 := chunksMutFrom k f n (l.drop k) r1.2
    (r1.1 ++ r2.1, r2.2)

/-- `for c in l.chunks_exact_mut(k) { (c, s) = f c s }`: the `l.len() / k` full chunks of `k` elements are visited in order, the
    remainder of fewer than `k` elements is left alone (Rust panics when `k = 0`; totalised: no chunk, since `x / 0 = 0`) -/
def forChunksMut (k : Nat) (l : List α) (f : List α → σ → List α × σ) (s : σ) : List α × σ :=
  chunksMutFrom k f (l.length / k) l s

/-- `dst.copy_from_slice(src)`: the new contents of `dst` (Rust panics unless the lengths are equal, and then
    the result is `src`; totalised so that the length of `dst` never changes) -/
def copyFromSlice (dst src : List α) : List α := src.take dst.length ++ dst.drop src.length

/-- `u32::from_le_bytes(a)` for a 4-byte array `a` -/
def u32FromLeBytes (a : List UInt8) : UInt32 := le32w (idx a 0) (idx a 1) (idx a 2) (idx a 3)

/-- `w.to_le_bytes()` -/
def u32ToLeBytes (w : UInt32) : List UInt8 := u32le w

/-! unfolding lemmas for zero and `n+1` iterations -/

@[simp] theorem loopFrom_zero (step : Nat) (f : Nat → σ → σ) (i : Nat) (s : σ) : loopFrom step f 0 i s = s := rfl
@[simp] theorem loopFrom_succ (step : Nat) (f : Nat → σ → σ) (n i : Nat) (s : σ) :
    loopFrom step f (n + 1) i s = loopFrom step f n (i + step) (f i s) := rfl
@[simp] theorem chunksMutFrom_zero (k : Nat) (f : List α → σ → List α × σ) (l : List α) (s : σ) : chunksMutFrom k f 0 l s = (l, s) := rfl
@[simp] theorem chunksMutFrom_succ (k : Nat) (f : List α → σ → List α × σ) (n : Nat) (l : List α) (s : σ) :
    chunksMutFrom k f (n + 1) l s =
      ((f (l.take k) s).1 ++ (chunksMutFrom k f n (l.drop k) (f (l.take k) s).2).1,
       (chunksMutFrom k f n (l.drop k) (f (l.take k) s).2).2) := rfl
@[simp] theorem forIn_nil (f : α → σ → σ) (s : σ) : forIn [] f s = s := rfl
@[simp] theorem forIn_cons (a : α) (as : List α) (f : α → σ → σ) (s : σ) : forIn (a :: as) f s = forIn as f (f a s) := rfl
@[simp] theorem enumFrom_nil (i : Nat) (f : Nat → α → σ → σ) (s : σ) : enumFrom i [] f s = s := rfl
@[simp] theorem enumFrom_cons (i : Nat) (a : α) (as : List α) (f : Nat → α → σ → σ) (s : σ) :
    enumFrom i (a :: as) f s = enumFrom (i + 1) as f (f i a s) := rfl

end Kestrel.Rs
