def hello := "world"
