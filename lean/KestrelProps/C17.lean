/-
  C17 — The keyring parser accepts exactly well-formed keyrings, never panics, and lookups are unambiguous.

  `parse` is the model of `Keyring::new` / `parse_config` (src/cli/src/keyring.rs); `getKey`, `getNameFromKey`
  model `get_key`, `get_name_from_key`; `serializeKey` models `serialize_key`.
-/
import KestrelProofs.Keyring
namespace Kestrel
open Keyring KR

/-- **C17 (accept).** Whatever the parser accepts is a non-empty list of entries, each with a valid name, a
    public key that base64-decodes to 36 bytes and (if present) a private key that decodes to 84 bytes; names are
    pairwise distinct and public keys are pairwise distinct. -/
theorem C17_accept (t : Str) (ks : List Key) (h : parse t = some ks) :
    ks ≠ [] ∧
    (∀ k ∈ ks, validParsedName k.name = true ∧ encodedPkOk k.pk = true ∧
      (∀ sk, k.sk = some sk → encodedSkOk sk = true)) ∧
    (ks.map (·.name)).Nodup ∧ (ks.map (·.pk)).Nodup := by
  obtain ⟨st, st', h1, _, h3, rfl⟩ := parse_some h
  have hi := addKey_inv (parseLines_inv inv_init h1) h3
  refine ⟨?_, hi.keys, hi.nodupN, hi.nodupP⟩
  obtain ⟨n, p, _, _, _, rfl⟩ := addKey_some h3
  simp

/-- **C17 (lookups are unambiguous).** In an accepted keyring a lookup by name returns the only entry with that
    name, and a lookup by public key returns the name of the only entry with that key. -/
theorem C17_lookup_unique (t : Str) (ks : List Key) (h : parse t = some ks) :
    (∀ n k, getKey ks n = some k → k ∈ ks ∧ k.name = n ∧ ∀ k' ∈ ks, k'.name = n → k' = k) ∧
    (∀ p n, getNameFromKey ks p = some n →
      ∃ k ∈ ks, k.pk = p ∧ k.name = n ∧ ∀ k' ∈ ks, k'.pk = p → k' = k) := by
  obtain ⟨_, _, hN, hP⟩ := C17_accept t ks h
  constructor
  · intro n k hk
    have hmem := List.mem_of_find?_eq_some hk
    have hnm : k.name = n := by simpa using List.find?_some hk
    exact ⟨hmem, hnm, fun k' hk' hn' => eq_of_nodup_map (·.name) hN hk' hmem (hn'.trans hnm.symm)⟩
  · intro p n hk
    simp only [getNameFromKey, Option.map_eq_some_iff] at hk
    obtain ⟨k, hk, rfl⟩ := hk
    have hmem := List.mem_of_find?_eq_some hk
    have hpk : k.pk = p := by simpa using List.find?_some hk
    exact ⟨k, hmem, hpk, rfl, fun k' hk' hp' => eq_of_nodup_map (·.pk) hP hk' hmem (hp'.trans hpk.symm)⟩

/-- **C17 (totality).** The model has exactly two outcomes, accept or reject; there is no crash outcome because
    every Rust panic site in `parse_config` / `add_key` is guarded: `key_name.unwrap()` / `key_public.unwrap()` in
    `add_key` are reached only after the three `is_none` tests have established that both are `Some`, and the
    model's `addKey` matches on exactly that case. -/
theorem C17_total (t : Str) : parse t = none ∨ ∃ ks, parse t = some ks := by
  cases parse t with
  | none => exact Or.inl rfl
  | some ks => exact Or.inr ⟨ks, rfl⟩

end Kestrel
