/-
  C17 — The keyring parser accepts exactly well-formed keyrings, never panics, and lookups are unambiguous.

  `parse` is the model of `Keyring::new` / `parse_config` (src/cli/src/keyring.rs); `getKey`, `getNameFromKey`
  model `get_key`, `get_name_from_key`; `serializeKey` models `serialize_key`.
-/
import KestrelProofs.Keyring
namespace Kestrel
open Keyring KR

/-- **C17 (accept).** Whatever the parser accepts is a non-empty list of entries, each with a valid name, a
    public key that base64-decodes to 36 bytes and (if present) a private key that decodes to 84 bytes; names are
    pairwise distinct and public keys are pairwise distinct. -/
theorem C17_accept (t : Str) (ks : List Key) (h : parse t = some ks) :
    ks ≠ [] ∧
    (∀ k ∈ ks, validParsedName k.name = true ∧ encodedPkOk k.pk = true ∧
      (∀ sk, k.sk = some sk → encodedSkOk sk = true)) ∧
    (ks.map (·.name)).Nodup ∧ (ks.map (·.pk)).Nodup := by
  obtain ⟨st, st', h1, _, h3, rfl⟩ := parse_some h
  have hi := addKey_inv (parseLines_inv inv_init h1) h3
  refine ⟨?_, hi.keys, hi.nodupN, hi.nodupP⟩
  obtain ⟨n, p, _, _, _, rfl⟩ := addKey_some h3
  simp

/-- **C17 (lookups are unambiguous).** In an accepted keyring a lookup by name returns the only entry with that
    name, and a lookup by public key returns the name of the only entry with that key. -/
theorem C17_lookup_unique (t : Str) (ks : List Key) (h : parse t = some ks) :
    (∀ n k, getKey ks n = some k → k ∈ ks ∧ k.name = n ∧ ∀ k' ∈ ks, k'.name = n → k' = k) ∧
    (∀ p n, getNameFromKey ks p = some n →
      ∃ k ∈ ks, k.pk = p ∧ k.name = n ∧ ∀ k' ∈ ks, k'.pk = p → k' = k) := by
  obtain ⟨_, _, hN, hP⟩ := C17_accept t ks h
  constructor
  · intro n k hk
    have hmem := List.mem_of_find?_eq_some hk
    have hnm : k.name = n := by simpa using List.find?_some hk
    exact ⟨hmem, hnm, fun k' hk' hn' => eq_of_nodup_map (·.name) hN hk' hmem (hn'.trans hnm.symm)⟩
  · intro p n hk
    simp only [getNameFromKey, Option.map_eq_some_iff] at hk
    obtain ⟨k, hk, rfl⟩ := hk
    have hmem := List.mem_of_find?_eq_some hk
    have hpk : k.pk = p := by simpa using List.find?_some hk
    exact ⟨k, hmem, hpk, rfl, fun k' hk' hp' => eq_of_nodup_map (·.pk) hP hk' hmem (hp'.trans hpk.symm)⟩

/-- **C17 (totality).** The model has exactly two outcomes, accept or reject; there is no crash outcome because
    every Rust panic site in `parse_config` / `add_key` is guarded: `key_name.unwrap()` / `key_public.unwrap()` in
    `add_key` are reached only after the three `is_none` tests have established that both are `Some`, and the
    model's `addKey` matches on exactly that case. -/
theorem C17_total (t : Str) : parse t = none ∨ ∃ ks, parse t = some ks := by
  cases parse t with
  | none => exact Or.inl rfl
  | some ks => exact Or.inr ⟨ks, rfl⟩

/-- **C17 (sections).** The accepted entries are exactly the `[Key]` sections of the file, in order.
    Declarative reading (KestrelProofs/Keyring.lean §A, §J): `classify` turns a line into a token
    (`key | name v | pk v | sk v | skip | bad`) exactly as `parse_config` dispatches on the cleaned line;
    `sectionsOf` is `none` if a `bad` token occurs or a non-skip token precedes the first `key`, otherwise the
    token groups after each `key` (skips removed); `entryOf` reads a group as an entry: exactly one valid Name,
    exactly one PublicKey decoding to 36 bytes, at most one PrivateKey decoding to 84 bytes, in any order.
    A text is accepted with entries `ks` iff it has at least one section, every section is an entry, these entries
    are `ks`, and names and public keys are pairwise distinct. -/
theorem C17_sections (t : Str) (ks : List Key) :
    parse t = some ks ↔
      ∃ secs, sectionsOf ((lines t).map classify) = some secs ∧ secs ≠ [] ∧ secs.mapM entryOf = some ks ∧
        (ks.map (·.name)).Nodup ∧ (ks.map (·.pk)).Nodup :=
  parse_iff_sections t ks

/-- **C17 (round trip).** Every keyring the tool itself writes parses back to exactly the entries written, in
    order.  `es` are the (name, encoded public key, locked private key) triples of successive `key generate` runs;
    each name is what `gen_key` accepts (`read_line().trim()` then `valid_key_name`: non-empty, ≤ 128 bytes, no
    TAB, no surrounding white space, no line feed; an interior '\r' is allowed); `seps` are the separators written
    before each section ("" when the file did not exist, "\n" when it did — any mixture is covered). -/
theorem C17_roundtrip (es : List (Str × Str × Str)) (seps : List Str) (hne : es ≠ [])
    (hlen : seps.length = es.length) (hsep : ∀ x ∈ seps, x = "".toList ∨ x = "\n".toList)
    (hv : ∀ e ∈ es, validKeyName e.1 = true ∧ trim e.1 = e.1 ∧ '\n' ∉ e.1 ∧
      encodedPkOk e.2.1 = true ∧ encodedSkOk e.2.2 = true)
    (hN : (es.map (·.1)).Nodup) (hP : (es.map (·.2.1)).Nodup) :
    parse (List.zipWith (fun sep e => sep ++ serializeKey e.1 e.2.1 e.2.2) seps es).flatten =
      some (es.map fun e => ⟨e.1, e.2.1, some e.2.2⟩) := by
  have h := parse_written_gen es seps [] {} [] hlen hsep
    (fun e he => ⟨(hv e he).1, (hv e he).2.1, fun c hc hcn => (hv e he).2.2.1 (hcn ▸ hc), (hv e he).2.2.2.1,
      (hv e he).2.2.2.2⟩)
    hN hP (fun k hk => absurd hk (by simp)) (Or.inl rfl) rfl (Or.inl ⟨rfl, rfl⟩) (Or.inl hne)
  exact h

/-! ### non-vacuity: the two keys of the Rust unit test (`KEYRING_INI`), alice's locked private key reused
    (`alicePk`, `aliceSk`, `bobPk` and their validity are in KestrelProofs/Keyring.lean) -/

def exampleEntries : List (Str × Str × Str) :=
  [("alice".toList, alicePk, aliceSk), ("Bobby Bobertson".toList, bobPk, aliceSk)]

/-- a keyring file as `key generate` writes it: first run into a new file, second run into the existing file -/
def exampleText : Str :=
  (List.zipWith (fun sep e => sep ++ serializeKey e.1 e.2.1 e.2.2) ["".toList, "\n".toList] exampleEntries).flatten

/-- the hypotheses of `C17_roundtrip` hold of a concrete two-entry keyring -/
theorem exampleText_parses :
    parse exampleText = some [⟨"alice".toList, alicePk, some aliceSk⟩, ⟨"Bobby Bobertson".toList, bobPk, some aliceSk⟩] :=
  C17_roundtrip exampleEntries ["".toList, "\n".toList] (by decide) rfl (by decide)
    (by
      intro e he
      simp only [exampleEntries, List.mem_cons, List.mem_nil_iff, or_false] at he
      rcases he with rfl | rfl
      · exact ⟨by decide, by decide, by decide, alicePk_ok, aliceSk_ok⟩
      · exact ⟨by decide, by decide, by decide, bobPk_ok, aliceSk_ok⟩)
    (by decide) (by decide)

/-- so `C17_accept` and `C17_lookup_unique` apply to a concrete accepted text -/
example : (∀ k ∈ [(⟨"alice".toList, alicePk, some aliceSk⟩ : Key), ⟨"Bobby Bobertson".toList, bobPk, some aliceSk⟩],
      validParsedName k.name = true ∧ encodedPkOk k.pk = true ∧ (∀ sk, k.sk = some sk → encodedSkOk sk = true)) :=
  (C17_accept exampleText _ exampleText_parses).2.1

example : ∃ ks, parse exampleText = some ks ∧ ∃ k, getKey ks "Bobby Bobertson".toList = some k ∧ k.pk = bobPk :=
  ⟨_, exampleText_parses, ⟨"Bobby Bobertson".toList, bobPk, some aliceSk⟩, by decide, rfl⟩

/-- `C17_sections`, left to right, on the concrete text -/
example : ∃ secs, sectionsOf ((lines exampleText).map classify) = some secs ∧ secs ≠ [] ∧
    secs.mapM entryOf = some [⟨"alice".toList, alicePk, some aliceSk⟩, ⟨"Bobby Bobertson".toList, bobPk, some aliceSk⟩] :=
  let ⟨secs, h1, h2, h3, _⟩ := (C17_sections exampleText _).mp exampleText_parses
  ⟨secs, h1, h2, h3⟩

/-- the declarative reading computes: fields in any order, comments skipped; a `bad` line or a field before the
    first `[Key]` gives no reading; `C17_sections` right to left then yields acceptance -/
example : sectionsOf [.skip, .key, .pk "P".toList, .skip, .name "bob".toList, .key, .name "al".toList, .pk "Q".toList, .sk "S".toList] =
      some [[.pk "P".toList, .name "bob".toList], [.name "al".toList, .pk "Q".toList, .sk "S".toList]] ∧
    sectionsOf [.name "al".toList, .key] = none ∧ sectionsOf [.key, .bad] = none ∧ sectionsOf [.skip] = some [] := by decide

example : entryOf [.pk bobPk, .name "bob".toList] = some ⟨"bob".toList, bobPk, none⟩ := by decide
example : entryOf [.name "al".toList, .name "al".toList, .pk alicePk] = none ∧ entryOf [.name "al".toList] = none ∧
    entryOf [.pk "AAAA".toList, .name "al".toList] = none := by decide

example : parse "".toList = none ∧ parse "[Key]\nName = x\n".toList = none ∧ parse "junk".toList = none := by decide

end Kestrel
