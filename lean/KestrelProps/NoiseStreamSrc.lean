/-
  Composition of the two source translations: the file-level entry points of encrypt.rs / decrypt.rs (GeneratedStream.lean) call
  `noise_encrypt` / `noise_decrypt`, which GeneratedNoise.lean translates from lib.rs / noise.rs.  Kept in a module of its own so that
  the Noise theorems (KestrelProps/NoiseSrc.lean) do not depend on the chunk-loop proofs and vice versa.
-/
import KestrelProps.NoiseSrc
import KestrelProps.StreamSrc
namespace Kestrel
open RsNoise

/-- **Composition (key_encrypt).** In the translation of `encrypt.rs::key_encrypt` (GeneratedStream.lean) the external
    `noise_encrypt` is `RsIO.noiseEncrypt P rand`.  Over the primitives the translated wrappers compute, that external IS the
    translated `lib.rs::noise_encrypt` (first conjunct), so `key_encrypt` is translated end to end down to orion; and it is the
    hand-written `keyEncryptIO` (second conjunct, `stream_source_key_encrypt`). -/
theorem noise_source_key_encrypt (O : Orion) (hpub : ∀ k pk, O.pub k = some pk → pk.length = 32) (kdf : Bytes → Bytes → Bytes)
    (rand : Nat → Bytes) (s spk rs e epk pk : Bytes) (ff : StreamSrc.AsymFileFormat) (src : Src) (k : Snk) (fuel : Nat)
    (hf : src.inp.length + src.script.length + 2 ≤ fuel) :
    RsIO.noiseEncrypt (NoiseSrc.primsOf O kdf) rand = NoiseSrc.noise_encrypt O rand ∧
    StreamSrc.encrypt.key_encrypt (NoiseSrc.primsOf O kdf).aead (NoiseSrc.primsOf O kdf) rand src k s spk rs (some e) (some epk)
        (some pk) ff fuel = some (keyEncryptIO (NoiseSrc.primsOf O kdf) s spk rs e epk pk src k) := by
  refine ⟨?_, stream_source_key_encrypt _ rand s spk rs e epk pk ff src k fuel hf⟩
  funext s spk rs e epk pro pk
  exact (noise_source_noise_encrypt O hpub kdf rand s spk rs e epk pro pk).symm

example : RsIO.noiseEncrypt (NoiseSrc.primsOf toyOrion nsKdf) (fun n => zeros n) = NoiseSrc.noise_encrypt toyOrion (fun n => zeros n) ∧
    StreamSrc.encrypt.key_encrypt (NoiseSrc.primsOf toyOrion nsKdf).aead (NoiseSrc.primsOf toyOrion nsKdf) (fun n => zeros n) ssSrcInt
        ssSnk nsS nsS nsR (some nsE) (some nsE) (some nsPayload) .V1 10 =
      some (keyEncryptIO (NoiseSrc.primsOf toyOrion nsKdf) nsS nsS nsR nsE nsE nsPayload ssSrcInt ssSnk) :=
  noise_source_key_encrypt toyOrion toyOrion_pub nsKdf (fun n => zeros n) nsS nsS nsR nsE nsE nsPayload .V1 ssSrcInt ssSnk 10 (by decide)

/-- **Composition (key_decrypt).** Likewise for `decrypt.rs::key_decrypt`: its external `noise_decrypt` is the translated
    `lib.rs::noise_decrypt`, and the whole is the hand-written `keyDecryptIO` (`stream_source_key_decrypt`). -/
theorem noise_source_key_decrypt (O : Orion) (kdf : Bytes → Bytes → Bytes) (r rpk : Bytes) (ff : StreamSrc.AsymFileFormat)
    (s : Src) (k : Snk) (fuel : Nat) (hf : s.inp.length + 1 ≤ fuel) :
    RsIO.noiseDecrypt (NoiseSrc.primsOf O kdf) = NoiseSrc.noise_decrypt O ∧
    StreamSrc.decrypt.key_decrypt (NoiseSrc.primsOf O kdf).aead (NoiseSrc.primsOf O kdf) s k r rpk ff fuel =
      some (StreamSrc.keyResult (keyDecryptIO (NoiseSrc.primsOf O kdf) r rpk s k).1 (keyDecryptIO (NoiseSrc.primsOf O kdf) r rpk s k).2.2.2,
        (keyDecryptIO (NoiseSrc.primsOf O kdf) r rpk s k).2.1, (keyDecryptIO (NoiseSrc.primsOf O kdf) r rpk s k).2.2.1) := by
  refine ⟨?_, stream_source_key_decrypt _ r rpk ff s k fuel hf⟩
  funext r rpk pro msg
  exact (noise_source_noise_decrypt O kdf r rpk pro msg).symm

example : RsIO.noiseDecrypt (NoiseSrc.primsOf toyOrion nsKdf) = NoiseSrc.noise_decrypt toyOrion ∧
    StreamSrc.decrypt.key_decrypt (NoiseSrc.primsOf toyOrion nsKdf).aead (NoiseSrc.primsOf toyOrion nsKdf)
        { inp := [101, 103, 107, 16, 5], script := [.data 3] } ssSnk nsR nsR .V1 6 =
      some (StreamSrc.keyResult (keyDecryptIO (NoiseSrc.primsOf toyOrion nsKdf) nsR nsR { inp := [101, 103, 107, 16, 5], script := [.data 3] } ssSnk).1
          (keyDecryptIO (NoiseSrc.primsOf toyOrion nsKdf) nsR nsR { inp := [101, 103, 107, 16, 5], script := [.data 3] } ssSnk).2.2.2,
        (keyDecryptIO (NoiseSrc.primsOf toyOrion nsKdf) nsR nsR { inp := [101, 103, 107, 16, 5], script := [.data 3] } ssSnk).2.1,
        (keyDecryptIO (NoiseSrc.primsOf toyOrion nsKdf) nsR nsR { inp := [101, 103, 107, 16, 5], script := [.data 3] } ssSnk).2.2.1) :=
  noise_source_key_decrypt toyOrion nsKdf nsR nsR .V1 { inp := [101, 103, 107, 16, 5], script := [.data 3] } ssSnk 6 (by decide)

end Kestrel
