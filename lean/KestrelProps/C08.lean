/-
  C08 — files reveal no identities; their size depends only on the plaintext and its chunking.

  What a reader WITHOUT any key can extract from a file is its *clear view* (`clearView`): the first 36 bytes
  (magic ‖ ephemeral public key, resp. magic ‖ salt) and, walking the records with the clear-text length fields, the
  16-byte header `counter(8) ‖ last(4) ‖ length(4)` of every record.

  * `C08_view_serialize`     the headers of a conforming stream are a function of the chunk LENGTHS only
                             (`viewHeaders`), independent of key, associated data and chunk contents.
  * `C08_view_independent`   two key-mode files with the same ephemeral public key and the same read schedule have the
                             same clear view, whatever the sender key, the claimed sender public key, the recipient
                             and the payload key are.  `C08_file_shape_key`: everything else in the file is an output
                             of `P.aead.enc` (sender key: sealed under the `es` key; payload key: sealed under the
                             `ss` key; chunks: sealed under the file key).
  * `C08_pass_view_independent`   password mode: same salt, same read schedule ⇒ same clear view, for any two passwords.
  * lengths: `C08_length`, `C08_length_pass` (KestrelProps/C10enc.lean), re-exported as `C08_size_*`.

  NOT proved: that the AEAD outputs themselves reveal nothing about sender, recipient or plaintext — that is the
  confidentiality (IND$-CPA / key-privacy) assumption on ChaCha20-Poly1305 and X25519; the statement here is that the
  identities occur nowhere else.  The ephemeral public key is a fresh CSPRNG draw per file (C07).
-/
import KestrelProofs.Misc
import KestrelProps.C06
import KestrelProps.C10enc
namespace Kestrel
open Generated EncIO

/-! ### the clear view -/

/-- walk the records: read 16 bytes, take the length from bytes 12..16, skip the body and its tag -/
def recHeaders : Nat → Bytes → List Bytes
  | 0, _ => []
  | fuel+1, f =>
    if f.length < 16 then [] else
    f.take 16 :: recHeaders fuel (f.drop (16 + beVal ((f.take 16).drop 12) + 16))

/-- what can be read from a file without any key: the first 36 bytes and every record header -/
def clearView (hdrLen : Nat) (f : Bytes) : List Bytes := [f.take 36] ++ recHeaders f.length (f.drop hdrLen)

/-- the record headers of a stream with chunk lengths `ns`, counter fields `cf`, starting at counter `ctr` -/
def viewHeaders (cf : Nat → Bytes) : Nat → List Nat → List Bytes
  | _, [] => []
  | ctr, [n] => [cf ctr ++ be32 1 ++ be32 n]
  | ctr, n :: n' :: ns => (cf ctr ++ be32 0 ++ be32 n) :: viewHeaders cf (ctr+1) (n' :: ns)

theorem viewHeaders_length (cf : Nat → Bytes) : ∀ (ns : List Nat) (ctr : Nat), (viewHeaders cf ctr ns).length = ns.length := by
  intro ns
  induction ns with
  | nil => intro _; rfl
  | cons n rest ih =>
    intro ctr
    cases rest with
    | nil => rfl
    | cons n' ns' => simp only [viewHeaders, List.length_cons, ih (ctr+1)]

/-- header `i` is `cf (ctr+i) ‖ be32 (1 if last else 0) ‖ be32 (length of chunk i)` -/
theorem viewHeaders_get (cf : Nat → Bytes) : ∀ (ns : List Nat) (ctr i n : Nat), ns[i]? = some n →
    (viewHeaders cf ctr ns)[i]? = some (cf (ctr + i) ++ be32 (if i + 1 = ns.length then 1 else 0) ++ be32 n) := by
  intro ns
  induction ns with
  | nil => intro _ i n h; simp at h
  | cons m rest ih =>
    intro ctr i n h
    cases rest with
    | nil =>
      cases i with
      | zero =>
        simp only [List.getElem?_cons_zero, Option.some.injEq] at h
        subst h
        rfl
      | succ i => simp at h
    | cons m' ns' =>
      cases i with
      | zero =>
        simp only [List.getElem?_cons_zero, Option.some.injEq] at h
        subst h
        simp only [viewHeaders, List.getElem?_cons_zero, Nat.add_zero, List.length_cons]
        rw [if_neg (by omega)]
      | succ i =>
        simp only [List.getElem?_cons_succ] at h
        have := ih (ctr+1) i n h
        simp only [viewHeaders, List.getElem?_cons_succ, this, List.length_cons]
        have e : ctr + 1 + i = ctr + (i + 1) := by omega
        rw [e]
        by_cases hl : i + 1 = ns'.length + 1
        · rw [if_pos hl, if_pos (by omega)]
        · rw [if_neg hl, if_neg (by omega)]

/-- one step of the walker over a genuine record -/
theorem recHeaders_record (A : Aead) (hA : A.Lawful) (key aad cfb : Bytes) (ctr : Nat) (last : Bool) (pt tail : Bytes)
    (fuel : Nat) (hk : key.length = 32) (hcf : cfb.length = 8) (hpt : pt.length < 2^32) :
    recHeaders (fuel+1) (record A key aad cfb ctr last pt ++ tail) =
      (cfb ++ be32 (if last then 1 else 0) ++ be32 pt.length) :: recHeaders fuel tail := by
  generalize hH : cfb ++ be32 (if last then 1 else 0) ++ be32 pt.length = H
  generalize hE : A.enc key ctr (aad ++ be32 (if last then 1 else 0) ++ be32 pt.length) pt = E
  have hrec : record A key aad cfb ctr last pt = H ++ E := by rw [← hH, ← hE]; rfl
  have hHl : H.length = 16 := by
    rw [← hH, List.length_append, List.length_append, hcf, be32_length, be32_length]
  have hEl : E.length = pt.length + 16 := by rw [← hE]; exact hA.enc_length _ _ _ _ hk
  have h12 : H.drop 12 = be32 pt.length := by
    have : (cfb ++ be32 (if last then 1 else 0)).length = 12 := by rw [List.length_append, hcf, be32_length]
    rw [← hH, List.drop_left' this]
  have hlen : ¬ (H ++ E ++ tail).length < 16 := by
    rw [List.length_append, List.length_append, hHl]; omega
  have htake : (H ++ E ++ tail).take 16 = H := by rw [List.append_assoc, List.take_left' hHl]
  have hdrop : (H ++ E ++ tail).drop (16 + pt.length + 16) = tail := by
    have : (H ++ E).length = 16 + pt.length + 16 := by rw [List.length_append, hHl, hEl]; omega
    rw [List.drop_left' this]
  rw [hrec, recHeaders, if_neg hlen, htake, h12, beVal_be32 _ hpt, hdrop]

/-! ### C08: the record headers depend on the chunk lengths only -/

/-- **C08 (view of a stream).** For lawful AEAD, a 32-byte key and chunks shorter than 2^32 bytes, the record headers
    the walker finds in `serialize A key aad cf ctr cl` are `viewHeaders cf ctr (cl.map length)`: counter field, last
    flag and length of every chunk — no dependence on `key`, `aad` or the chunk contents. -/
theorem C08_view_serialize (A : Aead) (hA : A.Lawful) (key aad : Bytes) (hk : key.length = 32) (cf : Nat → Bytes)
    (hcf : ∀ i, (cf i).length = 8) : ∀ (cl : List Bytes) (ctr fuel : Nat), (∀ c ∈ cl, c.length < 2^32) → cl.length ≤ fuel →
    recHeaders fuel (serialize A key aad cf ctr cl) = viewHeaders cf ctr (cl.map List.length) := by
  intro cl
  induction cl with
  | nil =>
    intro ctr fuel _ _
    cases fuel <;> rfl
  | cons c rest ih =>
    intro ctr fuel hlt hfuel
    obtain ⟨f, rfl⟩ : ∃ f, fuel = f + 1 := ⟨fuel - 1, by simp only [List.length_cons] at hfuel; omega⟩
    have hc : c.length < 2^32 := hlt c List.mem_cons_self
    cases rest with
    | nil =>
      have := recHeaders_record A hA key aad (cf ctr) ctr true c [] f hk (hcf ctr) hc
      rw [List.append_nil] at this
      simp only [serialize, List.map_cons, List.map_nil, viewHeaders]
      rw [this]
      cases f <;> rfl
    | cons c' cs' =>
      simp only [serialize, List.map_cons, viewHeaders]
      rw [recHeaders_record A hA key aad (cf ctr) ctr false c _ f hk (hcf ctr) hc]
      have := ih (ctr+1) f (fun x hx => hlt x (List.mem_cons_of_mem _ hx))
        (by simp only [List.length_cons] at hfuel ⊢; omega)
      simp only [List.map_cons] at this
      rw [this]
      rfl

/-- the encryptor's instance: counter field = `be64` of the counter, header `i` = `be64 i ‖ be32 flag_i ‖ be32 |cl_i|` -/
theorem C08_view_serialize_get (A : Aead) (hA : A.Lawful) (key aad : Bytes) (hk : key.length = 32) (cl : List Bytes)
    (hlt : ∀ c ∈ cl, c.length < 2^32) (i : Nat) (c : Bytes) (hi : cl[i]? = some c) :
    (recHeaders cl.length (serialize A key aad be64 0 cl))[i]? =
      some (be64 i ++ be32 (if i + 1 = cl.length then 1 else 0) ++ be32 c.length) := by
  rw [C08_view_serialize A hA key aad hk be64 be64_length cl 0 _ hlt (Nat.le_refl _)]
  have := viewHeaders_get be64 (cl.map List.length) 0 i c.length (by rw [List.getElem?_map, hi]; rfl)
  rw [List.length_map, Nat.zero_add] at this
  exact this

/-- non-vacuity: two streams with different keys, different associated data and different contents but equal chunk
    lengths have the same headers; the headers are the documented ones -/
example : recHeaders 3 (serialize toyPrims.aead (zeros 32) [] be64 0 [[1,2],[3],[4,5]]) =
    recHeaders 3 (serialize toyPrims.aead (List.replicate 32 9) [7] be64 0 [[8,8],[8],[8,8]]) := by
  rw [C08_view_serialize toyPrims.aead toyPrims_lawful.aead (zeros 32) [] (List.length_replicate ..) be64 be64_length
        [[1,2],[3],[4,5]] 0 3 (by decide) (by decide),
    C08_view_serialize toyPrims.aead toyPrims_lawful.aead (List.replicate 32 9) [7] (List.length_replicate ..) be64 be64_length
        [[8,8],[8],[8,8]] 0 3 (by decide) (by decide)]
  rfl

example : recHeaders 3 (serialize toyPrims.aead (zeros 32) [] be64 0 [[1,2],[3],[4,5]]) =
    [be64 0 ++ be32 0 ++ be32 2, be64 1 ++ be32 0 ++ be32 1, be64 2 ++ be32 1 ++ be32 2] := by decide

/-! ### C08: key mode -/

/-- shape of a successful handshake message: ephemeral public key in clear, then two AEAD outputs -/
theorem writeMessage_ok_shape (P : Prims) (pro s spk rs e epk payload msg hh : Bytes)
    (hw : Noise.writeMessage P pro s spk rs e epk payload = .ok (msg, hh)) :
    ∃ k1 h1 k2 h2, msg = epk ++ P.aead.enc k1 0 h1 spk ++ P.aead.enc k2 0 h2 payload := by
  cases hd1 : P.dh e rs with
  | none =>
    obtain ⟨err, he⟩ := (Noise.writeMessage_error_iff P pro s spk rs e epk payload).mpr (Or.inl hd1)
    rw [he] at hw; cases hw
  | some d1 =>
    cases hd2 : P.dh s rs with
    | none =>
      obtain ⟨err, he⟩ := (Noise.writeMessage_error_iff P pro s spk rs e epk payload).mpr (Or.inr hd2)
      rw [he] at hw; cases hw
    | some d2 =>
      obtain ⟨encS, encP, h, hw', hS, hP, _⟩ := Noise.writeMessage_ok P pro s spk rs e epk payload d1 d2 hd1 hd2
      rw [hw'] at hw
      simp only [Except.ok.injEq, Prod.mk.injEq] at hw
      exact ⟨_, _, _, _, by rw [← hw.1, hS, hP]⟩

/-- **C08 (shape of a key-mode file).** The file is
    `magic ‖ epk ‖ enc(k1, 0, h1, spk) ‖ enc(k2, 0, h2, pk) ‖ records`, every record being
    `be64 i ‖ be32 flag ‖ be32 len ‖ enc(fk, i, flag ‖ len, chunk_i)`: apart from the clear view, every byte is an output
    of `P.aead.enc`.  (From `C06_encrypt_is_format`, `Noise.writeMessage_ok`, `C07_serialize_nonces`.) -/
theorem C08_file_shape_key (P : Prims) (s spk rs e epk pk msg hh : Bytes) (reads : List Bytes)
    (hwf : wellFormedReads reads) (hw : Noise.writeMessage P encPrologue s spk rs e epk pk = .ok (msg, hh)) :
    ∃ k1 h1 k2 h2 fk,
      (keyEncrypt P s spk rs e epk pk reads).1 =
        encPrologue ++ (epk ++ P.aead.enc k1 0 h1 spk ++ P.aead.enc k2 0 h2 pk) ++
          ((serCalls 0 (fileChunks reads)).map (fun c =>
            be64 c.1 ++ be32 (if c.2.1 then 1 else 0) ++ be32 c.2.2.length ++
              P.aead.enc fk c.1 ([] ++ be32 (if c.2.1 then 1 else 0) ++ be32 c.2.2.length) c.2.2)).flatten ∧
      (serCalls 0 (fileChunks reads)).map (·.2.2) = fileChunks reads := by
  obtain ⟨k1, h1, k2, h2, hm⟩ := writeMessage_ok_shape P encPrologue s spk rs e epk pk msg hh hw
  refine ⟨k1, h1, k2, h2, P.hkdfFile pk hh, ?_, (C07_serialize_nonces P.aead (P.hkdfFile pk hh) [] be64 _ 0).2.2⟩
  rw [(C06_encrypt_is_format P s spk rs e epk pk reads hwf).1 msg hh hw,
    (C07_serialize_nonces P.aead (P.hkdfFile pk hh) [] be64 (fileChunks reads) 0).1, ← hm]
  rfl

/-- **C08 (clear view of a key-mode file).** It is `magic ‖ epk` followed by the headers determined by the chunk
    lengths — nothing that depends on the sender, the recipient, or the payload key. -/
theorem C08_view_key (P : Prims) (hP : P.Lawful) (s spk rs e epk pk msg hh : Bytes) (reads : List Bytes)
    (hE : epk.length = 32) (hS : spk.length = 32) (hK : pk.length = 32)
    (hwf : wellFormedReads reads) (hle : ∀ c ∈ reads, c.length ≤ chunkSize)
    (hw : Noise.writeMessage P encPrologue s spk rs e epk pk = .ok (msg, hh)) :
    clearView 132 (keyEncrypt P s spk rs e epk pk reads).1 =
      (encPrologue ++ epk) :: viewHeaders be64 0 ((fileChunks reads).map List.length) := by
  obtain ⟨k1, h1, k2, h2, hm⟩ := writeMessage_ok_shape P encPrologue s spk rs e epk pk msg hh hw
  have hml : msg.length = 128 := by
    rw [Noise.writeMessage_length P hP _ _ _ _ _ _ _ _ _ hE hS hw, hK]
  have hfk := hP.hkdfFile_len pk hh
  have hlt : ∀ c ∈ fileChunks reads, c.length < 2^32 := fun c hc =>
    Nat.lt_of_le_of_lt (fileChunks_le reads chunkSize hle c hc) gen_chunkSize_lt
  have hsl := serialize_length P.aead hP.aead (P.hkdfFile pk hh) [] hfk be64 be64_length (fileChunks reads) 0
  rw [(C06_encrypt_is_format P s spk rs e epk pk reads hwf).1 msg hh hw]
  simp only []
  generalize hser : serialize P.aead (P.hkdfFile pk hh) [] be64 0 (fileChunks reads) = ser at hsl
  have hdrop : (encPrologue ++ msg ++ ser).drop 132 = ser := by
    have : (encPrologue ++ msg).length = 132 := by rw [List.length_append, gen_prologue_len, hml]
    rw [List.drop_left' this]
  have htake : (encPrologue ++ msg ++ ser).take 36 = encPrologue ++ epk := by
    have : (encPrologue ++ epk).length = 36 := by rw [List.length_append, gen_prologue_len, hE]
    rw [hm, ← List.append_assoc, ← List.append_assoc, List.append_assoc (encPrologue ++ epk),
      List.append_assoc (encPrologue ++ epk), List.take_left' this]
  have hfuel : (fileChunks reads).length ≤ (encPrologue ++ msg ++ ser).length := by
    rw [List.length_append, hsl]; omega
  unfold clearView
  rw [htake, hdrop, ← hser,
    C08_view_serialize P.aead hP.aead _ [] hfk be64 be64_length (fileChunks reads) 0 _ hlt (by rw [hser]; exact hfuel)]
  rfl

/-- **C08 (no identities in the clear).** Two key-mode encryptions with the same ephemeral public key and the same read
    schedule — but arbitrary, different senders `(s, spk)` / `(s', spk')`, recipients `rs` / `rs'`, ephemeral private
    keys and payload keys — both successful, have the same clear view. -/
theorem C08_view_independent (P : Prims) (hP : P.Lawful) (epk : Bytes) (reads : List Bytes)
    (s spk rs e pk msg hh s' spk' rs' e' pk' msg' hh' : Bytes)
    (hE : epk.length = 32) (hS : spk.length = 32) (hK : pk.length = 32) (hS' : spk'.length = 32) (hK' : pk'.length = 32)
    (hwf : wellFormedReads reads) (hle : ∀ c ∈ reads, c.length ≤ chunkSize)
    (hw : Noise.writeMessage P encPrologue s spk rs e epk pk = .ok (msg, hh))
    (hw' : Noise.writeMessage P encPrologue s' spk' rs' e' epk pk' = .ok (msg', hh')) :
    clearView 132 (keyEncrypt P s spk rs e epk pk reads).1 = clearView 132 (keyEncrypt P s' spk' rs' e' epk pk' reads).1 := by
  rw [C08_view_key P hP s spk rs e epk pk msg hh reads hE hS hK hwf hle hw,
    C08_view_key P hP s' spk' rs' e' epk pk' msg' hh' reads hE hS' hK' hwf hle hw']

/-- the view depends on the read schedule only through the chunk lengths: two plaintexts cut into chunks of the same
    lengths (and the same `epk`) give the same view -/
theorem C08_view_lengths_only (P : Prims) (hP : P.Lawful) (epk : Bytes) (reads reads' : List Bytes)
    (s spk rs e pk msg hh s' spk' rs' e' pk' msg' hh' : Bytes)
    (hE : epk.length = 32) (hS : spk.length = 32) (hK : pk.length = 32) (hS' : spk'.length = 32) (hK' : pk'.length = 32)
    (hwf : wellFormedReads reads) (hle : ∀ c ∈ reads, c.length ≤ chunkSize)
    (hwf' : wellFormedReads reads') (hle' : ∀ c ∈ reads', c.length ≤ chunkSize)
    (hlens : (fileChunks reads).map List.length = (fileChunks reads').map List.length)
    (hw : Noise.writeMessage P encPrologue s spk rs e epk pk = .ok (msg, hh))
    (hw' : Noise.writeMessage P encPrologue s' spk' rs' e' epk pk' = .ok (msg', hh')) :
    clearView 132 (keyEncrypt P s spk rs e epk pk reads).1 = clearView 132 (keyEncrypt P s' spk' rs' e' epk pk' reads').1 := by
  rw [C08_view_key P hP s spk rs e epk pk msg hh reads hE hS hK hwf hle hw,
    C08_view_key P hP s' spk' rs' e' epk pk' msg' hh' reads' hE hS' hK' hwf' hle' hw', hlens]

/-- the same for what `key_encrypt` writes through scripted I/O (fault-free source, benign sink) -/
theorem C08_view_key_io (P : Prims) (hP : P.Lawful) (s spk rs e epk pk msg hh : Bytes) (src : Src) (k : Snk)
    (hE : epk.length = 32) (hS : spk.length = 32) (hK : pk.length = 32)
    (hs : Src.faultFree src) (hk : Snk.benign k)
    (hw : Noise.writeMessage P encPrologue s spk rs e epk pk = .ok (msg, hh)) :
    ∃ ct, (keyEncryptIO P s spk rs e epk pk src k).2.2.out = k.out ++ ct ∧
      clearView 132 ct =
        (encPrologue ++ epk) :: viewHeaders be64 0 ((fileChunks (Src.reads chunkSize src)).map List.length) := by
  obtain ⟨_, h2, hwf, hle, _⟩ := C10_enc_partition_independence P s spk rs e epk pk src k hs hk
  exact ⟨_, h2, C08_view_key P hP s spk rs e epk pk msg hh _ hE hS hK hwf hle hw⟩

/-! non-vacuity, key mode: toy primitives, two different senders / recipients / payload keys, same `epk` -/

theorem exReads2_wf : wellFormedReads [[1,2],[3],[]] := by
  refine ⟨fun h => absurd h (by decide), fun _ => ⟨fun h => absurd h (by decide), fun _ => ⟨fun _ => rfl, fun _ => trivial⟩⟩⟩

theorem exReads2_le : ∀ c ∈ ([[1,2],[3],[]] : List Bytes), c.length ≤ chunkSize := by
  intro c hc
  simp only [List.mem_cons, List.mem_nil_iff, or_false] at hc
  rcases hc with h | h | h <;> subst h <;> decide

example : clearView 132 (keyEncrypt toyPrims exS exS exR exE exE exPk [[1,2],[3],[]]).1 =
    clearView 132 (keyEncrypt toyPrims (List.replicate 32 5) (List.replicate 32 5) (List.replicate 32 6) (List.replicate 32 8)
      exE (List.replicate 32 4) [[1,2],[3],[]]).1 :=
  let ⟨_, _, _, hw, _⟩ := Noise.writeMessage_ok toyPrims encPrologue exS exS exR exE exE exPk _ _ rfl rfl
  let ⟨_, _, _, hw', _⟩ := Noise.writeMessage_ok toyPrims encPrologue (List.replicate 32 5) (List.replicate 32 5)
    (List.replicate 32 6) (List.replicate 32 8) exE (List.replicate 32 4) _ _ rfl rfl
  C08_view_independent toyPrims toyPrims_lawful exE [[1,2],[3],[]] _ _ _ _ _ _ _ _ _ _ _ _ _ _
    (List.length_replicate ..) (List.length_replicate ..) (List.length_replicate ..) (List.length_replicate ..)
    (List.length_replicate ..) exReads2_wf exReads2_le hw hw'

/-- the view itself, evaluated: magic ‖ epk and two headers -/
example : clearView 132 (keyEncrypt toyPrims exS exS exR exE exE exPk [[1,2],[3],[]]).1 =
    [encPrologue ++ exE, be64 0 ++ be32 0 ++ be32 2, be64 1 ++ be32 1 ++ be32 1] := by
  obtain ⟨_, _, _, hw, _⟩ := Noise.writeMessage_ok toyPrims encPrologue exS exS exR exE exE exPk _ _ rfl rfl
  rw [C08_view_key toyPrims toyPrims_lawful exS exS exR exE exE exPk _ _ _ (List.length_replicate ..)
    (List.length_replicate ..) (List.length_replicate ..) exReads2_wf exReads2_le hw]
  decide

/-! ### C08: password mode -/

/-- **C08 (clear view of a password-mode file).** `magic ‖ salt` and the headers determined by the chunk lengths. -/
theorem C08_view_pass (P : Prims) (hA : P.aead.Lawful) (pw salt : Bytes) (reads : List Bytes)
    (hsalt : salt.length = 32) (hkdf : (P.kdf pw salt).length = 32)
    (hwf : wellFormedReads reads) (hle : ∀ c ∈ reads, c.length ≤ chunkSize) :
    clearView 36 (passEncrypt P pw salt reads).1 =
      (encPassMagic ++ salt) :: viewHeaders be64 0 ((fileChunks reads).map List.length) := by
  have hlt : ∀ c ∈ fileChunks reads, c.length < 2^32 := fun c hc =>
    Nat.lt_of_le_of_lt (fileChunks_le reads chunkSize hle c hc) gen_chunkSize_lt
  have hsl := serialize_length P.aead hA (P.kdf pw salt) encPassMagic hkdf be64 be64_length (fileChunks reads) 0
  rw [(C06_encrypt_is_format P [] [] [] [] [] [] reads hwf).2 pw salt]
  simp only [formatPassFile]
  generalize hser : serialize P.aead (P.kdf pw salt) encPassMagic be64 0 (fileChunks reads) = ser at hsl
  have h36 : (encPassMagic ++ salt).length = 36 := by rw [List.length_append, gen_passmagic_len, hsalt]
  have hdrop : (encPassMagic ++ salt ++ ser).drop 36 = ser := List.drop_left' h36
  have htake : (encPassMagic ++ salt ++ ser).take 36 = encPassMagic ++ salt := List.take_left' h36
  have hfuel : (fileChunks reads).length ≤ (encPassMagic ++ salt ++ ser).length := by
    rw [List.length_append, hsl]; omega
  unfold clearView
  rw [htake, hdrop, ← hser,
    C08_view_serialize P.aead hA _ _ hkdf be64 be64_length (fileChunks reads) 0 _ hlt (by rw [hser]; exact hfuel)]
  rfl

/-- **C08 (password mode).** Two passwords, the same salt, the same read schedule: equal clear views. The rest of the
    file is `serialize`'s AEAD outputs (`C06_encrypt_is_format`, `C07_serialize_nonces`). -/
theorem C08_pass_view_independent (P : Prims) (hA : P.aead.Lawful) (pw pw' salt : Bytes) (reads : List Bytes)
    (hsalt : salt.length = 32) (hkdf : (P.kdf pw salt).length = 32) (hkdf' : (P.kdf pw' salt).length = 32)
    (hwf : wellFormedReads reads) (hle : ∀ c ∈ reads, c.length ≤ chunkSize) :
    clearView 36 (passEncrypt P pw salt reads).1 = clearView 36 (passEncrypt P pw' salt reads).1 := by
  rw [C08_view_pass P hA pw salt reads hsalt hkdf hwf hle, C08_view_pass P hA pw' salt reads hsalt hkdf' hwf hle]

theorem C08_file_shape_pass (P : Prims) (pw salt : Bytes) (reads : List Bytes) (hwf : wellFormedReads reads) :
    (passEncrypt P pw salt reads).1 =
      encPassMagic ++ salt ++
        ((serCalls 0 (fileChunks reads)).map (fun c =>
          be64 c.1 ++ be32 (if c.2.1 then 1 else 0) ++ be32 c.2.2.length ++
            P.aead.enc (P.kdf pw salt) c.1 (encPassMagic ++ be32 (if c.2.1 then 1 else 0) ++ be32 c.2.2.length) c.2.2)).flatten ∧
    (serCalls 0 (fileChunks reads)).map (·.2.2) = fileChunks reads := by
  refine ⟨?_, (C07_serialize_nonces P.aead (P.kdf pw salt) encPassMagic be64 _ 0).2.2⟩
  rw [(C06_encrypt_is_format P [] [] [] [] [] [] reads hwf).2 pw salt]
  simp only [formatPassFile]
  rw [(C07_serialize_nonces P.aead (P.kdf pw salt) encPassMagic be64 (fileChunks reads) 0).1]
  rfl

theorem C08_view_pass_io (P : Prims) (hA : P.aead.Lawful) (pw salt : Bytes) (src : Src) (k : Snk)
    (hsalt : salt.length = 32) (hkdf : (P.kdf pw salt).length = 32) (hs : Src.faultFree src) (hk : Snk.benign k) :
    ∃ ct, (passEncryptIO P pw salt src k).2.2.out = k.out ++ ct ∧
      clearView 36 ct =
        (encPassMagic ++ salt) :: viewHeaders be64 0 ((fileChunks (Src.reads chunkSize src)).map List.length) := by
  obtain ⟨_, h2, hwf, hle, _⟩ := C10_enc_partition_independence_pass P pw salt src k hs hk
  exact ⟨_, h2, C08_view_pass P hA pw salt _ hsalt hkdf hwf hle⟩

example : clearView 36 (passEncrypt toyPrims [112, 119] (zeros 32) [[1,2],[3],[]]).1 =
    clearView 36 (passEncrypt toyPrims [113] (zeros 32) [[1,2],[3],[]]).1 :=
  C08_pass_view_independent toyPrims toyPrims_lawful.aead [112, 119] [113] (zeros 32) _ (List.length_replicate ..)
    (by simp [toyPrims, zeros]) (by simp [toyPrims, zeros]) exReads2_wf exReads2_le

example : clearView 36 (passEncrypt toyPrims [112, 119] (zeros 32) [[1,2],[3],[]]).1 =
    [encPassMagic ++ zeros 32, be64 0 ++ be32 0 ++ be32 2, be64 1 ++ be32 1 ++ be32 1] := by decide

/-! ### C08: sizes (re-export) -/

/-- **C08 (size, key mode; re-export of `C08_length`).** The size of the file is
    `132 + 32 · max 1 (number of non-empty reads) + |plaintext|`: a function of the plaintext length and of how the
    source delivered it, not of any key or identity. -/
theorem C08_size_key (P : Prims) (hP : P.Lawful) (s spk rs e epk pk d1 d2 : Bytes) (src : Src) (k : Snk)
    (hE : epk.length = 32) (hS : spk.length = 32) (hK : pk.length = 32)
    (h1 : P.dh e rs = some d1) (h2 : P.dh s rs = some d2) (hs : Src.faultFree src) (hk : Snk.benign k) :
    (keyEncryptIO P s spk rs e epk pk src k).2.2.out.length =
      k.out.length + 132 + 32 * max 1 (numNonEmpty (Src.reads chunkSize src)) + src.inp.length :=
  (C08_length P hP s spk rs e epk pk d1 d2 src k hE hS hK h1 h2 hs hk).2

/-- **C08 (size, password mode; re-export of `C08_length_pass`).** -/
theorem C08_size_pass (P : Prims) (hA : P.aead.Lawful) (pw salt : Bytes) (src : Src) (k : Snk)
    (hsalt : salt.length = 32) (hkdf : (P.kdf pw salt).length = 32) (hs : Src.faultFree src) (hk : Snk.benign k) :
    (passEncryptIO P pw salt src k).2.2.out.length =
      k.out.length + 36 + 32 * max 1 (numNonEmpty (Src.reads chunkSize src)) + src.inp.length :=
  (C08_length_pass P hA pw salt src k hsalt hkdf hs hk).2

/-- two senders, two recipients, two payload keys, one source: files of the same size -/
theorem C08_size_independent (P : Prims) (hP : P.Lawful) (src : Src) (k : Snk)
    (s spk rs e epk pk d1 d2 s' spk' rs' e' epk' pk' d1' d2' : Bytes)
    (hE : epk.length = 32) (hS : spk.length = 32) (hK : pk.length = 32)
    (hE' : epk'.length = 32) (hS' : spk'.length = 32) (hK' : pk'.length = 32)
    (h1 : P.dh e rs = some d1) (h2 : P.dh s rs = some d2) (h1' : P.dh e' rs' = some d1') (h2' : P.dh s' rs' = some d2')
    (hs : Src.faultFree src) (hk : Snk.benign k) :
    (keyEncryptIO P s spk rs e epk pk src k).2.2.out.length = (keyEncryptIO P s' spk' rs' e' epk' pk' src k).2.2.out.length := by
  rw [C08_size_key P hP s spk rs e epk pk d1 d2 src k hE hS hK h1 h2 hs hk,
    C08_size_key P hP s' spk' rs' e' epk' pk' d1' d2' src k hE' hS' hK' h1' h2' hs hk]

example : (keyEncryptIO toyPrims exS exS exR exE exE exPk exSrc exSnk).2.2.out.length =
    (keyEncryptIO toyPrims (List.replicate 32 5) (List.replicate 32 5) (List.replicate 32 6) (List.replicate 32 8)
      (List.replicate 32 8) (List.replicate 32 4) exSrc exSnk).2.2.out.length :=
  C08_size_independent toyPrims toyPrims_lawful exSrc exSnk _ _ _ _ _ _ _ _ _ _ _ _ _ _ _ _
    (List.length_replicate ..) (List.length_replicate ..) (List.length_replicate ..)
    (List.length_replicate ..) (List.length_replicate ..) (List.length_replicate ..) rfl rfl rfl rfl
    exSrc_faultFree exSnk_benign

end Kestrel
