/-
  C01 at the I/O level: "however the plaintext source and the ciphertext sink split the data across individual read and
  write calls".  Composition of the encrypt-side and decrypt-side refinement theorems:
  for EVERY fault-free plaintext source (any partition of P into reads of ≥ 1 byte), EVERY benign ciphertext sink (partial
  writes, retried interruptions), and then EVERY fault-free presentation of the resulting ciphertext and EVERY benign
  plaintext sink, decryption succeeds, delivers exactly P and reports the sender's static public key.
-/
import KestrelProps.C10enc
import KestrelProps.C10dec
import KestrelProps.C02
namespace Kestrel
open Generated

theorem C01_roundtrip_io (P : Prims) (hP : P.Lawful) (s spk r rpk e epk pk : Bytes) (src : Src) (k : Snk)
    (hE : epk.length = 32) (hS : spk.length = 32) (hK : pk.length = 32)
    (hdh : DhAgree P s spk r rpk e epk) (hs : src.faultFree) (hk : k.benign) :
    (keyEncryptIO P s spk rpk e epk pk src k).1 = .ok ∧
    ∃ ct, (keyEncryptIO P s spk rpk e epk pk src k).2.2.out = k.out ++ ct ∧
      ∀ (src2 : Src) (k2 : Snk), src2.inp = ct → src2.faultFree → k2.benign →
        (keyDecryptIO P r rpk src2 k2).1 = .ok ∧
        (keyDecryptIO P r rpk src2 k2).2.2.2 = some spk ∧
        (keyDecryptIO P r rpk src2 k2).2.2.1.out = k2.out ++ src.inp := by
  obtain ⟨hok, ct, writes, hout, hdec, hflat⟩ := C10_enc_roundtrip P hP s spk r rpk e epk pk src k hE hS hK hdh hs hk
  refine ⟨hok, ct, hout, ?_⟩
  intro src2 k2 hinp hs2 hk2
  generalize hio : keyDecryptIO P r rpk src2 k2 = res at *
  obtain ⟨res1, s', k', sender⟩ := res
  have hpure : keyDecrypt P r rpk src2.inp = (writes, .ok, some spk) := by rw [hinp]; exact hdec
  obtain ⟨h1, h2, h3⟩ := C10_dec_partition_independence_key P r rpk src2 k2 hs2 hk2 hio hpure
  exact ⟨h1, h2, by rw [h3, hflat]⟩

/-- non-vacuity: the toy instance, a source delivering 3 + 2 bytes and a sink accepting 3 bytes, then 1, with an interruption -/
example : (keyEncryptIO toyPrims (zeros 32) (zeros 32) (List.replicate 32 1) (List.replicate 32 2) (List.replicate 32 2) (List.replicate 32 7)
      { inp := [1,2,3,4,5], script := [.data 3, .data 2] } { ws := [.accept 3, .errInterrupted, .accept 1] }).1 = .ok :=
  (C01_roundtrip_io toyPrims toyPrims_lawful (zeros 32) (zeros 32) (List.replicate 32 1) (List.replicate 32 1) (List.replicate 32 2) (List.replicate 32 2)
    (List.replicate 32 7) _ _ (List.length_replicate ..) (List.length_replicate ..) (List.length_replicate ..) (toy_dhAgree _ _ _)
    (by intro e he; simp at he; rcases he with h | h <;> subst h <;> exact ⟨_, rfl, by decide⟩)
    ⟨by intro e he; simp at he; rcases he with h | h | h <;> subst h <;> first | exact Or.inl ⟨_, rfl, by decide⟩ | exact Or.inr rfl, by intro e he; simp at he⟩).1

end Kestrel

namespace Kestrel
open Generated

/-- **C02 at the I/O level** (password mode): every fault-free source and benign sink on both sides. -/
theorem C02_roundtrip_io (P : Prims) (hA : P.aead.Lawful) (pw salt : Bytes) (src : Src) (k : Snk)
    (hsalt : salt.length = 32) (hkdf : (P.kdf pw salt).length = 32) (hs : src.faultFree) (hk : k.benign) :
    (passEncryptIO P pw salt src k).1 = .ok ∧
    ∃ ct, (passEncryptIO P pw salt src k).2.2.out = k.out ++ ct ∧
      ∀ (src2 : Src) (k2 : Snk), src2.inp = ct → src2.faultFree → k2.benign →
        (passDecryptIO P pw src2 k2).1 = .ok ∧ (passDecryptIO P pw src2 k2).2.2.out = k2.out ++ src.inp := by
  obtain ⟨h1, h2, hwf, hle, hfl⟩ := C10_enc_partition_independence_pass P pw salt src k hs hk
  obtain ⟨ct, henc, hdec, _⟩ := passDecrypt_passEncrypt P hA pw salt _ hsalt hkdf hwf hle
  rw [henc] at h1 h2
  refine ⟨h1, ct, h2, ?_⟩
  intro src2 k2 hinp hs2 hk2
  generalize hio : passDecryptIO P pw src2 k2 = res at *
  obtain ⟨res1, s', k'⟩ := res
  have hpure : passDecrypt P pw src2.inp = (fileChunks (EncIO.Src.reads chunkSize src), .ok) := by rw [hinp]; exact hdec
  obtain ⟨h3, h4⟩ := C10_dec_partition_independence_pass P pw src2 k2 hs2 hk2 hio hpure
  exact ⟨h3, by rw [h4, fileChunks_join _ hwf, hfl]⟩

/-- concrete model: no hypothesis on the KDF (its output length is proved) -/
theorem C02_roundtrip_io_concrete (pw salt : Bytes) (src : Src) (k : Snk) (hsalt : salt.length = 32)
    (hs : src.faultFree) (hk : k.benign) :
    (passEncryptIO concretePrims pw salt src k).1 = .ok ∧
    ∃ ct, (passEncryptIO concretePrims pw salt src k).2.2.out = k.out ++ ct ∧
      ∀ (src2 : Src) (k2 : Snk), src2.inp = ct → src2.faultFree → k2.benign →
        (passDecryptIO concretePrims pw src2 k2).1 = .ok ∧ (passDecryptIO concretePrims pw src2 k2).2.2.out = k2.out ++ src.inp :=
  C02_roundtrip_io concretePrims chapolyNoise_lawful pw salt src k hsalt (concrete_kdf_length pw salt) hs hk

end Kestrel
