/-
  StreamSrcDec (decrypt side of StreamSrc) — the chunk loops of `src/crypto/src/encrypt.rs` and `src/crypto/src/decrypt.rs`, *as translated mechanically* by
  tools/rs2lean_stream.py into `Kestrel.StreamSrc` (KestrelModel/GeneratedStream.lean, regenerated from the Rust source on every
  run), are the hand-written I/O-level model `encryptChunksIO` / `decryptChunksIO` (KestrelModel/Chunks.lean) — same result,
  same final source state (remaining input, remaining script, position, number of reads), same final sink state (output bytes,
  remaining write / flush scripts, write log, flush count) — for EVERY source script (short reads, hard errors, interruptions,
  scripted `Ok(0)`), EVERY sink script (partial writes, zero-length writes, hard errors, interruptions) and EVERY flush script.

  Nothing here is tied to the Rust text by hand: if encrypt.rs / decrypt.rs change, the generated definitions change and these
  theorems are re-checked against what the code says now.  Trusted: the translator, the combinator / glue files
  KestrelModel/RsPrelude.lean and KestrelModel/RsIO.lean, the scripted I/O model KestrelModel/IO.lean, and the reading of
  usize / u64 / u32 as `Nat` (side conditions in the header of GeneratedStream.lean).

  Hypotheses.  The ONLY hypothesis of the two main theorems is the fuel bound (the translated `loop` takes an explicit
  iteration budget; `none` = budget exhausted):
    * encrypt:  `s.inp.length + s.script.length + 2 ≤ fuel`  — every iteration that continues has consumed a script entry or
      at least one input byte (a read that returns 0 ends the loop);
    * decrypt:  `s.inp.length + 1 ≤ fuel`                     — every iteration that continues has consumed ≥ 32 input bytes.
  No hypothesis on `cs` (the theorem holds for every `Nat`; `chunk_size : u32` only matters for the faithfulness of the `Nat`
  reading: `be32` truncates exactly as `as u32` followed by `to_be_bytes` does, `be32_truncU32`), none on the key length (both
  sides call the same abstract `A.enc` / `A.dec`; the Rust AEAD panics on a key that is not 32 bytes), none on `A`.

  Helper lemmas: KestrelProofs/StreamSrcCommon.lean, StreamSrcEnc.lean, StreamSrcDec.lean.  The encrypt side and the decrypt
  side are separate modules (KestrelProps/StreamSrcEnc.lean, StreamSrcDec.lean; KestrelProps/StreamSrc.lean imports both), so
  that a change of `encrypt.rs` cannot break the module of the decrypt theorems and vice versa; the data of the non-vacuity
  examples is in KestrelProps/StreamSrcData.lean (it does not mention generated code).
-/
import KestrelProofs.StreamSrcDec
import KestrelProps.StreamSrcData
namespace Kestrel
open EncIO

/-! ## the main theorem -/

/-- **StreamSrc (decrypt_chunks).** For every AEAD, key, AAD, chunk size, source and sink (with their scripts), and every fuel
    at or above the bound, the translated `decrypt_chunks` returns exactly what the hand-written `decryptChunksIO` returns. -/
theorem stream_source_decrypt_chunks (A : Aead) (key aad : Bytes) (cs : Nat) (s : Src) (k : Snk) (fuel : Nat)
    (hf : s.inp.length + 1 ≤ fuel) :
    StreamSrc.decrypt.decrypt_chunks A s k key aad cs fuel = some (decryptChunksIO A key aad cs s k) :=
  StreamSrc.decrypt_chunks_eq A key aad cs s k fuel hf

/-- the hypothesis is satisfiable: a 101-byte stream (three chunks) delivered in short reads into a sink with partial writes -/
example : StreamSrc.decrypt.decrypt_chunks toyPrims.aead { inp := ssCt, script := [.data 7, .errInterrupted, .data 30] } ssSnk
      (zeros 32) [9] 3 102 =
    some (decryptChunksIO toyPrims.aead (zeros 32) [9] 3 { inp := ssCt, script := [.data 7, .errInterrupted, .data 30] } ssSnk) :=
  stream_source_decrypt_chunks _ _ _ _ _ _ 102 (by decide)

/-- … and that run succeeds and writes the five plaintext bytes -/
example : (decryptChunksIO toyPrims.aead (zeros 32) [9] 3 { inp := ssCt, script := [.data 7, .errInterrupted, .data 30] } ssSnk).1 = .ok ∧
    (decryptChunksIO toyPrims.aead (zeros 32) [9] 3 { inp := ssCt, script := [.data 7, .errInterrupted, .data 30] } ssSnk).2.2.out =
      [1, 2, 3, 4, 5] := by decide

/-! ## properties of the hand-written model, transferred to the translated code -/

/-- **Whole chunks only (decrypt, C04/C10), every sink script.** For a source that does not forge an end of stream: whatever the
    translated `decrypt_chunks` wrote is whole decrypted chunks of the pure run on the same bytes, in order, plus a partial
    chunk only if the sink itself failed; success implies pure success and the complete output.  (From `decLoopIO_prefix`.) -/
theorem stream_source_dec_whole_chunks (A : Aead) (key aad : Bytes) (cs : Nat) (s : Src) (k : Snk) (fuel : Nat)
    (hf : s.inp.length + 1 ≤ fuel) (hs : s.noFalseEof) (ws : List Bytes) (pres : Res)
    (hP : decryptChunks A key aad cs s.inp = (ws, pres)) :
    ∃ res s' k' j q, StreamSrc.decrypt.decrypt_chunks A s k key aad cs fuel = some (res, s', k') ∧
      k'.out = k.out ++ (ws.take j).flatten ++ q ∧ j ≤ ws.length ∧
      (q = [] ∨ (res = .ioWrite ∧ ∃ w, ws[j]? = some w ∧ q <+: w)) ∧
      (res = .ok → pres = .ok ∧ j = ws.length ∧ q = []) :=
  StreamSrc.dec_whole_chunks A key aad cs s k fuel hf hs ws pres hP

example : ∃ res s' k' j q, StreamSrc.decrypt.decrypt_chunks toyPrims.aead { inp := ssCt, script := [.data 7, .data 30] } ssSnkZero
      (zeros 32) [9] 3 102 = some (res, s', k') ∧
    k'.out = ssSnkZero.out ++ (([[1, 2], [3], [4, 5]] : List Bytes).take j).flatten ++ q ∧ j ≤ ([[1, 2], [3], [4, 5]] : List Bytes).length ∧
    (q = [] ∨ (res = .ioWrite ∧ ∃ w, ([[1, 2], [3], [4, 5]] : List Bytes)[j]? = some w ∧ q <+: w)) ∧
    (res = .ok → Res.ok = .ok ∧ j = ([[1, 2], [3], [4, 5]] : List Bytes).length ∧ q = []) :=
  stream_source_dec_whole_chunks _ _ _ _ _ _ 102 (by decide) (by intro e he; simp at he; rcases he with rfl | rfl <;> simp)
    _ _ (by decide)

/-- **No byte of chunk i is written before record i is verified (decrypt, C04 release order).** Lawful AEAD, 32-byte key,
    source without forged end of stream: the log entries the translated `decrypt_chunks` added, in chronological order, are
    grouped by chunk, and every `write()` of chunk `i` happened with the source standing exactly at the end of record `i`
    (`LogSegs`): the whole record had been read — and, the write coming after `A.dec`, opened — and no later record touched.
    (From `decLoopIO_log`, C04.) -/
theorem stream_source_dec_release_order (A : Aead) (hA : A.Lawful) (key aad : Bytes) (hk : key.length = 32) (cs : Nat)
    (s : Src) (k : Snk) (fuel : Nat) (hf : s.inp.length + 1 ≤ fuel) (hs : s.noFalseEof) (ws : List Bytes) (pres : Res)
    (hP : decryptChunks A key aad cs s.inp = (ws, pres)) :
    ∃ (res : Res) (s' : Src) (k' : Snk) (segs : List (List WLog)),
      StreamSrc.decrypt.decrypt_chunks A s k key aad cs fuel = some (res, s', k') ∧
      k'.log = segs.flatten.reverse ++ k.log ∧ LogSegs s.pos ws segs ∧
      k'.out.length = k.out.length + (segs.flatten.map (·.n)).sum :=
  StreamSrc.dec_release_order A hA key aad hk cs s k fuel hf hs ws pres hP

example : ∃ (res : Res) (s' : Src) (k' : Snk) (segs : List (List WLog)),
    StreamSrc.decrypt.decrypt_chunks toyPrims.aead { inp := ssCt, script := [.data 7, .data 30] } ssSnk (zeros 32) [9] 3 102 =
      some (res, s', k') ∧
    k'.log = segs.flatten.reverse ++ ssSnk.log ∧ LogSegs 0 [[1, 2], [3], [4, 5]] segs ∧
    k'.out.length = ssSnk.out.length + (segs.flatten.map (·.n)).sum :=
  stream_source_dec_release_order _ toyPrims_lawful.aead _ _ (by decide) _ _ _ 102 (by decide)
    (by intro e he; simp at he; rcases he with rfl | rfl <;> simp) _ .ok (by decide)

/-- **A sink error is reported only if the sink misbehaved (decrypt), every source script.**  (From `decLoopIO_ioWrite`.) -/
theorem stream_source_dec_ioWrite (A : Aead) (key aad : Bytes) (cs : Nat) (s : Src) (k : Snk) (fuel : Nat)
    (hf : s.inp.length + 1 ≤ fuel) (s' : Src) (k' : Snk)
    (h : StreamSrc.decrypt.decrypt_chunks A s k key aad cs fuel = some (.ioWrite, s', k')) : ¬ k.faultFree :=
  StreamSrc.dec_ioWrite A key aad cs s k fuel hf s' k' h

/-- the hypothesis is satisfiable: the zero-length accept of `ssSnkZero` makes the first plaintext write fail -/
example : ∃ s' k', StreamSrc.decrypt.decrypt_chunks toyPrims.aead { inp := ssCt } { ws := [.accept 0] } (zeros 32) [9] 3 102 =
    some (.ioWrite, s', k') := by
  rw [stream_source_decrypt_chunks _ _ _ _ _ _ 102 (by decide)]
  refine ⟨(decryptChunksIO toyPrims.aead (zeros 32) [9] 3 { inp := ssCt } { ws := [.accept 0] }).2.1,
    (decryptChunksIO toyPrims.aead (zeros 32) [9] 3 { inp := ssCt } { ws := [.accept 0] }).2.2, ?_⟩
  have h : (decryptChunksIO toyPrims.aead (zeros 32) [9] 3 { inp := ssCt } { ws := [.accept 0] }).1 = .ioWrite := by decide
  rw [← h]

/-- **valid_file_format.** The translated function accepts exactly the two magic numbers written in decrypt.rs. -/
theorem stream_source_valid_file_format (h : Bytes) :
    StreamSrc.decrypt.valid_file_format h =
      if h = [101, 103, 107, 16] then .ok StreamSrc.FileFormat.AsymV1
      else if h = [101, 103, 107, 32] then .ok StreamSrc.FileFormat.PassV1 else .error () :=
  StreamSrc.valid_file_format_eq h

example : StreamSrc.decrypt.valid_file_format [101, 103, 107, 32] = .ok StreamSrc.FileFormat.PassV1 := by
  rw [stream_source_valid_file_format]; simp

/-! ## stretch: the file-level functions -/

/-- **StreamSrc (pass_decrypt).** The translated `pass_decrypt` is the hand-written `passDecryptIO` — same final source and sink
    on every script, and the same result up to one identification: the model's result class `Res.format` (a header that is
    neither magic number) is, in the Rust, `DecryptError::Other("Invalid file format.")` (`impl From<FileFormatError> for
    DecryptError`), and the translation, which does not model messages, sees `Res.other` (`StreamSrc.collapseFormat`). -/
theorem stream_source_pass_decrypt (P : Prims) (pw : Bytes) (ff : StreamSrc.PassFileFormat) (s : Src) (k : Snk) (fuel : Nat)
    (hf : s.inp.length + 1 ≤ fuel) :
    StreamSrc.decrypt.pass_decrypt P.aead P s k pw ff fuel =
      some (StreamSrc.collapseFormat (passDecryptIO P pw s k).1, (passDecryptIO P pw s k).2.1, (passDecryptIO P pw s k).2.2) :=
  StreamSrc.pass_decrypt_eq P pw ff s k fuel hf

example : StreamSrc.decrypt.pass_decrypt toyPrims.aead toyPrims { inp := [101, 103, 107, 32, 5], script := [.data 3] } ssSnk [1] .V1 6 =
    some (StreamSrc.collapseFormat (passDecryptIO toyPrims [1] { inp := [101, 103, 107, 32, 5], script := [.data 3] } ssSnk).1,
      (passDecryptIO toyPrims [1] { inp := [101, 103, 107, 32, 5], script := [.data 3] } ssSnk).2.1,
      (passDecryptIO toyPrims [1] { inp := [101, 103, 107, 32, 5], script := [.data 3] } ssSnk).2.2) :=
  stream_source_pass_decrypt _ _ _ _ _ 6 (by decide)

/-- **StreamSrc (key_decrypt).** The translated `key_decrypt` is the hand-written `keyDecryptIO`: same final source and sink on
    every script; the Rust `Result<PublicKey, DecryptError>` is `Ok(sender key)` exactly when the model reports `.ok` with that
    key, and `Err(class)` otherwise, with the one identification `Res.format` = `Res.other` explained at
    `stream_source_pass_decrypt` (`StreamSrc.keyResult`).  `noise_decrypt` = `RsIO.noiseDecrypt` (= `Noise.readMessage` followed
    by the 32-byte payload check of lib.rs). -/
theorem stream_source_key_decrypt (P : Prims) (r rpk : Bytes) (ff : StreamSrc.AsymFileFormat) (s : Src) (k : Snk) (fuel : Nat)
    (hf : s.inp.length + 1 ≤ fuel) :
    StreamSrc.decrypt.key_decrypt P.aead P s k r rpk ff fuel =
      some (StreamSrc.keyResult (keyDecryptIO P r rpk s k).1 (keyDecryptIO P r rpk s k).2.2.2,
        (keyDecryptIO P r rpk s k).2.1, (keyDecryptIO P r rpk s k).2.2.1) :=
  StreamSrc.key_decrypt_eq P r rpk ff s k fuel hf

example : StreamSrc.decrypt.key_decrypt toyPrims.aead toyPrims { inp := [101, 103, 107, 16, 5], script := [.data 3] } ssSnk
      (zeros 32) (zeros 32) .V1 6 =
    some (StreamSrc.keyResult (keyDecryptIO toyPrims (zeros 32) (zeros 32) { inp := [101, 103, 107, 16, 5], script := [.data 3] } ssSnk).1
        (keyDecryptIO toyPrims (zeros 32) (zeros 32) { inp := [101, 103, 107, 16, 5], script := [.data 3] } ssSnk).2.2.2,
      (keyDecryptIO toyPrims (zeros 32) (zeros 32) { inp := [101, 103, 107, 16, 5], script := [.data 3] } ssSnk).2.1,
      (keyDecryptIO toyPrims (zeros 32) (zeros 32) { inp := [101, 103, 107, 16, 5], script := [.data 3] } ssSnk).2.2.1) :=
  stream_source_key_decrypt _ _ _ _ _ _ 6 (by decide)

end Kestrel
