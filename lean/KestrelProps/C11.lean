/-
  C11 — streaming: reads and writes interleave, and what is held between them is bounded independently of the input.

  PARTIAL BY NATURE.  What is proved are facts about the control flow of the model of `encrypt_chunks` /
  `decrypt_chunks` over scripted sources and sinks:
  * `C11_enc_interleave` / `C11_enc_interleave_pass` (KestrelProps/C10enc.lean) and their numeric corollary
    `C11_enc_bound`: when record `i` is written exactly `i + 2` reads have completed, and the source is at most
    2 · 65536 = 131072 bytes ahead of the plaintext covered by the records already written (`prev` + the look-ahead).
  * `C11_dec_interleave_key` / `_pass` (from `C04_order_*`, KestrelProps/C10dec.lean): every write of chunk `i` is
    issued with the source standing exactly at the end of record `i`: one record (32 + |chunk| bytes) has been read
    beyond what was written before, not a byte of record `i+1` has been requested.
  * `C11_state_size_enc`: the loop state carried between iterations of `encLoopIO` is `(ctr, prev, done)` with
    `|prev| ≤ cs` in EVERY iteration, and every read result is `≤ cs` (instrumented copy of the loop, proved equal to
    the loop).  `C11_state_size_dec`: `decLoopIO` carries only the counter; the chunk an iteration holds is `≤ cs` and
    the iteration consumed exactly `32 + |chunk|` bytes.
  NOT proved, and not provable in this model: allocator behaviour and page-level memory (that the Rust code allocates
  its two 64 KiB buffers once and reuses them, that nothing else grows with the input).  That is a runtime fact,
  observed by the harness's counting allocator (peak heap vs. input size), not derived here.
-/
import KestrelProofs.Misc
import KestrelProps.C10enc
import KestrelProps.C10dec
namespace Kestrel
open Generated EncIO

/-! ### encrypt side: numbers -/

/-- **C11 (encrypt, explicit numbers), key mode.** Corollary of `C11_enc_interleave`: the run decomposes into a header
    piece and per-record pieces; every `write()` of record `i` happened when exactly `i + 2` `read()` calls of this run
    had completed — so at most two read results (`prev` and the look-ahead) are held, whatever `i` — and the source
    was at most 131072 bytes past the plaintext already covered by records `0 … i-1`. -/
theorem C11_enc_bound (P : Prims) (s spk rs e epk pk : Bytes) (src : Src) (k : Snk) {msg hh : Bytes}
    (hw : Noise.writeMessage P encPrologue s spk rs e epk pk = .ok (msg, hh)) :
    ∃ (hseg : List WLog) (hp : Bytes) (segs : List (List WLog)) (ps : List Bytes),
      (keyEncryptIO P s spk rs e epk pk src k).2.2.out = k.out ++ hp ++ ps.flatten ∧
      (keyEncryptIO P s spk rs e epk pk src k).2.2.log = segs.reverse.flatten ++ hseg ++ k.log ∧
      (∀ e ∈ hseg, e.srcReads = src.nreads) ∧
      segs.length = ps.length ∧
      ∀ (i : Nat) (hi : i < segs.length), ∀ e ∈ segs[i],
        e.srcReads - src.nreads = i + 2 ∧
        e.srcPos - (src.pos + (((Src.reads chunkSize src).take i).flatten).length) ≤ 131072 := by
  obtain ⟨hseg, hp, segs, ps, h1, h2, _, _, h5, _, _, h8, h9⟩ := C11_enc_interleave P s spk rs e epk pk src k hw
  refine ⟨hseg, hp, segs, ps, h1, h2, fun e he => (h5 e he).2, h8, ?_⟩
  intro i hi e he
  obtain ⟨ha, _, hc⟩ := (h9 i hi (h8 ▸ hi)).2 e he
  have hcs : chunkSize = 65536 := rfl
  omega

/-- **C11 (encrypt, explicit numbers), password mode.** -/
theorem C11_enc_bound_pass (P : Prims) (pw salt : Bytes) (src : Src) (k : Snk) :
    ∃ (hseg : List WLog) (hp : Bytes) (segs : List (List WLog)) (ps : List Bytes),
      (passEncryptIO P pw salt src k).2.2.out = k.out ++ hp ++ ps.flatten ∧
      (passEncryptIO P pw salt src k).2.2.log = segs.reverse.flatten ++ hseg ++ k.log ∧
      (∀ e ∈ hseg, e.srcReads = src.nreads) ∧
      segs.length = ps.length ∧
      ∀ (i : Nat) (hi : i < segs.length), ∀ e ∈ segs[i],
        e.srcReads - src.nreads = i + 2 ∧
        e.srcPos - (src.pos + (((Src.reads chunkSize src).take i).flatten).length) ≤ 131072 := by
  obtain ⟨hseg, hp, segs, ps, h1, h2, _, _, h5, _, _, h8, h9⟩ := C11_enc_interleave_pass P pw salt src k
  refine ⟨hseg, hp, segs, ps, h1, h2, fun e he => (h5 e he).2, h8, ?_⟩
  intro i hi e he
  obtain ⟨ha, _, hc⟩ := (h9 i hi (h8 ▸ hi)).2 e he
  have hcs : chunkSize = 65536 := rfl
  omega

/-- the hypothesis of `C11_enc_bound` is satisfiable, and a concrete trace: with `cs = 2` and three input bytes the
    writes of record 0 are stamped "2 reads", those of record 1 "3 reads" (newest first) -/
example : ∃ msg hh, Noise.writeMessage toyPrims encPrologue exS exS exR exE exE exPk = .ok (msg, hh) :=
  let ⟨_, _, hh, hw, _⟩ := Noise.writeMessage_ok toyPrims encPrologue exS exS exR exE exE exPk _ _ rfl rfl
  ⟨_, hh, hw⟩
example : (encryptChunksIO toyPrims.aead [] [] 2 { inp := [1,2,3] } {}).2.2.log.map (·.srcReads) = [3, 3, 2, 2] := by decide
example := C11_enc_bound_pass toyPrims [112, 119] (zeros 32) exSrc exSnk

/-! ### decrypt side -/

/-- offset, within the record stream, at which record `i` starts -/
def recStart (ws : List Bytes) (i : Nat) : Nat := ((ws.take i).map (fun w => 32 + w.length)).sum

theorem recEnd_eq_recStart (ws : List Bytes) (i : Nat) (w : Bytes) (hw : ws[i]? = some w) :
    recEnd ws i = recStart ws i + (32 + w.length) := by
  unfold recEnd recStart
  rw [List.take_add_one, hw, List.map_append, List.sum_append]
  simp

/-- **C11 (decrypt, key mode).** `C04_order_key` in C11 terms. `segs[i]` are the `write()` calls of chunk `i`; each was
    issued with the source standing at `132 + recStart writes i + (32 + |chunk i|)` of the file: exactly at the end of
    record `i`.  So when (any part of) chunk `i` is written, the bytes read but not yet released are record `i` alone —
    `32 + |chunk i|` bytes — and no byte of record `i+1` has been requested; chunk `i` is completely written before any
    write of chunk `i+1`. -/
theorem C11_dec_interleave_key (P : Prims) (hPl : P.Lawful) (r rpk : Bytes) (src : Src) (k : Snk) (hs : src.noFalseEof)
    {res pres : Res} {s' : Src} {k' : Snk} {sender psender : Option Bytes} {writes : List Bytes}
    (hIO : keyDecryptIO P r rpk src k = (res, s', k', sender))
    (hP : keyDecrypt P r rpk src.inp = (writes, pres, psender)) :
    ∃ segs : List (List WLog), k'.log = segs.flatten.reverse ++ k.log ∧ segs.length ≤ writes.length ∧
      ∀ i seg, segs[i]? = some seg → ∃ w, writes[i]? = some w ∧
        (∀ e ∈ seg, e.srcPos = src.pos + 132 + recStart writes i + (32 + w.length)) ∧
        (seg.map (·.n)).sum ≤ w.length ∧ (i + 1 < segs.length → (seg.map (·.n)).sum = w.length) := by
  obtain ⟨segs, h1, h2, _, h4⟩ := C04_order_key P hPl r rpk src k hs hIO hP
  refine ⟨segs, h1, h2, fun i seg hi => ?_⟩
  obtain ⟨w, hw, ha, hb, hc⟩ := h4 i seg hi
  refine ⟨w, hw, fun e he => ?_, hb, hc⟩
  rw [ha e he, recEnd_eq_recStart writes i w hw]; omega

/-- **C11 (decrypt, password mode).** Header 4 + 32 bytes. -/
theorem C11_dec_interleave_pass (P : Prims) (hA : P.aead.Lawful) (pw : Bytes) (hkdf : ∀ salt, (P.kdf pw salt).length = 32)
    (src : Src) (k : Snk) (hs : src.noFalseEof)
    {res pres : Res} {s' : Src} {k' : Snk} {writes : List Bytes}
    (hIO : passDecryptIO P pw src k = (res, s', k'))
    (hP : passDecrypt P pw src.inp = (writes, pres)) :
    ∃ segs : List (List WLog), k'.log = segs.flatten.reverse ++ k.log ∧ segs.length ≤ writes.length ∧
      ∀ i seg, segs[i]? = some seg → ∃ w, writes[i]? = some w ∧
        (∀ e ∈ seg, e.srcPos = src.pos + 36 + recStart writes i + (32 + w.length)) ∧
        (seg.map (·.n)).sum ≤ w.length ∧ (i + 1 < segs.length → (seg.map (·.n)).sum = w.length) := by
  obtain ⟨segs, h1, h2, _, h4⟩ := C04_order_pass P hA pw hkdf src k hs hIO hP
  refine ⟨segs, h1, h2, fun i seg hi => ?_⟩
  obtain ⟨w, hw, ha, hb, hc⟩ := h4 i seg hi
  refine ⟨w, hw, fun e he => ?_, hb, hc⟩
  rw [ha e he, recEnd_eq_recStart writes i w hw]; omega

open C10decEx in
/-- on the two-chunk file of KestrelProps/C10dec.lean, through the 1-byte sink: chunk 0 (`[7,8]`, two 1-byte writes) is
    written at offset 70 = 36 + 0 + (32 + 2), chunk 1 (`[9]`) at 103 = 36 + 34 + (32 + 1) -/
example := C11_dec_interleave_pass toyPrims toyPrims_lawful.aead pw (toy_kdf_len pw) ffSrc snk ffSrc_faultFree.noFalseEof
  (res := (passDecryptIO toyPrims pw ffSrc snk).1) (s' := (passDecryptIO toyPrims pw ffSrc snk).2.1)
  (k' := (passDecryptIO toyPrims pw ffSrc snk).2.2) (writes := (passDecrypt toyPrims pw file).1)
  (pres := (passDecrypt toyPrims pw file).2) rfl rfl

open C10decEx in
example : (passDecryptIO toyPrims pw ffSrc snk).2.2.log.map (·.srcPos) = [103, 70, 70] ∧
    recStart [[7,8],[9]] 0 = 0 ∧ recStart [[7,8],[9]] 1 = 34 := by decide

example (r rpk inp : Bytes) := C11_dec_interleave_key toyPrims toyPrims_lawful r rpk (C10decEx.shortSrc inp) C10decEx.snk
  (C10decEx.shortSrc_faultFree inp).noFalseEof
  (res := (keyDecryptIO toyPrims r rpk (C10decEx.shortSrc inp) C10decEx.snk).1)
  (s' := (keyDecryptIO toyPrims r rpk (C10decEx.shortSrc inp) C10decEx.snk).2.1)
  (k' := (keyDecryptIO toyPrims r rpk (C10decEx.shortSrc inp) C10decEx.snk).2.2.1)
  (sender := (keyDecryptIO toyPrims r rpk (C10decEx.shortSrc inp) C10decEx.snk).2.2.2)
  (writes := (keyDecrypt toyPrims r rpk inp).1) (pres := (keyDecrypt toyPrims r rpk inp).2.1)
  (psender := (keyDecrypt toyPrims r rpk inp).2.2) rfl rfl

/-! ### the state carried between iterations: encrypt side -/

/-- a `read()` into a buffer of `cap` bytes returns at most `cap` bytes -/
theorem Src.read_le {s s' : Src} {cap : Nat} {b : Bytes} (h : s.read cap = (.got b, s')) : b.length ≤ cap := by
  obtain ⟨m, hm, _, _, hb, _⟩ := Src.read_got h
  omega

/-- `encLoopIO` with a trace: the same loop, additionally returning, for every iteration, the length of the `prev` it
    was entered with and the length of the read result it obtained (0 if the read failed or the fuel ran out) -/
def encLoopIOT (A : Aead) (key aad : Bytes) (cs : Nat) : Nat → Nat → Bytes → Bool → Src → Snk → (Res × Src × Snk) × List (Nat × Nat)
  | 0, _, prev, _, s, k => ((.ioRead, s, k), [(prev.length, 0)])
  | fuel+1, ctr, prev, done, s, k =>
    match s.read cs with
    | (.err, s') => ((.ioRead, s', k), [(prev.length, 0)])
    | (.interrupted, s') => ((.ioRead, s', k), [(prev.length, 0)])
    | (.got r, s') =>
      if r.length ≠ 0 && done then ((.unexpectedData, s', k), [(prev.length, r.length)]) else
      match recW A key aad ctr (done || r.length == 0) prev s' k with
      | (false, k') => ((.ioWrite, s', k'), [(prev.length, r.length)])
      | (true, k') =>
        if (done || r.length == 0) then ((.ok, s', k'), [(prev.length, r.length)])
        else ((encLoopIOT A key aad cs fuel (ctr+1) r false s' k').1,
              (prev.length, r.length) :: (encLoopIOT A key aad cs fuel (ctr+1) r false s' k').2)

/-- the traced loop IS the loop -/
theorem encLoopIOT_fst (A : Aead) (key aad : Bytes) (cs : Nat) : ∀ (fuel ctr : Nat) (prev : Bytes) (done : Bool) (s : Src) (k : Snk),
    (encLoopIOT A key aad cs fuel ctr prev done s k).1 = encLoopIO A key aad cs fuel ctr prev done s k := by
  intro fuel
  induction fuel with
  | zero => intro _ _ _ _ _; rfl
  | succ fuel ih =>
    intro ctr prev done s k
    cases hread : s.read cs with
    | mk rr s' =>
      cases rr with
      | err => rw [encLoopIO_err A key aad cs hread]; simp only [encLoopIOT, hread]
      | interrupted => rw [encLoopIO_int A key aad cs hread]; simp only [encLoopIOT, hread]
      | got r =>
        by_cases hr : r.length = 0
        · rw [encLoopIO_last A key aad cs hread hr]
          simp only [encLoopIOT, hread, hr, ne_eq, not_true_eq_false, decide_false, Bool.false_and, Bool.false_eq_true,
            if_false]
          cases hrw : recW A key aad ctr true prev s' k with
          | mk b k2 => cases b <;> simp [hrw]
        · have hb : (r.length == 0) = false := by simpa using hr
          cases done with
          | true =>
            rw [encLoopIO_unexp A key aad cs hread hr]
            simp only [encLoopIOT, hread, ne_eq, hr, not_false_eq_true, decide_true, Bool.and_self, if_true]
          | false =>
            rw [encLoopIO_more A key aad cs hread hr]
            simp only [encLoopIOT, hread, Bool.and_false, Bool.false_eq_true, if_false, hb, Bool.or_false]
            cases hrw : recW A key aad ctr false prev s' k with
            | mk b k2 =>
              cases b with
              | false => simp
              | true => simp only [if_true]; exact ih (ctr+1) r false s' k2

/-- every `prev` the loop is ever entered with, and every read result, is at most `cs` bytes long -/
theorem encLoopIOT_bound (A : Aead) (key aad : Bytes) (cs : Nat) : ∀ (fuel ctr : Nat) (prev : Bytes) (done : Bool) (s : Src) (k : Snk),
    prev.length ≤ cs → ∀ e ∈ (encLoopIOT A key aad cs fuel ctr prev done s k).2, e.1 ≤ cs ∧ e.2 ≤ cs := by
  intro fuel
  induction fuel with
  | zero =>
    intro _ prev _ _ _ hp e he
    simp only [encLoopIOT, List.mem_singleton] at he
    subst he; exact ⟨hp, Nat.zero_le _⟩
  | succ fuel ih =>
    intro ctr prev done s k hp e he
    have hone : ∀ n, n ≤ cs → e ∈ [(prev.length, n)] → e.1 ≤ cs ∧ e.2 ≤ cs := by
      intro n hn h; rw [List.mem_singleton] at h; subst h; exact ⟨hp, hn⟩
    cases hread : s.read cs with
    | mk rr s' =>
      cases rr with
      | err => simp only [encLoopIOT, hread] at he; exact hone 0 (Nat.zero_le _) he
      | interrupted => simp only [encLoopIOT, hread] at he; exact hone 0 (Nat.zero_le _) he
      | got r =>
        have hrl := Src.read_le hread
        simp only [encLoopIOT, hread] at he
        split at he
        · exact hone _ hrl he
        · cases hrw : recW A key aad ctr (done || r.length == 0) prev s' k with
          | mk b k2 =>
            rw [hrw] at he
            cases b with
            | false => exact hone _ hrl he
            | true =>
              simp only [] at he
              split at he
              · exact hone _ hrl he
              · rcases List.mem_cons.mp he with rfl | he'
                · exact ⟨hp, hrl⟩
                · exact ih (ctr+1) r false s' k2 hrl e he'

/-- **C11 (state size, encrypt).** The look-ahead loop of `encrypt_chunks` — for any source and sink scripts, any chunk
    size — runs exactly as a loop that also records `(|prev|, |read result|)` for every iteration, and in that record
    every entry is `≤ (cs, cs)`: the state `(ctr, prev, done)` carried from one iteration to the next holds at most
    `cs` bytes, and at most one further buffer of `cs` bytes is live inside an iteration, however long the input is.
    Includes the first read made by `encryptChunksIO` before entering the loop. -/
theorem C11_state_size_enc (A : Aead) (key aad : Bytes) (cs : Nat) (s : Src) (k : Snk) :
    (∀ r s', s.read cs = (.got r, s') →
      r.length ≤ cs ∧
      encryptChunksIO A key aad cs s k =
        (encLoopIOT A key aad cs (s'.inp.length + s'.script.length + 2) 0 r (r.length == 0) s' k).1 ∧
      ∀ e ∈ (encLoopIOT A key aad cs (s'.inp.length + s'.script.length + 2) 0 r (r.length == 0) s' k).2,
        e.1 ≤ cs ∧ e.2 ≤ cs) ∧
    (∀ s', (s.read cs = (.err, s') ∨ s.read cs = (.interrupted, s')) →
      encryptChunksIO A key aad cs s k = (.ioRead, s', k)) := by
  refine ⟨fun r s' h => ?_, fun s' h => ?_⟩
  · have hrl := Src.read_le h
    refine ⟨hrl, ?_, encLoopIOT_bound A key aad cs _ 0 r _ s' k hrl⟩
    rw [encLoopIOT_fst]
    simp only [encryptChunksIO, h]
  · rcases h with h | h <;> simp only [encryptChunksIO, h]

/-- the direct form: one iteration of `encLoopIO` either returns, or calls itself with the counter + 1, `prev` := the
    read result `r` of this iteration (`|r| ≤ cs`), `done` := false, and the advanced source and sink — nothing else -/
theorem C11_encLoopIO_prevBound (A : Aead) (key aad : Bytes) (cs fuel ctr : Nat) (prev : Bytes) (done : Bool) (s : Src) (k : Snk) :
    (∃ res s' k', encLoopIO A key aad cs (fuel+1) ctr prev done s k = (res, s', k') ∧ res ≠ .ok ∧
        (res = .ioRead ∨ res = .unexpectedData ∨ res = .ioWrite)) ∨
    (∃ s' k', encLoopIO A key aad cs (fuel+1) ctr prev done s k = (.ok, s', k')) ∨
    (∃ r s' k', s.read cs = (.got r, s') ∧ r.length ≤ cs ∧ r.length ≠ 0 ∧ done = false ∧
        encLoopIO A key aad cs (fuel+1) ctr prev done s k = encLoopIO A key aad cs fuel (ctr+1) r false s' k') := by
  cases hread : s.read cs with
  | mk rr s' =>
    cases rr with
    | err => exact Or.inl ⟨_, _, _, encLoopIO_err A key aad cs hread, by decide, Or.inl rfl⟩
    | interrupted => exact Or.inl ⟨_, _, _, encLoopIO_int A key aad cs hread, by decide, Or.inl rfl⟩
    | got r =>
      by_cases hr : r.length = 0
      · rw [encLoopIO_last A key aad cs hread hr]
        cases (recW A key aad ctr true prev s' k).1 with
        | true => exact Or.inr (Or.inl ⟨s', (recW A key aad ctr true prev s' k).2, rfl⟩)
        | false => exact Or.inl ⟨.ioWrite, s', (recW A key aad ctr true prev s' k).2, rfl, by decide, Or.inr (Or.inr rfl)⟩
      · cases done with
        | true => exact Or.inl ⟨_, _, _, encLoopIO_unexp A key aad cs hread hr, by decide, Or.inr (Or.inl rfl)⟩
        | false =>
          rw [encLoopIO_more A key aad cs hread hr]
          cases hb : (recW A key aad ctr false prev s' k).1 with
          | true =>
            exact Or.inr (Or.inr ⟨r, s', (recW A key aad ctr false prev s' k).2, rfl, Src.read_le hread, hr, rfl, rfl⟩)
          | false =>
            exact Or.inl ⟨.ioWrite, s', (recW A key aad ctr false prev s' k).2, rfl, by decide, Or.inr (Or.inr rfl)⟩

/-- a run with a trace: `cs = 2`, five bytes: the loop is entered with `prev` of 2, 2, 1 bytes and reads 2, 1, 0 -/
example : (encLoopIOT toyPrims.aead [] [] 2 9 0 [1,2] false { inp := [3,4,5] } {}).2 = [(2, 2), (2, 1), (1, 0)] := by decide

example : ∀ e ∈ (encLoopIOT toyPrims.aead [] [] 2 9 0 [1,2] false { inp := [3,4,5] } {}).2, e.1 ≤ 2 ∧ e.2 ≤ 2 :=
  encLoopIOT_bound toyPrims.aead [] [] 2 9 0 [1,2] false _ _ (by decide)

/-! ### the state carried between iterations: decrypt side -/

/-- a chunk returned by `parse1` is at most `cs` bytes long (lawful AEAD, 32-byte key) -/
theorem parse1_chunk_le {A : Aead} (hA : A.Lawful) {key aad : Bytes} (hk : key.length = 32) {cs ctr : Nat}
    {inp pt rest' : Bytes} {last : Bool}
    (h : parse1 A key aad cs ctr inp = .chunk pt last rest') : pt.length ≤ cs := by
  unfold parse1 at h
  split at h
  · simp at h
  · split at h
    · simp at h
    · rename_i hcs
      split at h
      · simp at h
      · split at h
        · simp at h
        · rename_i pt' hdec
          simp only [POut.chunk.injEq] at h
          obtain ⟨rfl, _, _⟩ := h
          have h1 := hA.dec_sound _ _ _ _ _ hk hdec
          have h2 := congrArg List.length h1
          rw [hA.enc_length _ _ _ _ hk] at h2
          simp only [List.length_take, List.length_drop] at *
          omega

/-- **C11 (state size, decrypt).** One iteration of `decLoopIO` is: read one record (`readRecordIO`), write its chunk
    (`writeChunk`), and — unless it was the last — call itself with the counter + 1 and the advanced source and sink:
    no byte buffer is carried from one iteration to the next.  The chunk an iteration holds is at most `cs` bytes,
    and the iteration consumed exactly the `32 + |chunk|` bytes of its record from the source. -/
theorem C11_state_size_dec (A : Aead) (hA : A.Lawful) (key aad : Bytes) (hk : key.length = 32) (cs fuel ctr : Nat)
    (s : Src) (k : Snk) :
    decLoopIO A key aad cs (fuel+1) ctr s k =
      (match readRecordIO A key aad cs ctr s with
      | (.fail e, s3) => (e, s3, k)
      | (.chunk pt last, s3) =>
        match writeChunk k (s3.pos, s3.nreads) pt with
        | (false, k2) => (.ioWrite, s3, k2)
        | (true, k2) => if last then (.ok, s3, k2) else decLoopIO A key aad cs fuel (ctr+1) s3 k2) ∧
    ∀ pt last s3, readRecordIO A key aad cs ctr s = (.chunk pt last, s3) →
      pt.length ≤ cs ∧ s3.pos = s.pos + (32 + pt.length) := by
  refine ⟨decLoopIO_succ A key aad cs fuel ctr s k, fun pt last s3 h => ?_⟩
  obtain ⟨_, hc, _⟩ := readRecordIO_spec h
  obtain ⟨rest', hp, _, hpos, _⟩ := hc pt last rfl
  have h1 := parse1_chunk_len_lawful hA hk hp
  exact ⟨parse1_chunk_le hA hk hp, by omega⟩

open C10decEx in
/-- the first record of the example file (chunk `[7,8]`): the iteration consumes 34 bytes -/
example : (readRecordIO toyPrims.aead ckey encPassMagic chunkSize 0 ⟨file.drop 36, [.data 5], 36, 2⟩).2.pos = 36 + (32 + 2) := by
  decide

open C10decEx in
example := (C11_state_size_dec toyPrims.aead toyPrims_lawful.aead ckey encPassMagic (toy_kdf_len pw salt) chunkSize 5 0
  ⟨file.drop 36, [.data 5], 36, 2⟩ snk).2

end Kestrel
